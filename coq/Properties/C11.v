(* C11 — Cancelling a batch stops new items and never hangs or fakes success.
   Only property theorems here. All schedules, all item / worker counts, all user code. *)
From Flyt Require Import Base Script FlowTable Engine BatchConc EngineCorr EngineFacts
     ItemMon BatchConcInv BatchConcItems BatchConcStop BatchConcLive.
From Flyt Require Import C11Glue.

(* Once the context is cancelled (from a callback or by the environment: TCancel may appear
   anywhere in the schedule), whatever the rest of the schedule, item i gains no exec attempt
   beyond the bound m that held at that instant: its attempts so far, plus one if an exec call
   of item i was already in flight.  No new item is started, no new retry attempt is made; at
   most one already-committed call per worker completes. *)
Theorem C11_no_new_work :
  forall (o : oracle) c nd (items : list val) stopmode nworkers qcap sched s i m,
    BInv items nworkers s -> cancelled (base s) = true -> allowance_le s i m ->
    count_exec (il (brun o c nd items stopmode qcap s sched) i) <= m.
Proof. exact cancel_no_new_work_lemma. Qed.
Print Assumptions C11_no_new_work.

Theorem C11_cancellation_permanent :
  forall (o : oracle) c nd (items : list val) stopmode qcap s t s',
    bstep o c nd items stopmode qcap s t = Some s' -> cancelled (base s) = true -> cancelled (base s') = true.
Proof. exact bstep_cancelled. Qed.
Print Assumptions C11_cancellation_permanent.

(* never hangs: while the submitter has not returned some thread of the pool can step (user
   callbacks are steps of the model: a callback that returns lets its worker go on) *)
Theorem C11_terminates_no_deadlock :
  forall (o : oracle) c nd (items : list val) stopmode nworkers qcap,
    0 < nworkers -> 0 < qcap ->
    forall s0 sched,
      let s := brun o c nd items stopmode qcap (binit items nworkers s0) sched in
      mpc s <> MRet -> exists t, t <> TCancel /\ t <> TNote /\ bstep o c nd items stopmode qcap s t <> None.
Proof. exact C11_terminates_no_deadlock_glue. Qed.
Print Assumptions C11_terminates_no_deadlock.

(* never fakes success: every item that was not executed carries an error in its slot
   (settled: an item without events has one of the two error slots; an item cut short by the
   context has an error slot matching the context's error) *)
Theorem C11_slots :
  forall (o : oracle) c nd (items : list val) stopmode nworkers qcap,
    has_exec c = true ->
    forall s0 sched,
      let s := brun o c nd items stopmode qcap (binit items nworkers s0) sched in
      (mpc s = MClose \/ mpc s = MRet) ->
      length (slots s) = length items /\
      forall i, i < length items ->
        exists v, slot_at s i = Some v /\ settled c nd (item_at items i) (il s i) v.
Proof. exact all_settled_lemma. Qed.
Print Assumptions C11_slots.
