(* C10 — A flow used as a node behaves like a node.
   Only property theorems here; each closed by `exact` of a lemma from Proofs/. *)
From Flyt Require Import Base Script FlowTable Engine Flatten EngineCorr EngineFacts
     FlowTableFacts FlattenProofs SpecEngine SpecRoute EngineSpecProofs.

(* Nested = flattened, at any depth: the run of a hierarchy of flows is a run of the flat
   stack machine (Model/Flatten.v), whose states are stacks of (flow, member) frames.  With
   stk = [] and n the root this says the whole trace is a path of the flat machine ending in
   AFin a exactly when the run returns Done a; with a non-empty stk it says a flow used as a
   node hands its parent `advance stk a` — the parent is asked for (flow node, a) with a the
   action of the last node the inner flow executed, exactly as for a plain node. *)
Theorem C10_flatten :
  forall (o : oracle) conc_exec,
    (forall c k st n s items s' rs, conc_exec c k st n s items = (s', rs) -> ext s s') ->
    (forall c k st n s items s' rs, conc_exec c k st n s items = (s', rs) -> ntext s s') ->
    forall (tbl : table),
      (forall n d, tbl n = Some d -> vis_def d = true) ->
      forall fuel s n s' oc,
        run o conc_exec tbl fuel s n = Some (s', oc) -> cancelled s' = false ->
        forall d dd stk, fuel <= d -> fuel <= S dd ->
          exists evs, log s' = log s ++ evs /\
            match oc with
            | Done a => arun tbl d (enter tbl (S dd) n stk) (tokens evs) = advance tbl d stk a
            | Fail e => afinal (arun tbl d (enter tbl (S dd) n stk) (tokens evs)) (Fail e) = true
            end.
Proof. exact run_sim. Qed.
Print Assumptions C10_flatten.

(* same shared store at every depth: every prep / post / batch-post callback of every run,
   however deeply nested, is handed the store given to the outermost run *)
Theorem C10_same_store :
  forall (o : oracle) conc_exec,
    (forall c k st n s items s' rs, conc_exec c k st n s items = (s', rs) -> ext s s') ->
    forall (tbl : table) fuel s n s' oc,
      run o conc_exec tbl fuel s n = Some (s', oc) ->
      exists evs, log s' = log s ++ evs /\
                  cancelled s' = cancelled s || existsb ev_cancel evs /\ wf_events evs.
Proof. exact run_ext. Qed.
Print Assumptions C10_same_store.

Theorem C10_spec_holds_of_model :
  forall sc : escen, spec_C10 sc (eobs_of_model (model_obs sc)) = true.
Proof. exact spec_C10_model_lemma. Qed.
Print Assumptions C10_spec_holds_of_model.
