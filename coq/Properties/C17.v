(* C17 — Function-style nodes pass values between phases unchanged.
   Only property theorems here; each closed by `exact` of a lemma from Proofs/.
   The engine threads prep's value into every exec attempt and prep's value and the exec
   result into post (C01_lifecycle: the monitor compares the callbacks' arguments with
   exec_arg / post_p / post_x applied to what the earlier phase returned); the theorems
   below say what those adapter functions do to a payload, for all 8 style combinations. *)
From Flyt Require Import Base Script Engine EngineCorr Lifecycle SpecEngine C17Proofs EngineSpecProofs.
From Flyt Require Import C17Glue.

Theorem C17_prep_to_exec :
  forall sp se v, fun_style sp -> fun_style se -> is_res v = false ->
    seen se (exec_arg se (prep_ret sp v)) = v /\ seen_error se (exec_arg se (prep_ret sp v)) = false.
Proof. exact prep_to_exec_lemma. Qed.
Print Assumptions C17_prep_to_exec.

Theorem C17_exec_to_post_value :
  forall se sq x, fun_style se -> fun_style sq -> is_res x = false ->
    seen sq (post_x sq (exec_ret se x)) = x /\ seen_error sq (post_x sq (exec_ret se x)) = false /\
    (sq = FRes -> post_x sq (exec_ret se x) = VRes x None).
Proof. exact exec_to_post_value_lemma. Qed.
Print Assumptions C17_exec_to_post_value.

Theorem C17_exec_to_post_error :
  forall sq e, fun_style sq ->
    let r := VRes VNil (Some e) in
    post_x sq (exec_ret FRes r) = (match sq with FRes => r | _ => VNil end).
Proof. exact exec_to_post_error_lemma. Qed.
Print Assumptions C17_exec_to_post_error.

Theorem C17_styles_interchangeable :
  (forall a, exec_arg FAny a = value_of (exec_arg FRes a)) /\
  (forall p, post_p FAny p = value_of (post_p FRes p)) /\
  (forall x, post_x FAny x = value_of (post_x FRes x)) /\
  (forall v, is_res v = false -> prep_ret FAny v = prep_ret FRes v) /\
  (forall v, is_res v = false -> exec_ret FAny v = exec_ret FRes v).
Proof. exact C17_styles_interchangeable_glue. Qed.
Print Assumptions C17_styles_interchangeable.

Theorem C17_batch_item :
  forall se l i v, fun_style se -> nth_error l i = Some v -> is_res v = false ->
    exists it, nth_error (normalise (VSl false l)) i = Some it /\
               seen se (exec_arg se it) = v /\ seen_error se (exec_arg se it) = false.
Proof. exact batch_item_lemma. Qed.
Print Assumptions C17_batch_item.

Theorem C17_batch_slot :
  (forall se x, fun_style se -> is_res x = false -> slot_of_result (inl (exec_ret se x)) = VRes x None) /\
  (forall e, slot_of_result (inl (exec_ret FRes (VRes VNil (Some e)))) = VRes VNil (Some e)).
Proof. exact (conj batch_slot_value_lemma batch_slot_error_result_lemma). Qed.
Print Assumptions C17_batch_slot.

(* the monitor that compares every callback argument with the adapters applied to what the
   earlier phase returned accepts every observation of the model *)
Theorem C17_spec_holds_of_model :
  forall sc : escen, spec_C01 sc (eobs_of_model (model_obs sc)) = true.
Proof. exact spec_C01_model_lemma. Qed.
Print Assumptions C17_spec_holds_of_model.
