(* C03 — Flow routing follows the transition table exactly.
   Only property theorems here; each closed by `exact` of a lemma from Proofs/. *)
From Flyt Require Import Base Script FlowTable Engine Flatten EngineCorr EngineFacts
     FlowTableFacts FlattenProofs SpecEngine SpecRoute EngineSpecProofs.

(* Connect overwrites per (from, action): whatever the order and number of Connect calls,
   the two-level table the flow consults maps a pair to the target of the LAST call on that
   pair: None if there is none, Some None if it was connected to nil. *)
Theorem C03_connect_last_wins :
  forall (cs : list conn) n a, lookup2 (build cs) n a = last_conn cs n a.
Proof. exact connect_last_wins_lemma. Qed.
Print Assumptions C03_connect_last_wins.

Theorem C03_reconnect_overrides :
  forall cs n a t, last_conn (cs ++ [(n, a, t)]) n a = Some t.
Proof. exact last_conn_snoc_same. Qed.
Print Assumptions C03_reconnect_overrides.

Theorem C03_other_pairs_untouched :
  forall cs from b t n a,
    (n, a) <> (from, b) -> last_conn (cs ++ [(from, b, t)]) n a = last_conn cs n a.
Proof. exact last_conn_snoc_other. Qed.
Print Assumptions C03_other_pairs_untouched.

(* The path.  For every table of flows (any graph: cycles, self-loops, shared targets, any
   nesting) whose leaves are visible, every oracle and fuel, and every context stk of
   enclosing flows: the visit tokens of the run of node n (a prep token when a visit starts,
   a post token carrying the action when it ends) drive the machine of Model/Flatten.v —
   which starts at the start node, after a visit of `cur` ending with action a continues with
   the node most recently connected to (cur, a), and ends the flow exactly when that pair has
   no connection or is connected to nil — from "enter n" to exactly the state "n finished
   with the action the run returned" (or to a failed visit when the run failed).  The machine
   rejects any token of a node off that path, so no node off the path is touched. *)
Theorem C03_path :
  forall (o : oracle) conc_exec,
    (forall c k st n s items s' rs, conc_exec c k st n s items = (s', rs) -> ext s s') ->
    (forall c k st n s items s' rs, conc_exec c k st n s items = (s', rs) -> ntext s s') ->
    forall (tbl : table),
      (forall n d, tbl n = Some d -> vis_def d = true) ->
      forall fuel s n s' oc,
        run o conc_exec tbl fuel s n = Some (s', oc) -> cancelled s' = false ->
        forall d dd stk, fuel <= d -> fuel <= S dd ->
          exists evs, log s' = log s ++ evs /\
            match oc with
            | Done a => arun tbl d (enter tbl (S dd) n stk) (tokens evs) = advance tbl d stk a
            | Fail e => afinal (arun tbl d (enter tbl (S dd) n stk) (tokens evs)) (Fail e) = true
            end.
Proof. exact run_sim. Qed.
Print Assumptions C03_path.

(* repeated runs of one flow object, overwritten and nil connections, nested flows: the
   executable predicate holds of every observation of the model (flows are values in the
   model: nothing is carried from one run to the next) *)
Theorem C03_spec_holds_of_model :
  forall sc : escen, spec_C03 sc (eobs_of_model (model_obs sc)) = true.
Proof. exact spec_C03_model_lemma. Qed.
Print Assumptions C03_spec_holds_of_model.
