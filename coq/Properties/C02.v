(* C02 — Retry budget and fallback are exact.
   Only property theorems here; each closed by `exact` of a lemma from Proofs/. *)
From Flyt Require Import Base Script FlowTable Engine EngineCorr EngineFacts SpecEngine
     C02Proofs EngineSpecProofs.
From Flyt Require Import C02Glue BatchConcItems.

(* The retry loop of Run (flyt.go:719-738) with budget N >= 1, for every oracle, node kind,
   wait and prep value: if nothing cancels the context, the exec events it appends number
   exactly min(k, N), k the index of the first succeeding attempt (k = 0: none succeeds);
   on exhaustion its error is the error of the last attempt. *)
Theorem C02_budget_exact :
  forall (o : oracle) c n w N s p s' ar,
    has_exec c = true -> 1 <= N -> cancelled s = false ->
    attempts o c n w N 0 s p (inl VNil) = (s', ar) ->
    exists evs, log s' = log s ++ evs /\
      (existsb ev_cancel evs = false -> budget_exact n N evs ar).
Proof. exact C02_budget_exact_lemma. Qed.
Print Assumptions C02_budget_exact.

(* Every item of a batch (runExecWithRetries, batch.go:304-344): exactly min(k, N) attempts;
   the fallback exactly once iff all N attempts failed and the node has a fallback of its
   own, with the item and the error of the last attempt; never after a success. *)
Theorem C02_batch_item :
  forall (o : oracle) c n s item s' r N w,
    has_exec c = true -> retry_of c = (N, w) -> 1 <= N -> cancelled s = false ->
    exec_with_retries o c n s item = (s', r) ->
    exists evs, log s' = log s ++ evs /\
      (existsb ev_cancel evs = false -> phase_exact c n N item evs).
Proof. exact exec_with_retries_exact. Qed.
Print Assumptions C02_batch_item.

(* the two Go copies of the loop make the same attempts and give the same result *)
Theorem C02_copies_agree :
  forall (o : oracle) c n w k i s p last,
    w = 0 ->
    let '(s1, a1) := attempts o c n w k i s p last in
    let '(s2, a2) := item_attempts o c n w k i s p last in
    s1 = s2 /\
    match a1, a2 with
    | ARes r1, ARes r2 => r1 = r2
    | AAbort e1, AAbort e2 => class_of e1 = KCtx /\ class_of e2 = KCtx
    | _, _ => False
    end.
Proof. exact C02_copies_agree_lemma. Qed.
Print Assumptions C02_copies_agree.

(* a node that does not expose retry settings gets the budget 1 *)
Theorem C02_no_retry_iface :
  forall c, u_retry c = None -> retry_of c = (1, 0).
Proof. exact C02_no_retry_iface_glue. Qed.
Print Assumptions C02_no_retry_iface.

(* the lifecycle monitor (which admits attempt k+1 only after k failures and k+1 <= N, the
   fallback only after N failures with the last error, and rejects a trace that stops while
   an attempt or the fallback is due) accepts every observation of the model *)
Theorem C02_spec_holds_of_model :
  forall sc : escen, spec_C02 sc (eobs_of_model (model_obs sc)) = true.
Proof. exact spec_C02_model_lemma. Qed.
Print Assumptions C02_spec_holds_of_model.

(* whatever the node's GetMaxRetries says, Run and the batch item loop make at least one attempt *)
Theorem C02_budget_at_least_one : forall c, 1 <= fst (retry_of c).
Proof. exact retry_of_pos. Qed.
Print Assumptions C02_budget_at_least_one.
