(* C18 — A successful run never yields the empty action, for any node kind.
   This file contains only the property theorems; each is closed by `exact` of a lemma from
   Proofs/ and followed by Print Assumptions. *)
From Flyt Require Import Base Script FlowTable Engine EngineCorr EngineFacts SpecC18 C18Proofs
     SpecRoute EngineSpecProofs.

(* For every node kind (user node, function-style node, flow, batch node with any number of
   items including zero, sequential or with any concurrent executor), every oracle (= all
   user code), every start state and every fuel: a successful run reports a non-empty action,
   and that action is a normalised one. *)
Theorem C18_nonempty :
  forall (o : oracle) conc_exec (tbl : table) fuel s n s' a,
    run o conc_exec tbl fuel s n = Some (s', Done a) ->
    a <> A_EMPTY /\ exists a0, a = norm_act a0.
Proof. exact C18_nonempty_lemma. Qed.
Print Assumptions C18_nonempty.

(* When the node has a post function of its own, the reported action is the action that
   function returned, or the default action when it returned the empty action; and that post
   call is the last callback of the run. *)
Theorem C18_post_action :
  forall (o : oracle) conc_exec (tbl : table) fuel s n s' a,
    (forall c k st n s items s' rs, conc_exec c k st n s items = (s', rs) -> ext s s') ->
    (match tbl n with
     | Some (NUser c) => has_user_post c = true
     | Some (NBatch c _ _) => u_post c = FBatch
     | _ => False
     end) ->
    run o conc_exec tbl fuel s n = Some (s', Done a) ->
    exists evs ev a0, log s' = log s ++ evs ++ [ev] /\ is_post_event n ev /\
                      ret_act (ev_resp ev) = inl a0 /\
                      a = (if Nat.eqb a0 A_EMPTY then A_DEFAULT else a0).
Proof. exact C18_post_action_lemma. Qed.
Print Assumptions C18_post_action.

(* In a flow, a node whose run ends with the empty post action is followed by the node
   connected on the default action. *)
Theorem C18_default_edge_followed :
  forall runf tm g s cur s1 nxt,
    cancelled s = false ->
    runf s cur = Some (s1, Done (norm_act A_EMPTY)) ->
    lookup2 tm cur A_DEFAULT = Some (Some nxt) ->
    flow_loop runf tm (S g) s cur = flow_loop runf tm g s1 nxt.
Proof. exact C18_default_edge_lemma. Qed.
Print Assumptions C18_default_edge_followed.

(* The executable predicate the case files apply to the implementation's observations holds of
   every observation the model produces, for every scenario. *)
Theorem C18_spec_holds_of_model :
  forall sc : escen,
    Forall (fun m => match erun_of_model m with
                     | Some (tr, oc, fl) => spec_C18_run (root_has_post sc) tr oc = true
                     | None => True
                     end) (model_obs sc).
Proof. exact C18_spec_model_lemma. Qed.
Print Assumptions C18_spec_holds_of_model.

(* the predicate the case files apply (no empty action, and the step after an empty action is the
   successor on the default action) holds of the model's observation of every scenario *)
Theorem C18_specx_holds_of_model :
  forall sc : escen, spec_C18x sc (eobs_of_model (model_obs sc)) = true.
Proof. exact spec_C18x_model_lemma. Qed.
Print Assumptions C18_specx_holds_of_model.
