(* C13 — Shared store is linearizable and data-race free.
   Only property theorems here; each closed by `exact` of a lemma from Proofs/. *)
From Flyt Require Import Store Lin LinCorr LinProofs StoreConc StoreConcProofs.

(* the lock-disciplined store (every accessor holds mu, read or write, for its whole body; Merge
   writes key by key, Keys and GetAll read entry by entry): for any number of threads running
   any operation lists under any schedule, the timestamped history is linearizable with respect
   to an ordinary map — a legal sequential execution of a permutation of the operations that keeps
   the real-time order *)
Theorem C13_linearizable :
  forall progs sched, Linearizable (hist_of (s_hist (srun true (sinit progs) sched))).
Proof. exact linearizable_classic_lemma. Qed.
Print Assumptions C13_linearizable.

(* the linearization is the order of the responses: the completed operations in that order are
   a legal sequential execution (so a Merge or a Clear is never seen half done) *)
Theorem C13_response_order_legal :
  forall progs sched, legal_seq [] (s_done (srun true (sinit progs) sched)) = true.
Proof. exact linearizable_lemma. Qed.
Print Assumptions C13_response_order_legal.

(* no data race: two threads are never inside their bodies together when one of them writes *)
Theorem C13_race_free :
  forall progs sched, ~ racy (srun true (sinit progs) sched).
Proof. exact race_free_lemma. Qed.
Print Assumptions C13_race_free.

(* mechanism sensitivity: the same system with the lock not taken is neither *)
Theorem C13_unlocked_not_linearizable :
  legal_seq [] (s_done (srun false (sinit demo_progs) demo_sched)) = false.
Proof. exact unlocked_not_linearizable. Qed.
Print Assumptions C13_unlocked_not_linearizable.
Theorem C13_unlocked_racy :
  racy (srun false (sinit demo_progs) [0; 0; 0; 1; 1]).
Proof. exact unlocked_racy. Qed.
Print Assumptions C13_unlocked_racy.

(* one sequential specification: the map against which histories are linearized is the store
   model of C14 (Model/Store.v, the machine run side by side with the Go store) *)
Theorem C13_spec_is_the_store_model :
  forall (s : dst) (op : lop),
    d_map (fst (dstep s (sop_of_lop op))) = fst (lstep (d_map s) op) /\
    lret_eqb (lret_of_sret (snd (dstep s (sop_of_lop op)))) (snd (lstep (d_map s) op)) = true.
Proof. exact lstep_is_dstep. Qed.
Print Assumptions C13_spec_is_the_store_model.

(* the witness checker applied to the implementation's histories is sound: an accepted witness
   proves the history linearizable in the same sense *)
Theorem C13_check_witness_sound :
  forall H w, check_witness H w = true -> Linearizable H.
Proof. exact check_witness_sound_lemma. Qed.
Print Assumptions C13_check_witness_sound.
