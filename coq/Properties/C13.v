(* C13 — Shared store is linearizable and data-race free.
   Only property theorems here; each closed by `exact` of a lemma from Proofs/. *)
From Flyt Require Import Store Lin LinCorr LinProofs.

(* the witness checker applied to the implementation's histories is sound: an accepted witness
   proves the history linearizable with respect to an ordinary map (legal sequential execution
   of a permutation of the operations that keeps the real-time order) *)
Theorem C13_check_witness_sound :
  forall H w, check_witness H w = true -> Linearizable H.
Proof. exact check_witness_sound_lemma. Qed.
Print Assumptions C13_check_witness_sound.
