(* C12 — Worker pool: tasks run exactly once, Wait is a barrier, Close leaks nothing.
   Only property theorems here; each closed by `exact` of a lemma from Proofs/.
   Every theorem holds for every schedule (list of thread choices of any length) of any number
   of submitting goroutines with any operation lists (Submit / Wait / Close in any order and
   number of rounds), any number of workers and any queue capacity; task identities are
   pairwise distinct. *)
From Flyt Require Import Pool PoolCorr PoolProofs.
From Coq Require Import Permutation.
From Flyt Require Import C12Glue PoolBoundProofs.

(* conservation: at every instant every task for which Submit has run wg.Add(1) is in exactly one
   place — waiting to be sent (its submitter is blocked on a full queue), queued, running on a
   worker, or finished: nothing is dropped, nothing is duplicated; and the WaitGroup counter
   counts exactly the unfinished ones *)
Theorem C12_conservation :
  forall qcap progs workers sched,
    NoDup (flat_map (fun ops => flat_map (fun o => match o with PSubmit t => [t] | _ => [] end) ops) progs) ->
    let s := prun qcap (pinit progs workers) sched in
    Permutation (p_added s) (pending_sends (p_subs s) ++ p_queue s ++ busy_tasks (p_ws s) ++ ends (p_log s)) /\
    p_wg s = length (pending_sends (p_subs s)) + length (p_queue s) + length (busy_tasks (p_ws s)).
Proof. exact C12_conservation_glue. Qed.
Print Assumptions C12_conservation.

Theorem C12_exactly_once :
  forall qcap progs workers sched,
    NoDup (flat_map (fun ops => flat_map (fun o => match o with PSubmit t => [t] | _ => [] end) ops) progs) ->
    let s := prun qcap (pinit progs workers) sched in
    NoDup (starts (p_log s)) /\ NoDup (ends (p_log s)) /\
    (forall t, In t (starts (p_log s)) -> In t (p_added s)) /\
    (forall t, In t (ends (p_log s)) -> In t (starts (p_log s))).
Proof. exact C12_exactly_once_glue. Qed.
Print Assumptions C12_exactly_once.

(* Wait returns only when the counter is 0, and then every task added so far, by any submitter,
   has finished (the happens-before edge Done -> Wait that makes the tasks' effects visible is
   sync.WaitGroup's, assumed) *)
Theorem C12_barrier :
  forall qcap progs workers sched,
    NoDup (flat_map (fun ops => flat_map (fun o => match o with PSubmit t => [t] | _ => [] end) ops) progs) ->
    let s := prun qcap (pinit progs workers) sched in
    forall j x rest s',
      nth_error (p_subs s) j = Some x -> s_ops x = PWait :: rest -> pstep qcap s (TSub j) = Some s' ->
      Permutation (p_added s) (ends (p_log s)).
Proof. exact C12_barrier_glue. Qed.
Print Assumptions C12_barrier.

Theorem C12_blocks_not_drops :
  forall qcap s j x tk rest,
    nth_error (p_subs s) j = Some x -> s_ops x = PSubmit tk :: rest -> s_adding x = true ->
    qcap <= length (p_queue s) -> pstep qcap s (TSub j) = None.
Proof. exact full_queue_blocks. Qed.
Print Assumptions C12_blocks_not_drops.

Theorem C12_close :
  forall qcap s k, p_closed s = true -> nth_error (p_ws s) k = Some PIdle -> pstep qcap s (TWrkExit k) <> None.
Proof. exact closed_idle_can_exit. Qed.
Print Assumptions C12_close.

(* "submission blocks rather than drops when the queue is full", as a bound: at every instant of
   every schedule the tasks whose Submit has returned and that have not finished number at most
   queue capacity + workers (they are in the queue or on a worker) *)
Theorem C12_outstanding_bounded :
  forall qcap progs workers sched,
    NoDup (flat_map (fun ops => flat_map (fun o => match o with PSubmit t => [t] | _ => [] end) ops) progs) ->
    let s := prun qcap (pinit progs workers) sched in
    length (p_added s) - length (pending_sends (p_subs s)) - length (ends (p_log s)) <= qcap + workers.
Proof. exact outstanding_bounded_lemma. Qed.
Print Assumptions C12_outstanding_bounded.

(* the model log that the correspondence check compares with the implementation is the log of one
   of the schedules the theorems above quantify over *)
From Flyt Require Import PoolGatedIsRun.
Theorem C12_model_log_is_a_run :
  forall sc : pscen,
  exists sched,
    let w := pool_workers (ps_workers sc) in
    model_plog sc = p_log (prun (2 * w) (pinit [ps_ops sc] w) sched).
Proof. exact model_plog_is_a_run. Qed.
Print Assumptions C12_model_log_is_a_run.

(* "submission blocks when the queue is full" as the walk the check applies to the
   implementation's log (at every note: Submit calls returned - tasks ended <= workers + queue):
   it holds of the log of EVERY schedule, hence of the model log of the correspondence check *)
Theorem C12_blocks_ok_every_run :
  forall progs workers sched,
    NoDup (flat_map (fun ops => flat_map (fun o => match o with PSubmit t => [t] | _ => [] end) ops) progs) ->
    blocks_ok workers (p_log (prun (2 * workers) (pinit progs workers) sched)) 0 = true.
Proof. exact blocks_ok_every_run. Qed.
Print Assumptions C12_blocks_ok_every_run.
