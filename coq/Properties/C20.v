(* C20 — Retry wait is honoured between attempts and is interruptible.
   Only property theorems here; each closed by `exact` of a lemma from Proofs/. *)
From Flyt Require Import Base Script FlowTable Engine BatchConc EngineCorr WaitMon WaitCorr
     WaitProofs BatchConcInv BatchConcItems BatchConcWait.
From Coq Require Import ZArith.

(* The exec phase of Run (flyt.go:719-738) with budget N >= 1 and wait w, for every oracle (all
   user code, and every answer to "was the context cancelled during this wait"), node kind and
   start state: the events it appends are accepted by the wait monitor — no wait before the
   first attempt, exactly one wait between a failed attempt and the next when w > 0, none when
   w = 0, no wait after the last attempt or after a success, nothing after an interrupted wait
   — and the loop's answer fits the monitor's final state: an interrupted wait ends the
   loop at once with the context's error wrapped at the wait site; exhaustion ends in
   "N failed attempts" with no wait pending. *)
Theorem C20_node_waits :
  forall (o : oracle) c n w N s p s' ar,
    0 < N -> attempts o c n w N 0 s p (inl VNil) = (s', ar) ->
    exists evs, log s' = log s ++ evs /\ wrun w N n evs <> WBad /\
                wres_ok W_CTX_RETRY W_CTX_WAIT c N (wrun w N n evs) ar.
Proof. exact node_waits_lemma. Qed.
Print Assumptions C20_node_waits.

(* interruptible: when the monitor ends in "a wait was interrupted", the loop's answer is the
   context's error wrapped at the wait site, and Run returns exactly that, with no fallback and
   no post (the events of the run end with that wait) *)
Theorem C20_interrupted_wait_aborts :
  forall sr sw c N stf ar,
    stf = WCut -> wres_ok sr sw c N stf ar -> has_exec c = true -> ar = AAbort (EWrap sw ECtx).
Proof. exact cut_aborts_lemma. Qed.
Print Assumptions C20_interrupted_wait_aborts.
Theorem C20_abort_ends_run :
  forall (o : oracle) c n s p s1 N w s2 e,
    cancelled s = false -> node_prep o c n s = (s1, inl p) -> cancelled s1 = false ->
    retry_of c = (N, w) -> attempts o c n w N 0 s1 p (inl VNil) = (s2, AAbort e) ->
    run_user o c n s = (s2, Fail e).
Proof. exact run_user_abort. Qed.
Print Assumptions C20_abort_ends_run.

(* the same for the copy of the loop that processes one batch item (batch.go:317-334) *)
Theorem C20_item_waits_sequential :
  forall (o : oracle) c n w N s item s' ar,
    0 < N -> item_attempts o c n w N 0 s item (inl VNil) = (s', ar) ->
    exists evs, log s' = log s ++ evs /\ wrun w N n evs <> WBad /\
                wres_ok W_ITEM_CTX_RETRY W_ITEM_CTX_WAIT c N (wrun w N n evs) ar.
Proof. exact item_waits_seq_lemma. Qed.
Print Assumptions C20_item_waits_sequential.

(* concurrent batches, EVERY schedule of submitter, workers and an asynchronous cancellation, any
   number of workers and queue capacity, stop mode or not: in every reachable state the events
   made on behalf of item i are accepted by the wait monitor *)
Theorem C20_item_waits_every_schedule :
  forall (o : oracle) c nd items stopmode nworkers qcap s0 sched i,
    let s := brun o c nd items stopmode qcap (binit items nworkers s0) sched in
    i < length items -> wrun (waitd c) (budget c) nd (il s i) <> WBad.
Proof. exact item_waits_lemma. Qed.
Print Assumptions C20_item_waits_every_schedule.

(* the clock: timed events of one node visit or batch item that the monitor accepts, made in
   sequence, where a wait that is followed by an attempt lasted at least wz (its timer fired):
   every attempt that follows a failed attempt begins at least wz after that attempt ended.
   gaps_from is the predicate applied to the timestamps measured on the implementation. *)
Theorem C20_gap :
  forall w N nd wz, (w = 0 -> (wz <= 0)%Z) ->
  forall l, chain_ok wz l -> wrun w N nd (map tr_ev l) <> WBad -> gaps_from wz None l = true.
Proof. exact gaps_lemma. Qed.
Print Assumptions C20_gap.

(* the monitor and the clock predicate refuse what the property forbids *)
Theorem C20_rejects_wait_before_first : wrun 5 3 7 [xw 0 false; xe true] = WBad.
Proof. exact mon_rejects_wait_before_first. Qed.
Print Assumptions C20_rejects_wait_before_first.
Theorem C20_rejects_missing_wait : wrun 5 3 7 [xe false; xe true] = WBad.
Proof. exact mon_rejects_missing_wait. Qed.
Print Assumptions C20_rejects_missing_wait.
Theorem C20_rejects_wait_after_last : wrun 5 2 7 [xe false; xw 1 false; xe false; xw 2 false] = WBad.
Proof. exact mon_rejects_wait_after_last. Qed.
Print Assumptions C20_rejects_wait_after_last.
Theorem C20_rejects_attempt_after_interrupted_wait : wrun 5 3 7 [xe false; xw 1 true; xe true] = WBad.
Proof. exact mon_rejects_attempt_after_cut. Qed.
Print Assumptions C20_rejects_attempt_after_interrupted_wait.
Theorem C20_accepts_waited_run :
  wrun 5 3 7 [xe false; xw 1 false; xe false; xw 2 false; xe true] = WDone.
Proof. exact mon_accepts_fail_wait_fail_wait_ok. Qed.
Print Assumptions C20_accepts_waited_run.
