(* C09 — see DESIGN.md section 7/C09.  Only property theorems here. *)
From Flyt Require Import Base Script FlowTable Engine BatchConc EngineCorr EngineFacts BatchConcFacts.

(* the concurrent executor only appends callback events (it never rewrites the log and the
   context is cancelled afterwards exactly when it was before or an event cancelled it) *)
Theorem C09_executor_appends :
  forall o rel c k st n s its s' rs, gated_exec o rel c k st n s its = (s', rs) -> ext s s'.
Proof. exact gated_exec_ext. Qed.
Print Assumptions C09_executor_appends.
