(* C09 — Stop-on-error halts the batch; unprocessed items are never reported as successes.
   Only property theorems here. All schedules, all item / worker counts, all user code. *)
From Flyt Require Import Base Script FlowTable Engine BatchConc EngineCorr EngineFacts
     ItemMon BatchConcInv BatchConcItems BatchConcStop WorkersPrefix.

(* Once the stop flag is up (set by the record step of a failing item in stop mode) it stays
   up, and an item whose task had not yet passed its stop-flag check — not yet received, or
   received and waiting for the mutex — is never executed, whatever the rest of the schedule:
   its events stay empty.  Only tasks that had already passed the check (received earlier by
   the other workers: at most workers - 1) can still run. *)
Theorem C09_stop_skips :
  forall (o : oracle) c nd (items : list val) stopmode nworkers qcap sched s i,
    BInv items nworkers s -> stopf s && stopmode = true -> unstarted s i ->
    il (brun o c nd items stopmode qcap s sched) i = [].
Proof. exact stop_skips_lemma. Qed.
Print Assumptions C09_stop_skips.

Theorem C09_stop_flag_permanent :
  forall (o : oracle) c nd (items : list val) stopmode qcap s t s',
    bstep o c nd items stopmode qcap s t = Some s' -> stopf s = true -> stopf s' = true.
Proof. exact bstep_stop. Qed.
Print Assumptions C09_stop_flag_permanent.

(* no fake success, in every mode, for every schedule: every slot is what the events of its item
   determine (settled) *)
Theorem C09_no_fake_success :
  forall (o : oracle) c nd (items : list val) stopmode nworkers qcap,
    has_exec c = true ->
    forall s0 sched,
      let s := brun o c nd items stopmode qcap (binit items nworkers s0) sched in
      (mpc s = MClose \/ mpc s = MRet) ->
      length (slots s) = length items /\
      forall i, i < length items ->
        exists v, slot_at s i = Some v /\ settled c nd (item_at items i) (il s i) v.
Proof. exact all_settled_lemma. Qed.
Print Assumptions C09_no_fake_success.

(* an item for which no callback was ever made (no exec attempt, no fallback) has an ERROR in its
   slot - "batch stopped", or an error matching the context's - for every retry setting (a budget
   below one means one attempt: C02_budget_at_least_one), mode, number of workers and schedule *)
Theorem C09_never_run_is_error :
  forall (o : oracle) c nd (items : list val) stopmode nworkers qcap,
    has_exec c = true ->
    forall s0 sched,
      let s := brun o c nd items stopmode qcap (binit items nworkers s0) sched in
      (mpc s = MClose \/ mpc s = MRet) ->
      forall i, i < length items -> il s i = [] ->
        exists e, slot_at s i = Some (VRes VNil (Some e)).
Proof. exact never_run_error_lemma. Qed.
Print Assumptions C09_never_run_is_error.

(* stop mode, ANY number of workers, every schedule, context alive: before an executed item y at
   most workers - 1 items are anything else than processed to the end with success (they are the
   items the other workers held when y passed its stop-flag check).  So a skipped item before y,
   and the item whose failure raised the flag if it is before y, are among those workers - 1. *)
Theorem C09_workers_prefix :
  forall (o : oracle) c nd (items : list val) nworkers qcap,
    has_exec c = true ->
    forall s0 sched,
      let s := brun o c nd items true qcap (binit items nworkers s0) sched in
      cancelled (base s) = false ->
      forall y, il s y <> [] ->
      exists l, length l <= nworkers - 1 /\
        forall i, i < y -> ~ In i l ->
          (i < deq s /\ (forall pc, ~ running s i pc)) /\
          exists x, ist_result c (irun c nd (item_at items i) (il s i)) = Some (inl x).
Proof. exact workers_prefix_lemma. Qed.
Print Assumptions C09_workers_prefix.

(* stop mode on TWO workers, every schedule, context alive: if item y was executed and an earlier
   item m was not (no callback was made for it: it was skipped), then every OTHER item before y was
   processed to the end and SUCCEEDED.  So the item whose failure raised the stop flag is not
   before y: the only items executed after a skipped one lie at or before the failing item.  This
   is the bound the free-running stress runs are judged by (Corr/BatchStressCorr.v: no executed
   item above both the smallest skipped item and the failing item). *)
Theorem C09_two_workers_prefix :
  forall (o : oracle) c nd (items : list val) qcap,
    has_exec c = true ->
    forall s0 sched,
      let s := brun o c nd items true qcap (binit items 2 s0) sched in
      cancelled (base s) = false ->
      forall m y, m < y -> il s m = [] -> il s y <> [] ->
      forall i, i < y -> i <> m ->
        (i < deq s /\ (forall pc, ~ running s i pc)) /\
        exists x, ist_result c (irun c nd (item_at items i) (il s i)) = Some (inl x).
Proof. exact two_workers_lemma. Qed.
Print Assumptions C09_two_workers_prefix.
