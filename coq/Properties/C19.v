(* C19 — Configuration styles are equivalent; defaults and last-setting-wins hold.
   Only property theorems here; each closed by `exact` of a lemma from Proofs/. *)
From Flyt Require Import Base Engine Config ConfigCorr ConfigProofs.
From Coq Require Import ZArith.

(* the option form and the builder form of every setting are the same function on configurations *)
Theorem C19_forms_agree : forall p c, apply_bld p c = apply_opt p c.
Proof. exact forms_agree_lemma. Qed.
Print Assumptions C19_forms_agree.

(* NewNode applies all base options before all custom options: same as the given order *)
Theorem C19_newnode_order : forall opts, new_node opts = apply_all opts cinit.
Proof. exact newnode_order_lemma. Qed.
Print Assumptions C19_newnode_order.

(* any mixture and order of constructor options and builder calls, of any length: the
   configuration is the left-to-right application of the settings in the order in which they
   take effect (options, then builder calls) *)
Theorem C19_mix : forall l, build_node l = apply_all (effective l) cinit.
Proof. exact mix_lemma. Qed.
Print Assumptions C19_mix.

Theorem C19_mix_batch :
  forall l, (forall p, In p (opts_of l) -> is_base p = true) -> build_batch l = apply_all (effective l) cinit.
Proof. exact mix_batch_lemma. Qed.
Print Assumptions C19_mix_batch.

(* the last setting of a parameter wins ... *)
Theorem C19_last_wins :
  forall ps c,
    (forall n, get_max_retries (apply_all (ps ++ [PMaxRetries n]) c) = n) /\
    (forall d, get_wait (apply_all (ps ++ [PWait d]) c) = d) /\
    (forall k, get_conc (apply_all (ps ++ [PConc k]) c) = k) /\
    (forall b, get_continue (apply_all (ps ++ [PErrH b]) c) = b) /\
    (forall st t, c_prep (apply_all (ps ++ [PPrep st t]) c) = Some (st, t)) /\
    (forall st t, c_exec (apply_all (ps ++ [PExec st t]) c) = Some (st, t)) /\
    (forall st t, c_post (apply_all (ps ++ [PPost st t]) c) = Some (st, t)) /\
    (forall t, c_fb (apply_all (ps ++ [PFb t]) c) = Some t).
Proof. exact last_wins_lemma. Qed.
Print Assumptions C19_last_wins.

(* ... and a setting leaves every other parameter untouched *)
Theorem C19_frame :
  forall p c,
    (u_retries p = None -> get_max_retries (apply_opt p c) = get_max_retries c) /\
    (u_wait p = None -> get_wait (apply_opt p c) = get_wait c) /\
    (u_conc p = None -> get_conc (apply_opt p c) = get_conc c) /\
    (u_errh p = None -> get_continue (apply_opt p c) = get_continue c) /\
    (u_prepf p = None -> c_prep (apply_opt p c) = c_prep c) /\
    (u_execf p = None -> c_exec (apply_opt p c) = c_exec c) /\
    (u_postf p = None -> c_post (apply_opt p c) = c_post c) /\
    (u_fbf p = None -> c_fb (apply_opt p c) = c_fb c).
Proof. exact frame_lemma. Qed.
Print Assumptions C19_frame.

(* defaults: one attempt, no wait, sequential batches, continue on errors, no functions; a pool
   size <= 0 means one worker *)
Theorem C19_defaults :
  get_max_retries cinit = 1%Z /\ get_wait cinit = 0%Z /\ get_conc cinit = 0%Z /\ get_continue cinit = true /\
  c_prep cinit = None /\ c_exec cinit = None /\ c_post cinit = None /\ c_fb cinit = None /\
  (forall w, (w <= 0)%Z -> pool_size w = 1%Z) /\ (forall w, (0 < w)%Z -> pool_size w = w).
Proof. exact defaults_lemma. Qed.
Print Assumptions C19_defaults.

(* the configuration the constructors build is the configuration the settings denote, so the
   predicate spec_C19 and the correspondence admits_config judge every observation alike *)
Theorem C19_built_is_denoted :
  forall sc, (cs_batch sc = true -> forall p, In p (opts_of (cs_settings sc)) -> is_base p = true) ->
             cfg_built sc = cfg_denoted sc.
Proof. exact built_is_denoted_lemma. Qed.
Print Assumptions C19_built_is_denoted.
