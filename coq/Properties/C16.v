(* C16 — Bind: identity for matching types, JSON round-trip otherwise, never panics.
   Only property theorems here; each closed by `exact` of a lemma from Proofs/.
   encoding/json is a pair of parameters: every theorem holds for ALL marshal / unmarshal
   functions, all values and all destinations. *)
From Flyt Require Import Values Accessors Bind BindCorr BindProofs.
From Flyt Require Import C16Glue.

Theorem C16_no_panic :
  forall bytes jerr marshal unmarshal,
    (forall v d, fst (bind_result bytes jerr marshal unmarshal v d) <> BPanic) /\
    (forall o d, fst (bind_store bytes jerr marshal unmarshal o d) <> BPanic).
Proof. exact C16_no_panic_glue. Qed.
Print Assumptions C16_no_panic.

(* a nil result value, a missing key, a nil, non-pointer or nil-pointer destination: an error of
   the respective class, and nothing is written *)
Theorem C16_errors :
  forall bytes jerr marshal unmarshal,
    (forall d, bind_result bytes jerr marshal unmarshal GNil d = (BErrNilValue, EUnchanged)) /\
    (forall d, bind_store bytes jerr marshal unmarshal None d = (BErrMissing, EUnchanged)) /\
    (forall v, bind_value bytes jerr marshal unmarshal v BNilIface = (BErrNotPtr, EUnchanged)) /\
    (forall v nilable, bind_value bytes jerr marshal unmarshal v (BNonPtr nilable) = (BErrNotPtr, EUnchanged)) /\
    (forall v T, bind_value bytes jerr marshal unmarshal v (BPtrNil T) = (BErrNotPtr, EUnchanged)).
Proof. exact errors_lemma. Qed.
Print Assumptions C16_errors.

Theorem C16_identity :
  forall bytes jerr marshal unmarshal v T cur,
    type_of v = T -> bind_value bytes jerr marshal unmarshal v (BPtr T cur) = (BOk, ESetTo v).
Proof. exact identity_lemma. Qed.
Print Assumptions C16_identity.

Theorem C16_json :
  forall bytes jerr (marshal : gval -> bytes + jerr) unmarshal v T cur,
    gtype_eqb (type_of v) T = false ->
    bind_value bytes jerr marshal unmarshal v (BPtr T cur) =
    match marshal v with
    | inr _ => (BErrMarshal, EUnchanged)
    | inl b => match unmarshal b T cur with
               | (after, None) => (BOk, EJson after)
               | (after, Some _) => (BErrUnmarshal, EJson after)
               end
    end.
Proof. exact json_lemma. Qed.
Print Assumptions C16_json.

Theorem C16_store_result_agree :
  forall bytes jerr marshal unmarshal v d,
    v <> GNil -> bind_store bytes jerr marshal unmarshal (Some v) d = bind_result bytes jerr marshal unmarshal v d.
Proof. exact agree_lemma. Qed.
Print Assumptions C16_store_result_agree.

Theorem C16_spec_holds_of_model : forall sc, spec_C16 sc (model_bobs sc) = true.
Proof. exact spec_C16_model_lemma. Qed.
Print Assumptions C16_spec_holds_of_model.
