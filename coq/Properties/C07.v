(* C07 — Batch processes every item exactly once, with per-item retry and fallback.
   Only property theorems here. All schedules, all item / worker counts, all user code. *)
From Flyt Require Import Base Script FlowTable Engine BatchConc EngineCorr EngineFacts
     ItemMon BatchConcInv BatchConcItems C02Proofs.
From Flyt Require Import C07Glue.

(* In every reachable state, under every schedule, what has been done on behalf of item i is a
   (prefix of a) processing of item i in the sense of the per-item monitor: exec attempts with
   item i until the first success, at most N of them, then the fallback exactly when all N
   failed and the node has one, with the item and the last error.  The monitor reads the
   events of item i only: no other item can prevent, repeat or alter them. *)
Theorem C07_item_processing_independent :
  forall (o : oracle) c nd (items : list val) stopmode nworkers qcap,
    has_exec c = true ->
    forall s0 sched i,
      let s := brun o c nd items stopmode qcap (binit items nworkers s0) sched in
      i < length items -> 0 < N c -> irun c nd (item_at items i) (il s i) <> IBad.
Proof. exact never_bad_lemma. Qed.
Print Assumptions C07_item_processing_independent.

(* and when the batch is through, the slot of every item is the result that monitor state
   stands for (see C06_slots_positional for the statement; repeated here for C07's claim "its
   slot holds the error of its last attempt or the fallback's outcome") *)
Theorem C07_slot_is_item_outcome :
  forall (o : oracle) c nd (items : list val) stopmode nworkers qcap,
    has_exec c = true ->
    forall s0 sched,
      let s := brun o c nd items stopmode qcap (binit items nworkers s0) sched in
      (mpc s = MClose \/ mpc s = MRet) ->
      length (slots s) = length items /\
      forall i, i < length items ->
        exists v, slot_at s i = Some v /\ settled c nd (item_at items i) (il s i) v.
Proof. exact all_settled_lemma. Qed.
Print Assumptions C07_slot_is_item_outcome.

(* every item is handed to at most one worker (exactly once: item i is received when the
   receive counter is i, and the counter only grows) *)
Theorem C07_one_worker_per_item :
  forall (o : oracle) c nd (items : list val) stopmode nworkers qcap s0 sched k k' i pc pc',
    let s := brun o c nd items stopmode qcap (binit items nworkers s0) sched in
    nth_error (ws s) k = Some (WRun i pc) -> nth_error (ws s) k' = Some (WRun i pc') -> k = k'.
Proof. exact C07_one_worker_per_item_glue. Qed.
Print Assumptions C07_one_worker_per_item.

(* the sequential path and each item's retry loop: the budget-exact counting theorem of C02 *)
Theorem C07_item_budget_exact :
  forall (o : oracle) c n s item s' r N w,
    has_exec c = true -> retry_of c = (N, w) -> 1 <= N -> cancelled s = false ->
    exec_with_retries o c n s item = (s', r) ->
    exists evs, log s' = log s ++ evs /\
      (existsb ev_cancel evs = false -> phase_exact c n N item evs).
Proof. exact exec_with_retries_exact. Qed.
Print Assumptions C07_item_budget_exact.

(* the model run that the correspondence check compares with the implementation - the gated
   schedule: run to quiescence, note the calls in flight, release one - is one of the schedules
   the theorems of C06-C09, C11 and C20 quantify over *)
From Flyt Require Import GatedIsRun WaitMon.
Theorem C07_model_run_is_a_schedule :
  forall (o : oracle) rel c conc stop n s its,
  exists sched,
    let fin := brun o c n its stop (2 * Nat.max 1 conc) (binit its (Nat.max 1 conc) s) sched in
    gated_exec o rel c conc stop n s its = (base fin, results_of fin).
Proof. exact gated_exec_is_brun. Qed.
Print Assumptions C07_model_run_is_a_schedule.

(* so in that very run what is done for every item is a processing of that item, with the retry
   waits where they belong *)
Theorem C07_model_run_items_ok :
  forall (o : oracle) rel c conc stop n s its,
  has_exec c = true ->
  exists sched,
    let fin := brun o c n its stop (2 * Nat.max 1 conc) (binit its (Nat.max 1 conc) s) sched in
    gated_exec o rel c conc stop n s its = (base fin, results_of fin) /\
    forall i, i < length its ->
      irun c n (item_at its i) (il fin i) <> IBad /\
      wrun (waitd c) (budget c) n (il fin i) <> WBad.
Proof. exact gated_exec_items_ok. Qed.
Print Assumptions C07_model_run_items_ok.
