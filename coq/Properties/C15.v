(* C15 — Typed accessors are total, mutually consistent and faithful.
   Only property theorems here; each closed by `exact` of a lemma from Proofs/.
   All theorems quantify over every value of Model/Values.v: nil, the 11 integer kinds with any
   value, float32/64 by bit pattern (NaN, infinities, subnormals, -0 included), complex,
   strings, bools, values of defined types (any depth), slices of every element type (nil or
   not, any elements), arrays, maps, pointers, funcs, channels (typed nils included), structs. *)
From Flyt Require Import Values Accessors ValuesCorr ValuesProofs.
From Flyt Require Import C15Glue.
#[local] Open Scope Z_scope.

(* totality: in the model the non-Must accessors have no panicking outcome at all (their
   result types contain none); the pinned slice test did — see the Examples in
   Proofs/ValuesProofs.v (pinned_map_panics, pinned_nan_is_a_slice versus the fixed_ examples) *)

(* the plain, Or-default and Must variants of each family agree, for every value *)
Theorem C15_variants :
  forall v,
    (forall d, as_string_or d v = (if snd (as_string v) then fst (as_string v) else d)) /\
    must_string v = (if snd (as_string v) then OVal (fst (as_string v)) else OPanic) /\
    (forall d, as_int_or d v = (if snd (as_int v) then fst (as_int v) else Specified d)) /\
    must_int v = (if snd (as_int v) then OVal (fst (as_int v)) else OPanic) /\
    (forall d, as_float64_or d v = (if snd (as_float64 v) then fst (as_float64 v) else d)) /\
    must_float64 v = (if snd (as_float64 v) then OVal (fst (as_float64 v)) else OPanic) /\
    (forall d, as_bool_or d v = (if snd (as_bool v) then fst (as_bool v) else d)) /\
    must_bool v = (if snd (as_bool v) then OVal (fst (as_bool v)) else OPanic) /\
    (forall d, as_slice_or d v = (if snd (as_slice v) then fst (as_slice v) else d)) /\
    must_slice v = (if snd (as_slice v) then OVal (fst (as_slice v)) else OPanic) /\
    (forall d, as_map_or d v = (if snd (as_map v) then fst (as_map v) else d)) /\
    must_map v = (if snd (as_map v) then OVal (fst (as_map v)) else OPanic).
Proof. exact C15_variants_glue. Qed.
Print Assumptions C15_variants.

(* the store getter (a second copy of each type switch in the Go code) agrees with the result
   accessor on the same value, and returns the default for a missing key *)
Theorem C15_store_result :
  forall v,
    (forall d, get_string_or d (Some v) = as_string_or d v) /\
    (forall d, get_int_or d (Some v) = as_int_or d v) /\
    (forall d, get_float64_or d (Some v) = as_float64_or d v) /\
    (forall d, get_bool_or d (Some v) = as_bool_or d v) /\
    (forall d, get_slice_or d (Some v) = as_slice_or d v) /\
    (forall d, get_map_or d (Some v) = as_map_or d v).
Proof. exact C15_store_result_glue. Qed.
Print Assumptions C15_store_result.

Theorem C15_store_missing :
  forall ds di df db dl dm,
    get_string_or ds None = ds /\ get_int_or di None = Specified di /\ get_float64_or df None = df /\
    get_bool_or db None = db /\ get_slice_or dl None = dl /\ get_map_or dm None = dm.
Proof. exact store_missing. Qed.
Print Assumptions C15_store_missing.

(* a conversion succeeds exactly for the documented source types (10 integer kinds, float32,
   float64: not uintptr, not complex, not defined types, not bool / string) and then yields
   Go's conversion of the value: wrap into int64 / truncation towards zero (unspecified out of
   range) for int; round-to-nearest-even / exact widening for float64 *)
Theorem C15_conv_exact :
  forall v,
    snd (as_int v) = documented_num v /\ snd (as_float64 v) = documented_num v /\
    (forall k z, v = GInt k z -> k <> KUintptr ->
                 as_int v = (Specified (wrap_int64 z), true) /\ as_float64 v = (f64_of_Z z, true)) /\
    (forall b, v = GF64 b -> as_int v = (trunc_fl (decode64 b), true) /\ as_float64 v = (b, true)) /\
    (forall b, v = GF32 b -> as_int v = (trunc_fl (decode32 b), true) /\ as_float64 v = (f64_of_f32 b, true)).
Proof. exact conv_exact_lemma. Qed.
Print Assumptions C15_conv_exact.

Theorem C15_int_identity_in_range :
  forall z, - two 63 <= z < two 63 -> wrap_int64 z = z.
Proof. exact wrap_int64_id. Qed.
Print Assumptions C15_int_identity_in_range.

(* the slice accessor succeeds exactly for slice values (by kind, so also for slices of defined
   types) and then yields ToSlice's elements in order; ToSlice maps nil to the empty slice and
   a non-slice to a one-element slice *)
Theorem C15_slice :
  forall v,
    snd (as_slice v) = is_slice_kind v /\
    (snd (as_slice v) = true -> snd (fst (as_slice v)) = to_slice v) /\
    to_slice GNil = [] /\
    (is_slice_kind v = false -> v <> GNil -> to_slice v = [v]).
Proof. exact slice_exact_lemma. Qed.
Print Assumptions C15_slice.

(* the predicate applied to the implementation's results holds of the model's, for every value *)
Theorem C15_spec_holds_of_model : forall v, spec_C15 v (model_vobs v) = true.
Proof. exact spec_C15_model_lemma. Qed.
Print Assumptions C15_spec_holds_of_model.
