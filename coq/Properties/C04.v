(* C04 — Errors are transparent and flows are fail-stop.
   Only property theorems here; each closed by `exact` of a lemma from Proofs/. *)
From Flyt Require Import Base Script FlowTable Engine EngineCorr EngineFacts Lifecycle
     LifecycleProofs SpecEngine C04Proofs EngineSpecProofs.

(* For every node kind (user nodes of every style, batch nodes, flows of any nesting depth),
   every oracle, executor of concurrent batches, start state and fuel: when the run fails
   with error e then either e is a framework error without a user cause (flow without start
   node), or e is the context's error and the context is cancelled, or the LAST entry of the
   callback log is a callback that returned an error u with e matching u (errors.Is/As follow
   the wraps: root e = root u) — so no callback of this run, of a later node, or of an
   enclosing flow ran after the failure. *)
Theorem C04_transparent_fail_stop :
  forall (o : oracle) conc_exec,
    (forall c k st n s items s' rs, conc_exec c k st n s items = (s', rs) -> ext s s') ->
    forall (tbl : table) fuel s n s' e,
      run o conc_exec tbl fuel s n = Some (s', Fail e) -> FailLast s s' e.
Proof. exact run_faillast. Qed.
Print Assumptions C04_transparent_fail_stop.

(* nil error iff every phase on the path succeeded: on tables of full user nodes and flows
   the monitor ends idle (every visit completed by a successful post) exactly for Done *)
Theorem C04_nil_iff :
  forall (o : oracle) conc_exec (tbl : table),
    (forall n d, tbl n = Some d -> full_def d = true) ->
    forall fuel s n s' oc,
      run o conc_exec tbl fuel s n = Some (s', oc) ->
      exists evs st,
        log s' = log s ++ evs /\
        lrun tbl LIdle (cancelled s) evs = Some (st, cancelled s') /\
        final_ok st (cancelled s') oc.
Proof. exact run_lc. Qed.
Print Assumptions C04_nil_iff.

Theorem C04_spec_holds_of_model :
  forall sc : escen, spec_C04 sc (eobs_of_model (model_obs sc)) = true.
Proof. exact spec_C04_model_lemma. Qed.
Print Assumptions C04_spec_holds_of_model.

(* the predicate the case files apply (spec_C04 and "a framework-class error only where the scenario
   has a cause for one", Proofs/FwCauseProofs.v) holds of the model's observation of every scenario *)
From Flyt Require Import SpecBatch FwCauseProofs.
Theorem C04_specx_holds_of_model :
  forall sc : escen, spec_C04x sc (eobs_of_model (model_obs sc)) = true.
Proof. exact spec_C04x_model_lemma. Qed.
Print Assumptions C04_specx_holds_of_model.

From Flyt Require BatchConc.
From Flyt Require Import PrepPostFatal.

(* the part of "nil only if every phase on the path succeeded" that holds for EVERY table (partial
   nodes, batch nodes, flows of any nesting), oracle, release order, fuel and start state: an error
   returned by a prep or post callback is the last callback of the run, and the run fails *)
Theorem C04_prep_post_error_fatal :
  forall (o : oracle) rel (tbl : table) fuel s n s' oc,
    run o (BatchConc.gated_exec o rel) tbl fuel s n = Some (s', oc) ->
    exists evs, log s' = log s ++ evs /\ pp_fatal evs = true /\
                (existsb pp_err evs = true -> exists e, oc = Fail e).
Proof. exact prep_post_error_fatal_lemma. Qed.
Print Assumptions C04_prep_post_error_fatal.

(* the predicate the case files apply since round 6 (spec_C04x and the clause above) holds of the
   model's observation of EVERY scenario *)
Theorem C04_specy_holds_of_model :
  forall sc : escen, spec_C04y sc (eobs_of_model (model_obs sc)) = true.
Proof. exact spec_C04y_model_lemma. Qed.
Print Assumptions C04_specy_holds_of_model.
