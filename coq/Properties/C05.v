(* C05 — Cancellation stops runs and flows and is reported as such.
   Only property theorems here; each closed by `exact` of a lemma from Proofs/. *)
From Flyt Require Import Base Script FlowTable Engine EngineCorr EngineFacts Lifecycle
     LifecycleProofs SpecEngine EngineSpecProofs.
From Flyt Require Import C05Glue SpecBatch FwCauseProofs BatchConc LatePrep.

(* context already done: no callback, error matches the context's error (user node or flow) *)
Theorem C05_pre_cancelled :
  forall (o : oracle) ce (tbl : table) fuel s n s' oc,
    cancelled s = true ->
    (match tbl n with Some (NUser _) | Some (NFlow _ _) => True | _ => False end) ->
    run o ce tbl fuel s n = Some (s', oc) ->
    s' = s /\ exists e, oc = Fail e /\ class_of e = KCtx.
Proof. exact run_precancelled. Qed.
Print Assumptions C05_pre_cancelled.

(* once the context is cancelled no exec attempt and no prep (= no node) is started: the
   lifecycle monitor, which refuses CPrep and CExec once the context is cancelled and forces
   the outcome to match the context's error when a run is cut short, accepts every run *)
Theorem C05_no_new_work :
  forall (o : oracle) ce (tbl : table),
    (forall n d, tbl n = Some d -> full_def d = true) ->
    forall fuel s n s' oc,
      run o ce tbl fuel s n = Some (s', oc) ->
      exists evs, log s' = log s ++ evs /\
                  no_new_work_after_cancel (fun _ => true) (cancelled s) evs = true /\
                  lifecycle_ok tbl (cancelled s) evs oc = true.
Proof. exact C05_no_new_work_glue. Qed.
Print Assumptions C05_no_new_work.

Theorem C05_spec_holds_of_model :
  forall sc : escen, spec_C05 sc (eobs_of_model (model_obs sc)) = true.
Proof. exact spec_C05_model_lemma. Qed.
Print Assumptions C05_spec_holds_of_model.

(* "reported as such": a failed run reports a framework-class error (no user error, no context
   error at its root) only if the table has a cause for one - a flow without start node, or a
   reference to a node that is not there - for every oracle that does not itself answer with
   such an error, every table, nesting depth and fuel.  So a run cut short by the context
   cannot come back with some fixed framework error instead of the context's. *)
Theorem C05_framework_error_has_cause :
  forall (o : oracle) ce,
    (forall h c r cn e, o h c = (r, cn) -> r = RErr e -> Ok e) ->
    forall (tbl : table) fuel s n s' e,
      run o ce tbl fuel s n = Some (s', Fail e) -> ~ Ok e -> tbl n = None \/ fw_cause tbl.
Proof. exact run_fw. Qed.
Print Assumptions C05_framework_error_has_cause.

(* the predicate the case files apply (spec_C05 and the framework-error clause) holds of the
   model's observation of EVERY scenario *)
Theorem C05_specx_holds_of_model :
  forall sc : escen, spec_C05x sc (eobs_of_model (model_obs sc)) = true.
Proof. exact spec_C05x_model_lemma. Qed.
Print Assumptions C05_specx_holds_of_model.

(* "no further node of the flow is started", for every kind of node: for every oracle, release
   order of gated calls, table (full and partial user nodes, batch nodes, flows of any nesting),
   fuel and start state - once the context is cancelled (before the run, or by a callback of the
   run) no prep callback is made, except the one of a batch node that is itself the root of this
   run (a batch node run directly looks at the context only per item; inside a flow it is not
   started) *)
Theorem C05_no_prep_after_cancel :
  forall (o : oracle) rel (tbl : table) fuel s n s' oc,
    run o (gated_exec o rel) tbl fuel s n = Some (s', oc) ->
    exists evs, log s' = log s ++ evs /\
      late_prep_ok (fun m => Nat.eqb m n && match tbl n with Some (NBatch _ _ _) => true | _ => false end)
                   (cancelled s) evs = true.
Proof. exact no_prep_after_cancel_lemma. Qed.
Print Assumptions C05_no_prep_after_cancel.

(* the predicate the case files apply since round 6 (spec_C05x and the clause above) holds of the
   model's observation of EVERY scenario *)
Theorem C05_specy_holds_of_model :
  forall sc : escen, spec_C05y sc (eobs_of_model (model_obs sc)) = true.
Proof. exact spec_C05y_model_lemma. Qed.
Print Assumptions C05_specy_holds_of_model.
