(* C06 — Batch results correspond positionally to items; post sees all, once.
   Only property theorems here; each closed by `exact` of a lemma from Proofs/.
   The concurrent path is the transition system of Model/BatchConc.v; every theorem below
   quantifies over ALL schedules (lists of thread choices, any length, disabled choices
   skipped), all item counts, worker counts, queue capacities, budgets and all user code. *)
From Flyt Require Import Base Script FlowTable Engine BatchConc EngineCorr EngineFacts BatchConcFacts
     ItemMon BatchConcInv BatchConcItems.
From Flyt Require Import C06Glue.

(* Whatever the schedule: once the submitter is past pool.Wait() — only then is post called —
   all n slots are written (post gets a result list of the same length as the item list, with
   every item settled), and slot i is a value the callback events made on behalf of item i
   ALONE determine (`settled`, Spec/ItemMon.v): the outcome of a complete processing of item
   i, or an error slot when item i was never executed or was cut short by the context.  No
   slot depends on any other item, so result i is the outcome of item i and of no other, for
   every completion order. *)
Theorem C06_slots_positional :
  forall (o : oracle) c nd (items : list val) stopmode nworkers qcap,
    has_exec c = true ->
    forall s0 sched,
      let s := brun o c nd items stopmode qcap (binit items nworkers s0) sched in
      (mpc s = MClose \/ mpc s = MRet) ->
      length (slots s) = length items /\
      forall i, i < length items ->
        exists v, slot_at s i = Some v /\ settled c nd (item_at items i) (il s i) v.
Proof. exact all_settled_lemma. Qed.
Print Assumptions C06_slots_positional.

(* pool.Wait() is a barrier: in any reachable state in which the submitter is past Wait, no
   item is queued or running any more *)
Theorem C06_post_after_all_settled :
  forall (o : oracle) c nd (items : list val) stopmode nworkers qcap s0 sched,
    let s := brun o c nd items stopmode qcap (binit items nworkers s0) sched in
    (mpc s = MClose \/ mpc s = MRet) ->
    deq s = length items /\ count_run (ws s) = 0 /\ forall i, i < length items -> slot_at s i <> None.
Proof. exact C06_post_after_all_settled_glue. Qed.
Print Assumptions C06_post_after_all_settled.

(* sequential and concurrent executors only append to the callback log *)
Theorem C06_executor_appends :
  forall o rel c k st n s its s' rs, gated_exec o rel c k st n s its = (s', rs) -> ext s s'.
Proof. exact gated_exec_ext. Qed.
Print Assumptions C06_executor_appends.
