(* C01 — Node lifecycle: prep once, exec attempts, post at most once, data threaded.
   This file contains only the property theorems; each is closed by `exact` of a lemma from
   Proofs/ and followed by Print Assumptions.

   The lifecycle is stated once, as the trace monitor of Spec/Lifecycle.v (read it there: it
   is a five-state automaton over callback events).  A trace is accepted only if every visit
   of a node is: prep exactly once with the run's store; then only exec attempts, each with
   exactly (the node's view of) the value prep returned; then the fallback only when every
   attempt failed, with the prep value and the last error; then post exactly when the exec
   phase (an attempt or the fallback) produced a result, with the store, the prep value and
   that result; and nothing after a callback whose error ends the run. *)
From Flyt Require Import Base Script FlowTable Engine EngineCorr EngineFacts Lifecycle
     LifecycleProofs SpecC18 SpecEngine C18Proofs EngineSpecProofs.

(* Every run of the engine — a single node or a flow of any nesting depth, every oracle
   (= all user code, all outcome scripts), every retry budget >= 1, every fuel — appends a
   trace the monitor accepts, ending in a monitor state that agrees with the outcome. *)
Theorem C01_lifecycle :
  forall (o : oracle) conc_exec (tbl : table),
    (forall n d, tbl n = Some d -> full_def d = true) ->
    forall fuel s n s' oc,
      run o conc_exec tbl fuel s n = Some (s', oc) ->
      exists evs, log s' = log s ++ evs /\ lifecycle_ok tbl (cancelled s) evs oc = true.
Proof. exact lifecycle_ok_model. Qed.
Print Assumptions C01_lifecycle.

(* "an action with a nil error, or an empty action with a non-nil error; never both, never
   neither": the pair (action, error) the run returns always reads back as exactly one of
   the two. *)
Theorem C01_outcome_exclusive :
  forall (o : oracle) conc_exec (tbl : table) fuel s n s' oc,
    run o conc_exec tbl fuel s n = Some (s', oc) ->
    outcome_of_pair (pair_of_outcome oc) = Some oc.
Proof. exact outcome_pair_roundtrip. Qed.
Print Assumptions C01_outcome_exclusive.

(* the executable predicate the case files apply to the implementation's observations holds
   of every observation of the model *)
Theorem C01_spec_holds_of_model :
  forall sc : escen, spec_C01 sc (eobs_of_model (model_obs sc)) = true.
Proof. exact spec_C01_model_lemma. Qed.
Print Assumptions C01_spec_holds_of_model.
