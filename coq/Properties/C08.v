(* C08 — Concurrency limit is a hard bound and is fully usable.
   Only property theorems here. All schedules, all item / worker counts, all user code. *)
From Flyt Require Import Base Script FlowTable Engine BatchConc EngineCorr EngineFacts
     BatchConcInv BatchConcLive.
From Flyt Require Import C08Glue.

(* hard bound: in every reachable state, under every schedule, at most `workers` exec calls —
   and at most `workers` tasks — are in flight *)
Theorem C08_upper :
  forall (o : oracle) c nd (items : list val) stopmode nworkers qcap s0 sched,
    let s := brun o c nd items stopmode qcap (binit items nworkers s0) sched in
    length (parked c s) <= nworkers /\ count_run (ws s) <= nworkers.
Proof. exact C08_upper_glue. Qed.
Print Assumptions C08_upper.

(* fully usable: in every reachable state in which nothing but user code can move (no step of
   the submitter or of a worker outside an exec call is enabled) and the batch is not over,
   EVERY worker is inside an exec call, or it is idle and all n items have already been handed
   out.  So c executions that all block do run at the same time: c mutually dependent items
   cannot deadlock the batch. *)
Theorem C08_usable :
  forall (o : oracle) c nd (items : list val) stopmode nworkers qcap,
    0 < nworkers -> 0 < qcap ->
    forall s0 sched,
      let s := brun o c nd items stopmode qcap (binit items nworkers s0) sched in
      quiescent o c nd items stopmode qcap s -> mpc s <> MRet ->
      forall k w, nth_error (ws s) k = Some w ->
        (exists i a l, w = WRun i (PExec a l)) \/ (w = WIdle /\ deq s = length items).
Proof. exact C08_usable_glue. Qed.
Print Assumptions C08_usable.

(* and the pool itself never deadlocks: while the submitter has not returned some thread of
   the pool can step *)
Theorem C08_no_deadlock :
  forall (o : oracle) c nd (items : list val) stopmode nworkers qcap,
    0 < nworkers -> 0 < qcap ->
    forall s0 sched,
      let s := brun o c nd items stopmode qcap (binit items nworkers s0) sched in
      mpc s <> MRet -> exists t, t <> TCancel /\ t <> TNote /\ bstep o c nd items stopmode qcap s t <> None.
Proof. exact C08_no_deadlock_glue. Qed.
Print Assumptions C08_no_deadlock.

(* the number of workers: pool sizes <= 0 mean one worker *)
Theorem C08_workers_clamped : forall conc, Nat.max 1 conc >= 1 /\ (1 <= conc -> Nat.max 1 conc = conc).
Proof. exact C08_workers_clamped_glue. Qed.
Print Assumptions C08_workers_clamped.

(* the upper bound on the log: the observer may note the calls in flight at any moment of any
   schedule (TNote); every note lists at most `workers` calls.  This is what the check reads off
   the implementation's notes (parks_ok), proved of every run - hence of the model run of the
   correspondence check (C07_model_run_is_a_schedule) *)
From Flyt Require Import ParkBound.
Theorem C08_notes_bounded :
  forall (o : oracle) c nd (items : list val) stopmode nworkers qcap s0 sched,
    ParkOK nworkers (log s0) ->
    ParkOK nworkers (log (base (brun o c nd items stopmode qcap (binit items nworkers s0) sched))).
Proof. exact notes_bounded_lemma. Qed.
Print Assumptions C08_notes_bounded.
