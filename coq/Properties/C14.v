(* C14 — Shared store behaves as a map and hands out isolated snapshots.
   Only property theorems here; each closed by `exact` of a lemma from Proofs/. *)
From Flyt Require Import Store StoreCorr StoreProofs.
From Flyt Require Import C14Glue.

(* isolation, for every history: whatever sequence of store operations, snapshot mutations and
   merges of snapshots (of any length, naming only objects that were handed out), every answer
   of the heap machine — the store as the Go code structures it: current map object updated in
   place, Clear re-allocating, GetAll / Keys copying into fresh objects — equals the answer of
   the machine in which the store is a map VALUE and snapshots are separate values.  So
   mutating a returned map or slice never changes the store, and later store updates never
   change what was handed out. *)
Theorem C14_isolated :
  forall ops : list sop, wf_ops 1 [] ops = true -> crun cinit ops = drun dinit ops.
Proof. exact C14_isolated_lemma. Qed.
Print Assumptions C14_isolated.

(* the map laws of the value machine: Set overwrites, Delete removes, Merge overwrites key-wise
   with the last binding of the merged map, a stored nil (value 0) is present *)
Theorem C14_get_set : forall m k v k', aget (aset m k v) k' = if Nat.eqb k' k then Some v else aget m k'.
Proof. exact aget_aset. Qed.
Print Assumptions C14_get_set.

Theorem C14_get_delete :
  forall m k k', NoDup (akeys m) -> aget (adel m k) k' = if Nat.eqb k' k then None else aget m k'.
Proof. exact aget_adel. Qed.
Print Assumptions C14_get_delete.

Theorem C14_get_merge :
  forall src m k, aget (amerge m src) k = match alast src k with Some v => Some v | None => aget m k end.
Proof. exact aget_amerge. Qed.
Print Assumptions C14_get_merge.

(* in every reachable state the keys are duplicate-free, so Len = |Keys| = |GetAll|, Keys is the
   domain of GetAll and Has k = isSome (Get k) (the last three by definition of the answers) *)
Theorem C14_reachable_nodup :
  forall ops, NoDup (akeys (d_map (dstates dinit ops))).
Proof. exact C14_reachable_nodup_glue. Qed.
Print Assumptions C14_reachable_nodup.

Theorem C14_answers_consistent :
  forall m k, ahas m k = (match aget m k with Some _ => true | None => false end) /\
              length m = length (akeys m) /\ akeys m = map fst m.
Proof. exact C14_answers_consistent_glue. Qed.
Print Assumptions C14_answers_consistent.

(* the predicate applied to the implementation's answers holds of the heap machine's answers *)
Theorem C14_spec_holds_of_model :
  forall ops, spec_C14 ops (crun cinit ops) = true.
Proof. exact spec_C14_model_lemma. Qed.
Print Assumptions C14_spec_holds_of_model.
