(* Lifecycle.v — a trace monitor for the node lifecycle.  It reads a trace of user callbacks
   (of the model or of the implementation) event by event and accepts exactly the traces in
   which every visit of a node is
       prep once, with the run's store
       then only exec attempts, each with (the view of) prep's value, at most N of them,
            a new one only after a failed one and never after the context was cancelled
       then the fallback, exactly when all N attempts failed, with prep's value and the last error
       then post, exactly when the exec phase produced a result, with store, prep value, result
   and nothing at all follows a callback whose error ends the run, or a cancellation that
   cuts the run short.  The final state is compared with the outcome of the run.
   It is the executable content shared by C01, C02, C04 and C05 for nodes whose three phases
   are user-visible ("full" nodes). *)
From Flyt Require Import Base FlowTable Engine.

Inductive lst :=
| LIdle                                             (* between visits *)
| LPrepd (n : nid) (p : val) (k : nat) (last : option err)  (* k failed attempts so far *)
| LFb (n : nid) (p : val) (e : err)                 (* all attempts failed: the fallback is due *)
| LExecd (n : nid) (p x : val)                      (* exec phase produced x: post is due *)
| LDead (cause : err).                              (* the run is over: nothing may follow *)

Definition full (c : ucfg) : bool :=
  has_prep c && has_exec c && has_post c && Nat.leb 1 (fst (retry_of c)).

Section Mon.
Variable tbl : table.

Definition full_user (n : nid) : option ucfg :=
  match tbl n with
  | Some (NUser c) => if full c then Some c else None
  | _ => None
  end.

(* after a failed attempt number k+1 *)
Definition after_fail (c : ucfg) (n : nid) (p : val) (k : nat) (e : err) (canc : bool) : lst :=
  if Nat.ltb (S k) (fst (retry_of c)) then
    (if canc then LDead ECtx else LPrepd n p (S k) (Some e))
  else
    match u_fb c with FbUser => LFb n p e | _ => LDead e end.

Definition lstep (st : lst) (canc : bool) (ev : event) : option lst :=
  let '(cl, r, cn) := ev in
  let canc' := canc || cn in
  match cl with
  | CWait _ _ _ =>
      match st with
      | LPrepd n p k last => Some (if cn then LDead ECtx else st)
      | _ => Some st
      end
  | CPrep n sv =>
      match st, full_user n with
      | LIdle, Some c =>
          if negb canc && val_eqb sv VStore then
            Some (match ret_val r with
                  | inr e => LDead e
                  | inl v => if canc' then LDead ECtx else LPrepd n (prep_ret (u_prep c) v) 0 None
                  end)
          else None
      | _, _ => None
      end
  | CExec n a =>
      match st, full_user n with
      | LPrepd m p k last, Some c =>
          if Nat.eqb n m && Nat.ltb k (fst (retry_of c)) && negb canc
             && val_eqb a (exec_arg (u_exec c) p) then
            Some (match ret_val r with
                  | inl v => LExecd n p (exec_ret (u_exec c) v)
                  | inr e => after_fail c n p k e canc'
                  end)
          else None
      | _, _ => None
      end
  | CFallback n a e' =>
      match st, full_user n with
      | LFb m p e, Some c =>
          if Nat.eqb n m && val_eqb a p && err_sim e' e then
            Some (match ret_val r with
                  | inl v => LExecd n p v
                  | inr e2 => LDead e2
                  end)
          else None
      | _, _ => None
      end
  | CPost n sv p' x' =>
      match st, full_user n with
      | LExecd m p x, Some c =>
          if Nat.eqb n m && val_eqb sv VStore && val_eqb p' (post_p (u_post c) p)
             && val_eqb x' (post_x (u_post c) x) then
            Some (match ret_act r with
                  | inl _ => LIdle
                  | inr e => LDead e
                  end)
          else None
      | _, _ => None
      end
  | CBPost _ _ _ _ => None
  | CPark _ _ => None
  end.

Fixpoint lrun (st : lst) (canc : bool) (tr : list event) : option (lst * bool) :=
  match tr with
  | [] => Some (st, canc)
  | ev :: rest =>
      match lstep st canc ev with
      | None => None
      | Some st' => lrun st' (canc || ev_cancel ev) rest
      end
  end.

(* the outcome a final monitor state allows *)
Definition laccept (st : lst) (canc : bool) (oc : outcome) : bool :=
  match st, oc with
  | LIdle, Done _ => true
  | LIdle, Fail e =>
      match class_of e with
      | KCtx => canc          (* a flow stopped between two nodes, or a run started cancelled *)
      | KFw => true           (* a framework error: flow without start node *)
      | KUser _ => false
      end
  | LDead cause, Fail e => err_sim e cause
  | _, _ => false
  end.

Definition lifecycle_ok (canc0 : bool) (tr : list event) (oc : outcome) : bool :=
  match lrun LIdle canc0 tr with
  | Some (st, canc) => laccept st canc oc
  | None => false
  end.

End Mon.

(* a table the monitor applies to: full user nodes and flows only *)
Definition full_def (d : ndef) : bool :=
  match d with
  | NUser c => full c
  | NFlow _ _ => true
  | NBatch _ _ _ => false
  end.
