(* SpecRoute.v — the executable predicates for C03 (routing) and C10 (nesting): the visit tokens
   of every run drive the flattened machine of Model/Flatten.v from "enter the root" to a
   state that agrees with the run's outcome; every prep/post callback received the run's
   store. *)
From Flyt Require Import Base Script FlowTable Engine Flatten EngineCorr Lifecycle SpecEngine.

Definition scen_vis (sc : escen) : bool := forallb (fun kd => vis_def (snd kd)) (es_nodes sc).

Definition store_arg_ok (e : event) : bool :=
  match ev_call e with
  | CPrep _ st | CPost _ st _ _ | CBPost _ st _ _ => val_eqb st VStore
  | _ => true
  end.
Definition stores_ok (tr : list event) : bool := forallb store_arg_ok tr.

Definition route_ok (tbl : table) (root : nid) (tr : list event) (oc : outcome) : bool :=
  afinal (arun tbl FUEL (enter tbl (S FUEL) root []) (tokens tr)) oc.

(* canc: the context was cancelled before this run or by an earlier one; routing is judged on
   the runs before any cancellation (cancellation is C05's subject) *)
Fixpoint spec_route_runs (tbl : table) (root : nid) (canc : bool) (ob : eobs) : bool :=
  match ob with
  | [] => true
  | (tr, oc, fl) :: rest =>
      let canc' := canc || existsb ev_cancel tr in
      match fl, outcome_of_pair oc with
      | OkRun, Some o =>
          stores_ok tr && (if canc' then true else route_ok tbl root tr o)
          && spec_route_runs tbl root canc' rest
      | _, _ => false
      end
  end.

Definition spec_route (sc : escen) (ob : eobs) : bool :=
  if scen_vis sc then spec_route_runs (table_of (es_nodes sc)) (es_root sc) (es_precancel sc) ob
  else true.

Definition spec_C03 (sc : escen) (ob : eobs) : bool := spec_route sc ob && spec_lifecycle sc ob.
Definition spec_C10 (sc : escen) (ob : eobs) : bool := spec_route sc ob && spec_lifecycle sc ob.

(* the predicate the C18 check applies: no empty action on success (Spec/SpecC18.v) and, inside
   flows, the step after a node whose post returned the empty action is the successor on the
   DEFAULT action (routing of the flat machine, which normalises) *)
From Flyt Require Import SpecC18.
Definition spec_C18x (sc : escen) (ob : eobs) : bool := spec_C18 sc ob && spec_route sc ob.
