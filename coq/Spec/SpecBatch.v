(* SpecBatch.v — executable predicates for the batch properties (C06, C07, C08, C09, C11),
   judged on the callback trace of a run whose root is a batch node.  The trace contains the
   prep event, the exec / fallback events of the items in real-time order, the pseudo-events
   CPark (gated concurrent runs: the set of exec calls in flight at a quiescent point) and
   the batch-post event with the items and result slots handed to post. *)
From Flyt Require Import Base Script FlowTable Engine EngineCorr ItemMon.

Record bview := {
  bv_cfg : ucfg; bv_conc : nat; bv_stop : bool; bv_node : nid;
  bv_items : list val;                 (* normalised prep value *)
  bv_mid : list event;                 (* events between prep and post *)
  bv_post : option (list val * list val)   (* arguments of the batch post, if it was called *)
}.

Definition root_batch (sc : escen) : option (ucfg * nat * bool) :=
  match table_of (es_nodes sc) (es_root sc) with
  | Some (NBatch c conc stop) => Some (c, conc, stop)
  | _ => None
  end.

Definition is_bpost (n : nid) (e : event) : bool :=
  match ev_call e with CBPost m _ _ _ => Nat.eqb m n | _ => false end.

(* split one run of a batch root: prep event, middle, optional post event (must be last) *)
Definition view_of (sc : escen) (tr : list event) : option bview :=
  match root_batch sc, tr with
  | Some (c, conc, stop), (CPrep n _, r, _) :: rest =>
      if Nat.eqb n (es_root sc) then
        match ret_val r with
        | inr _ => None
        | inl v =>
            let items := normalise (prep_ret (u_prep c) v) in
            match rev rest with
            | (CBPost m _ its res, _, _) :: mid_rev =>
                if Nat.eqb m n then
                  Some {| bv_cfg := c; bv_conc := conc; bv_stop := stop; bv_node := n; bv_items := items;
                          bv_mid := rev mid_rev; bv_post := Some (its, res) |}
                else None
            | _ => Some {| bv_cfg := c; bv_conc := conc; bv_stop := stop; bv_node := n; bv_items := items;
                           bv_mid := rest; bv_post := None |}
            end
        end
      else None
  | _, _ => None
  end.

Fixpoint index_of (f : val -> bool) (l : list val) (k : nat) : option nat :=
  match l with
  | [] => None
  | x :: t => if f x then Some k else index_of f t (S k)
  end.

(* which item does an event belong to? *)
Definition ev_item (v : bview) (e : event) : option nat :=
  match ev_call e with
  | CExec n a =>
      if Nat.eqb n (bv_node v)
      then index_of (fun it => val_eqb a (exec_arg (u_exec (bv_cfg v)) it)) (bv_items v) 0 else None
  | CFallback n a _ =>
      if Nat.eqb n (bv_node v) then index_of (fun it => val_eqb a it) (bv_items v) 0 else None
  | _ => None
  end.
Definition is_exec_ev (e : event) : bool := match ev_call e with CExec _ _ => true | _ => false end.
Definition is_fb_ev (e : event) : bool := match ev_call e with CFallback _ _ _ => true | _ => false end.
Definition is_park_ev (e : event) : bool := match ev_call e with CPark _ _ => true | _ => false end.
Definition ev_ok (e : event) : bool := match ev_resp e with RErr _ => false | _ => true end.
Definition evs_of (v : bview) (i : nat) : list event :=
  filter (fun e => match ev_item v e with Some j => Nat.eqb i j | None => false end) (bv_mid v).

Definition distinct_items (v : bview) : bool :=
  forallb (fun i => match nth_error (bv_items v) i with
                    | Some it => match index_of (fun x => val_eqb x it) (bv_items v) 0 with
                                 | Some j => Nat.eqb i j | None => false end
                    | None => true end) (seq 0 (length (bv_items v))).

Definition last_ev (l : list event) : option event := match rev l with e :: _ => Some e | [] => None end.

(* ---------------------------------------------------------------- C06 / C09(no fake success) *)
(* the slot the events of one item determine *)
Definition slot_ok (v : bview) (evs : list event) (slot : val) : bool :=
  match last_ev evs with
  | None => res_is_error slot                       (* never executed: must carry an error *)
  | Some (CExec _ _, r, _) =>
      match ret_val r with
      | inl x => val_eqb slot (as_res (exec_ret (u_exec (bv_cfg v)) x))
      | inr e => match slot with
                 | VRes VNil (Some e') => err_sim e' e || eclass_eqb (class_of e') KCtx
                 | _ => false
                 end
      end
  | Some (CFallback _ _ _, r, _) =>
      match ret_val r with
      | inl x => val_eqb slot (as_res x)
      | inr e => match slot with VRes VNil (Some e') => err_sim e' e | _ => false end
      end
  | _ => false
  end.

Definition spec_C06_view (v : bview) : bool :=
  match bv_post v with
  | None => false                                    (* prep succeeded: post must be called, last *)
  | Some (its, res) =>
      list_eqb val_eqb its (bv_items v)
      && Nat.eqb (length res) (length (bv_items v))
      && negb (existsb (is_bpost (bv_node v)) (bv_mid v))      (* exactly once *)
      && (if distinct_items v then
            forallb (fun i => slot_ok v (evs_of v i) (nth i res VOther)) (seq 0 (length (bv_items v)))
          else true)
  end.

(* ---------------------------------------------------------------- C07 *)
(* shape of one item's events for budget N: attempts until the first success, at most N; the
   fallback exactly when all N failed and the node has one; nothing after a success *)
Fixpoint item_shape (N : nat) (fb : bool) (k : nat) (evs : list event) : bool :=
  match evs with
  | [] => false                                       (* an attempt (or the fallback) is still due *)
  | e :: rest =>
      if is_exec_ev e then
        Nat.ltb k N &&
        (if ev_ok e then match rest with [] => true | _ => false end
         else if Nat.eqb (S k) N
              then (if fb then match rest with [f] => is_fb_ev f | _ => false end
                    else match rest with [] => true | _ => false end)
              else item_shape N fb (S k) rest)
      else false
  end.

Definition any_cancel (tr : list event) : bool := existsb ev_cancel tr.

Definition spec_C07_view (canc : bool) (v : bview) : bool :=
  if canc || bv_stop v || negb (distinct_items v) || Nat.eqb (fst (retry_of (bv_cfg v))) 0
     || negb (has_exec (bv_cfg v)) then true
  else
    forallb (fun i => item_shape (fst (retry_of (bv_cfg v)))
                                 (match u_fb (bv_cfg v) with FbUser => true | _ => false end)
                                 0 (evs_of v i))
            (seq 0 (length (bv_items v))).

(* ---------------------------------------------------------------- C08 *)
Definition workers_of (v : bview) : nat := Nat.max 1 (bv_conc v).
Definition code_item (c : nat) : nat := Nat.div c 16.

(* items that still have an exec event in l *)
Definition items_ahead (v : bview) (l : list event) : nat :=
  length (filter (fun i => existsb (fun e => is_exec_ev e &&
                                             match ev_item v e with Some j => Nat.eqb i j | None => false end) l)
                 (seq 0 (length (bv_items v)))).

Fixpoint nodup_nat (l : list nat) : bool :=
  match l with [] => true | x :: t => negb (existsb (Nat.eqb x) t) && nodup_nat t end.

(* every quiescent point: at most `workers` calls in flight, of distinct items, and exactly
   min(workers, items that still have work) — the limit is a hard bound and fully usable *)
Fixpoint parks_ok (v : bview) (l : list event) : bool :=
  match l with
  | [] => true
  | e :: rest =>
      (match ev_call e with
       | CPark _ codes =>
           Nat.leb (length codes) (workers_of v) && nodup_nat (map code_item codes)
           && (if distinct_items v
               then Nat.eqb (length codes) (Nat.min (workers_of v) (items_ahead v rest)) else true)
       | _ => true
       end) && parks_ok v rest
  end.

(* c = 0: items one at a time, in item order: the item indices of the events never decrease *)
Fixpoint nondecreasing (l : list nat) : bool :=
  match l with
  | x :: ((y :: _) as t) => Nat.leb x y && nondecreasing t
  | _ => true
  end.
Definition item_seq (v : bview) : list nat :=
  flat_map (fun e => match ev_item v e with Some i => [i] | None => [] end) (bv_mid v).

Definition spec_C08_view (v : bview) : bool :=
  if Nat.eqb (bv_conc v) 0
  then negb (existsb is_park_ev (bv_mid v)) && (if distinct_items v then nondecreasing (item_seq v) else true)
  else parks_ok v (bv_mid v).

(* ---------------------------------------------------------------- C09 *)
(* the events up to and including the first event that completes a failing item in stop mode:
   a failed last attempt without fallback, or a failed fallback *)
Definition final_failure (v : bview) (e : event) (later : list event) : bool :=
  negb (ev_ok e) &&
  match ev_item v e with
  | Some i =>
      (* no later event of the same item: this failure is the item's outcome *)
      negb (existsb (fun e' => match ev_item v e' with Some j => Nat.eqb i j | None => false end) later)
  | None => false
  end.

(* walk the middle: remember the codes of the last park event; after the first final failure
   (stop mode) or the first cancelling event, every exec call must be one that was in flight
   at that last park point: the same item (stop mode: an in-flight item may still use its
   retry budget) or exactly the same call (cancellation: no new attempt either).
   seen: item indices of the exec events so far (to number the attempts). *)
Definition count_nat (x : nat) (l : list nat) : nat := length (filter (Nat.eqb x) l).

Fixpoint stop_walk (v : bview) (watch_fail watch_cancel exact : bool)
         (inflight seen : list nat) (stopped : bool) (l : list event) : bool :=
  match l with
  | [] => true
  | e :: rest =>
      match ev_call e with
      | CPark _ codes =>
          (if stopped
           then forallb (fun c => existsb (fun d => if exact then Nat.eqb d c
                                                    else Nat.eqb (code_item d) (code_item c)) inflight) codes
           else true)
          && stop_walk v watch_fail watch_cancel exact (if stopped then inflight else codes) seen stopped rest
      | CExec _ _ =>
          match ev_item v e with
          | Some i =>
              let code := 16 * i + count_nat i seen in
              let ok_here :=
                if stopped
                then existsb (fun d => if exact then Nat.eqb d code else Nat.eqb (code_item d) i) inflight
                else true in
              let stopped' := stopped || (watch_fail && final_failure v e rest) || (watch_cancel && ev_cancel e) in
              ok_here && stop_walk v watch_fail watch_cancel exact inflight (i :: seen) stopped' rest
          | None => false
          end
      | CFallback _ _ _ =>
          let stopped' := stopped || (watch_fail && final_failure v e rest) || (watch_cancel && ev_cancel e) in
          stop_walk v watch_fail watch_cancel exact inflight seen stopped' rest
      | _ => stop_walk v watch_fail watch_cancel exact inflight seen stopped rest
      end
  end.

Definition spec_C09_view (canc : bool) (v : bview) : bool :=
  spec_C06_view v &&
  (if canc || negb (bv_stop v) || negb (distinct_items v) then true
   else stop_walk v true false false [] [] false (bv_mid v)).

(* ---------------------------------------------------------------- C11 *)
(* what is done on behalf of an item is a prefix of a processing of that item (the per-item monitor
   of Spec/ItemMon.v never rejects: C07_item_processing_independent, for every schedule, cancelled
   or not): in particular a fallback only after the whole budget of failed attempts *)
Definition items_mon_ok (v : bview) : bool :=
  if distinct_items v && has_exec (bv_cfg v) then
    forallb (fun i => match irun (bv_cfg v) (bv_node v) (nth i (bv_items v) VNil) (evs_of v i) with
                      | IBad => false
                      | _ => true
                      end) (seq 0 (length (bv_items v)))
  else true.

Definition spec_C11_view (canc : bool) (v : bview) : bool :=
  spec_C06_view v && items_mon_ok v &&
  (if negb (distinct_items v) then true
   else if canc then negb (existsb is_exec_ev (bv_mid v))       (* cancelled before the run: nothing runs *)
   else stop_walk v false true true [] [] false (bv_mid v)).

(* ---------------------------------------------------------------- per-run plumbing *)
Fixpoint spec_batch_runs (f : bool -> bview -> bool) (sc : escen) (canc : bool) (ob : eobs) : bool :=
  match ob with
  | [] => true
  | (tr, oc, fl) :: rest =>
      match fl with
      | OkRun => match view_of sc tr with Some v => f canc v | None => true end
      | _ => false
      end && spec_batch_runs f sc (canc || any_cancel tr) rest
  end.

Definition spec_C06 (sc : escen) (ob : eobs) : bool := spec_batch_runs (fun _ => spec_C06_view) sc (es_precancel sc) ob.
Definition spec_C07 (sc : escen) (ob : eobs) : bool :=
  spec_batch_runs (fun canc v => spec_C06_view v && spec_C07_view (canc || any_cancel (bv_mid v)) v) sc (es_precancel sc) ob.
Definition spec_C08 (sc : escen) (ob : eobs) : bool := spec_batch_runs (fun _ => spec_C08_view) sc (es_precancel sc) ob.
Definition spec_C09 (sc : escen) (ob : eobs) : bool :=
  spec_batch_runs (fun canc v => spec_C09_view (canc || any_cancel (bv_mid v)) v) sc (es_precancel sc) ob.
Definition spec_C11 (sc : escen) (ob : eobs) : bool := spec_batch_runs spec_C11_view sc (es_precancel sc) ob.

(* the predicates the C02 / C17 checks apply: the proved predicate of the property on the
   engine side (Spec/SpecEngine.v) together with the batch-side predicates above, for runs
   whose root is a batch node (per-item retry budget and fallback; slots hold exactly what the
   item's exec / fallback returned, wrapped once) *)
From Flyt Require Import Lifecycle SpecC18 SpecEngine.
Definition spec_C02x (sc : escen) (ob : eobs) : bool := spec_C02 sc ob && spec_C07 sc ob.
Definition spec_C17x (sc : escen) (ob : eobs) : bool := spec_C17 sc ob && spec_C06 sc ob.

(* the predicate the C05 check applies: the proved predicate (Spec/SpecEngine.v) together with
   "a failed run reports a framework error only where the scenario has a cause for one" (a flow
   without a start node, a reference to a node that does not exist, user code that itself
   returns such an error).  Proved of every model run in Proofs/FwCauseProofs.v. *)
Definition known_node (sc : escen) (n : nid) : bool :=
  match table_of (es_nodes sc) n with Some _ => true | None => false end.
(* the scripted user code itself returns a framework-class error somewhere *)
Definition resp_no_fw (r : resp * bool) : bool :=
  match fst r with RErr e => negb (eclass_eqb (class_of e) KFw) | _ => true end.
Definition script_no_fw (sc : script) : bool :=
  forallb (fun e => forallb resp_no_fw (se_rs e) && resp_no_fw (se_dflt e)) sc.
Definition fw_in_table (sc : escen) : bool :=
  negb (known_node sc (es_root sc)) ||
  existsb (fun nd => match snd nd with
                     | NFlow None _ => true
                     | NFlow (Some st) conns =>
                         negb (known_node sc st) ||
                         existsb (fun c => match snd c with Some t => negb (known_node sc t) | None => false end) conns
                     | _ => false
                     end) (es_nodes sc).
Definition fw_possible (sc : escen) : bool := fw_in_table sc || negb (script_no_fw (es_script sc)).
Definition fw_clause (sc : escen) (ob : eobs) : bool :=
  forallb (fun r : erun => let '(_, oc, _) := r in
             match snd oc with
             | Some e => match class_of e with KFw => fw_possible sc | _ => true end
             | None => true
             end) ob.
Definition spec_C05x (sc : escen) (ob : eobs) : bool := spec_C05 sc ob && fw_clause sc ob.
(* "no further node of the flow is started": once the context is cancelled, no prep callback is made
   for ANY kind of node - except for a batch node that is itself the root of the run (a batch node
   run directly looks at the context only per item).  A batch node that is a step of a flow is not
   started: the flow looks at the context before every step.  This clause judges every scenario,
   also those the lifecycle monitor does not (tables with batch or partial nodes).  Proved of the
   model's observation of every scenario in Proofs/LatePrep.v. *)
Fixpoint late_prep_ok (okn : nid -> bool) (canc : bool) (tr : list event) : bool :=
  match tr with
  | [] => true
  | e :: r =>
      (if canc then match ev_call e with CPrep n _ => okn n | _ => true end else true)
      && late_prep_ok okn (canc || ev_cancel e) r
  end.
Fixpoint late_prep_runs (okn : nid -> bool) (canc : bool) (ob : eobs) : bool :=
  match ob with
  | [] => true
  | (tr, _, _) :: rest => late_prep_ok okn canc tr && late_prep_runs okn (canc || existsb ev_cancel tr) rest
  end.
Definition is_root_batch (sc : escen) (n : nid) : bool :=
  Nat.eqb n (es_root sc) &&
  match table_of (es_nodes sc) n with Some (NBatch _ _ _) => true | _ => false end.
Definition spec_C05y (sc : escen) (ob : eobs) : bool :=
  spec_C05x sc ob && late_prep_runs (is_root_batch sc) (es_precancel sc) ob.
(* the same clause for C04: a run in which every callback succeeded cannot fail with an error the
   framework made up, unless the scenario has a cause for one *)
Definition spec_C04x (sc : escen) (ob : eobs) : bool := spec_C04 sc ob && fw_clause sc ob.

(* "a run returns nil only if every phase on its path succeeded", the part that can be stated for
   EVERY table: an error returned by a prep or post callback (of a node or a batch node) is the
   last callback of its run, and that run fails.  Judges every scenario, also those with batch or
   partial nodes that the lifecycle monitor does not.  Proved of the model's observation of every
   scenario in Proofs/PrepPostFatal.v. *)
Definition is_pp (e : event) : bool :=
  match ev_call e with CPrep _ _ | CPost _ _ _ _ | CBPost _ _ _ _ => true | _ => false end.
Definition pp_err (e : event) : bool :=
  is_pp e && match ev_resp e with RErr _ => true | _ => false end.
Fixpoint pp_fatal (tr : list event) : bool :=
  match tr with
  | [] => true
  | e :: r => if pp_err e then match r with [] => true | _ => false end else pp_fatal r
  end.
Definition pp_run (tr : list event) (oc : act * option err) : bool :=
  pp_fatal tr && (if existsb pp_err tr then match snd oc with Some _ => true | None => false end else true).
Definition pp_runs (ob : eobs) : bool := forallb (fun r : erun => let '(tr, oc, _) := r in pp_run tr oc) ob.
Definition spec_C04y (sc : escen) (ob : eobs) : bool := spec_C04x sc ob && pp_runs ob.
