(* SpecEngine.v — the executable predicates the engine-family case files apply to the
   implementation's observations (and that Properties/ proves of the model's observations). *)
From Flyt Require Import Base Script FlowTable Engine EngineCorr Lifecycle SpecC18.

(* "an action with a nil error or an empty action with a non-nil error; never both, never neither" *)
Definition outcome_of_pair (p : act * option err) : option outcome :=
  match p with
  | (a, None) => if Nat.eqb a A_EMPTY then None else Some (Done a)
  | (a, Some e) => if Nat.eqb a A_EMPTY then Some (Fail e) else None
  end.

Definition scen_full (sc : escen) : bool := forallb (fun kd => full_def (snd kd)) (es_nodes sc).

Fixpoint spec_lc_runs (tbl : table) (canc : bool) (ob : eobs) : bool :=
  match ob with
  | [] => true
  | (tr, oc, fl) :: rest =>
      match fl, outcome_of_pair oc with
      | OkRun, Some o =>
          lifecycle_ok tbl canc tr o && spec_lc_runs tbl (canc || existsb ev_cancel tr) rest
      | _, _ => false
      end
  end.

(* lifecycle of every visit of every run; applies to scenarios made of full user nodes and flows *)
Definition spec_lifecycle (sc : escen) (ob : eobs) : bool :=
  if scen_full sc then spec_lc_runs (table_of (es_nodes sc)) (es_precancel sc) ob else true.

(* ------------------------------------------------------------ C02: counting, stated directly *)
Definition is_exec_of (n : nid) (e : event) : bool :=
  match ev_call e with CExec m _ => Nat.eqb m n | _ => false end.
Definition is_fb_of (n : nid) (e : event) : bool :=
  match ev_call e with CFallback m _ _ => Nat.eqb m n | _ => false end.
Definition resp_ok (e : event) : bool := match ev_resp e with RErr _ => false | _ => true end.

(* index (1-based) of the first succeeding attempt, 0 if none *)
Fixpoint first_ok (l : list event) (i : nat) : nat :=
  match l with
  | [] => 0
  | e :: r => if resp_ok e then i else first_ok r (S i)
  end.

(* C02 on observations: the monitor admits an exec attempt only while fewer than N have been
   made and the previous one failed, admits the fallback only after N failures, and does not
   accept a trace that stops while an attempt, the fallback or post is still due *)
Definition spec_C02 (sc : escen) (ob : eobs) : bool := spec_lifecycle sc ob.

(* ------------------------------------------------------------ C05: stated directly *)
(* after the first callback that cancels the context no exec attempt and no prep of a
   user node is started *)
Fixpoint no_new_work_after_cancel (is_user : nid -> bool) (canc : bool) (tr : list event) : bool :=
  match tr with
  | [] => true
  | e :: r =>
      (if canc then
         match ev_call e with
         | CPrep n _ | CExec n _ => negb (is_user n)
         | _ => true
         end
       else true)
      && no_new_work_after_cancel is_user (canc || ev_cancel e) r
  end.

Definition is_user_node (sc : escen) (n : nid) : bool :=
  match table_of (es_nodes sc) n with Some (NUser _) => true | _ => false end.

Fixpoint spec_C05_runs (sc : escen) (canc : bool) (ob : eobs) : bool :=
  match ob with
  | [] => true
  | (tr, oc, fl) :: rest =>
      no_new_work_after_cancel (is_user_node sc) canc tr
      && (if canc then   (* started cancelled: no callback at all, context error *)
            match table_of (es_nodes sc) (es_root sc) with
            | Some (NBatch _ _ _) => true
            | _ => match tr, oc with
                   | [], (_, Some e) => eclass_eqb (class_of e) KCtx
                   | _, _ => false
                   end
            end
          else true)
      && spec_C05_runs sc (canc || existsb ev_cancel tr) rest
  end.

Definition root_known (sc : escen) : bool :=
  match table_of (es_nodes sc) (es_root sc) with Some _ => true | None => false end.

Definition spec_C05 (sc : escen) (ob : eobs) : bool :=
  spec_lifecycle sc ob &&
  (if scen_full sc && root_known sc then spec_C05_runs sc (es_precancel sc) ob else true).

Definition spec_C01 (sc : escen) (ob : eobs) : bool := spec_lifecycle sc ob && spec_C18 sc ob.

(* ------------------------------------------------------------ C04: stated directly *)
(* a failed run: the last callback of the trace returned the error the run reports (matching
   through every wrap), or the error is the context's and the context was cancelled, or it is
   a framework error; nothing follows the failing callback because it is the last entry *)
Definition last_visible (tr : list event) : option event :=
  match rev (filter (fun e => negb (is_wait (ev_call e))) tr) with
  | e :: _ => Some e
  | [] => None
  end.
Definition last_err_matches (tr : list event) (e : err) : bool :=
  match last_visible tr with
  | Some (_, RErr u, _) => err_sim e u
  | _ => false
  end.
Definition fail_last_ok (canc0 : bool) (tr : list event) (oc : act * option err) : bool :=
  match oc with
  | (_, None) => true
  | (_, Some e) =>
      match class_of e with
      | KUser _ => last_err_matches tr e
      | KCtx => canc0 || existsb ev_cancel tr || last_err_matches tr e
      | KFw => true
      end
  end.
Fixpoint spec_fail_last_runs (canc : bool) (ob : eobs) : bool :=
  match ob with
  | [] => true
  | (tr, oc, fl) :: rest =>
      match fl with OkRun => fail_last_ok canc tr oc | _ => false end
      && spec_fail_last_runs (canc || existsb ev_cancel tr) rest
  end.

Definition spec_C04 (sc : escen) (ob : eobs) : bool :=
  spec_lifecycle sc ob && spec_fail_last_runs (es_precancel sc) ob.

Definition spec_C17 (sc : escen) (ob : eobs) : bool := spec_C01 sc ob.
