(* WaitMon.v — the retry wait (C20).  The wait monitor reads the events made on behalf of one
   node visit (or of one batch item): exec attempts, the pseudo-events of the waits, the
   fallback.  It accepts exactly the sequences
        E0  W1 E1  W2 E2 ...          (Wk only when the configured wait is > 0)
   in which no wait precedes the first attempt, exactly one wait lies between a failed attempt
   and the next one, no wait follows the last attempt of the budget or a success, and
   nothing at all follows a wait that was interrupted by the context.
   The second half of the file is the clock: records carry the instants at which an event began
   and ended; `gaps_from` is the predicate the check applies to the timestamps measured on the
   implementation. *)
From Flyt Require Import Base FlowTable Engine.
From Coq Require Import ZArith.

Inductive wst :=
| WStart                 (* no attempt yet *)
| WFailed (k : nat)      (* k attempts, all failed; no wait since the last one *)
| WWaited (k : nat)      (* ... and the wait before attempt k has run to its end *)
| WDone                  (* a success or the fallback: the processing is over *)
| WCut                   (* a wait was interrupted by the context: nothing more happens *)
| WBad.

Section WM.
Variable w N : nat.
Variable nd : nid.

Definition wgo (k : nat) (r : resp) : wst :=
  match ret_val r with inl _ => WDone | inr _ => WFailed (S k) end.

Definition wstep (st : wst) (ev : event) : wst :=
  match ev_call ev with
  | CWait n _ a =>
      match st with
      | WFailed k =>
          if Nat.eqb n nd && Nat.eqb a k && Nat.ltb 0 w && Nat.ltb k N
          then (if ev_cancel ev then WCut else WWaited k)
          else WBad
      | _ => WBad
      end
  | CExec n _ =>
      if Nat.eqb n nd then
        match st with
        | WStart => if Nat.ltb 0 N then wgo 0 (ev_resp ev) else WBad
        | WFailed k => if Nat.eqb w 0 && Nat.ltb k N then wgo k (ev_resp ev) else WBad
        | WWaited k => wgo k (ev_resp ev)
        | _ => WBad
        end
      else WBad
  | CFallback n _ _ =>
      match st with
      | WFailed k => if Nat.eqb n nd && Nat.eqb k N then WDone else WBad
      | _ => WBad
      end
  | _ => WBad
  end.

Definition wrun_from (st : wst) (l : list event) : wst := fold_left wstep l st.
Definition wrun (l : list event) : wst := wrun_from WStart l.
Definition waccepts (l : list event) : bool := match wrun l with WBad => false | _ => true end.

End WM.

(* ------------------------------------------------------------ the clock *)
#[local] Open Scope Z_scope.

Record trec := { tr_ev : event; tr_t0 : Z; tr_t1 : Z }.   (* the event began at t0 and ended at t1 *)

Definition is_exec (c : call) : bool := match c with CExec _ _ => true | _ => false end.
Definition ev_failed (e : event) : bool := match ret_val (ev_resp e) with inr _ => true | inl _ => false end.

(* the records are in sequence (one goroutine makes them), and a wait that is followed by an
   attempt ended because its timer fired: it lasted at least wz *)
Fixpoint chain_ok (wz : Z) (l : list trec) : Prop :=
  match l with
  | [] => True
  | a :: rest =>
      tr_t0 a <= tr_t1 a /\
      match rest with
      | [] => True
      | b :: _ =>
          tr_t1 a <= tr_t0 b /\
          (is_wait (ev_call (tr_ev a)) = true -> is_exec (ev_call (tr_ev b)) = true -> tr_t0 a + wz <= tr_t1 a)
      end /\ chain_ok wz rest
  end.

(* every attempt that follows a failed attempt starts at least wz after that attempt ended;
   last = the end of the latest attempt if it failed *)
Fixpoint gaps_from (wz : Z) (last : option Z) (l : list trec) : bool :=
  match l with
  | [] => true
  | r :: rest =>
      if is_exec (ev_call (tr_ev r)) then
        (match last with Some e => e + wz <=? tr_t0 r | None => true end)
        && gaps_from wz (if ev_failed (tr_ev r) then Some (tr_t1 r) else None) rest
      else gaps_from wz last rest
  end.
