(* ItemMon.v — the per-item monitor of batch processing: it reads the callback events made on
   behalf of ONE item and accepts exactly the sequences "exec attempts with that item until
   the first success, at most N of them; then the fallback, exactly when all N failed and the
   node has a fallback of its own, with the item and the last error".  Its final state
   determines the only result slot the item may have. *)
From Flyt Require Import Base FlowTable Engine.

Inductive ist :=
| IStart                       (* no attempt yet *)
| IFailed (k : nat) (e : err)  (* k >= 1 attempts, all failed, e the error of the last *)
| IOk (x : val)                (* an attempt succeeded; x is what node.Exec returned *)
| IFb (r : val + err)          (* the fallback ran and returned r *)
| IBad.                        (* not a processing of this item *)

Section IM.
Variable c : ucfg.
Variable nd : nid.
Variable item : val.

Definition N := fst (retry_of c).

Definition attempt (k : nat) (r : resp) : ist :=
  match ret_val r with
  | inl v => IOk (exec_ret (u_exec c) v)
  | inr e => IFailed (S k) e
  end.

Definition istep (st : ist) (ev : event) : ist :=
  match ev_call ev with
  | CWait _ _ _ => st
  | CExec n a =>
      if Nat.eqb n nd && val_eqb a (exec_arg (u_exec c) item) then
        match st with
        | IStart => if Nat.ltb 0 N then attempt 0 (ev_resp ev) else IBad
        | IFailed k _ => if Nat.ltb k N then attempt k (ev_resp ev) else IBad
        | _ => IBad
        end
      else IBad
  | CFallback n a e' =>
      match st with
      | IFailed k e =>
          if Nat.eqb n nd && val_eqb a item && Nat.eqb k N && err_sim e' e
             && match u_fb c with FbUser => true | _ => false end
          then IFb (ret_val (ev_resp ev)) else IBad
      | _ => IBad
      end
  | _ => IBad
  end.

Definition irun (il : list event) : ist := fold_left istep il IStart.

(* the result of runExecWithRetries the monitor state stands for, if the item is through *)
Definition ist_result (st : ist) : option (val + err) :=
  match st with
  | IOk x => Some (inl x)
  | IFb r => Some r
  | IFailed k e =>
      if Nat.eqb k N then match u_fb c with FbUser => None | _ => Some (inr e) end else None
  | IStart => if Nat.eqb N 0 then Some (inl VNil) else None
  | IBad => None
  end.

(* the monitor state of a processing cut short by the context: attempts so far all failed and
   the budget is not used up *)
Definition ist_abortable (st : ist) : bool :=
  match st with
  | IStart => Nat.ltb 0 N
  | IFailed k _ => Nat.ltb k N
  | _ => false
  end.

Definition ctx_error_slot (v : val) : bool :=
  match v with VRes VNil (Some e) => eclass_eqb (class_of e) KCtx | _ => false end.

(* the slot v is what the events il of the item determine *)
Definition settled (il : list event) (v : val) : Prop :=
  (il = [] /\ (v = stopped_slot \/ v = ctx_slot))                      (* never executed: an error slot *)
  \/ (exists r, ist_result (irun il) = Some r /\ v = slot_of_result r)  (* processed *)
  \/ (ist_abortable (irun il) = true /\ ctx_error_slot v = true).       (* cut short by the context *)

End IM.
