(* SpecC18.v — C18: a successful run never yields the empty action.
   The predicate judges one observation (trace, outcome) of a run of the scenario's root;
   it is proved of the model in Properties/C18.v and applied to the implementation's
   observations by the case files. *)
From Flyt Require Import Base Script FlowTable Engine EngineCorr.

(* the action returned by the last callback of the trace when that is a post phase *)
Definition last_post_act (tr : list event) : option act :=
  match rev tr with
  | (CPost _ _ _ _, r, _) :: _ => match ret_act r with inl a => Some a | inr _ => None end
  | (CBPost _ _ _ _, r, _) :: _ => match ret_act r with inl a => Some a | inr _ => None end
  | _ => None
  end.

(* does the root node call a user post function of its own? *)
Definition root_has_post (sc : escen) : bool :=
  match table_of (es_nodes sc) (es_root sc) with
  | Some (NUser c) => has_post c
  | Some (NBatch c _ _) => match u_post c with FBatch => true | _ => false end
  | _ => false
  end.

(* one run: success => non-empty action, equal to post's action or to the default action
   when post returned the empty action; failure => empty action *)
Definition spec_C18_run (has_post : bool) (tr : list event) (oc : act * option err) : bool :=
  match oc with
  | (a, None) =>
      negb (Nat.eqb a A_EMPTY) &&
      (if has_post then
         match last_post_act tr with
         | Some a' => Nat.eqb a (if Nat.eqb a' A_EMPTY then A_DEFAULT else a')
         | None => false
         end
       else true)
  | (a, Some _) => Nat.eqb a A_EMPTY
  end.

Definition spec_C18 (sc : escen) (ob : eobs) : bool :=
  forallb (fun r : erun => let '(tr, oc, fl) := r in
                           match fl with OkRun => spec_C18_run (root_has_post sc) tr oc | _ => false end) ob.

Definition erun_of_model (m : option (list event * outcome)) : option erun :=
  match m with
  | Some (tr, oc) => Some (tr, pair_of_outcome oc, OkRun)
  | None => None
  end.
