(* Lin.v — linearizability of store histories against the sequential store (a plain map), and an
   executable checker of linearization witnesses with its soundness proof obligation stated here
   (proved in Proofs/LinProofs.v).  A history is a list of completed operations with the
   instants of their invocation and response (one global clock); a witness is a total order
   of the operations. *)
From Flyt Require Import Store.
From Coq Require Import Permutation.

(* the operations of the shared store and their answers (keys / maps canonically sorted) *)
Inductive lop :=
| LSet (k : key) (v : sval) | LGet (k : key) | LHas (k : key) | LDelete (k : key)
| LLen | LKeys | LGetAll | LMerge (m : amap) | LClear.
Inductive lret := LU | LVal (o : option sval) | LB (b : bool) | LN (n : nat) | LKs (l : list key) | LMap (m : amap).

(* the sequential specification: an ordinary map *)
Definition lstep (m : amap) (op : lop) : amap * lret :=
  match op with
  | LSet k v => (aset m k v, LU)
  | LGet k => (m, LVal (aget m k))
  | LHas k => (m, LB (ahas m k))
  | LDelete k => (adel m k, LU)
  | LLen => (m, LN (length m))
  | LKeys => (m, LKs (sort_keys (akeys m)))
  | LGetAll => (m, LMap (sort_map m))
  | LMerge src => (amerge m src, LU)
  | LClear => ([], LU)
  end.

Record hop := { h_id : nat; h_inv : nat; h_res : nat; h_op : lop; h_ret : lret }.
Definition history := list hop.

Definition oeqb (a b : option sval) : bool :=
  match a, b with Some x, Some y => Nat.eqb x y | None, None => true | _, _ => false end.
Fixpoint keys_eqb (a b : list key) : bool :=
  match a, b with [], [] => true | x :: s, y :: t => Nat.eqb x y && keys_eqb s t | _, _ => false end.
Fixpoint amap_eqb (a b : amap) : bool :=
  match a, b with
  | [], [] => true
  | (k, v) :: s, (k', v') :: t => Nat.eqb k k' && Nat.eqb v v' && amap_eqb s t
  | _, _ => false
  end.
Definition lret_eqb (a b : lret) : bool :=
  match a, b with
  | LU, LU => true
  | LVal x, LVal y => oeqb x y
  | LB x, LB y => Bool.eqb x y
  | LN x, LN y => Nat.eqb x y
  | LKs x, LKs y => keys_eqb x y
  | LMap x, LMap y => amap_eqb (sort_map x) (sort_map y)
  | _, _ => false
  end.

(* ---------------------------------------------------------------- the definition *)
(* sq is a sequential execution of the operations: every answer is the map's *)
Fixpoint legal (m : amap) (sq : list hop) : Prop :=
  match sq with
  | [] => True
  | a :: rest => lret_eqb (snd (lstep m (h_op a))) (h_ret a) = true /\ legal (fst (lstep m (h_op a))) rest
  end.

(* a comes before b in sq *)
Definition before (sq : list hop) (a b : hop) : Prop :=
  exists l1 l2 l3, sq = l1 ++ a :: l2 ++ b :: l3.

(* H is linearizable: some permutation sq of its operations is a legal sequential execution that
   keeps the real-time order (a answered before b was invoked => a before b) *)
Definition Linearizable (H : history) : Prop :=
  exists sq, Permutation H sq /\ legal [] sq /\
            forall a b, In a H -> In b H -> h_res a < h_inv b -> before sq a b.

(* ---------------------------------------------------------------- the checker *)
Fixpoint find_op (H : history) (id : nat) : option hop :=
  match H with
  | [] => None
  | a :: rest => if Nat.eqb (h_id a) id then Some a else find_op rest id
  end.
Fixpoint resolve (H : history) (w : list nat) : option (list hop) :=
  match w with
  | [] => Some []
  | id :: rest => match find_op H id, resolve H rest with
                  | Some a, Some l => Some (a :: l)
                  | _, _ => None
                  end
  end.
Fixpoint legalb (m : amap) (sq : list hop) : bool :=
  match sq with
  | [] => true
  | a :: rest => lret_eqb (snd (lstep m (h_op a))) (h_ret a) && legalb (fst (lstep m (h_op a))) rest
  end.
(* no later element of sq answered before an earlier one... the other way round: for every a that
   comes AFTER b in sq, a was not answered before b was invoked *)
Fixpoint realtime_ok (sq : list hop) : bool :=
  match sq with
  | [] => true
  | b :: rest => forallb (fun a => negb (Nat.ltb (h_res a) (h_inv b))) rest && realtime_ok rest
  end.
Fixpoint nodup_ids (l : list nat) : bool :=
  match l with [] => true | x :: t => negb (existsb (Nat.eqb x) t) && nodup_ids t end.

Definition check_witness (H : history) (w : list nat) : bool :=
  nodup_ids (map h_id H) && nodup_ids w && Nat.eqb (length w) (length H)
  && forallb (fun a => Nat.leb (h_inv a) (h_res a)) H
  && match resolve H w with
     | Some sq => legalb [] sq && realtime_ok sq
     | None => false
     end.

(* exhaustive search for small histories (used to confirm that a history has NO linearization):
   try every next operation that no unlinearized operation precedes in real time *)
Fixpoint remove_id (l : history) (id : nat) : history :=
  match l with [] => [] | a :: r => if Nat.eqb (h_id a) id then r else a :: remove_id r id end.
Fixpoint lin_search (fuel : nat) (m : amap) (rest : history) : bool :=
  match fuel with
  | 0 => false
  | S f =>
      match rest with
      | [] => true
      | _ => existsb (fun a =>
               forallb (fun b => negb (Nat.ltb (h_res b) (h_inv a))) rest      (* a is minimal *)
               && lret_eqb (snd (lstep m (h_op a))) (h_ret a)
               && lin_search f (fst (lstep m (h_op a))) (remove_id rest (h_id a))) rest
      end
  end.
