(* StoreProofs.v — the store's map operations obey the laws of a finite map; the heap machine
   (the Go code's object structure) refines the value machine: for every operation sequence
   that only names objects that were handed out, all answers agree, i.e. no object handed out
   ever aliases the store's map and no store update ever changes an object handed out. *)
From Flyt Require Import Store StoreCorr.

(* ------------------------------------------------------------ finite-map laws *)
Lemma aget_aset m k v k' : aget (aset m k v) k' = if Nat.eqb k' k then Some v else aget m k'.
Proof.
  induction m as [|[a b] t IH]; cbn.
  - destruct (Nat.eqb k' k); reflexivity.
  - destruct (Nat.eqb k a) eqn:Eka; cbn.
    + apply Nat.eqb_eq in Eka. subst a. destruct (Nat.eqb k' k); reflexivity.
    + destruct (Nat.eqb k' a) eqn:Ek'a.
      * apply Nat.eqb_eq in Ek'a. subst a. rewrite Nat.eqb_sym in Eka. now rewrite Eka.
      * exact IH.
Qed.

Lemma akeys_aset_in m k v x : In x (akeys (aset m k v)) <-> x = k \/ In x (akeys m).
Proof.
  induction m as [|[a b] t IH]; cbn.
  - intuition.
  - destruct (Nat.eqb k a) eqn:E; cbn.
    + apply Nat.eqb_eq in E. subst a. intuition.
    + rewrite IH. intuition.
Qed.

Lemma nodup_aset m k v : NoDup (akeys m) -> NoDup (akeys (aset m k v)).
Proof.
  induction m as [|[a b] t IH]; cbn; intros H.
  - constructor; [intros []|constructor].
  - inversion H as [|? ? Hn Ht]; subst. destruct (Nat.eqb k a) eqn:E; cbn.
    + constructor; assumption.
    + constructor; [|apply IH; exact Ht].
      intros Hin. apply akeys_aset_in in Hin. destruct Hin as [->|Hin]; [|contradiction].
      rewrite Nat.eqb_refl in E. discriminate.
Qed.

Lemma aget_none_notin m k : aget m k = None <-> ~ In k (akeys m).
Proof.
  induction m as [|[a b] t IH]; cbn.
  - intuition.
  - destruct (Nat.eqb k a) eqn:E.
    + apply Nat.eqb_eq in E. subst a. split; [discriminate|]. intros H. exfalso. apply H. now left.
    + apply Nat.eqb_neq in E. rewrite IH. intuition.
Qed.

Lemma aget_adel m k k' :
  NoDup (akeys m) -> aget (adel m k) k' = if Nat.eqb k' k then None else aget m k'.
Proof.
  induction m as [|[a b] t IH]; cbn; intros H.
  - destruct (Nat.eqb k' k); reflexivity.
  - inversion H as [|? ? Hn Ht]; subst. destruct (Nat.eqb k a) eqn:Eka; cbn.
    + apply Nat.eqb_eq in Eka. subst a. destruct (Nat.eqb k' k) eqn:E.
      * apply Nat.eqb_eq in E. subst k'. apply aget_none_notin. exact Hn.
      * reflexivity.
    + destruct (Nat.eqb k' a) eqn:Ek'a.
      * apply Nat.eqb_eq in Ek'a. subst a. rewrite Nat.eqb_sym in Eka. now rewrite Eka.
      * apply IH. exact Ht.
Qed.

Lemma akeys_adel_in m k x : In x (akeys (adel m k)) -> In x (akeys m).
Proof.
  induction m as [|[a b] t IH]; cbn; auto.
  destruct (Nat.eqb k a); cbn; intuition.
Qed.

Lemma nodup_adel m k : NoDup (akeys m) -> NoDup (akeys (adel m k)).
Proof.
  induction m as [|[a b] t IH]; cbn; intros H; [constructor|].
  inversion H as [|? ? Hn Ht]; subst. destruct (Nat.eqb k a); cbn; auto.
  constructor; [|apply IH; exact Ht]. intros Hin. apply Hn. eapply akeys_adel_in; eauto.
Qed.

Lemma nodup_amerge src : forall m, NoDup (akeys m) -> NoDup (akeys (amerge m src)).
Proof.
  unfold amerge. induction src as [|[a b] t IH]; cbn; intros m H; auto.
  apply IH. apply nodup_aset. exact H.
Qed.

(* Merge overwrites key-wise: the last binding of k in the merged map wins, else the store's *)
Fixpoint alast (src : amap) (k : key) : option sval :=
  match src with
  | [] => None
  | (a, b) :: t => match alast t k with Some v => Some v | None => if Nat.eqb k a then Some b else None end
  end.

Lemma aget_amerge src : forall m k,
    aget (amerge m src) k = match alast src k with Some v => Some v | None => aget m k end.
Proof.
  unfold amerge. induction src as [|[a b] t IH]; cbn; intros m k; auto.
  rewrite IH. destruct (alast t k); auto. rewrite aget_aset. destruct (Nat.eqb k a); reflexivity.
Qed.

Lemma alast_nodup src k : NoDup (akeys src) -> alast src k = aget src k.
Proof.
  induction src as [|[a b] t IH]; cbn; intros H; auto.
  inversion H as [|? ? Hn Ht]; subst. rewrite (IH Ht).
  destruct (Nat.eqb k a) eqn:E; [|destruct (aget t k); reflexivity].
  apply Nat.eqb_eq in E. subst a. apply aget_none_notin in Hn. now rewrite Hn.
Qed.

(* ------------------------------------------------------------ reachable states of the value machine *)
Definition dstate_ok (s : dst) : Prop := NoDup (akeys (d_map s)).

Lemma dstep_ok s op : dstate_ok s -> dstate_ok (fst (dstep s op)).
Proof.
  unfold dstate_ok. intros H. destruct op; cbn; auto using nodup_aset, nodup_adel, nodup_amerge.
  - destruct (hget (d_objs s) r) as [[m|l]|]; cbn; auto using nodup_amerge.
  - constructor.
  - destruct (hget (d_objs s) r) as [[m|l]|]; cbn; auto.
  - destruct (hget (d_objs s) r) as [[m|l]|]; cbn; auto.
  - destruct (hget (d_objs s) r) as [[m|l]|]; cbn; auto.
  - destruct (hget (d_objs s) r) as [[m|l]|]; cbn; auto.
  - destruct (hget (d_objs s) r) as [[m|l]|]; cbn; auto.
  - destruct (hget (d_objs s) r) as [[m|l]|]; cbn; auto.
Qed.

Fixpoint dstates (s : dst) (ops : list sop) : dst :=
  match ops with [] => s | op :: rest => dstates (fst (dstep s op)) rest end.

Lemma dstates_ok ops : forall s, dstate_ok s -> dstate_ok (dstates s ops).
Proof. induction ops as [|op rest IH]; cbn; intros s H; auto. apply IH. now apply dstep_ok. Qed.

(* ------------------------------------------------------------ heap objects *)
Lemma hget_hset h r o r' : hget (hset h r o) r' = if Nat.eqb r' r then Some o else hget h r'.
Proof.
  induction h as [|[a b] t IH]; cbn.
  - destruct (Nat.eqb r' r); reflexivity.
  - destruct (Nat.eqb r a) eqn:Era; cbn.
    + apply Nat.eqb_eq in Era. subst a. destruct (Nat.eqb r' r); reflexivity.
    + destruct (Nat.eqb r' a) eqn:Er'a.
      * apply Nat.eqb_eq in Er'a. subst a. rewrite Nat.eqb_sym in Era. now rewrite Era.
      * exact IH.
Qed.

Lemma hget_app_new h r o r' :
  (forall x, hget h x <> None -> x < r) ->
  hget (h ++ [(r, o)]) r' = if Nat.eqb r' r then Some o else hget h r'.
Proof.
  intros Hlt. induction h as [|[a b] t IH]; cbn.
  - destruct (Nat.eqb r' r); reflexivity.
  - destruct (Nat.eqb r' a) eqn:E.
    + apply Nat.eqb_eq in E. subst a.
      assert (r' < r). { apply Hlt. cbn. rewrite Nat.eqb_refl. discriminate. }
      destruct (Nat.eqb r' r) eqn:E2; [apply Nat.eqb_eq in E2; lia|reflexivity].
    + apply IH. intros x Hx. apply Hlt. cbn. destruct (Nat.eqb x a); [discriminate|exact Hx].
Qed.

(* ------------------------------------------------------------ the refinement *)
(* handed: the references handed out so far.  The store's current object is never among them,
   every other object handed out has the same contents in both machines. *)
Record Rel (c : cst) (d : dst) (handed : list nat) : Prop := {
  R_next : c_next c = d_next d;
  R_cur : hget (c_heap c) (c_cur c) = Some (OM (d_map d));
  R_cur_lt : c_cur c < c_next c;
  R_bound_c : forall x, hget (c_heap c) x <> None -> x < c_next c;
  R_bound_d : forall x, hget (d_objs d) x <> None -> x < d_next d;
  R_fresh : ~ In (c_cur c) handed;
  R_objs : forall r, In r handed -> hget (c_heap c) r = hget (d_objs d) r /\ hget (d_objs d) r <> None
}.

Lemma rel_init : Rel cinit dinit [].
Proof.
  constructor; cbn; auto.
  - intros x. destruct (Nat.eqb x 0) eqn:E; [apply Nat.eqb_eq in E; lia|congruence].
  - intros x H. congruence.
  - intros r [].
Qed.

Lemma cur_map_rel c d h : Rel c d h -> cur_map c = d_map d.
Proof. intros R. unfold cur_map. now rewrite (R_cur _ _ _ R). Qed.

Lemma in_handed_b r handed : existsb (Nat.eqb r) handed = true -> In r handed.
Proof. intros H. apply existsb_exists in H. destruct H as [x [Hin E]]. apply Nat.eqb_eq in E. now subst. Qed.

(* store updates: the current object changes in place, nothing handed out is touched *)
Lemma rel_with_cur c d h m :
  Rel c d h ->
  Rel (with_cur c m) {| d_map := m; d_objs := d_objs d; d_next := d_next d |} h.
Proof.
  intros R. constructor; cbn.
  - apply R.
  - rewrite hget_hset, Nat.eqb_refl. reflexivity.
  - apply R.
  - intros x. rewrite hget_hset. destruct (Nat.eqb x (c_cur c)) eqn:E.
    + apply Nat.eqb_eq in E. subst x. intros _. apply R.
    + apply R.
  - apply R.
  - apply R.
  - intros r Hr. rewrite hget_hset. destruct (Nat.eqb r (c_cur c)) eqn:E.
    + apply Nat.eqb_eq in E. subst r. exfalso. apply (R_fresh _ _ _ R). exact Hr.
    + apply (R_objs _ _ _ R). exact Hr.
Qed.

(* the user mutates an object handed out: the store's object is another one *)
Lemma rel_with_obj c d h r o :
  Rel c d h -> In r h ->
  Rel (with_obj c r o) {| d_map := d_map d; d_objs := hset (d_objs d) r o; d_next := d_next d |} h.
Proof.
  intros R Hr.
  assert (Hne : r <> c_cur c) by (intros ->; apply (R_fresh _ _ _ R); exact Hr).
  destruct (R_objs _ _ _ R r Hr) as [Heq Hsome].
  constructor; cbn.
  - apply R.
  - rewrite hget_hset. destruct (Nat.eqb (c_cur c) r) eqn:E; [apply Nat.eqb_eq in E; congruence|apply R].
  - apply R.
  - intros x. rewrite hget_hset. destruct (Nat.eqb x r) eqn:E.
    + apply Nat.eqb_eq in E. subst x. intros _. apply (R_bound_c _ _ _ R). rewrite Heq. exact Hsome.
    + apply R.
  - intros x. rewrite hget_hset. destruct (Nat.eqb x r) eqn:E.
    + apply Nat.eqb_eq in E. subst x. intros _. apply (R_bound_d _ _ _ R). exact Hsome.
    + apply R.
  - apply R.
  - intros r' Hr'. rewrite !hget_hset. destruct (Nat.eqb r' r); [split; [reflexivity|discriminate]|].
    apply (R_objs _ _ _ R). exact Hr'.
Qed.

(* a new object is handed out *)
Lemma rel_alloc c d h o :
  Rel c d h ->
  Rel (alloc c o) {| d_map := d_map d; d_objs := d_objs d ++ [(d_next d, o)]; d_next := S (d_next d) |}
      (c_next c :: h).
Proof.
  intros R. pose proof (R_next _ _ _ R) as En.
  constructor; cbn.
  - now rewrite En.
  - rewrite hget_app_new by apply R.
    destruct (Nat.eqb (c_cur c) (c_next c)) eqn:E; [apply Nat.eqb_eq in E; pose proof (R_cur_lt _ _ _ R); lia|apply R].
  - pose proof (R_cur_lt _ _ _ R). lia.
  - intros x. rewrite hget_app_new by apply R. destruct (Nat.eqb x (c_next c)) eqn:E.
    + apply Nat.eqb_eq in E. lia.
    + intros H. pose proof (R_bound_c _ _ _ R x H). lia.
  - intros x. rewrite hget_app_new by apply R. destruct (Nat.eqb x (d_next d)) eqn:E.
    + apply Nat.eqb_eq in E. lia.
    + intros H. pose proof (R_bound_d _ _ _ R x H). lia.
  - intros [H|H]; [pose proof (R_cur_lt _ _ _ R); lia|apply (R_fresh _ _ _ R); exact H].
  - intros r [<-|Hr].
    + rewrite !hget_app_new by apply R. rewrite En, Nat.eqb_refl. split; [reflexivity|discriminate].
    + rewrite !hget_app_new by apply R. destruct (R_objs _ _ _ R r Hr) as [Heq Hs].
      assert (r < c_next c) by (apply (R_bound_c _ _ _ R); rewrite Heq; exact Hs).
      destruct (Nat.eqb r (c_next c)) eqn:E1; [apply Nat.eqb_eq in E1; lia|].
      destruct (Nat.eqb r (d_next d)) eqn:E2; [apply Nat.eqb_eq in E2; lia|]. auto.
Qed.

Lemma rel_clear c d h :
  Rel c d h ->
  Rel {| c_heap := c_heap c ++ [(c_next c, OM [])]; c_cur := c_next c; c_next := S (c_next c) |}
      {| d_map := []; d_objs := d_objs d; d_next := S (d_next d) |} h.
Proof.
  intros R. pose proof (R_next _ _ _ R) as En.
  constructor; cbn.
  - now rewrite En.
  - rewrite hget_app_new by apply R. now rewrite Nat.eqb_refl.
  - lia.
  - intros x. rewrite hget_app_new by apply R. destruct (Nat.eqb x (c_next c)) eqn:E.
    + apply Nat.eqb_eq in E. lia.
    + intros H. pose proof (R_bound_c _ _ _ R x H). lia.
  - intros x H. pose proof (R_bound_d _ _ _ R x H). lia.
  - intros Hin. destruct (R_objs _ _ _ R _ Hin) as [Heq Hs].
    assert (c_next c < c_next c) by (apply (R_bound_c _ _ _ R); rewrite Heq; exact Hs). lia.
  - intros r Hr. rewrite hget_app_new by apply R. destruct (R_objs _ _ _ R r Hr) as [Heq Hs].
    assert (r < c_next c) by (apply (R_bound_c _ _ _ R); rewrite Heq; exact Hs).
    destruct (Nat.eqb r (c_next c)) eqn:E1; [apply Nat.eqb_eq in E1; lia|]. auto.
Qed.

Lemma step_refines c d h op :
  Rel c d h ->
  (match op_ref op with Some r => In r h | None => True end) ->
  snd (cstep c op) = snd (dstep d op) /\
  Rel (fst (cstep c op)) (fst (dstep d op)) (if hands_out op then c_next c :: h else h).
Proof.
  intros R Href. pose proof (cur_map_rel _ _ _ R) as Em. pose proof (R_next _ _ _ R) as En.
  destruct op; cbn [cstep dstep fst snd hands_out op_ref] in *; rewrite ?Em.
  - split; [reflexivity|]. apply rel_with_cur. exact R.
  - split; [reflexivity|exact R].
  - split; [reflexivity|exact R].
  - split; [reflexivity|]. apply rel_with_cur. exact R.
  - split; [reflexivity|exact R].
  - split; [now rewrite En|]. apply rel_alloc. exact R.
  - split; [now rewrite En|]. apply rel_alloc. exact R.
  - split; [reflexivity|exact R].
  - split; [reflexivity|]. apply rel_with_cur. exact R.
  - destruct (R_objs _ _ _ R r Href) as [Heq _]. rewrite Heq.
    destruct (hget (d_objs d) r) as [[m|l]|]; cbn; rewrite ?Em; (split; [reflexivity|]); auto.
    apply rel_with_cur. exact R.
  - split; [reflexivity|]. apply rel_clear. exact R.
  - destruct (R_objs _ _ _ R r Href) as [Heq _]. rewrite Heq.
    destruct (hget (d_objs d) r) as [[m|l]|]; cbn; (split; [reflexivity|]); auto.
    apply rel_with_obj; auto.
  - destruct (R_objs _ _ _ R r Href) as [Heq _]. rewrite Heq.
    destruct (hget (d_objs d) r) as [[m|l]|]; cbn; (split; [reflexivity|]); auto.
    apply rel_with_obj; auto.
  - destruct (R_objs _ _ _ R r Href) as [Heq _]. rewrite Heq.
    destruct (hget (d_objs d) r) as [[m|l]|]; cbn; (split; [reflexivity|]); auto.
    apply rel_with_obj; auto.
  - destruct (R_objs _ _ _ R r Href) as [Heq _]. rewrite Heq.
    destruct (hget (d_objs d) r) as [[m|l]|]; cbn; (split; [reflexivity|]); auto.
    apply rel_with_obj; auto.
  - destruct (R_objs _ _ _ R r Href) as [Heq _]. rewrite Heq.
    destruct (hget (d_objs d) r) as [[m|l]|]; cbn; (split; [reflexivity|]); auto.
  - destruct (R_objs _ _ _ R r Href) as [Heq _]. rewrite Heq.
    destruct (hget (d_objs d) r) as [[m|l]|]; cbn; (split; [reflexivity|]); auto.
Qed.

Lemma next_after_step c op : c_next (fst (cstep c op)) = if allocates op then S (c_next c) else c_next c.
Proof.
  destruct op; cbn; auto;
    destruct (hget (c_heap c) r) as [[m|l]|]; cbn; auto.
Qed.

Lemma refines_lemma ops : forall c d h,
    Rel c d h -> wf_ops (c_next c) h ops = true -> crun c ops = drun d ops.
Proof.
  induction ops as [|op rest IH]; intros c d h R Hwf; cbn [crun drun]; [reflexivity|].
  cbn [wf_ops] in Hwf. apply andb_prop in Hwf. destruct Hwf as [Href Hrest].
  assert (Href' : match op_ref op with Some r => In r h | None => True end).
  { destruct (op_ref op); [apply in_handed_b; exact Href|exact I]. }
  destruct (step_refines c d h op R Href') as [Eo R'].
  destruct (cstep c op) as [c' rc] eqn:Ec. destruct (dstep d op) as [d' rd] eqn:Ed.
  cbn [fst snd] in *. subst rd. f_equal.
  eapply IH; [exact R'|].
  pose proof (next_after_step c op) as Hn. rewrite Ec in Hn. cbn [fst] in Hn. rewrite Hn. exact Hrest.
Qed.

(* C14, isolation: every answer of the heap machine equals the answer of the value machine *)
Lemma C14_isolated_lemma ops : wf_ops 1 [] ops = true -> crun cinit ops = drun dinit ops.
Proof. intros H. eapply refines_lemma; [apply rel_init|exact H]. Qed.

(* ------------------------------------------------------------ the predicate on the model *)
Lemma keys_eqb_refl l : keys_eqb l l = true.
Proof. induction l; cbn; auto. now rewrite Nat.eqb_refl. Qed.
Lemma amap_eqb_refl m : amap_eqb m m = true.
Proof. induction m as [|[a b] m IH]; cbn; auto. now rewrite !Nat.eqb_refl. Qed.
Lemma sret_eqb_refl x : sret_eqb x x = true.
Proof.
  destruct x; cbn; auto using Nat.eqb_refl, keys_eqb_refl, amap_eqb_refl, Bool.eqb_reflx.
  - destruct o; cbn; auto using Nat.eqb_refl.
  - now rewrite Nat.eqb_refl, keys_eqb_refl.
  - now rewrite Nat.eqb_refl, amap_eqb_refl.
Qed.
Lemma srets_eqb_refl l : srets_eqb l l = true.
Proof. induction l; cbn; auto. now rewrite sret_eqb_refl. Qed.

Lemma spec_C14_model_lemma ops : spec_C14 ops (crun cinit ops) = true.
Proof.
  unfold spec_C14. destruct (wf_ops 1 [] ops) eqn:H; auto.
  rewrite (C14_isolated_lemma _ H). apply srets_eqb_refl.
Qed.
