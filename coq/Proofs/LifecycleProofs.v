(* LifecycleProofs.v — every trace the engine model produces over a table of full user nodes
   and flows is accepted by the lifecycle monitor, with a final state matching the outcome. *)
From Flyt Require Import Base FlowTable Engine EngineFacts BaseFacts Lifecycle.

Section LP.
Variable o : oracle.
Variable conc_exec : ucfg -> nat -> bool -> nid -> ms -> list val -> ms * list val.
Variable tbl : table.

Lemma lrun_app : forall a b st canc,
    lrun tbl st canc (a ++ b) =
    match lrun tbl st canc a with
    | Some (st', c') => lrun tbl st' c' b
    | None => None
    end.
Proof.
  induction a as [|ev a IH]; intros b st canc; cbn [app lrun]; [reflexivity|].
  destruct (lstep tbl st canc ev); [apply IH|reflexivity].
Qed.

Lemma lrun_one st canc ev st' :
  lstep tbl st canc ev = Some st' ->
  lrun tbl st canc [ev] = Some (st', canc || ev_cancel ev).
Proof. intros H. cbn [lrun]. now rewrite H. Qed.

Definition final_ok (st : lst) (canc : bool) (oc : outcome) : Prop :=
  match oc with
  | Done _ => st = LIdle
  | Fail e => (exists cause, st = LDead cause /\ err_sim e cause = true)
              \/ (st = LIdle /\ ((class_of e = KCtx /\ canc = true) \/ class_of e = KFw))
  end.

Lemma final_ok_accept st canc oc : final_ok st canc oc -> laccept st canc oc = true.
Proof.
  destruct oc as [a|e]; cbn.
  - intros ->. reflexivity.
  - intros [[cause [-> H]]|[-> [[H1 H2]|H]]]; cbn; auto.
    + now rewrite H1.
    + now rewrite H.
Qed.

(* ------------------------------------------------------------ the retry loop *)
(* the monitor state at the top of loop iteration i *)
Definition mon_at (c : ucfg) (n : nid) (p : val) (i : nat) (last : val + err) (canc : bool) : lst :=
  match i, last with
  | 0, _ => LPrepd n p 0 None
  | S j, inr e => after_fail c n p j e canc
  | S j, inl _ => LIdle
  end.

Lemma full_user_full n c : full_user tbl n = Some c -> full c = true.
Proof.
  unfold full_user. destruct (tbl n) as [[c0| |]|]; try discriminate.
  destruct (full c0) eqn:E; intros H; inv H. exact E.
Qed.

Lemma full_parts c : full c = true ->
  has_prep c = true /\ has_exec c = true /\ has_post c = true /\ 1 <= fst (retry_of c).
Proof.
  unfold full. intros H. repeat (apply andb_prop in H; destruct H as [H ?]).
  repeat split; auto. now apply Nat.leb_le.
Qed.

Lemma retry_loop_lc sr swt wi c n w (Hc : full_user tbl n = Some c) :
  forall k i s p last s' ar,
    i + k = fst (retry_of c) ->
    (i = 0 -> cancelled s = false) ->
    (0 < i -> exists e, last = inr e) ->
    retry_loop o sr swt wi c n w k i s p last = (s', ar) ->
    exists evs st',
      log s' = log s ++ evs /\
      lrun tbl (mon_at c n p i last (cancelled s)) (cancelled s) evs = Some (st', cancelled s') /\
      match ar with
      | AAbort e => st' = LDead ECtx /\ class_of e = KCtx
      | ARes (inl x) => st' = LExecd n p x
      | ARes (inr e) => st' = match u_fb c with FbUser => LFb n p e | _ => LDead e end
      end.
Proof.
  pose proof (full_parts _ (full_user_full _ _ Hc)) as [_ [Hexec [_ HN1]]].
  induction k as [|k IH]; intros i s p last s' ar HN Hi0 Hlast H; cbn [retry_loop] in H.
  - (* budget used up: i = N >= 1 *)
    inv H. exists [], (mon_at c n p i last (cancelled s')).
    split; [now rewrite app_nil_r|]. split; [reflexivity|].
    destruct i as [|j]; [lia|]. destruct (Hlast ltac:(lia)) as [e ->]. cbn [mon_at].
    unfold after_fail. replace (Nat.ltb (S j) (fst (retry_of c))) with false
      by (symmetry; apply Nat.ltb_ge; lia). reflexivity.
  - destruct (cancelled s) eqn:Hcanc.
    + (* cancelled at the top of the loop: only possible after a failed attempt *)
      inv H. destruct i as [|j]; [now specialize (Hi0 eq_refl)|].
      destruct (Hlast ltac:(lia)) as [e ->]. cbn [mon_at]. unfold after_fail.
      replace (Nat.ltb (S j) (fst (retry_of c))) with true by (symmetry; apply Nat.ltb_lt; lia).
      rewrite Hcanc.
      exists [], (LDead ECtx). split; [now rewrite app_nil_r|]. split; [reflexivity|].
      split; reflexivity.
    + (* the monitor is in LPrepd n p i _ *)
      assert (Hmon : exists lm, mon_at c n p i last false = LPrepd n p i lm).
      { destruct i as [|j]; [eexists; reflexivity|].
        destruct (Hlast ltac:(lia)) as [e ->]. cbn [mon_at]. unfold after_fail.
        replace (Nat.ltb (S j) (fst (retry_of c))) with true by (symmetry; apply Nat.ltb_lt; lia).
        eexists; reflexivity. }
      destruct Hmon as [lm ->].
      assert (Hi : Nat.ltb i (fst (retry_of c)) = true) by (apply Nat.ltb_lt; lia).
      (* the body after the optional wait, from a state s1 that is not cancelled *)
      assert (Body : forall s1, cancelled s1 = false ->
         (let '(s2, r) := node_exec o c n s1 p in
          match r with
          | inl x => (s2, ARes (inl x))
          | inr e => retry_loop o sr swt wi c n w k (S i) s2 p (inr e)
          end) = (s', ar) ->
         exists evs st',
           log s' = log s1 ++ evs /\
           lrun tbl (LPrepd n p i lm) false evs = Some (st', cancelled s') /\
           match ar with
           | AAbort e => st' = LDead ECtx /\ class_of e = KCtx
           | ARes (inl x) => st' = LExecd n p x
           | ARes (inr e) => st' = match u_fb c with FbUser => LFb n p e | _ => LDead e end
           end).
      { intros s1 Hc1 HB. unfold node_exec in HB. rewrite Hexec in HB.
        destruct (emit o s1 (CExec n (exec_arg (u_exec c) p))) as [s2 r] eqn:Ee.
        apply emit_spec in Ee. destruct Ee as [cn [_ [L C]]]. rewrite Hc1 in C. cbn in C.
        assert (Hstep : lstep tbl (LPrepd n p i lm) false (CExec n (exec_arg (u_exec c) p), r, cn)
                        = Some (match ret_val r with
                                | inl v => LExecd n p (exec_ret (u_exec c) v)
                                | inr e => after_fail c n p i e cn
                                end))
          by (cbn [lstep]; rewrite Hc, Nat.eqb_refl, Hi, val_eqb_refl; reflexivity).
        destruct (ret_val r) as [v|e] eqn:Er; cbn [map_inl] in HB.
        - injection HB as Hs Ha; subst s' ar. eexists _, _. split; [exact L|]. split; [|reflexivity].
          erewrite lrun_one by exact Hstep. cbn. now rewrite C.
        - destruct (IH (S i) s2 p (inr e) s' ar ltac:(lia) ltac:(lia) ltac:(eauto) HB)
            as [evs [st' [L2 [R2 F2]]]].
          exists ((CExec n (exec_arg (u_exec c) p), r, cn) :: evs), st'.
          split; [|split; [|exact F2]].
          + rewrite L2, L, <- app_assoc. reflexivity.
          + cbn [lrun]. rewrite Hstep. cbn [mon_at] in R2. cbn. rewrite <- C. exact R2. }
      destruct (Nat.ltb 0 i && Nat.ltb 0 w).
      * destruct (emit o s (CWait n wi i)) as [sw rw] eqn:Ew.
        apply emit_spec in Ew. destruct Ew as [cnw [_ [Lw Cw]]]. rewrite Hcanc in Cw. cbn in Cw.
        destruct (cancelled sw) eqn:Hsw.
        -- injection H as Hs Ha; subst s' ar. subst cnw. eexists _, _. split; [exact Lw|]. split.
           ++ cbn [lrun lstep]. cbn. now rewrite Hsw.
           ++ split; reflexivity.
        -- subst cnw. destruct (Body sw Hsw H) as [evs [st' [L2 [R2 F2]]]].
           exists ((CWait n wi i, rw, false) :: evs), st'. split; [|split; [|exact F2]].
           ++ rewrite L2, Lw, <- app_assoc. reflexivity.
           ++ cbn [lrun lstep]. cbn. exact R2.
      * apply (Body s Hcanc H).
Qed.

Lemma attempts_lc c n w (Hc : full_user tbl n = Some c) :
  forall k i s p last s' ar,
    i + k = fst (retry_of c) ->
    (i = 0 -> cancelled s = false) ->
    (0 < i -> exists e, last = inr e) ->
    attempts o c n w k i s p last = (s', ar) ->
    exists evs st',
      log s' = log s ++ evs /\
      lrun tbl (mon_at c n p i last (cancelled s)) (cancelled s) evs = Some (st', cancelled s') /\
      match ar with
      | AAbort e => st' = LDead ECtx /\ class_of e = KCtx
      | ARes (inl x) => st' = LExecd n p x
      | ARes (inr e) => st' = match u_fb c with FbUser => LFb n p e | _ => LDead e end
      end.
Proof. unfold attempts. apply retry_loop_lc. exact Hc. Qed.

(* ------------------------------------------------------------ one visit *)
Definition LC (s s' : ms) (oc : outcome) : Prop :=
  exists evs st',
    log s' = log s ++ evs /\
    lrun tbl LIdle (cancelled s) evs = Some (st', cancelled s') /\
    final_ok st' (cancelled s') oc.

Lemma LC_nil s oc : final_ok LIdle (cancelled s) oc -> LC s s oc.
Proof. intros F. exists [], LIdle. rewrite app_nil_r. split; [reflexivity|]. split; [reflexivity|exact F]. Qed.

Lemma post_lc c n s p x s' ra (Hc : full_user tbl n = Some c) :
  node_post o c n s p x = (s', ra) ->
  exists ev, log s' = log s ++ [ev] /\
    lrun tbl (LExecd n p x) (cancelled s) [ev]
    = Some (match ra with inl _ => LIdle | inr e => LDead e end, cancelled s').
Proof.
  pose proof (full_parts _ (full_user_full _ _ Hc)) as [_ [_ [Hpost _]]].
  unfold node_post. rewrite Hpost. intros H.
  destruct (emit o s (CPost n VStore (post_p (u_post c) p) (post_x (u_post c) x))) as [s1 r] eqn:Ee.
  apply emit_spec in Ee. destruct Ee as [cn [_ [L C]]]. inv H.
  eexists. split; [exact L|].
  cbn [lrun lstep]. rewrite Hc, Nat.eqb_refl, !val_eqb_refl. cbn. now rewrite C.
Qed.

Definition LCf (s s' : ms) (oc : outcome) : Prop :=
  exists evs st',
    log s' = log s ++ evs /\
    lrun tbl LIdle false evs = Some (st', cancelled s') /\
    final_ok st' (cancelled s') oc.

Lemma LCf_LC s s' oc : cancelled s = false -> LCf s s' oc -> LC s s' oc.
Proof. intros Hc [evs [st' H]]. exists evs, st'. now rewrite Hc. Qed.

Lemma run_user_lc c n s s' oc :
  full_user tbl n = Some c -> run_user o c n s = (s', oc) -> LC s s' oc.
Proof.
  intros Hc. pose proof (full_parts _ (full_user_full _ _ Hc)) as [Hprep [_ [_ HN1]]].
  unfold run_user. destruct (cancelled s) eqn:Hcanc.
  { intros H; inv H. apply LC_nil. right. split; auto. }
  intros H. apply (LCf_LC _ _ _ Hcanc). revert H.
  unfold node_prep. rewrite Hprep.
  destruct (emit o s (CPrep n VStore)) as [s1 r] eqn:Ee.
  apply emit_spec in Ee. destruct Ee as [cn [_ [L1 C1]]]. rewrite Hcanc in C1. cbn in C1.
  assert (Hstep : lstep tbl LIdle false (CPrep n VStore, r, cn)
                  = Some (match ret_val r with
                          | inr e => LDead e
                          | inl v => if cn then LDead ECtx else LPrepd n (prep_ret (u_prep c) v) 0 None
                          end)).
  { cbn [lstep]. rewrite Hc. cbn. reflexivity. }
  destruct (ret_val r) as [v|e] eqn:Er; cbn [map_inl].
  2:{ intros H; injection H as Hs Ho; subst s' oc. eexists _, _. split; [exact L1|]. split.
      - erewrite lrun_one by exact Hstep. cbn. now rewrite C1.
      - left. exists e. split; auto. first [apply err_sim_wrap_refl | apply err_sim_refl]. }
  destruct (cancelled s1) eqn:Hc1.
  { intros H; injection H as Hs Ho; subst s' oc. eexists _, _. split; [exact L1|]. split.
    - erewrite lrun_one by exact Hstep. cbn. rewrite <- C1, Hc1. reflexivity.
    - left. exists ECtx. split; auto. }
  subst cn.
  destruct (retry_of c) as [N w] eqn:Hr.
  destruct (attempts o c n w N 0 s1 (prep_ret (u_prep c) v) (inl VNil)) as [s2 ar] eqn:Ea.
  pose proof (attempts_lc c n w Hc N 0 s1 (prep_ret (u_prep c) v) (inl VNil) s2 ar) as Hatt.
  rewrite Hr in Hatt. cbn [fst] in Hatt.
  destruct (Hatt eq_refl ltac:(auto) ltac:(lia) Ea) as [evs2 [st2 [L2 [R2 F2]]]].
  cbn [mon_at] in R2. rewrite Hc1 in R2.
  set (p := prep_ret (u_prep c) v) in *.
  (* everything up to the end of the retry loop *)
  assert (Pre : log s2 = log s ++ (CPrep n VStore, r, false) :: evs2 /\
                lrun tbl LIdle false ((CPrep n VStore, r, false) :: evs2) = Some (st2, cancelled s2)).
  { split; [rewrite L2, L1, <- app_assoc; reflexivity|].
    cbn [lrun]. rewrite Hstep. cbn. exact R2. }
  destruct Pre as [Lpre Rpre].
  (* the post phase from LExecd *)
  assert (Post : forall s3 x evs3,
             log s3 = log s ++ evs3 ->
             lrun tbl LIdle false evs3 = Some (LExecd n p x, cancelled s3) ->
             (let '(s4, ra) := node_post o c n s3 p x in
              match ra with
              | inr e => (s4, Fail (EWrap W_POST e))
              | inl a => (s4, Done (norm_act a))
              end) = (s', oc) -> LCf s s' oc).
  { intros s3 x evs3 L3 R3 H.
    destruct (node_post o c n s3 p x) as [s4 ra] eqn:Epo.
    destruct (post_lc _ _ _ _ _ _ _ Hc Epo) as [ev [L4 R4]].
    destruct ra as [a|e]; injection H as Hs Ho; subst s' oc.
    - exists (evs3 ++ [ev]), LIdle. split; [rewrite L4, L3, <- app_assoc; reflexivity|].
      split; [rewrite lrun_app, R3; exact R4|reflexivity].
    - exists (evs3 ++ [ev]), (LDead e). split; [rewrite L4, L3, <- app_assoc; reflexivity|].
      split; [rewrite lrun_app, R3; exact R4|].
      left. exists e. split; auto. apply err_sim_wrap_refl. }
  destruct ar as [e|[x|e]].
  - (* aborted by the context *)
    intros H; injection H as Hs Ho; subst s' oc. destruct F2 as [-> Hk].
    eexists _, _. split; [exact Lpre|]. split; [exact Rpre|].
    left. exists ECtx. split; auto. unfold err_sim. now rewrite Hk.
  - (* an attempt succeeded *)
    subst st2. intros H. eapply Post; eauto.
  - (* all attempts failed *)
    destruct (u_fb c) eqn:Hfb.
    + intros H; injection H as Hs Ho; subst s' oc.
      eexists _, _. split; [exact Lpre|]. split; [exact Rpre|].
      left. exists e. split; auto. first [apply err_sim_wrap_refl | apply err_sim_refl].
    + unfold node_fallback. rewrite Hfb. intros H; injection H as Hs Ho; subst s' oc.
      eexists _, _. split; [exact Lpre|]. split; [exact Rpre|].
      left. exists e. split; auto. first [apply err_sim_wrap_refl | apply err_sim_refl].
    + unfold node_fallback. rewrite Hfb.
      destruct (emit o s2 (CFallback n p e)) as [s3 rf] eqn:Ef.
      apply emit_spec in Ef. destruct Ef as [cnf [_ [L3 C3]]].
      assert (Hfs : lstep tbl (LFb n p e) (cancelled s2) (CFallback n p e, rf, cnf)
                    = Some (match ret_val rf with inl v => LExecd n p v | inr e2 => LDead e2 end)).
      { cbn [lstep]. rewrite Hc, Nat.eqb_refl, val_eqb_refl, err_sim_refl. reflexivity. }
      subst st2.
      assert (R3 : lrun tbl LIdle false (((CPrep n VStore, r, false) :: evs2) ++ [(CFallback n p e, rf, cnf)])
                   = Some (match ret_val rf with inl v => LExecd n p v | inr e2 => LDead e2 end, cancelled s3)).
      { rewrite lrun_app, Rpre. erewrite lrun_one by exact Hfs. cbn. now rewrite C3. }
      assert (L3' : log s3 = log s ++ ((CPrep n VStore, r, false) :: evs2) ++ [(CFallback n p e, rf, cnf)]).
      { rewrite L3, Lpre, <- app_assoc. reflexivity. }
      destruct (ret_val rf) as [v2|e2] eqn:Erf.
      * intros H. eapply Post; eauto.
      * intros H; injection H as Hs Ho; subst s' oc.
        eexists _, _. split; [exact L3'|]. split; [exact R3|].
        left. exists e2. split; auto. first [apply err_sim_wrap_refl | apply err_sim_refl].
Qed.

(* ------------------------------------------------------------ flows *)
Lemma flow_loop_lc runf tm :
  (forall s n s' oc, runf s n = Some (s', oc) -> LC s s' oc) ->
  forall g s cur s' r,
    flow_loop runf tm g s cur = Some (s', r) ->
    exists evs st',
      log s' = log s ++ evs /\
      lrun tbl LIdle (cancelled s) evs = Some (st', cancelled s') /\
      match r with
      | inl _ => st' = LIdle
      | inr e => final_ok st' (cancelled s') (Fail e)
      end.
Proof.
  intros Hrun. induction g as [|g IH]; intros s cur s' r H; cbn [flow_loop] in H; [discriminate|].
  destruct (cancelled s) eqn:Hcanc.
  { inv H. exists [], LIdle. rewrite app_nil_r. split; [reflexivity|].
    split; [cbn [lrun]; now rewrite Hcanc|].
    right. split; auto. }
  destruct (runf s cur) as [[s1 [a|e]]|] eqn:Er; [| |discriminate].
  - apply Hrun in Er. destruct Er as [evs1 [st1 [L1 [R1 F1]]]]. cbn in F1. subst st1.
    rewrite Hcanc in R1.
    destruct (lookup2 tm cur a) as [[nxt|]|].
    + destruct (IH _ _ _ _ H) as [evs2 [st2 [L2 [R2 F2]]]].
      exists (evs1 ++ evs2), st2. split; [rewrite L2, L1, <- app_assoc; reflexivity|].
      split; [|exact F2]. rewrite lrun_app, R1. exact R2.
    + inv H. exists evs1, LIdle. auto.
    + inv H. exists evs1, LIdle. auto.
  - apply Hrun in Er. destruct Er as [evs1 [st1 [L1 [R1 F1]]]]. inv H.
    rewrite Hcanc in R1. exists evs1, st1. auto.
Qed.

Lemma final_ok_wrap st canc site e :
  final_ok st canc (Fail e) -> final_ok st canc (Fail (EWrap site e)).
Proof. unfold final_ok. rewrite class_of_wrap. intros [[c [H1 H2]]|H]; [left|right; exact H].
  exists c. split; auto. Qed.

Lemma run_flow_lc runf g start conns :
  (forall s n s' oc, runf s n = Some (s', oc) -> LC s s' oc) ->
  forall s s' oc, run_flow runf g start conns s = Some (s', oc) -> LC s s' oc.
Proof.
  intros Hrun s s' oc. unfold run_flow. destruct (cancelled s) eqn:Hcanc.
  { intros H; inv H. apply LC_nil. right. split; auto. }
  destruct start as [st|].
  - destruct (flow_loop runf (build conns) g s st) as [[s1 [a|e]]|] eqn:El; [| |discriminate].
    + destruct (flow_loop_lc _ _ Hrun _ _ _ _ _ El) as [evs [st' [L [R F]]]].
      subst st'. intros H; inv H. exists evs, LIdle. split; auto. split; auto; reflexivity.
    + destruct (flow_loop_lc _ _ Hrun _ _ _ _ _ El) as [evs [st' [L [R F]]]].
      intros H; inv H. exists evs, st'. split; [exact L|]. split; [exact R|].
      apply final_ok_wrap. exact F.
  - intros H; inv H. apply LC_nil. right. split; auto.
Qed.

Hypothesis full_table : forall n d, tbl n = Some d -> full_def d = true.

Lemma run_lc : forall fuel s n s' oc,
    run o conc_exec tbl fuel s n = Some (s', oc) -> LC s s' oc.
Proof.
  induction fuel as [|f IH]; intros s n s' oc H; cbn [run] in H; [discriminate|].
  destruct (tbl n) as [[c|start conns|c conc stop]|] eqn:Ht.
  - inv H. eapply run_user_lc; eauto. unfold full_user. rewrite Ht.
    apply full_table in Ht. cbn in Ht. now rewrite Ht.
  - eapply run_flow_lc; eauto.
  - apply full_table in Ht. discriminate.
  - inv H. apply LC_nil. right. split; auto.
Qed.

Lemma lifecycle_ok_model fuel s n s' oc :
  run o conc_exec tbl fuel s n = Some (s', oc) ->
  exists evs, log s' = log s ++ evs /\ lifecycle_ok tbl (cancelled s) evs oc = true.
Proof.
  intros H. destruct (run_lc _ _ _ _ _ H) as [evs [st' [L [R F]]]].
  exists evs. split; auto. unfold lifecycle_ok. rewrite R. now apply final_ok_accept.
Qed.

End LP.
