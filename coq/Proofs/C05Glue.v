(* C05Glue.v - instantiations of invariants at reachable states and other short steps behind the
   theorems of Properties/C05.v (kept out of that file, which holds statements only). *)
From Flyt Require Import Base Script FlowTable Engine EngineCorr EngineFacts Lifecycle
     LifecycleProofs SpecEngine EngineSpecProofs.


Lemma C05_no_new_work_glue :
  forall (o : oracle) ce (tbl : table),
    (forall n d, tbl n = Some d -> full_def d = true) ->
    forall fuel s n s' oc,
      run o ce tbl fuel s n = Some (s', oc) ->
      exists evs, log s' = log s ++ evs /\
                  no_new_work_after_cancel (fun _ => true) (cancelled s) evs = true /\
                  lifecycle_ok tbl (cancelled s) evs oc = true.
Proof.
  intros o ce tbl Hf fuel s n s' oc H.
  destruct (run_lc o ce tbl Hf _ _ _ _ _ H) as [evs [st [L [R F]]]].
  exists evs. split; [exact L|]. split; [eapply lrun_no_new_work; eauto|].
  unfold lifecycle_ok. rewrite R. now apply final_ok_accept.
Qed.
