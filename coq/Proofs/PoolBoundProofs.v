(* PoolBoundProofs.v — "submission blocks rather than drops when the queue is full", as a bound that
   holds at every instant of every schedule: the tasks whose Submit has returned and that have
   not finished are in the queue or on a worker, so there are never more of them than
   queue capacity + workers.  (blocks_ok of Corr/PoolCorr.v checks exactly this at the
   quiescent points of the implementation.) *)
From Flyt Require Import Pool PoolCorr PoolProofs.
From Coq Require Import Permutation Lia.

Section Bound.
Variable qcap : nat.


Lemma busy_le ws : length (busy_tasks ws) <= length ws.
Proof. unfold busy_tasks. induction ws as [|w ws IH]; cbn [flat_map length]; [lia|]. rewrite app_length. destruct w; cbn [length]; lia. Qed.

Lemma pstep_queue s t s' : length (p_queue s) <= qcap -> pstep qcap s t = Some s' -> length (p_queue s') <= qcap.
Proof.
  intros Hq H. destruct t as [j|k|k|]; cbn [pstep] in H.
  - destruct (nth_error (p_subs s) j) as [x|]; [|discriminate].
    destruct (s_ops x) as [|[tk| | |] rest]; try discriminate.
    + destruct (s_adding x).
      * destruct (Nat.ltb (length (p_queue s)) qcap) eqn:E; [|discriminate].
        inversion H; subst; cbn. rewrite app_length. cbn. apply Nat.ltb_lt in E. lia.
      * inversion H; subst; cbn. exact Hq.
    + destruct (Nat.eqb (p_wg s) 0); inversion H; subst; cbn; exact Hq.
    + destruct (all_done s); inversion H; subst; cbn; exact Hq.
    + inversion H; subst; cbn; exact Hq.
  - destruct (nth_error (p_ws s) k) as [[|tk|]|]; try discriminate.
    + destruct (p_queue s) as [|tk rest] eqn:Eq; [discriminate|]. inversion H; subst; cbn. cbn in Hq. lia.
    + inversion H; subst; cbn. exact Hq.
  - destruct (nth_error (p_ws s) k) as [[|tk|]|]; try discriminate.
    destruct (p_closed s); inversion H; subst; cbn; exact Hq.
  - inversion H; subst; cbn; exact Hq.
Qed.

Lemma pstep_ws_len s t s' : pstep qcap s t = Some s' -> length (p_ws s') = length (p_ws s).
Proof.
  intros H. destruct t as [j|k|k|]; cbn [pstep] in H.
  - destruct (nth_error (p_subs s) j) as [x|]; [|discriminate].
    destruct (s_ops x) as [|[tk| | |] rest]; try discriminate.
    + destruct (s_adding x).
      * destruct (Nat.ltb (length (p_queue s)) qcap); inversion H; subst; reflexivity.
      * inversion H; subst; reflexivity.
    + destruct (Nat.eqb (p_wg s) 0); inversion H; subst; reflexivity.
    + destruct (all_done s); inversion H; subst; reflexivity.
    + inversion H; subst; reflexivity.
  - destruct (nth_error (p_ws s) k) as [[|tk|]|]; try discriminate.
    + destruct (p_queue s); inversion H; subst; cbn. apply set_nth_len.
    + inversion H; subst; cbn. apply set_nth_len.
  - destruct (nth_error (p_ws s) k) as [[|tk|]|]; try discriminate.
    destruct (p_closed s); inversion H; subst; cbn. apply set_nth_len.
  - inversion H; subst; reflexivity.
Qed.

Lemma prun_queue sched : forall s,
  length (p_queue s) <= qcap ->
  length (p_queue (prun qcap s sched)) <= qcap /\ length (p_ws (prun qcap s sched)) = length (p_ws s).
Proof.
  induction sched as [|t rest IH]; intros s Hq; cbn [prun]; [auto|].
  destruct (pstep qcap s t) as [s'|] eqn:E; [|auto].
  destruct (IH s' (pstep_queue _ _ _ Hq E)) as [H1 H2]. split; [exact H1|].
  rewrite H2. eapply pstep_ws_len; eauto.
Qed.

(* submission blocks: at every instant of every schedule, the tasks whose Submit has returned and
   that have not ended number at most queue capacity + workers *)
Lemma outstanding_bounded_lemma progs workers sched :
  NoDup (flat_map (fun ops => flat_map (fun o => match o with PSubmit t => [t] | _ => [] end) ops) progs) ->
  let s := prun qcap (pinit progs workers) sched in
  length (p_added s) - length (pending_sends (p_subs s)) - length (ends (p_log s)) <= qcap + workers.
Proof.
  intros Hnd s.
  pose proof (prun_inv qcap sched _ (pinit_inv progs workers Hnd)) as I. fold s in I.
  destruct (prun_queue sched (pinit progs workers)) as [Hq Hw]; [cbn; lia|]. fold s in Hq, Hw.
  cbn [pinit p_ws] in Hw. rewrite repeat_length in Hw.
  pose proof (busy_le (p_ws s)) as Hb.
  assert (Hlen : length (p_added s) =
                 length (pending_sends (p_subs s)) + length (p_queue s) + length (busy_tasks (p_ws s)) + length (ends (p_log s))).
  { pose proof (P_cons _ I) as Hperm. apply perm_len in Hperm. unfold whereabouts in Hperm.
    rewrite !app_length in Hperm. lia. }
  lia.
Qed.

End Bound.
