(* C11Glue.v - instantiations of invariants at reachable states and other short steps behind the
   theorems of Properties/C11.v (kept out of that file, which holds statements only). *)
From Flyt Require Import Base Script FlowTable Engine BatchConc EngineCorr EngineFacts
     ItemMon BatchConcInv BatchConcItems BatchConcStop BatchConcLive.


Lemma C11_terminates_no_deadlock_glue :
  forall (o : oracle) c nd (items : list val) stopmode nworkers qcap,
    0 < nworkers -> 0 < qcap ->
    forall s0 sched,
      let s := brun o c nd items stopmode qcap (binit items nworkers s0) sched in
      mpc s <> MRet -> exists t, t <> TCancel /\ t <> TNote /\ bstep o c nd items stopmode qcap s t <> None.
Proof.
  intros o c nd items stopmode nworkers qcap Hw Hq s0 sched s Hm.
  apply (no_deadlock_lemma o c nd items stopmode nworkers qcap Hw Hq); auto.
  - apply brun_inv. apply binit_inv.
  - apply brun_exit. apply binit_exit.
Qed.
