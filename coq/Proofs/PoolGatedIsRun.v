(* PoolGatedIsRun.v — the gated schedule that produces the pool model's log in the correspondence
   check (quiesce, note, release one running task) is one of the schedules the theorems of C12
   quantify over. *)
From Flyt Require Import Pool PoolCorr PoolProofs PoolBoundProofs.
From Coq Require Import Permutation Lia.

Section PG.
Variable qcap : nat.
Notation pstep := (pstep qcap).
Notation prun := (prun qcap).

Lemma prun_app a : forall s b, prun s (a ++ b) = prun (prun s a) b.
Proof.
  induction a as [|t a IH]; intros s b; cbn [app Pool.prun]; [reflexivity|].
  destruct (pstep s t); apply IH.
Qed.

Lemma pquiesce_is_prun fuel : forall s, exists sched, pquiesce qcap fuel s = prun s sched.
Proof.
  induction fuel as [|f IH]; intros s; cbn [pquiesce].
  - exists []. reflexivity.
  - destruct (find (internal_en qcap s) (all_ptids s)) as [t|].
    + destruct (pstep s t) as [s'|] eqn:E.
      * destruct (IH s') as [sched H]. exists (t :: sched). cbn [Pool.prun]. rewrite E. exact H.
      * exists []. reflexivity.
    + exists []. reflexivity.
Qed.

Lemma pgated_is_prun fuel rel : forall s, exists sched, pgated qcap fuel rel s = prun s sched.
Proof.
  induction fuel as [|f IH]; intros s; cbn [pgated].
  - exists []. reflexivity.
  - destruct (pquiesce_is_prun 4096 s) as [sched0 H0].
    set (s0 := pquiesce qcap 4096 s) in *.
    destruct (pchoose rel (busy_tasks (p_ws s0))) as [t|]; [|exists sched0; exact H0].
    match goal with |- context [worker_of (p_ws ?S1) t 0] => set (s1 := S1) in * end.
    assert (Hn : pstep s0 TObs = Some s1) by reflexivity.
    assert (H1 : s1 = prun s (sched0 ++ [TObs])).
    { rewrite prun_app, <- H0. cbn [Pool.prun]. rewrite Hn. reflexivity. }
    destruct (worker_of (p_ws s1) t 0) as [k|]; [|exists (sched0 ++ [TObs]); exact H1].
    destruct (pstep s1 (TWrk k)) as [s2|] eqn:E2; [|exists (sched0 ++ [TObs]); exact H1].
    destruct (IH s2) as [sched2 H2].
    exists ((sched0 ++ [TObs]) ++ TWrk k :: sched2).
    rewrite prun_app, <- H1. cbn [Pool.prun]. rewrite E2. exact H2.
Qed.

End PG.

(* the model log of the correspondence check is the log of a schedule: conservation, exactly once
   and the bound on outstanding tasks hold of it *)
Lemma model_plog_is_a_run (sc : pscen) :
  exists sched,
    let w := pool_workers (ps_workers sc) in
    model_plog sc = p_log (prun (2 * w) (pinit [ps_ops sc] w) sched).
Proof.
  unfold model_plog. cbn zeta.
  destruct (pgated_is_prun (2 * pool_workers (ps_workers sc)) (4 + 2 * length (ps_ops sc)) (ps_rel sc)
              (pinit [ps_ops sc] (pool_workers (ps_workers sc)))) as [sched H].
  exists sched. rewrite H. reflexivity.
Qed.

(* ------------------------------------------------------------ blocks_ok holds of every run *)
(* the walk that the check applies to the implementation's log (Corr/PoolCorr.v: at every note,
   Submit calls returned - tasks ended <= workers + queue) holds of the log of EVERY schedule,
   hence of the model log of the correspondence check *)
Lemma blocks_ok_app w l1 : forall l2 n,
  blocks_ok w (l1 ++ l2) n = blocks_ok w l1 n && blocks_ok w l2 (n + length (ends l1)).
Proof.
  induction l1 as [|e l1 IH]; intros l2 n; cbn [app blocks_ok ends flat_map length].
  - now rewrite Nat.add_0_r.
  - destruct e; cbn [app length]; rewrite ?IH, ?app_length; cbn [length];
      rewrite ?Bool.andb_assoc; try reflexivity.
    + f_equal. f_equal. unfold ends. lia.
Qed.

Section Walk.
Variable workers : nat.
Notation qc := (2 * workers).

Record WInv (s : pst) : Prop := {
  W_p : PInv s;
  W_q : length (p_queue s) <= qc;
  W_w : length (p_ws s) = workers;
  W_b : blocks_ok workers (p_log s) 0 = true
}.

Lemma outstanding_le s : PInv s -> length (p_queue s) <= qc -> length (p_ws s) = workers ->
  length (p_added s) - length (pending_sends (p_subs s)) - length (ends (p_log s)) <= workers + qc.
Proof.
  intros I Hq Hw. pose proof (busy_le (p_ws s)) as Hb.
  pose proof (P_cons _ I) as Hperm. apply perm_len in Hperm. unfold whereabouts in Hperm.
  rewrite !app_length in Hperm. lia.
Qed.

Lemma pstep_log s t s' : pstep qc s t = Some s' -> exists evs, p_log s' = p_log s ++ evs /\
  (evs = [] \/ (exists x, evs = [EvStart x]) \/ (exists x, evs = [EvEnd x]) \/ (exists j, evs = [EvWaitReturn j]) \/
   evs = [EvSubmitted (length (p_added s) - length (pending_sends (p_subs s))); EvPark (sort_nats (busy_tasks (p_ws s)))]).
Proof.
  intros H. destruct t as [j|k|k|]; cbn [pstep] in H.
  - destruct (nth_error (p_subs s) j) as [x|]; [|discriminate].
    destruct (s_ops x) as [|[tk| | |] rest]; try discriminate.
    + destruct (s_adding x).
      * destruct (Nat.ltb (length (p_queue s)) qc); inversion H; subst; cbn. exists []. rewrite app_nil_r. auto.
      * inversion H; subst; cbn. exists []. rewrite app_nil_r. auto.
    + destruct (Nat.eqb (p_wg s) 0); inversion H; subst; cbn. eexists. split; [reflexivity|]. right; right; right; left. eauto.
    + destruct (all_done s); inversion H; subst; cbn. exists []. rewrite app_nil_r. auto.
    + inversion H; subst; cbn. exists []. rewrite app_nil_r. auto.
  - destruct (nth_error (p_ws s) k) as [[|tk|]|]; try discriminate.
    + destruct (p_queue s) as [|tk rest]; inversion H; subst; cbn. eexists. split; [reflexivity|]. right; left. eauto.
    + inversion H; subst; cbn. eexists. split; [reflexivity|]. right; right; left. eauto.
  - destruct (nth_error (p_ws s) k) as [[|tk|]|]; try discriminate.
    destruct (p_closed s); inversion H; subst; cbn. exists []. rewrite app_nil_r. auto.
  - inversion H; subst; cbn. eexists. split; [reflexivity|]. right; right; right; right. reflexivity.
Qed.

Lemma pstep_winv s t s' : WInv s -> pstep qc s t = Some s' -> WInv s'.
Proof.
  intros [Ip Iq Iw Ib] H. constructor.
  - eapply pstep_inv; eauto.
  - eapply pstep_queue; eauto.
  - rewrite (pstep_ws_len _ _ _ _ H). exact Iw.
  - destruct (pstep_log _ _ _ H) as [evs [L Hev]]. rewrite L, blocks_ok_app, Ib. cbn [andb].
    destruct Hev as [->|[[x ->]|[[x ->]|[[j ->]| ->]]]]; cbn [blocks_ok]; try reflexivity.
    rewrite Bool.andb_true_r. apply Nat.leb_le. cbn [Nat.add].
    pose proof (outstanding_le s Ip Iq Iw). lia.
Qed.

Lemma prun_winv sched : forall s, WInv s -> WInv (prun qc s sched).
Proof.
  induction sched as [|t rest IH]; intros s I; cbn [prun]; auto.
  destruct (pstep qc s t) as [s'|] eqn:E; auto. apply IH. eapply pstep_winv; eauto.
Qed.

End Walk.

Lemma blocks_ok_every_run progs workers sched :
  NoDup (flat_map (fun ops => flat_map (fun o => match o with PSubmit t => [t] | _ => [] end) ops) progs) ->
  blocks_ok workers (p_log (prun (2 * workers) (pinit progs workers) sched)) 0 = true.
Proof.
  intros Hnd. apply (W_b workers). apply prun_winv. constructor.
  - apply pinit_inv. exact Hnd.
  - cbn. lia.
  - cbn. apply repeat_length.
  - reflexivity.
Qed.

Lemma blocks_ok_model_log (sc : pscen) :
  NoDup (flat_map (fun o => match o with PSubmit t => [t] | _ => [] end) (ps_ops sc)) ->
  blocks_ok (pool_workers (ps_workers sc)) (model_plog sc) 0 = true.
Proof.
  intros Hnd. destruct (model_plog_is_a_run sc) as [sched H]. cbn zeta in H. rewrite H.
  apply blocks_ok_every_run. cbn [flat_map]. rewrite app_nil_r. exact Hnd.
Qed.
