(* PoolGatedIsRun.v — the gated schedule that produces the pool model's log in the correspondence
   check (quiesce, note, release one running task) is one of the schedules the theorems of C12
   quantify over. *)
From Flyt Require Import Pool PoolCorr PoolProofs PoolBoundProofs.
From Coq Require Import Permutation Lia.

Section PG.
Variable qcap : nat.
Notation pstep := (pstep qcap).
Notation prun := (prun qcap).

Lemma prun_app a : forall s b, prun s (a ++ b) = prun (prun s a) b.
Proof.
  induction a as [|t a IH]; intros s b; cbn [app Pool.prun]; [reflexivity|].
  destruct (pstep s t); apply IH.
Qed.

Lemma pquiesce_is_prun fuel : forall s, exists sched, pquiesce qcap fuel s = prun s sched.
Proof.
  induction fuel as [|f IH]; intros s; cbn [pquiesce].
  - exists []. reflexivity.
  - destruct (find (internal_en qcap s) (all_ptids s)) as [t|].
    + destruct (pstep s t) as [s'|] eqn:E.
      * destruct (IH s') as [sched H]. exists (t :: sched). cbn [Pool.prun]. rewrite E. exact H.
      * exists []. reflexivity.
    + exists []. reflexivity.
Qed.

Lemma pgated_is_prun fuel rel : forall s, exists sched, pgated qcap fuel rel s = prun s sched.
Proof.
  induction fuel as [|f IH]; intros s; cbn [pgated].
  - exists []. reflexivity.
  - destruct (pquiesce_is_prun 4096 s) as [sched0 H0].
    set (s0 := pquiesce qcap 4096 s) in *.
    destruct (pchoose rel (busy_tasks (p_ws s0))) as [t|]; [|exists sched0; exact H0].
    match goal with |- context [worker_of (p_ws ?S1) t 0] => set (s1 := S1) in * end.
    assert (Hn : pstep s0 TObs = Some s1) by reflexivity.
    assert (H1 : s1 = prun s (sched0 ++ [TObs])).
    { rewrite prun_app, <- H0. cbn [Pool.prun]. rewrite Hn. reflexivity. }
    destruct (worker_of (p_ws s1) t 0) as [k|]; [|exists (sched0 ++ [TObs]); exact H1].
    destruct (pstep s1 (TWrk k)) as [s2|] eqn:E2; [|exists (sched0 ++ [TObs]); exact H1].
    destruct (IH s2) as [sched2 H2].
    exists ((sched0 ++ [TObs]) ++ TWrk k :: sched2).
    rewrite prun_app, <- H1. cbn [Pool.prun]. rewrite E2. exact H2.
Qed.

End PG.

(* the model log of the correspondence check is the log of a schedule: conservation, exactly once
   and the bound on outstanding tasks hold of it *)
Lemma model_plog_is_a_run (sc : pscen) :
  exists sched,
    let w := pool_workers (ps_workers sc) in
    model_plog sc = p_log (prun (2 * w) (pinit [ps_ops sc] w) sched).
Proof.
  unfold model_plog. cbn zeta.
  destruct (pgated_is_prun (2 * pool_workers (ps_workers sc)) (4 + 2 * length (ps_ops sc)) (ps_rel sc)
              (pinit [ps_ops sc] (pool_workers (ps_workers sc)))) as [sched H].
  exists sched. rewrite H. reflexivity.
Qed.
