(* BatchConcInv.v — invariants of the transition system of Model/BatchConc.v that hold in every
   state reachable under EVERY schedule: the bookkeeping of the pool (queue counters, the
   WaitGroup counter, who runs what) and what follows from it. *)
From Flyt Require Import Base FlowTable Engine BatchConc EngineFacts.
From Coq Require Import Lia.

(* ------------------------------------------------------------ lists *)
Lemma set_nth_length {A} (l : list A) i x : length (set_nth l i x) = length l.
Proof. revert i; induction l as [|h t IH]; intros [|i]; cbn; auto. Qed.

Lemma nth_error_set_nth_eq {A} (l : list A) i x :
  i < length l -> nth_error (set_nth l i x) i = Some x.
Proof. revert i; induction l as [|h t IH]; intros [|i] H; cbn in *; try lia; auto. apply IH. lia. Qed.

Lemma nth_error_set_nth_ne {A} (l : list A) i j x :
  i <> j -> nth_error (set_nth l i x) j = nth_error l j.
Proof.
  revert i j; induction l as [|h t IH]; intros [|i] [|j] H; cbn; auto; try congruence;
    try (apply IH; congruence).
Qed.

Lemma nth_error_lt {A} (l : list A) i x : nth_error l i = Some x -> i < length l.
Proof. intros H. apply nth_error_Some. congruence. Qed.

Lemma nth_set_nth_eq {A} (l : list A) i x d : i < length l -> nth i (set_nth l i x) d = x.
Proof. revert i; induction l as [|h t IH]; intros [|i] H; cbn in *; try lia; auto. apply IH. lia. Qed.

Lemma nth_set_nth_ne {A} (l : list A) i j x d : i <> j -> nth j (set_nth l i x) d = nth j l d.
Proof.
  revert i j; induction l as [|h t IH]; intros [|i] [|j] H; cbn; auto; try congruence;
    try (apply IH; congruence).
Qed.

Definition is_run (w : wstate) : bool := match w with WRun _ _ => true | _ => false end.
Definition count_run (l : list wstate) : nat := length (filter is_run l).

Lemma count_run_set_nth l k w w0 :
  nth_error l k = Some w0 ->
  count_run (set_nth l k w) + (if is_run w0 then 1 else 0) = count_run l + (if is_run w then 1 else 0).
Proof.
  unfold count_run. revert k; induction l as [|h t IH]; intros [|k] H; cbn in *; try discriminate.
  - inv H. destruct (is_run w), (is_run w0); cbn; lia.
  - specialize (IH _ H). destruct (is_run h); cbn; lia.
Qed.

Lemma filter_len_le {A} (f : A -> bool) l : length (filter f l) <= length l.
Proof. induction l as [|h t IH]; cbn; auto. destruct (f h); cbn; lia. Qed.

Lemma parked_length c (l : list wstate) :
  length (flat_map (fun w => match parked_call c w with Some p => [p] | None => [] end) l) <= length l.
Proof.
  induction l as [|w t IH]; cbn [flat_map]; auto. destruct (parked_call c w); cbn; lia.
Qed.

(* ------------------------------------------------------------ the invariant *)
Section Inv.
Variable o : oracle.
Variable c : ucfg.
Variable nd : nid.
Variable items : list val.
Variable stopmode : bool.
Variable nworkers : nat.
Variable qcap : nat.

Notation n := (length items).
Notation bstep := (bstep o c nd items stopmode qcap).
Notation brun := (brun o c nd items stopmode qcap).
Notation task_step := (task_step o c nd items stopmode).

Definition slot_at (s : bst) (i : nat) : option val := nth i (slots s) None.

Definition running (s : bst) (i : nat) (pc : tpc) : Prop :=
  exists k, nth_error (ws s) k = Some (WRun i pc).

Record BInv (s : bst) : Prop := {
  I_ws : length (ws s) = nworkers;
  I_slots : length (slots s) = n;
  I_ilog : length (ilog s) = n;
  I_deq : deq s <= enq s;
  I_enq : enq s <= n;
  I_add : adding s = true -> enq s < n /\ mpc s = MLoop;
  I_wg : wgc s = (enq s - deq s) + count_run (ws s) + (if adding s then 1 else 0);
  I_run : forall k i pc, nth_error (ws s) k = Some (WRun i pc) -> i < deq s;
  I_inj : forall k k' i pc pc',
      nth_error (ws s) k = Some (WRun i pc) -> nth_error (ws s) k' = Some (WRun i pc') -> k = k';
  (* a slot is written exactly when its task is past its record step *)
  I_slot_none : forall i, deq s <= i -> slot_at s i = None;
  I_slot_run : forall i pc, running s i pc -> (slot_at s i <> None <-> pc = PDone);
  I_slot_fin : forall i, i < deq s -> (forall pc, ~ running s i pc) -> slot_at s i <> None;
  I_main : mpc s <> MLoop -> enq s = n /\ adding s = false;
  I_closed : (mpc s = MClose \/ mpc s = MRet) -> wgc s = 0
}.

Lemma binit_inv s0 : BInv (binit items nworkers s0).
Proof.
  constructor; cbn; rewrite ?repeat_length; auto; try lia; try discriminate.
  - unfold count_run. induction nworkers; cbn; auto.
  - intros k i pc H. apply nth_error_In in H. apply repeat_spec in H. discriminate.
  - intros k k' i pc pc' H. apply nth_error_In in H. apply repeat_spec in H. discriminate.
  - intros i _. unfold slot_at. cbn. apply nth_repeat.
  - intros i pc [k H]. cbn in H. apply nth_error_In in H. apply repeat_spec in H. discriminate.
  - intros H. contradiction.
Qed.

(* running through set_nth *)
Lemma running_set_w s k w i pc :
  k < length (ws s) ->
  running (set_w s k w) i pc <->
  (w = WRun i pc \/ exists k', k' <> k /\ nth_error (ws s) k' = Some (WRun i pc)).
Proof.
  intros Hk. unfold running. cbn [ws set_w]. split.
  - intros [k' H]. destruct (Nat.eq_dec k k') as [->|Hne].
    + rewrite nth_error_set_nth_eq in H by exact Hk. inv H. auto.
    + rewrite nth_error_set_nth_ne in H by exact Hne. right. exists k'. auto.
  - intros [->|[k' [Hne H]]].
    + exists k. apply nth_error_set_nth_eq. exact Hk.
    + exists k'. rewrite nth_error_set_nth_ne; auto.
Qed.

Lemma slot_none_dec (x : option val) : x = None \/ x <> None.
Proof. destruct x; [right; discriminate|left; reflexivity]. Qed.

(* U1: worker k moves its task from pc to pc' (neither is PDone); base, ilog and the stop flag
   may change *)
Lemma upd_pc s s' k i pc pc' :
  BInv s -> nth_error (ws s) k = Some (WRun i pc) -> pc <> PDone -> pc' <> PDone ->
  enq s' = enq s -> adding s' = adding s -> mpc s' = mpc s -> deq s' = deq s ->
  slots s' = slots s -> wgc s' = wgc s -> length (ilog s') = length (ilog s) ->
  ws s' = set_nth (ws s) k (WRun i pc') -> BInv s'.
Proof.
  intros I Hk Hpc Hpc' E1 E2 E3 E4 E5 E6 E7 E8.
  pose proof (nth_error_lt _ _ _ Hk) as Hlt.
  assert (Hrun' : forall i' pc'', running s' i' pc'' ->
             (i' = i /\ pc'' = pc') \/ (i' <> i /\ running s i' pc'')).
  { intros i' pc'' [k' H]. rewrite E8 in H. destruct (Nat.eq_dec k k') as [->|Hne].
    - rewrite nth_error_set_nth_eq in H by exact Hlt. inv H. auto.
    - rewrite nth_error_set_nth_ne in H by exact Hne.
      destruct (Nat.eq_dec i' i) as [->|Hi]; [|right; split; [exact Hi|exists k'; exact H]].
      exfalso. apply Hne. symmetry. eapply (I_inj _ I); eauto. }
  constructor.
  - rewrite E8, set_nth_length. apply I.
  - rewrite E5. apply I.
  - rewrite E7. apply I.
  - rewrite E1, E4. apply I.
  - rewrite E1. apply I.
  - rewrite E1, E2, E3. apply I.
  - rewrite E6, E1, E4, E2, E8.
    pose proof (count_run_set_nth _ _ (WRun i pc') _ Hk) as Hc. cbn in Hc.
    rewrite (I_wg _ I). lia.
  - intros k' i' pc'' H. rewrite E8 in H. rewrite E4. destruct (Nat.eq_dec k k') as [->|Hne].
    + rewrite nth_error_set_nth_eq in H by exact Hlt. inv H. eapply (I_run _ I); eauto.
    + rewrite nth_error_set_nth_ne in H by exact Hne. eapply (I_run _ I); eauto.
  - intros k1 k2 i' p1 p2 H1 H2. rewrite E8 in H1, H2.
    destruct (Nat.eq_dec k k1) as [<-|N1]; destruct (Nat.eq_dec k k2) as [<-|N2]; auto.
    + rewrite nth_error_set_nth_eq in H1 by exact Hlt. rewrite nth_error_set_nth_ne in H2 by exact N2.
      inv H1. eapply (I_inj _ I); eauto.
    + rewrite nth_error_set_nth_eq in H2 by exact Hlt. rewrite nth_error_set_nth_ne in H1 by exact N1.
      inv H2. eapply (I_inj _ I); eauto.
    + rewrite nth_error_set_nth_ne in H1 by exact N1. rewrite nth_error_set_nth_ne in H2 by exact N2.
      eapply (I_inj _ I); eauto.
  - intros i' H. unfold slot_at. rewrite E5. rewrite E4 in H. apply (I_slot_none _ I). exact H.
  - intros i' pc'' H. unfold slot_at. rewrite E5.
    destruct (Hrun' _ _ H) as [[-> ->]|[Hi Hr]].
    + split; [|intros; contradiction]. intros Hs. exfalso.
      apply (I_slot_run _ I i pc (ex_intro _ k Hk)) in Hs. contradiction.
    + apply (I_slot_run _ I). exact Hr.
  - intros i' Hlt' Hnr. unfold slot_at. rewrite E5. rewrite E4 in Hlt'.
    apply (I_slot_fin _ I); auto. intros pc'' [k' Hr].
    destruct (Nat.eq_dec k k') as [<-|Hne].
    + rewrite Hk in Hr. inv Hr. apply (Hnr pc'). exists k. rewrite E8. apply nth_error_set_nth_eq. exact Hlt.
    + apply (Hnr pc''). exists k'. rewrite E8. rewrite nth_error_set_nth_ne; auto.
  - rewrite E3, E1, E2. apply I.
  - rewrite E3, E6. apply I.
Qed.

(* U2: worker k writes slot i and moves to PDone *)
Lemma upd_write s s' k i pc v :
  BInv s -> nth_error (ws s) k = Some (WRun i pc) -> pc <> PDone ->
  enq s' = enq s -> adding s' = adding s -> mpc s' = mpc s -> deq s' = deq s ->
  slots s' = set_nth (slots s) i (Some v) -> wgc s' = wgc s -> length (ilog s') = length (ilog s) ->
  ws s' = set_nth (ws s) k (WRun i PDone) -> BInv s'.
Proof.
  intros I Hk Hpc E1 E2 E3 E4 E5 E6 E7 E8.
  pose proof (nth_error_lt _ _ _ Hk) as Hlt.
  pose proof (I_run _ I _ _ _ Hk) as Hi_deq.
  assert (Hi_n : i < n) by (pose proof (I_deq _ I); pose proof (I_enq _ I); lia).
  assert (Hslot : forall j, slot_at s' j = if Nat.eq_dec i j then Some v else slot_at s j).
  { intros j. unfold slot_at. rewrite E5. destruct (Nat.eq_dec i j) as [->|Hne].
    - apply nth_set_nth_eq. rewrite (I_slots _ I). exact Hi_n.
    - apply nth_set_nth_ne. exact Hne. }
  assert (Hrun' : forall i' pc'', running s' i' pc'' ->
             (i' = i /\ pc'' = PDone) \/ (i' <> i /\ running s i' pc'')).
  { intros i' pc'' [k' H]. rewrite E8 in H. destruct (Nat.eq_dec k k') as [->|Hne].
    - rewrite nth_error_set_nth_eq in H by exact Hlt. inv H. auto.
    - rewrite nth_error_set_nth_ne in H by exact Hne.
      destruct (Nat.eq_dec i' i) as [->|Hi]; [|right; split; [exact Hi|exists k'; exact H]].
      exfalso. apply Hne. symmetry. eapply (I_inj _ I); eauto. }
  constructor.
  - rewrite E8, set_nth_length. apply I.
  - rewrite E5, set_nth_length. apply I.
  - rewrite E7. apply I.
  - rewrite E1, E4. apply I.
  - rewrite E1. apply I.
  - rewrite E1, E2, E3. apply I.
  - rewrite E6, E1, E4, E2, E8.
    pose proof (count_run_set_nth _ _ (WRun i PDone) _ Hk) as Hc. cbn in Hc.
    rewrite (I_wg _ I). lia.
  - intros k' i' pc'' H. rewrite E8 in H. rewrite E4. destruct (Nat.eq_dec k k') as [->|Hne].
    + rewrite nth_error_set_nth_eq in H by exact Hlt. inv H. exact Hi_deq.
    + rewrite nth_error_set_nth_ne in H by exact Hne. eapply (I_run _ I); eauto.
  - intros k1 k2 i' p1 p2 H1 H2. rewrite E8 in H1, H2.
    destruct (Nat.eq_dec k k1) as [<-|N1]; destruct (Nat.eq_dec k k2) as [<-|N2]; auto.
    + rewrite nth_error_set_nth_eq in H1 by exact Hlt. rewrite nth_error_set_nth_ne in H2 by exact N2.
      inv H1. eapply (I_inj _ I); eauto.
    + rewrite nth_error_set_nth_eq in H2 by exact Hlt. rewrite nth_error_set_nth_ne in H1 by exact N1.
      inv H2. eapply (I_inj _ I); eauto.
    + rewrite nth_error_set_nth_ne in H1 by exact N1. rewrite nth_error_set_nth_ne in H2 by exact N2.
      eapply (I_inj _ I); eauto.
  - intros i' H. rewrite Hslot. rewrite E4 in H. destruct (Nat.eq_dec i i') as [<-|_]; [lia|].
    apply (I_slot_none _ I). exact H.
  - intros i' pc'' H. rewrite Hslot.
    destruct (Hrun' _ _ H) as [[-> ->]|[Hi Hr]].
    + destruct (Nat.eq_dec i i); [|contradiction]. split; auto. discriminate.
    + destruct (Nat.eq_dec i i') as [<-|_]; [contradiction|]. apply (I_slot_run _ I). exact Hr.
  - intros i' Hlt' Hnr. rewrite Hslot. rewrite E4 in Hlt'.
    destruct (Nat.eq_dec i i') as [<-|Hne]; [discriminate|].
    apply (I_slot_fin _ I); auto. intros pc'' [k' Hr].
    destruct (Nat.eq_dec k k') as [<-|Hnk].
    + rewrite Hk in Hr. inv Hr. contradiction.
    + apply (Hnr pc''). exists k'. rewrite E8. rewrite nth_error_set_nth_ne; auto.
  - rewrite E3, E1, E2. apply I.
  - rewrite E3, E6. apply I.
Qed.

(* U3: the task on worker k is done: wg.Done(), the worker is idle again *)
Lemma upd_done s s' k i :
  BInv s -> nth_error (ws s) k = Some (WRun i PDone) ->
  enq s' = enq s -> adding s' = adding s -> mpc s' = mpc s -> deq s' = deq s ->
  slots s' = slots s -> wgc s' = wgc s - 1 -> length (ilog s') = length (ilog s) ->
  ws s' = set_nth (ws s) k WIdle -> BInv s'.
Proof.
  intros I Hk E1 E2 E3 E4 E5 E6 E7 E8.
  pose proof (nth_error_lt _ _ _ Hk) as Hlt.
  assert (Hrun' : forall i' pc'', running s' i' pc'' -> i' <> i /\ running s i' pc'').
  { intros i' pc'' [k' H]. rewrite E8 in H. destruct (Nat.eq_dec k k') as [->|Hne].
    - rewrite nth_error_set_nth_eq in H by exact Hlt. discriminate.
    - rewrite nth_error_set_nth_ne in H by exact Hne. split; [|exists k'; exact H].
      intros ->. apply Hne. symmetry. eapply (I_inj _ I); eauto. }
  pose proof (count_run_set_nth _ _ WIdle _ Hk) as Hc. cbn in Hc.
  constructor.
  - rewrite E8, set_nth_length. apply I.
  - rewrite E5. apply I.
  - rewrite E7. apply I.
  - rewrite E1, E4. apply I.
  - rewrite E1. apply I.
  - rewrite E1, E2, E3. apply I.
  - rewrite E6, E1, E4, E2, E8. rewrite (I_wg _ I). lia.
  - intros k' i' pc'' H. rewrite E8 in H. rewrite E4. destruct (Nat.eq_dec k k') as [->|Hne].
    + rewrite nth_error_set_nth_eq in H by exact Hlt. discriminate.
    + rewrite nth_error_set_nth_ne in H by exact Hne. eapply (I_run _ I); eauto.
  - intros k1 k2 i' p1 p2 H1 H2. rewrite E8 in H1, H2.
    destruct (Nat.eq_dec k k1) as [<-|N1]; [rewrite nth_error_set_nth_eq in H1 by exact Hlt; discriminate|].
    destruct (Nat.eq_dec k k2) as [<-|N2]; [rewrite nth_error_set_nth_eq in H2 by exact Hlt; discriminate|].
    rewrite nth_error_set_nth_ne in H1 by exact N1. rewrite nth_error_set_nth_ne in H2 by exact N2.
    eapply (I_inj _ I); eauto.
  - intros i' H. unfold slot_at. rewrite E5. rewrite E4 in H. apply (I_slot_none _ I). exact H.
  - intros i' pc'' H. unfold slot_at. rewrite E5. destruct (Hrun' _ _ H) as [_ Hr].
    apply (I_slot_run _ I). exact Hr.
  - intros i' Hlt' Hnr. unfold slot_at. rewrite E5. rewrite E4 in Hlt'.
    destruct (Nat.eq_dec i' i) as [->|Hne].
    + apply (I_slot_run _ I i PDone (ex_intro _ k Hk)). reflexivity.
    + apply (I_slot_fin _ I); auto. intros pc'' [k' Hr].
      destruct (Nat.eq_dec k k') as [<-|Hnk].
      * rewrite Hk in Hr. inv Hr. contradiction.
      * apply (Hnr pc''). exists k'. rewrite E8. rewrite nth_error_set_nth_ne; auto.
  - rewrite E3, E1, E2. apply I.
  - rewrite E3, E6. intros H. rewrite (I_closed _ I H). reflexivity.
Qed.

(* U4: an idle worker receives the next item *)
Lemma upd_recv s s' k :
  BInv s -> nth_error (ws s) k = Some WIdle -> deq s < enq s ->
  enq s' = enq s -> adding s' = adding s -> mpc s' = mpc s -> deq s' = S (deq s) ->
  slots s' = slots s -> wgc s' = wgc s -> length (ilog s') = length (ilog s) ->
  ws s' = set_nth (ws s) k (WRun (deq s) PStop) -> BInv s'.
Proof.
  intros I Hk Hq E1 E2 E3 E4 E5 E6 E7 E8.
  pose proof (nth_error_lt _ _ _ Hk) as Hlt.
  pose proof (count_run_set_nth _ _ (WRun (deq s) PStop) _ Hk) as Hc. cbn in Hc.
  assert (Hold : forall k' i pc, nth_error (ws s) k' = Some (WRun i pc) -> k' <> k /\ i < deq s).
  { intros k' i pc H. split; [intros ->; rewrite Hk in H; discriminate|eapply (I_run _ I); eauto]. }
  constructor.
  - rewrite E8, set_nth_length. apply I.
  - rewrite E5. apply I.
  - rewrite E7. apply I.
  - rewrite E1, E4. lia.
  - rewrite E1. apply I.
  - rewrite E1, E2, E3. apply I.
  - rewrite E6, E1, E4, E2, E8. rewrite (I_wg _ I). lia.
  - intros k' i' pc'' H. rewrite E8 in H. rewrite E4. destruct (Nat.eq_dec k k') as [->|Hne].
    + rewrite nth_error_set_nth_eq in H by exact Hlt. inv H. lia.
    + rewrite nth_error_set_nth_ne in H by exact Hne. pose proof (I_run _ I _ _ _ H). lia.
  - intros k1 k2 i' p1 p2 H1 H2. rewrite E8 in H1, H2.
    destruct (Nat.eq_dec k k1) as [<-|N1]; destruct (Nat.eq_dec k k2) as [<-|N2]; auto.
    + rewrite nth_error_set_nth_eq in H1 by exact Hlt. rewrite nth_error_set_nth_ne in H2 by exact N2.
      inv H1. pose proof (I_run _ I _ _ _ H2). lia.
    + rewrite nth_error_set_nth_eq in H2 by exact Hlt. rewrite nth_error_set_nth_ne in H1 by exact N1.
      inv H2. pose proof (I_run _ I _ _ _ H1). lia.
    + rewrite nth_error_set_nth_ne in H1 by exact N1. rewrite nth_error_set_nth_ne in H2 by exact N2.
      eapply (I_inj _ I); eauto.
  - intros i' H. unfold slot_at. rewrite E5. rewrite E4 in H. apply (I_slot_none _ I). lia.
  - intros i' pc'' [k' H]. unfold slot_at. rewrite E5. rewrite E8 in H.
    destruct (Nat.eq_dec k k') as [<-|Hne].
    + rewrite nth_error_set_nth_eq in H by exact Hlt. inv H.
      split; [|discriminate]. intros Hs. exfalso. apply Hs. apply (I_slot_none _ I). lia.
    + rewrite nth_error_set_nth_ne in H by exact Hne. apply (I_slot_run _ I). exists k'. exact H.
  - intros i' Hlt' Hnr. unfold slot_at. rewrite E5. rewrite E4 in Hlt'.
    destruct (Nat.eq_dec i' (deq s)) as [->|Hne].
    + exfalso. apply (Hnr PStop). exists k. rewrite E8. apply nth_error_set_nth_eq. exact Hlt.
    + apply (I_slot_fin _ I); [lia|]. intros pc'' [k' Hr].
      destruct (Hold _ _ _ Hr) as [Hnk _].
      apply (Hnr pc''). exists k'. rewrite E8. rewrite nth_error_set_nth_ne; auto.
  - rewrite E3, E1, E2. apply I.
  - rewrite E3, E6. apply I.
Qed.

(* U5: steps that leave ws and slots alone *)
Lemma upd_main s s' :
  BInv s -> ws s' = ws s -> slots s' = slots s -> length (ilog s') = length (ilog s) -> deq s' = deq s ->
  deq s <= enq s' -> enq s' <= n ->
  (adding s' = true -> enq s' < n /\ mpc s' = MLoop) ->
  wgc s' = (enq s' - deq s) + count_run (ws s) + (if adding s' then 1 else 0) ->
  (mpc s' <> MLoop -> enq s' = n /\ adding s' = false) ->
  ((mpc s' = MClose \/ mpc s' = MRet) -> wgc s' = 0) ->
  BInv s'.
Proof.
  intros I E1 E2 E3 E4 H1 H2 H3 H4 H5 H6.
  constructor; unfold slot_at, running; rewrite ?E1, ?E2, ?E3, ?E4; auto; try apply I.
Qed.

Lemma upd_exit s s' k :
  BInv s -> nth_error (ws s) k = Some WIdle ->
  enq s' = enq s -> adding s' = adding s -> mpc s' = mpc s -> deq s' = deq s ->
  slots s' = slots s -> wgc s' = wgc s -> length (ilog s') = length (ilog s) ->
  ws s' = set_nth (ws s) k WExit -> BInv s'.
Proof.
  intros I Hk E1 E2 E3 E4 E5 E6 E7 E8.
  pose proof (nth_error_lt _ _ _ Hk) as Hlt.
  pose proof (count_run_set_nth _ _ WExit _ Hk) as Hc. cbn in Hc.
  assert (Hsame : forall k' i pc, nth_error (ws s') k' = Some (WRun i pc) <-> nth_error (ws s) k' = Some (WRun i pc)).
  { intros k' i pc. rewrite E8. destruct (Nat.eq_dec k k') as [<-|Hne].
    - rewrite nth_error_set_nth_eq by exact Hlt. rewrite Hk. split; discriminate.
    - rewrite nth_error_set_nth_ne by exact Hne. reflexivity. }
  assert (Hrun : forall i pc, running s' i pc <-> running s i pc).
  { intros i pc. unfold running. split; intros [k' H]; exists k'; apply Hsame; exact H. }
  constructor.
  - rewrite E8, set_nth_length. apply I.
  - rewrite E5. apply I.
  - rewrite E7. apply I.
  - rewrite E1, E4. apply I.
  - rewrite E1. apply I.
  - rewrite E1, E2, E3. apply I.
  - rewrite E6, E1, E4, E2, E8. rewrite (I_wg _ I). lia.
  - intros k' i pc H. rewrite E4. apply Hsame in H. eapply (I_run _ I); eauto.
  - intros k1 k2 i p1 p2 H1 H2. apply Hsame in H1. apply Hsame in H2. eapply (I_inj _ I); eauto.
  - intros i H. unfold slot_at. rewrite E5. rewrite E4 in H. apply (I_slot_none _ I). exact H.
  - intros i pc H. unfold slot_at. rewrite E5. apply Hrun in H. apply (I_slot_run _ I). exact H.
  - intros i Hlt' Hnr. unfold slot_at. rewrite E5. rewrite E4 in Hlt'. apply (I_slot_fin _ I); auto.
    intros pc Hr. apply (Hnr pc). apply Hrun. exact Hr.
  - rewrite E3, E1, E2. apply I.
  - rewrite E3, E6. apply I.
Qed.

Lemma app_nth_length {A} (l : list (list A)) i x : length (app_nth l i x) = length l.
Proof. unfold app_nth. apply set_nth_length. Qed.

(* ------------------------------------------------------------ every step preserves the invariant *)
Lemma task_step_inv s k i pc :
  BInv s -> nth_error (ws s) k = Some (WRun i pc) -> BInv (task_step s k i pc).
Proof.
  intros I Hk. destruct pc; cbn [BatchConc.task_step].
  - destruct (stopf s && stopmode).
    + eapply upd_write with (s := s) (k := k) (i := i) (pc := PStop); eauto; try reflexivity; discriminate.
    + eapply upd_pc with (s := s) (k := k) (i := i) (pc := PStop) (pc' := PCtx); eauto; try reflexivity; discriminate.
  - destruct (cancelled (base s)).
    + eapply upd_write with (s := s) (k := k) (i := i) (pc := PCtx); eauto; try reflexivity; discriminate.
    + eapply upd_pc with (s := s) (k := k) (i := i) (pc := PCtx); eauto; try reflexivity; discriminate.
  - destruct (Nat.leb (budget c) k0).
    + destruct last.
      * eapply upd_pc with (s := s) (k := k) (i := i); eauto; try reflexivity; discriminate.
      * destruct (u_fb c); eapply upd_pc with (s := s) (k := k) (i := i); eauto; try reflexivity; discriminate.
    + destruct (cancelled (base s)).
      * eapply upd_pc with (s := s) (k := k) (i := i); eauto; try reflexivity; discriminate.
      * destruct (Nat.ltb 0 k0 && Nat.ltb 0 (waitd c));
          eapply upd_pc with (s := s) (k := k) (i := i); eauto; try reflexivity; discriminate.
  - destruct (emit o (base s) (CWait nd (wait_item (item_at items i)) k0)) as [b r].
    destruct (cancelled b);
      eapply upd_pc with (s := s) (k := k) (i := i); eauto; try reflexivity; try discriminate;
      cbn; apply app_nth_length.
  - destruct (node_exec o c nd (base s) (item_at items i)) as [b [x|e]];
      eapply upd_pc with (s := s) (k := k) (i := i); eauto; try reflexivity; try discriminate;
      cbn; apply app_nth_length.
  - destruct (node_fallback o c nd (base s) (item_at items i) e) as [b r].
    eapply upd_pc with (s := s) (k := k) (i := i); eauto; try reflexivity; try discriminate.
    cbn. apply app_nth_length.
  - eapply upd_write with (s := s) (k := k) (i := i) (pc := PRec r); eauto; try reflexivity; discriminate.
  - eapply upd_done with (s := s) (k := k) (i := i); eauto; reflexivity.
Qed.

Ltac proj := cbn [enq adding mpc deq ws slots stopf wgc closed base ilog].
Ltac fin := proj; auto; try lia; try discriminate;
            try (let X := fresh in intros X; exfalso; apply X; reflexivity);
            try (intros [?|?]; discriminate).

Lemma bstep_inv s t s' : BInv s -> bstep s t = Some s' -> BInv s'.
Proof.
  intros I H. destruct t as [|k|k| |]; cbn [BatchConc.bstep] in H; unfold nitems in H.
  - pose proof (I_deq _ I) as Hde. pose proof (I_enq _ I) as Hen. pose proof (I_wg _ I) as Hwg.
    destruct (mpc s) eqn:Hm.
    + destruct (adding s) eqn:Ha.
      * destruct (Nat.ltb (enq s - deq s) qcap) eqn:Hq; inv H.
        destruct (I_add _ I Ha) as [Hlt _].
        apply upd_main with (s := s); fin.
      * destruct (Nat.ltb (enq s) n) eqn:Hlt; inv H.
        -- apply Nat.ltb_lt in Hlt. apply upd_main with (s := s); fin.
        -- apply Nat.ltb_ge in Hlt. apply upd_main with (s := s); fin;
             try (intros _; split; auto; lia).
    + destruct (Nat.eqb (wgc s) 0) eqn:Hw; inv H. apply Nat.eqb_eq in Hw.
      destruct (I_main _ I) as [He Ha]; [rewrite Hm; discriminate|].
      apply upd_main with (s := s); fin; rewrite Ha in *; try discriminate; try lia.
    + inv H. destruct (I_main _ I) as [He Ha]; [rewrite Hm; discriminate|].
      assert (Hw : wgc s = 0) by (apply (I_closed _ I); left; exact Hm).
      apply upd_main with (s := s); fin; rewrite Ha in *; try discriminate; try lia.
    + discriminate.
  - destruct (nth_error (ws s) k) as [[|i pc|]|] eqn:Hk; try discriminate.
    + destruct (Nat.ltb (deq s) (enq s)) eqn:Hq; inv H. apply Nat.ltb_lt in Hq.
      eapply upd_recv with (s := s) (k := k); eauto; reflexivity.
    + inv H. apply task_step_inv; auto.
  - destruct (nth_error (ws s) k) as [[|i pc|]|] eqn:Hk; try discriminate.
    destruct (closed s); inv H.
    eapply upd_exit with (s := s) (k := k); eauto; reflexivity.
  - inv H. apply upd_main with (s := s); proj; auto; try apply I.
  - inv H. apply upd_main with (s := s); unfold note_park; proj; auto; try apply I.
Qed.

Lemma brun_inv sched : forall s, BInv s -> BInv (brun s sched).
Proof.
  induction sched as [|t rest IH]; intros s I; cbn [BatchConc.brun]; auto.
  destruct (bstep s t) as [s'|] eqn:E; auto. apply IH. eapply bstep_inv; eauto.
Qed.

(* ------------------------------------------------------------ consequences, for every schedule *)

(* C08: never more than `workers` exec calls (nor tasks) in flight *)
Lemma inflight_bound s : BInv s -> length (parked c s) <= nworkers /\ count_run (ws s) <= nworkers.
Proof.
  intros I. split.
  - unfold parked. rewrite <- (I_ws _ I). apply parked_length.
  - unfold count_run. rewrite <- (I_ws _ I). apply filter_len_le.
Qed.

(* C06: the submitter passes Wait only when every item is settled: all n slots are written and
   no task is running or queued *)
Lemma wait_is_barrier s :
  BInv s -> (mpc s = MClose \/ mpc s = MRet) ->
  deq s = n /\ count_run (ws s) = 0 /\ forall i, i < n -> slot_at s i <> None.
Proof.
  intros I Hm. pose proof (I_closed _ I Hm) as Hw. rewrite (I_wg _ I) in Hw.
  destruct (I_main _ I) as [He Ha]; [destruct Hm as [-> | ->]; discriminate|].
  pose proof (I_deq _ I). rewrite Ha in Hw.
  assert (Hd : deq s = n) by lia. assert (Hc : count_run (ws s) = 0) by lia.
  split; [exact Hd|]. split; [exact Hc|].
  intros i Hi. apply (I_slot_fin _ I); [lia|].
  intros pc [k Hk]. apply nth_error_In in Hk.
  unfold count_run in Hc. apply length_zero_iff_nil in Hc.
  assert (Hin : In (WRun i pc) (filter is_run (ws s))) by (apply filter_In; split; auto).
  rewrite Hc in Hin. contradiction.
Qed.

(* C12-style bookkeeping: the WaitGroup counter counts exactly the tasks submitted and not yet
   finished *)
Lemma wg_counts s :
  BInv s -> wgc s = (enq s - deq s) + count_run (ws s) + (if adding s then 1 else 0).
Proof. intros I. apply I. Qed.

(* every item is handed to at most one worker, and only after it was sent *)
Lemma one_worker_per_item s k k' i pc pc' :
  BInv s -> nth_error (ws s) k = Some (WRun i pc) -> nth_error (ws s) k' = Some (WRun i pc') -> k = k'.
Proof. intros I. apply I. Qed.

End Inv.
