(* C02Proofs.v — the retry budget is exact: counting exec attempts in the trace of the retry
   loop (flyt.go:719-738) and of its batch copy (batch.go:317-334). *)
From Flyt Require Import Base Script FlowTable Engine EngineCorr EngineFacts BaseFacts SpecEngine.

Lemma first_ok_fail e l j : resp_ok e = false -> first_ok (e :: l) j = first_ok l (S j).
Proof. intros H. cbn. now rewrite H. Qed.

Lemma filter_snoc {A} (f : A -> bool) l x :
  filter f (l ++ [x]) = filter f l ++ (if f x then [x] else []).
Proof. rewrite filter_app. reflexivity. Qed.

Section C02.
Variable o : oracle.

(* what the trace of the retry loop looks like when nothing cancels the context *)
Definition loop_result (n : nid) (k j : nat) (last : val + err) (evs : list event) (ar : ares) : Prop :=
  let ex := filter (is_exec_of n) evs in
  match ar with
  | AAbort _ => False
  | ARes (inl x) => (k = 0 /\ ex = [] /\ last = inl x) \/
                   (1 <= length ex <= k /\ first_ok ex j = j + length ex - 1)
  | ARes (inr e) => (k = 0 /\ ex = [] /\ last = inr e) \/
                   (0 < k /\ length ex = k /\ first_ok ex j = 0 /\
                    exists pre c' cn, ex = pre ++ [(c', RErr e, cn)])
  end.

Lemma node_exec_event c n s arg s' r :
  has_exec c = true ->
  node_exec o c n s arg = (s', r) ->
  exists ev, log s' = log s ++ [ev] /\ is_exec_of n ev = true /\ is_fb_of n ev = false /\
             cancelled s' = cancelled s || ev_cancel ev /\
             resp_ok ev = (match r with inl _ => true | inr _ => false end) /\
             (forall e, r = inr e -> exists c' cn, ev = (c', RErr e, cn)).
Proof.
  unfold node_exec. intros -> H.
  destruct (emit o s (CExec n (exec_arg (u_exec c) arg))) as [s1 r1] eqn:E.
  apply emit_spec in E. destruct E as [cn [_ [L C]]]. inv H.
  eexists. split; [exact L|]. unfold is_exec_of, is_fb_of, resp_ok. cbn.
  rewrite Nat.eqb_refl. split; [reflexivity|]. split; [reflexivity|]. split; [exact C|].
  split; [destruct r1; reflexivity|].
  intros e He. destruct r1; cbn in He; inv He. eauto.
Qed.

Lemma retry_loop_count sr swt wi c n w (Hex : has_exec c = true) :
  forall k i s p last s' ar j,
    retry_loop o sr swt wi c n w k i s p last = (s', ar) ->
    exists evs, log s' = log s ++ evs /\ filter (is_fb_of n) evs = [] /\
                (cancelled s = false -> existsb ev_cancel evs = false -> loop_result n k j last evs ar).
Proof.
  induction k as [|k IH]; intros i s p last s' ar j H; cbn [retry_loop] in H.
  - inv H. exists []. rewrite app_nil_r. repeat split; auto. intros _ _. cbn.
    destruct last; left; auto.
  - destruct (cancelled s) eqn:Hc.
    { inv H. exists []. rewrite app_nil_r. repeat split; auto. intros Hf. discriminate. }
    (* the optional wait *)
    assert (Body : forall s1 pre, log s1 = log s ++ pre -> filter (is_exec_of n) pre = [] ->
              filter (is_fb_of n) pre = [] -> (existsb ev_cancel pre = false -> cancelled s1 = false) ->
              (let '(s2, r) := node_exec o c n s1 p in
               match r with
               | inl x => (s2, ARes (inl x))
               | inr e => retry_loop o sr swt wi c n w k (S i) s2 p (inr e)
               end) = (s', ar) ->
              exists evs, log s' = log s ++ evs /\ filter (is_fb_of n) evs = [] /\
                (existsb ev_cancel evs = false -> loop_result n (S k) j last evs ar)).
    { intros s1 pre L1 Fe Ff Hc1 HB.
      destruct (node_exec o c n s1 p) as [s2 r] eqn:Ee.
      destruct (node_exec_event _ _ _ _ _ _ Hex Ee) as [ev [L2 [Hx [Hf [C2 [Hok Hev]]]]]].
      destruct r as [x|e].
      - inv HB. exists (pre ++ [ev]). split; [rewrite L2, L1, <- app_assoc; reflexivity|].
        split; [rewrite filter_snoc, Ff, Hf; reflexivity|].
        intros _. unfold loop_result. rewrite filter_snoc, Fe, Hx. cbn. rewrite Hok. right. split; lia.
      - destruct (IH _ _ _ _ _ _ (S j) HB) as [evs [L3 [F3 R3]]].
        exists (pre ++ ev :: evs). split; [rewrite L3, L2, L1, <- !app_assoc; reflexivity|].
        split; [rewrite filter_app, Ff; cbn; rewrite Hf; exact F3|].
        intros Hq. rewrite existsb_app in Hq. apply orb_false_elim in Hq. destruct Hq as [Hq1 Hq2].
        cbn in Hq2. apply orb_false_elim in Hq2. destruct Hq2 as [Hq2 Hq3].
        specialize (Hc1 Hq1). rewrite Hc1, Hq2 in C2. cbn in C2.
        specialize (R3 C2 Hq3).
        unfold loop_result in *. rewrite filter_app, Fe. cbn [app filter]. rewrite Hx.
        destruct ar as [ea|[x|e2]]; auto.
        + destruct R3 as [[_ [_ Hl]]|[[Hl1 Hl2] Hfo]]; [discriminate|].
          right. cbn [length]. rewrite (first_ok_fail _ _ _ Hok). split; lia.
        + right. cbn [length]. rewrite (first_ok_fail _ _ _ Hok).
          destruct R3 as [[-> [-> Hl]]|[Hk [Hl [Hfo [pre' [c' [cn' Hpre]]]]]]].
          * inv Hl. destruct (Hev _ eq_refl) as [c' [cn' ->]].
            cbn. repeat split; auto; try lia. exists [], c', cn'. reflexivity.
          * rewrite Hpre. repeat split; auto; try lia.
            -- rewrite <- Hpre. lia.
            -- rewrite <- Hpre. exact Hfo.
            -- exists (ev :: pre'), c', cn'. reflexivity. }
    destruct (Nat.ltb 0 i && Nat.ltb 0 w).
    + destruct (emit o s (CWait n wi i)) as [sw rw] eqn:Ew.
      apply emit_spec in Ew. destruct Ew as [cnw [_ [Lw Cw]]]. rewrite Hc in Cw. cbn in Cw.
      destruct (cancelled sw) eqn:Hsw.
      * inv H. eexists. split; [exact Lw|]. split; [reflexivity|].
        intros _ Hq. cbn in Hq. discriminate.
      * destruct (Body sw [(CWait n wi i, rw, cnw)] Lw eq_refl eq_refl ltac:(auto) H) as [evs [L [F R]]].
        exists evs. auto.
    + destruct (Body s [] ltac:(now rewrite app_nil_r) eq_refl eq_refl ltac:(auto) H) as [evs [L [F R]]].
      exists evs. auto.
Qed.

(* read for a budget N >= 1 from the start of the loop: exactly min(k, N) attempts, where k is
   the index of the first succeeding attempt; when all N fail the loop's error is the error of
   the last attempt *)
Definition budget_exact (n : nid) (N : nat) (evs : list event) (ar : ares) : Prop :=
  let ex := filter (is_exec_of n) evs in
  let k := first_ok ex 1 in
  match ar with
  | AAbort _ => False
  | ARes (inl _) => k <> 0 /\ length ex = Nat.min k N     (* success at attempt k <= N *)
  | ARes (inr e) => k = 0 /\ length ex = N /\            (* all N attempts failed *)
                    exists pre c' cn, ex = pre ++ [(c', RErr e, cn)]
  end.

Lemma retry_loop_budget sr swt wi c n w N s p s' ar :
  has_exec c = true -> 1 <= N -> cancelled s = false ->
  retry_loop o sr swt wi c n w N 0 s p (inl VNil) = (s', ar) ->
  exists evs, log s' = log s ++ evs /\ filter (is_fb_of n) evs = [] /\
    (existsb ev_cancel evs = false -> budget_exact n N evs ar).
Proof.
  intros Hex HN Hc H.
  destruct (retry_loop_count _ _ _ c n w Hex _ _ _ _ _ _ _ 1 H) as [evs [L [F R]]].
  exists evs. split; auto. split; auto. intros Hq. specialize (R Hc Hq).
  unfold loop_result in R. unfold budget_exact.
  destruct ar as [e|[x|e]]; auto.
  - cbv zeta. destruct R as [[H0 _]|[[H1 H2] H3]]; [lia|]. rewrite H3. split; lia.
  - cbv zeta. destruct R as [[H1 _]|[_ [H2 [H3 H4]]]]; [lia|]. auto.
Qed.

Lemma C02_budget_exact_lemma c n w N s p s' ar :
  has_exec c = true -> 1 <= N -> cancelled s = false ->
  attempts o c n w N 0 s p (inl VNil) = (s', ar) ->
  exists evs, log s' = log s ++ evs /\
    (existsb ev_cancel evs = false -> budget_exact n N evs ar).
Proof.
  unfold attempts. intros Hex HN Hc H.
  destruct (retry_loop_budget _ _ _ _ _ _ _ _ _ _ _ Hex HN Hc H) as [evs [L [_ R]]]. eauto.
Qed.

(* ------------------------------------------------------------ the fallback *)
Lemma node_fallback_event c n s p e s' r :
  node_fallback o c n s p e = (s', r) ->
  match u_fb c with
  | FbUser => exists rr cn, log s' = log s ++ [(CFallback n p e, rr, cn)] /\ r = ret_val rr
  | _ => s' = s /\ r = inr e
  end.
Proof.
  unfold node_fallback. destruct (u_fb c); intros H; try (inv H; auto; fail).
  destruct (emit o s (CFallback n p e)) as [s1 rr] eqn:E. inv H.
  apply emit_spec in E. destruct E as [cn [_ [L _]]]. eauto.
Qed.

(* exec phase of a batch item (runExecWithRetries): budget exact, fallback exactly once iff
   all N attempts failed and the node has a fallback of its own, with the item and the error
   of the last attempt; never after a success *)
Definition phase_exact (c : ucfg) (n : nid) (N : nat) (p : val) (evs : list event) : Prop :=
  let ex := filter (is_exec_of n) evs in
  let fb := filter (is_fb_of n) evs in
  let k := first_ok ex 1 in
  (k <> 0 /\ length ex = Nat.min k N /\ fb = []) \/
  (k = 0 /\ length ex = N /\
   exists pre c' cn e, ex = pre ++ [(c', RErr e, cn)] /\
     match u_fb c with
     | FbUser => exists rr cn', fb = [(CFallback n p e, rr, cn')]
     | _ => fb = []
     end).

Lemma exec_with_retries_exact c n s item s' r N w :
  has_exec c = true -> retry_of c = (N, w) -> 1 <= N -> cancelled s = false ->
  exec_with_retries o c n s item = (s', r) ->
  exists evs, log s' = log s ++ evs /\
    (existsb ev_cancel evs = false -> phase_exact c n N item evs).
Proof.
  intros Hex Hr HN Hc. unfold exec_with_retries. rewrite Hr. unfold item_attempts.
  match goal with |- context [retry_loop o ?a ?b ?d c n w N 0 s item (inl VNil)] =>
    destruct (retry_loop o a b d c n w N 0 s item (inl VNil)) as [s1 ar] eqn:Ea end.
  destruct (retry_loop_budget _ _ _ _ _ _ _ _ _ _ _ Hex HN Hc Ea) as [evs [L [F R]]].
  destruct ar as [ea|[x|e]].
  - intros H; inv H. exists evs. split; auto. intros Hq. destruct (R Hq).
  - intros H; inv H. exists evs. split; auto. intros Hq. specialize (R Hq).
    unfold budget_exact in R. cbv zeta in R. destruct R as [R1 R2].
    left. rewrite F. auto.
  - intros H.
    assert (Hfb : exists s2 r2, node_fallback o c n s1 item e = (s2, r2) /\
                   (match u_fb c with FbNone => s2 = s1 | _ => True end) /\ s2 = s').
    { destruct (u_fb c) eqn:Hfb.
      - inv H. exists s', (inr e). unfold node_fallback. rewrite Hfb. auto.
      - exists s', r. auto.
      - exists s', r. auto. }
    destruct Hfb as [s2 [r2 [Ef [_ ->]]]].
    apply node_fallback_event in Ef.
    destruct (u_fb c) eqn:Hfb.
    + destruct Ef as [-> _]. exists evs. split; auto. intros Hq. specialize (R Hq).
      unfold budget_exact in R. cbv zeta in R. destruct R as [R1 [R2 [pre [c' [cn R3]]]]].
      right. rewrite F. repeat split; auto. exists pre, c', cn, e. rewrite Hfb. auto.
    + destruct Ef as [-> _]. exists evs. split; auto. intros Hq. specialize (R Hq).
      unfold budget_exact in R. cbv zeta in R. destruct R as [R1 [R2 [pre [c' [cn R3]]]]].
      right. rewrite F. repeat split; auto. exists pre, c', cn, e. rewrite Hfb. auto.
    + destruct Ef as [rr [cn' [L2 _]]].
      exists (evs ++ [(CFallback n item e, rr, cn')]). split; [rewrite L2, L, <- app_assoc; reflexivity|].
      intros Hq. rewrite existsb_app in Hq. apply orb_false_elim in Hq. destruct Hq as [Hq _].
      specialize (R Hq). unfold budget_exact in R. cbv zeta in R.
      destruct R as [R1 [R2 [pre [c' [cn R3]]]]].
      right. unfold phase_exact. cbv zeta. rewrite !filter_app, F. cbn [filter app].
      unfold is_exec_of, is_fb_of. cbn. rewrite Nat.eqb_refl, app_nil_r.
      repeat split; auto. exists pre, c', cn, e. rewrite Hfb. split; eauto.
Qed.

(* the two copies of the retry loop are one loop: same attempts, same results, the abort
   errors differ only in their wrap site *)
Lemma C02_copies_agree_lemma c n w k i s p last :
  w = 0 ->
  let '(s1, a1) := attempts o c n w k i s p last in
  let '(s2, a2) := item_attempts o c n w k i s p last in
  s1 = s2 /\
  match a1, a2 with
  | ARes r1, ARes r2 => r1 = r2
  | AAbort e1, AAbort e2 => class_of e1 = KCtx /\ class_of e2 = KCtx
  | _, _ => False
  end.
Proof.
  intros ->. unfold attempts, item_attempts. revert i s last.
  induction k as [|k IH]; intros i s last; cbn [retry_loop].
  - auto.
  - destruct (cancelled s); [split; auto|].
    rewrite Nat.ltb_irrefl, andb_false_r.
    destruct (node_exec o c n s p) as [s2 [x|e]]; [auto|]. apply IH.
Qed.

End C02.
