(* C02Proofs.v — the retry budget is exact: counting exec attempts in the trace of the retry
   loop (flyt.go:719-738) and of its batch copy (batch.go:317-334). *)
From Flyt Require Import Base Script FlowTable Engine EngineCorr EngineFacts BaseFacts SpecEngine.

Lemma first_ok_fail e l j : resp_ok e = false -> first_ok (e :: l) j = first_ok l (S j).
Proof. intros H. cbn. now rewrite H. Qed.

Lemma filter_snoc {A} (f : A -> bool) l x :
  filter f (l ++ [x]) = filter f l ++ (if f x then [x] else []).
Proof. rewrite filter_app. reflexivity. Qed.

Section C02.
Variable o : oracle.

(* what the trace of the retry loop looks like when nothing cancels the context *)
Definition loop_result (n : nid) (k j : nat) (last : val + err) (evs : list event) (ar : ares) : Prop :=
  let ex := filter (is_exec_of n) evs in
  match ar with
  | AAbort _ => False
  | ARes (inl x) => (k = 0 /\ ex = [] /\ last = inl x) \/
                   (1 <= length ex <= k /\ first_ok ex j = j + length ex - 1)
  | ARes (inr e) => (k = 0 /\ ex = [] /\ last = inr e) \/ (0 < k /\ length ex = k /\ first_ok ex j = 0)
  end.

Lemma node_exec_event c n s arg s' r :
  has_exec c = true ->
  node_exec o c n s arg = (s', r) ->
  exists ev, log s' = log s ++ [ev] /\ is_exec_of n ev = true /\ is_fb_of n ev = false /\
             cancelled s' = cancelled s || ev_cancel ev /\
             resp_ok ev = (match r with inl _ => true | inr _ => false end).
Proof.
  unfold node_exec. intros -> H.
  destruct (emit o s (CExec n (exec_arg (u_exec c) arg))) as [s1 r1] eqn:E.
  apply emit_spec in E. destruct E as [cn [_ [L C]]]. inv H.
  eexists. split; [exact L|]. unfold is_exec_of, is_fb_of, resp_ok. cbn.
  rewrite Nat.eqb_refl. split; [reflexivity|]. split; [reflexivity|]. split; [exact C|].
  destruct r1; reflexivity.
Qed.

Lemma attempts_count c n w (Hex : has_exec c = true) :
  forall k i s p last s' ar j,
    attempts o c n w k i s p last = (s', ar) ->
    exists evs, log s' = log s ++ evs /\ filter (is_fb_of n) evs = [] /\
                (cancelled s = false -> existsb ev_cancel evs = false -> loop_result n k j last evs ar).
Proof.
  induction k as [|k IH]; intros i s p last s' ar j H; cbn [attempts] in H.
  - inv H. exists []. rewrite app_nil_r. repeat split; auto. intros _ _. cbn.
    destruct last; left; auto.
  - destruct (cancelled s) eqn:Hc.
    { inv H. exists []. rewrite app_nil_r. repeat split; auto. intros Hf. discriminate. }
    (* the optional wait *)
    assert (Body : forall s1 pre, log s1 = log s ++ pre -> filter (is_exec_of n) pre = [] ->
              filter (is_fb_of n) pre = [] -> (existsb ev_cancel pre = false -> cancelled s1 = false) ->
              (let '(s2, r) := node_exec o c n s1 p in
               match r with
               | inl x => (s2, ARes (inl x))
               | inr e => attempts o c n w k (S i) s2 p (inr e)
               end) = (s', ar) ->
              exists evs, log s' = log s ++ evs /\ filter (is_fb_of n) evs = [] /\
                (existsb ev_cancel evs = false -> loop_result n (S k) j last evs ar)).
    { intros s1 pre L1 Fe Ff Hc1 HB.
      destruct (node_exec o c n s1 p) as [s2 r] eqn:Ee.
      destruct (node_exec_event _ _ _ _ _ _ Hex Ee) as [ev [L2 [Hx [Hf [C2 Hok]]]]].
      destruct r as [x|e].
      - inv HB. exists (pre ++ [ev]). split; [rewrite L2, L1, <- app_assoc; reflexivity|].
        split; [rewrite filter_snoc, Ff, Hf; reflexivity|].
        intros _. unfold loop_result. rewrite filter_snoc, Fe, Hx. cbn. rewrite Hok. right. split; lia.
      - destruct (IH _ _ _ _ _ _ (S j) HB) as [evs [L3 [F3 R3]]].
        exists (pre ++ ev :: evs). split; [rewrite L3, L2, L1, <- !app_assoc; reflexivity|].
        split; [rewrite filter_app, Ff; cbn; rewrite Hf; exact F3|].
        intros Hq. rewrite existsb_app in Hq. apply orb_false_elim in Hq. destruct Hq as [Hq1 Hq2].
        cbn in Hq2. apply orb_false_elim in Hq2. destruct Hq2 as [Hq2 Hq3].
        specialize (Hc1 Hq1). rewrite Hc1, Hq2 in C2. cbn in C2.
        specialize (R3 C2 Hq3).
        unfold loop_result in *. rewrite filter_app, Fe. cbn [app filter]. rewrite Hx.
        destruct ar as [ea|[x|e2]]; auto.
        + destruct R3 as [[_ [_ Hl]]|[[Hl1 Hl2] Hfo]]; [discriminate|].
          right. cbn [length]. rewrite (first_ok_fail _ _ _ Hok). split; lia.
        + right. cbn [length]. rewrite (first_ok_fail _ _ _ Hok).
          destruct R3 as [[-> [-> _]]|[Hk [Hl Hfo]]]; cbn; repeat split; auto; lia. }
    destruct (Nat.ltb 0 i && Nat.ltb 0 w).
    + destruct (emit o s (CWait n 0 i)) as [sw rw] eqn:Ew.
      apply emit_spec in Ew. destruct Ew as [cnw [_ [Lw Cw]]]. rewrite Hc in Cw. cbn in Cw.
      destruct (cancelled sw) eqn:Hsw.
      * inv H. eexists. split; [exact Lw|]. split; [reflexivity|].
        intros _ Hq. cbn in Hq. discriminate.
      * destruct (Body sw [(CWait n 0 i, rw, cnw)] Lw eq_refl eq_refl ltac:(auto) H) as [evs [L [F R]]].
        exists evs. auto.
    + destruct (Body s [] ltac:(now rewrite app_nil_r) eq_refl eq_refl ltac:(auto) H) as [evs [L [F R]]].
      exists evs. auto.
Qed.

(* read for a budget N >= 1 from the start of the loop: exactly min(k, N) attempts, where k is
   the index of the first succeeding attempt *)
Lemma C02_budget_exact_lemma c n w N s p s' ar :
  has_exec c = true -> 1 <= N -> cancelled s = false ->
  attempts o c n w N 0 s p (inl VNil) = (s', ar) ->
  exists evs, log s' = log s ++ evs /\
    (existsb ev_cancel evs = false ->
     let ex := filter (is_exec_of n) evs in
     let k := first_ok ex 1 in
     match ar with
     | AAbort _ => False
     | ARes (inl _) => k <> 0 /\ length ex = Nat.min k N     (* success at attempt k <= N *)
     | ARes (inr _) => k = 0 /\ length ex = N               (* all N attempts failed *)
     end).
Proof.
  intros Hex HN Hc H.
  destruct (attempts_count c n w Hex _ _ _ _ _ _ _ 1 H) as [evs [L [_ R]]].
  exists evs. split; auto. intros Hq. specialize (R Hc Hq). unfold loop_result in R.
  destruct ar as [e|[x|e]]; auto.
  - cbv zeta. destruct R as [[H0 _]|[[H1 H2] H3]]; [lia|]. rewrite H3. split; lia.
  - cbv zeta. destruct R as [[H1 _]|[_ [H2 H3]]]; [lia|]. auto.
Qed.

End C02.
