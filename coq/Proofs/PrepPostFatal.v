(* PrepPostFatal.v — for EVERY table (full and partial user nodes, batch nodes, flows of any
   nesting), oracle, fuel and start state: an error returned by a prep or a post callback (of a
   node or of a batch node) ends the run at once - it is the last callback of the run - and the
   run fails.  A run that succeeds has had no prep / post error anywhere on its path.  This is
   the clause pp_run of spec_C04y (Spec/SpecBatch.v), proved of the model's observation. *)
From Flyt Require Import Base Script FlowTable Engine Flatten BatchConc EngineFacts BaseFacts
     FlattenProofs BatchConcFacts C18Proofs EngineCorr SpecC18 SpecEngine SpecBatch FwCauseProofs.

Lemma pp_fatal_clean : forall a b, existsb pp_err a = false -> pp_fatal (a ++ b) = pp_fatal b.
Proof.
  induction a as [|e a IH]; intros b H; cbn [app existsb pp_fatal] in *; [reflexivity|].
  apply orb_false_iff in H. destruct H as [H1 H2]. rewrite H1. apply IH. exact H2.
Qed.

Lemma clean_fatal a : existsb pp_err a = false -> pp_fatal a = true.
Proof. intros H. rewrite <- (app_nil_r a). rewrite pp_fatal_clean by exact H. reflexivity. Qed.

Lemma tokens_clean : forall evs, tokens evs = [] -> existsb pp_err evs = false.
Proof.
  induction evs as [|e evs IH]; intros T; cbn [existsb]; [reflexivity|].
  unfold tokens in T. cbn [flat_map] in T. apply app_eq_nil in T. destruct T as [T1 T2].
  rewrite (IH T2), orb_false_r. unfold pp_err, is_pp. unfold tok_of in T1.
  destruct (ev_call e); try reflexivity; discriminate.
Qed.

(* s' extends s by events without a prep / post error *)
Definition cl (s s' : ms) : Prop := exists evs, log s' = log s ++ evs /\ existsb pp_err evs = false.
(* s' extends s by events in which a prep / post error, if any, comes last; ok = the step reports
   success, and then there is none *)
Definition fr (ok : bool) (s s' : ms) : Prop :=
  exists evs, log s' = log s ++ evs /\ pp_fatal evs = true /\ (ok = true -> existsb pp_err evs = false).

Lemma cl_refl s : cl s s.
Proof. exists []. now rewrite app_nil_r. Qed.
Lemma cl_trans a b c : cl a b -> cl b c -> cl a c.
Proof.
  intros [e1 [L1 C1]] [e2 [L2 C2]]. exists (e1 ++ e2). split; [now rewrite L2, L1, app_assoc|].
  now rewrite existsb_app, C1, C2.
Qed.
Lemma cl_fr ok a b c : cl a b -> fr ok b c -> fr ok a c.
Proof.
  intros [e1 [L1 C1]] [e2 [L2 [P2 O2]]]. exists (e1 ++ e2). split; [now rewrite L2, L1, app_assoc|].
  split; [now rewrite pp_fatal_clean|]. intros Hok. now rewrite existsb_app, C1, (O2 Hok).
Qed.
Lemma cl_is_fr ok a b : cl a b -> fr ok a b.
Proof. intros [e [L C]]. exists e. split; [exact L|]. split; [now apply clean_fatal|auto]. Qed.

Lemma good_cl s s' : ext s s' -> ntext s s' -> cl s s'.
Proof.
  intros [evs [L _]] [evs' [L' T]]. exists evs. split; [exact L|].
  assert (evs = evs') by (apply (app_inv_head (log s)); now rewrite <- L, <- L'). subst evs'.
  now apply tokens_clean.
Qed.

Definition is_ok {A} (r : A + err) : bool := match r with inl _ => true | inr _ => false end.
Definition oc_ok (oc : outcome) : bool := match oc with Done _ => true | Fail _ => false end.

Section PP.
Variable o : oracle.
Variable conc_exec : ucfg -> nat -> bool -> nid -> ms -> list val -> ms * list val.
Hypothesis conc_exec_ext : forall c k st n s items s' rs,
    conc_exec c k st n s items = (s', rs) -> ext s s'.
Hypothesis conc_exec_nt : forall c k st n s items s' rs,
    conc_exec c k st n s items = (s', rs) -> ntext s s'.

(* one prep / post callback: an error response makes the step report failure *)
Lemma emit_fr s cl0 s' r (okb : bool) :
  (okb = true -> match r with RErr _ => False | _ => True end) ->
  emit o s cl0 = (s', r) -> fr okb s s'.
Proof.
  intros Hok H. apply emit_spec in H. destruct H as [cn [_ [L _]]]. eexists. split; [exact L|].
  cbn [pp_fatal existsb]. split; [destruct (pp_err (cl0, r, cn)); reflexivity|].
  intros E. specialize (Hok E). rewrite orb_false_r. unfold pp_err. cbn [ev_resp fst snd].
  destruct r; try reflexivity; try contradiction; apply andb_false_r.
Qed.

Lemma node_prep_fr c n s s' r : node_prep o c n s = (s', r) -> fr (is_ok r) s s'.
Proof.
  unfold node_prep. destruct (has_prep c); intros H; [|inv H; apply cl_is_fr, cl_refl].
  step_in H. inv H. eapply emit_fr; [|exact Eemit]. destruct r0; cbn; auto; discriminate.
Qed.

Lemma node_post_fr c n s p x s' r : node_post o c n s p x = (s', r) -> fr (is_ok r) s s'.
Proof.
  unfold node_post. destruct (has_post c); intros H; [|inv H; apply cl_is_fr, cl_refl].
  step_in H. inv H. eapply emit_fr; [|exact Eemit]. destruct r0; cbn; auto; discriminate.
Qed.

Lemma bnode_post_fr c n s i rs s' r : bnode_post o c n s i rs = (s', r) -> fr (is_ok r) s s'.
Proof.
  unfold bnode_post. destruct (u_post c); intros H; try (inv H; apply cl_is_fr, cl_refl).
  step_in H. inv H. eapply emit_fr; [|exact Eemit]. destruct r0; cbn; auto; discriminate.
Qed.

(* a failing step: whatever was clean before it, the whole is fatal-last *)
Lemma fr_false ok s s' : fr ok s s' -> fr false s s'.
Proof. intros [e [L [P _]]]. exists e. split; [exact L|]. split; [exact P|discriminate]. Qed.
Lemma fr_true_cl s s' : fr true s s' -> cl s s'.
Proof. intros [e [L [_ O]]]. exists e. split; [exact L|auto]. Qed.

Lemma run_user_fr c n s s' oc : run_user o c n s = (s', oc) -> fr (oc_ok oc) s s'.
Proof.
  unfold run_user. destruct (cancelled s); [intros H; inv H; apply cl_is_fr, cl_refl|].
  destruct (node_prep o c n s) as [s1 [p|e]] eqn:Ep; apply node_prep_fr in Ep; cbn [is_ok] in Ep;
    [|intros H; inv H; exact Ep].
  apply fr_true_cl in Ep.
  destruct (cancelled s1); [intros H; inv H; apply cl_is_fr; exact Ep|].
  destruct (retry_of c) as [N w].
  destruct (attempts o c n w N 0 s1 p (inl VNil)) as [s2 ar] eqn:Ea.
  assert (E12 : cl s s2).
  { eapply cl_trans; [exact Ep|]. apply good_cl.
    - eapply attempts_ext; eauto.
    - unfold attempts in Ea. eapply (retry_loop_nt o); eauto. }
  destruct ar as [e|r]; [intros H; inv H; apply cl_is_fr; exact E12|].
  match goal with |- context [let '(_, _) := ?X in _] => destruct X as [s3 r'] eqn:E3 end.
  assert (E13 : cl s s3).
  { destruct r as [x|e]; [inv E3; exact E12|].
    destruct (u_fb c); try (inv E3; exact E12);
      (eapply cl_trans; [exact E12|]);
      (apply good_cl; [eapply node_fallback_ext; eauto|eapply (node_fallback_nt o); eauto]). }
  clear E3. rename E13 into E3.
  destruct r' as [x|e]; [|intros H; inv H; apply cl_is_fr; exact E3].
  destruct (node_post o c n s3 p x) as [s4 [a|e]] eqn:Epo; apply node_post_fr in Epo;
    intros H; inv H; eapply cl_fr; eauto.
Qed.

Lemma run_batch_fr c conc stop n s s' oc :
  run_batch o conc_exec c conc stop n s = (s', oc) -> fr (oc_ok oc) s s'.
Proof.
  unfold run_batch.
  destruct (node_prep o c n s) as [s1 [pv|e]] eqn:Ep; apply node_prep_fr in Ep; cbn [is_ok] in Ep;
    [|intros H; inv H; exact Ep].
  apply fr_true_cl in Ep.
  destruct (normalise pv) as [|it rest] eqn:En.
  - destruct (bnode_post o c n s1 [] []) as [s2 [a|e]] eqn:Epo; apply bnode_post_fr in Epo;
      intros H; inv H; eapply cl_fr; eauto.
  - match goal with |- context [let '(_, _) := ?X in _] => destruct X as [s2 results] eqn:E2 end.
    assert (E12 : cl s1 s2).
    { destruct (Nat.ltb 0 conc).
      - apply good_cl; [eapply conc_exec_ext; eauto|eapply conc_exec_nt; eauto].
      - apply good_cl; [eapply seq_items_ext; eauto|eapply (seq_items_nt o); eauto]. }
    destruct (bnode_post o c n s2 (it :: rest) results) as [s3 [a|e]] eqn:Epo;
      apply bnode_post_fr in Epo; intros H; inv H;
      (eapply cl_fr; [|exact Epo]); eapply cl_trans; eauto.
Qed.

Lemma flow_loop_fr runf tm :
  (forall s n s' oc, runf s n = Some (s', oc) -> fr (oc_ok oc) s s') ->
  forall g s cur s' r, flow_loop runf tm g s cur = Some (s', r) -> fr (is_ok r) s s'.
Proof.
  intros Hrun. induction g as [|g IH]; intros s cur s' r H; cbn [flow_loop] in H; [discriminate|].
  destruct (cancelled s); [inv H; apply cl_is_fr, cl_refl|].
  destruct (runf s cur) as [[s1 [a|e]]|] eqn:Er; [| |discriminate].
  - apply Hrun in Er. cbn [oc_ok] in Er. apply fr_true_cl in Er.
    destruct (lookup2 tm cur a) as [[nxt|]|].
    + apply IH in H. eapply cl_fr; eauto.
    + inv H. apply cl_is_fr. exact Er.
    + inv H. apply cl_is_fr. exact Er.
  - apply Hrun in Er. inv H. exact Er.
Qed.

Lemma run_flow_fr runf g start conns :
  (forall s n s' oc, runf s n = Some (s', oc) -> fr (oc_ok oc) s s') ->
  forall s s' oc, run_flow runf g start conns s = Some (s', oc) -> fr (oc_ok oc) s s'.
Proof.
  intros Hrun s s' oc. unfold run_flow.
  destruct (cancelled s); [intros H; inv H; apply cl_is_fr, cl_refl|].
  destruct start as [st|].
  - destruct (flow_loop runf (build conns) g s st) as [[s1 [a|e]]|] eqn:El; [| |discriminate];
      apply (flow_loop_fr _ _ Hrun) in El; intros H; inv H; exact El.
  - intros H; inv H; apply cl_is_fr, cl_refl.
Qed.

Variable tbl : table.

Lemma run_fr : forall fuel s n s' oc,
    run o conc_exec tbl fuel s n = Some (s', oc) -> fr (oc_ok oc) s s'.
Proof.
  induction fuel as [|f IH]; intros s n s' oc H; cbn [run] in H; [discriminate|].
  destruct (tbl n) as [[c|start conns|c conc stop]|].
  - inv H. eapply run_user_fr; eauto.
  - eapply run_flow_fr; eauto.
  - inv H. eapply run_batch_fr; eauto.
  - inv H. apply cl_is_fr, cl_refl.
Qed.

End PP.

(* ------------------------------------------------------------ the model's observations *)
Lemma pp_model_runs sc : forall k s, pp_runs (eobs_of_model (model_runs sc k s)) = true.
Proof.
  induction k as [|k IH]; intros s; cbn [model_runs eobs_of_model pp_runs forallb]; [reflexivity|].
  destruct (model_run sc s) as [[s' oc]|] eqn:E; cbn [eobs_of_model pp_runs forallb]; [|reflexivity].
  unfold model_run in E.
  destruct (run_fr _ _ (gated_exec_ext _ _) (gated_exec_nt _ _) _ _ _ _ _ _ E) as [evs [L [P O]]].
  unfold pp_runs in IH. rewrite IH, andb_true_r.
  rewrite L, skipn_app_exact. unfold pp_run. rewrite P. cbn [andb].
  destruct oc as [a|e]; cbn [pair_of_outcome snd].
  - rewrite (O eq_refl). reflexivity.
  - destruct (existsb pp_err evs); reflexivity.
Qed.

Lemma pp_model_lemma sc : pp_runs (eobs_of_model (model_obs sc)) = true.
Proof. unfold model_obs. apply pp_model_runs. Qed.

Lemma spec_C04y_model_lemma sc : spec_C04y sc (eobs_of_model (model_obs sc)) = true.
Proof. unfold spec_C04y. now rewrite spec_C04x_model_lemma, pp_model_lemma. Qed.

(* stated directly on Run *)
Lemma prep_post_error_fatal_lemma o rel tbl fuel s n s' oc :
  run o (gated_exec o rel) tbl fuel s n = Some (s', oc) ->
  exists evs, log s' = log s ++ evs /\ pp_fatal evs = true /\
              (existsb pp_err evs = true -> exists e, oc = Fail e).
Proof.
  intros H. destruct (run_fr _ _ (gated_exec_ext _ _) (gated_exec_nt _ _) _ _ _ _ _ _ H) as [evs [L [P O]]].
  exists evs. split; [exact L|]. split; [exact P|]. intros X. destruct oc as [a|e]; [|eauto].
  rewrite (O eq_refl) in X. discriminate.
Qed.
