(* NonVacuity.v — the hypotheses of the all-schedule theorems are met by reachable states: concrete
   runs of the transition systems, evaluated inside Coq. *)
From Flyt Require Import Base Script FlowTable Engine BatchConc EngineFacts BatchConcInv BatchConcItems
     BatchConcStop BatchConcLive Pool PoolProofs.
From Coq Require Import Lia.

(* ------------------------------------------------------------ batches *)
Definition nv_cfg : ucfg :=
  {| u_retry := Some (1, 0); u_fb := FbDefault; u_prep := FBatch; u_exec := FRes; u_post := FBatch |}.
Definition nv_items : list val :=
  [VRes (VTok 1) None; VRes (VTok 2) None; VRes (VTok 3) None; VRes (VTok 4) None].
(* the exec of item 1 fails, every other callback succeeds *)
Definition nv_script : script :=
  [ {| se_key := (0, PhExec, 1); se_rs := [(RErr (EUser 7), false)]; se_dflt := (RErr (EUser 7), false) |} ].
Definition nv_o := oracle_of nv_script.
Definition nv_s0 : ms := {| log := []; cancelled := false |}.
Definition nv_run (stop : bool) (sched : list tid) : bst :=
  brun nv_o nv_cfg 0 nv_items stop 4 (binit nv_items 2 nv_s0) sched.

(* C09_stop_skips: stop mode, two workers; two items submitted, worker 0 has run item 0, which
   failed: the flag is up, item 1 is queued, items 2 and 3 are not even submitted *)
Definition nv_stop_state : bst :=
  nv_run true [TMain; TMain; TMain; TMain; TWorker 0; TWorker 0; TWorker 0; TWorker 0; TWorker 0; TWorker 0; TWorker 0; TWorker 0].
Example stop_skips_hypotheses_met :
  BInv nv_items 2 nv_stop_state /\ stopf nv_stop_state && true = true /\
  unstarted nv_stop_state 1 /\ unstarted nv_stop_state 3.
Proof.
  split; [apply brun_inv; apply binit_inv|]. split; [vm_compute; reflexivity|].
  split; (split; [vm_compute; reflexivity|left; vm_compute; lia]).
Qed.

(* C11_no_new_work: the environment cancels while item 0 is inside its exec call *)
Definition nv_cancel_state : bst :=
  nv_run false [TMain; TMain; TWorker 0; TWorker 0; TWorker 0; TWorker 0; TCancel].
Example no_new_work_hypotheses_met :
  BInv nv_items 2 nv_cancel_state /\ cancelled (base nv_cancel_state) = true /\
  allowance_le nv_cancel_state 0 1 /\
  (exists k a l, nth_error (ws nv_cancel_state) k = Some (WRun 0 (PExec a l))).
Proof.
  split; [apply brun_inv; apply binit_inv|]. split; [vm_compute; reflexivity|]. split.
  - split; [intros _|]; vm_compute; lia.
  - exists 0, 0, (inl VNil). vm_compute. reflexivity.
Qed.

(* C08_usable: all four items submitted, both workers inside an exec call, the submitter at Wait:
   nothing but user code can move *)
Definition nv_full_state : bst :=
  nv_run false [TMain; TMain; TMain; TMain; TMain; TMain; TMain; TMain; TMain;
                TWorker 0; TWorker 0; TWorker 0; TWorker 0; TWorker 1; TWorker 1; TWorker 1; TWorker 1].
Example usable_hypotheses_met :
  quiescent nv_o nv_cfg 0 nv_items false 4 nv_full_state /\ mpc nv_full_state <> MRet /\
  nth_error (ws nv_full_state) 0 = Some (WRun 0 (PExec 0 (inl VNil))) /\
  nth_error (ws nv_full_state) 1 = Some (WRun 1 (PExec 0 (inl VNil))).
Proof.
  split; [|split; [vm_compute; discriminate|split; vm_compute; reflexivity]].
  split; [vm_compute; reflexivity|].
  intros [|[|k]]; [split; vm_compute; reflexivity|split; vm_compute; reflexivity|].
  assert (Hn : nth_error (ws nv_full_state) (S (S k)) = None).
  { apply nth_error_None. vm_compute. lia. }
  split.
  - unfold internal_enabled. rewrite Hn. cbn [bstep]. rewrite Hn. reflexivity.
  - unfold internal_enabled. cbn [bstep]. rewrite Hn. apply Bool.andb_false_r.
Qed.

(* C06 / C07 / C11_slots: a complete run in continue mode reaches the state after Wait, with the
   slot of the failed item holding its error and the others their results *)
Definition nv_done_state : bst :=
  nv_run false ([TMain; TMain; TMain; TMain; TMain; TMain; TMain; TMain; TMain]
                ++ repeat (TWorker 0) 40 ++ [TMain; TMain]).
Example settled_hypotheses_met :
  (mpc nv_done_state = MClose \/ mpc nv_done_state = MRet) /\
  slots nv_done_state = [Some (VRes VNil (Some (EUser 7))); Some (VRes VNil None); Some (VRes VNil None); Some (VRes VNil None)].
Proof. split; [right|]; vm_compute; reflexivity. Qed.

(* C09_two_workers_prefix: stop mode, two workers, all four items submitted; worker 0 receives item
   0 and stalls before its stop-flag check; worker 1 runs item 1 (success) and item 2 (failure:
   the flag goes up); then worker 0 checks and skips item 0, and item 3 is skipped too.  Item 2 was
   executed after the skipped item 0, and the only other item before it, item 1, succeeded. *)
From Flyt Require Import ItemMon.
Definition nv2_script : script :=
  [ {| se_key := (0, PhExec, 3); se_rs := [(RErr (EUser 7), false)]; se_dflt := (RErr (EUser 7), false) |} ].
Definition nv2_state : bst :=
  brun (oracle_of nv2_script) nv_cfg 0 nv_items true 4 (binit nv_items 2 nv_s0)
       ([TMain; TMain; TMain; TMain; TMain; TMain; TMain; TMain; TMain; TWorker 0]
        ++ repeat (TWorker 1) 16 ++ repeat (TWorker 0) 40 ++ repeat (TWorker 1) 40 ++ [TMain; TMain]).
Example two_workers_hypotheses_met :
  cancelled (base nv2_state) = false /\ il nv2_state 0 = [] /\ il nv2_state 2 <> [] /\
  slot_at nv2_state 0 = Some stopped_slot /\ slot_at nv2_state 3 = Some stopped_slot /\
  ist_result nv_cfg (irun nv_cfg 0 (item_at nv_items 1) (il nv2_state 1)) = Some (inl VNil) /\
  ist_result nv_cfg (irun nv_cfg 0 (item_at nv_items 2) (il nv2_state 2)) = Some (inr (EUser 7)).
Proof. repeat split; try (vm_compute; reflexivity). vm_compute. discriminate. Qed.

(* ------------------------------------------------------------ pool *)
(* C12_barrier: a submitter whose next operation is Wait, with the counter at zero after its two
   tasks ran: the Wait step is enabled *)
Definition nv_pool : pst :=
  prun 4 (pinit [[PSubmit 1; PSubmit 2; PWait; PClose]] 2)
       [TSub 0; TSub 0; TSub 0; TSub 0; TWrk 0; TWrk 1; TWrk 0; TWrk 1].
Example barrier_hypotheses_met :
  exists x s', nth_error (p_subs nv_pool) 0 = Some x /\ s_ops x = PWait :: [PClose] /\
               pstep 4 nv_pool (TSub 0) = Some s' /\ ends (p_log nv_pool) = [1; 2].
Proof. eexists. eexists. vm_compute. repeat split; reflexivity. Qed.

(* ------------------------------------------------------------ engine *)
(* a flow of two user nodes; the first has budget 3 and its exec fails twice before it succeeds;
   its post returns the custom action 5, on which the second node is connected; the second
   node's post returns the empty action *)
From Flyt Require Import EngineCorr.
Definition nv_ucfg (N : nat) : ucfg :=
  {| u_retry := Some (N, 0); u_fb := FbUser; u_prep := FDirect; u_exec := FDirect; u_post := FDirect |}.
Definition nv_scen (second_fails : bool) : escen :=
  {| es_nodes := [(0, NUser (nv_ucfg 3)); (1, NUser (nv_ucfg 1)); (2, NFlow (Some 0) [(0, 5, Some 1)])];
     es_root := 2; es_precancel := false;
     es_script := [ {| se_key := (0, PhExec, 0); se_rs := [(RErr (EUser 1), false); (RErr (EUser 2), false); (ROk (VTok 9), false)];
                       se_dflt := (ROk VNil, false) |};
                    {| se_key := (0, PhPost, 0); se_rs := []; se_dflt := (RAct 5, false) |};
                    {| se_key := (1, PhExec, 0); se_rs := []; se_dflt := (if second_fails then RErr (EUser 3) else ROk VNil, false) |};
                    {| se_key := (1, PhFb, 0); se_rs := []; se_dflt := (RErr (EUser 4), false) |};
                    {| se_key := (1, PhPost, 0); se_rs := []; se_dflt := (RAct 0, false) |} ];
     es_runs := 1; es_release := [] |}.
(* a successful run through both nodes: three attempts in the first, the empty action of the
   last post reported as the default action *)
Example engine_run_succeeds :
  exists s', model_run (nv_scen false) (init_ms (nv_scen false)) = Some (s', Done A_DEFAULT) /\
             length (filter (fun e => match ev_call e with CExec 0 _ => true | _ => false end) (log s')) = 3.
Proof. eexists. vm_compute. split; reflexivity. Qed.
(* a failing run: exec and fallback of the second node fail; the error is the fallback's *)
Example engine_run_fails :
  exists s' e, model_run (nv_scen true) (init_ms (nv_scen true)) = Some (s', Fail e) /\ class_of e = KUser 4.
Proof. eexists. eexists. vm_compute. split; reflexivity. Qed.
