(* BatchConcWait.v — C20 for batch items under EVERY schedule: the events made on behalf of item
   i (exec attempts, waits, fallback) are accepted by the wait monitor (Spec/WaitMon.v): no wait
   before the first attempt, one wait between a failed attempt and the next, none after the last
   attempt or a success, nothing after an interrupted wait — whatever the other items and the
   scheduler do. *)
From Flyt Require Import Base FlowTable Engine BatchConc EngineFacts BaseFacts WaitMon WaitProofs
     BatchConcInv BatchConcItems.
From Coq Require Import Lia.

Section Wait.
Variable o : oracle.
Variable c : ucfg.
Variable nd : nid.
Variable items : list val.
Variable stopmode : bool.
Variable nworkers : nat.
Variable qcap : nat.

Notation n := (length items).
Notation bstep := (bstep o c nd items stopmode qcap).
Notation brun := (brun o c nd items stopmode qcap).
Notation task_step := (task_step o c nd items stopmode).
Notation BInv := (BInv items nworkers).
Notation NN := (budget c).
Notation ww := (waitd c).
Notation wr := (wrun ww NN nd).

Definition WS (pc : tpc) (l : list event) : Prop :=
  match pc with
  | PStop | PCtx => l = []
  | PTop k last => wr l = st_at k /\ k <= NN /\ (k = 0 -> exists x, last = inl x)
  | PWait k _ => wr l = WFailed k /\ 0 < k /\ 0 < ww /\ k < NN
  | PExec k _ => ready ww (wr l) k /\ k < NN
  | PFb _ => wr l = WFailed NN /\ 0 < NN
  | PRec _ | PDone => wr l <> WBad
  end.

Definition WaitInv (s : bst) : Prop :=
  forall i, i < n ->
    (deq s <= i -> il s i = []) /\
    (forall pc, running s i pc -> WS pc (il s i)) /\
    (i < deq s -> (forall pc, ~ running s i pc) -> wr (il s i) <> WBad).

Lemma binit_wait s0 : WaitInv (binit items nworkers s0).
Proof.
  intros i Hi. split; [|split].
  - intros _. unfold il. cbn. apply nth_repeat_nil.
  - intros pc [k H]. cbn in H. apply nth_error_In in H. apply repeat_spec in H. discriminate.
  - cbn. lia.
Qed.

Lemma wait_frame s s' :
  WaitInv s -> ws s' = ws s -> ilog s' = ilog s -> deq s' = deq s -> WaitInv s'.
Proof.
  intros I E1 E3 E4 i Hi. unfold il, running. rewrite E1, E3, E4. apply I. exact Hi.
Qed.

Lemma wait_task s s' k i pc w' :
  BInv s -> WaitInv s -> nth_error (ws s) k = Some (WRun i pc) ->
  ws s' = set_nth (ws s) k w' -> deq s' = deq s ->
  (forall j, j <> i -> il s' j = il s j) ->
  (match w' with
   | WRun i' pc' => i' = i /\ WS pc' (il s' i)
   | WIdle => wr (il s' i) <> WBad
   | WExit => False
   end) ->
  WaitInv s'.
Proof.
  intros B I Hk Ew Ed Hoth Hnew j Hj.
  pose proof (nth_error_lt _ _ _ Hk) as Hlt.
  pose proof (I_run _ _ _ B _ _ _ Hk) as Hideq.
  destruct (Nat.eq_dec j i) as [->|Hne].
  - split; [|split].
    + intros Hd. rewrite Ed in Hd. lia.
    + intros pc'' [k' H]. rewrite Ew in H. destruct (Nat.eq_dec k k') as [<-|Hnk].
      * rewrite nth_error_set_nth_eq in H by exact Hlt. inv H. destruct Hnew as [_ Hn]. exact Hn.
      * rewrite nth_error_set_nth_ne in H by exact Hnk.
        exfalso. apply Hnk. eapply (I_inj _ _ _ B); eauto.
    + intros _ Hnr. destruct w' as [|i' pc'|].
      * exact Hnew.
      * destruct Hnew as [-> _]. exfalso. apply (Hnr pc'). exists k. rewrite Ew.
        apply nth_error_set_nth_eq. exact Hlt.
      * contradiction.
  - rewrite (Hoth _ Hne), Ed.
    assert (Hrun : forall pc'', running s' j pc'' <-> running s j pc'').
    { intros pc''. unfold running. rewrite Ew. split; intros [k' H]; exists k'.
      - destruct (Nat.eq_dec k k') as [<-|Hnk].
        + rewrite nth_error_set_nth_eq in H by exact Hlt. inv H.
          destruct Hnew as [Hji _]. contradiction.
        + rewrite nth_error_set_nth_ne in H by exact Hnk. exact H.
      - destruct (Nat.eq_dec k k') as [<-|Hnk].
        + rewrite Hk in H. inv H. contradiction.
        + rewrite nth_error_set_nth_ne by exact Hnk. exact H. }
    destruct (I j Hj) as [I1 [I2 I3]]. split; [exact I1|]. split.
    + intros pc'' Hr. apply I2. apply Hrun. exact Hr.
    + intros Hd Hnr. apply I3; auto. intros pc'' Hr. apply (Hnr pc''). apply Hrun. exact Hr.
Qed.

Lemma st_at_not_bad k : st_at k <> WBad.
Proof. destruct k; discriminate. Qed.

Lemma wr_snoc l ev : wr (l ++ [ev]) = wstep ww NN nd (wr l) ev.
Proof. unfold wrun. rewrite wrun_from_app. reflexivity. Qed.

Lemma task_step_wait s k i pc :
  BInv s -> WaitInv s -> nth_error (ws s) k = Some (WRun i pc) -> WaitInv (task_step s k i pc).
Proof.
  intros B I Hk.
  pose proof (I_run _ _ _ B _ _ _ Hk) as Hideq.
  assert (Hin : i < n) by (pose proof (I_deq _ _ _ B); pose proof (I_enq _ _ _ B); lia).
  assert (Hil : i < length (ilog s)) by (rewrite (I_ilog _ _ _ B); exact Hin).
  destruct (I i Hin) as [_ [Irun _]].
  pose proof (Irun pc (ex_intro _ k Hk)) as TS.
  assert (PcOnly : forall pc' sf,
             WS pc' (il s i) ->
             WaitInv {| enq := enq s; adding := adding s; mpc := mpc s; deq := deq s;
                        ws := set_nth (ws s) k (WRun i pc'); slots := slots s; stopf := sf;
                        wgc := wgc s; closed := closed s; base := base s; ilog := ilog s |}).
  { intros pc' sf T. eapply wait_task with (s := s) (k := k) (i := i) (pc := pc) (w' := WRun i pc');
      eauto; try reflexivity; try (split; [reflexivity|exact T]). }
  assert (Write : forall v sf,
             wr (il s i) <> WBad ->
             WaitInv (set_w (write_slot s i v sf) k (WRun i PDone))).
  { intros v sf T. eapply wait_task with (s := s) (k := k) (i := i) (pc := pc) (w' := WRun i PDone);
      eauto; try reflexivity; try (split; [reflexivity|exact T]). }
  assert (Emit : forall b evs pc',
             log b = log (base s) ++ evs ->
             WS pc' (il s i ++ evs) ->
             WaitInv (set_w (with_base s i b) k (WRun i pc'))).
  { intros b evs pc' L T. eapply wait_task with (s := s) (k := k) (i := i) (pc := pc) (w' := WRun i pc');
      eauto; try reflexivity.
    - intros j Hne.
      change (il (set_w (with_base s i b) k (WRun i pc')) j) with (il (with_base s i b) j).
      rewrite (il_with_base _ _ _ evs) by assumption. destruct (Nat.eq_dec i j); [congruence|reflexivity].
    - split; [reflexivity|].
      change (il (set_w (with_base s i b) k (WRun i pc')) i) with (il (with_base s i b) i).
      rewrite (il_with_base _ _ _ evs) by assumption. destruct (Nat.eq_dec i i); [exact T|contradiction]. }
  destruct pc; cbn [BatchConc.task_step]; cbn [WS] in TS.
  - (* PStop *)
    destruct (stopf s && stopmode).
    + apply Write. rewrite TS. discriminate.
    + apply PcOnly. exact TS.
  - (* PCtx *)
    destruct (cancelled (base s)).
    + apply Write. rewrite TS. discriminate.
    + apply PcOnly. cbn [WS]. rewrite TS. split; [reflexivity|]. split; [lia|eauto].
  - (* PTop *)
    destruct TS as [Hm [Hle H0]].
    destruct (Nat.leb NN k0) eqn:Hb.
    + apply Nat.leb_le in Hb. assert (k0 = NN) by lia. subst k0.
      destruct last as [x|e].
      * apply PcOnly. cbn [WS]. rewrite Hm. apply st_at_not_bad.
      * destruct (u_fb c) eqn:Hf.
        -- apply PcOnly. cbn [WS]. rewrite Hm. apply st_at_not_bad.
        -- apply PcOnly. cbn [WS]. destruct NN eqn:HN.
           ++ destruct (H0 eq_refl) as [x Hx]. discriminate.
           ++ split; [exact Hm|lia].
        -- apply PcOnly. cbn [WS]. destruct NN eqn:HN.
           ++ destruct (H0 eq_refl) as [x Hx]. discriminate.
           ++ split; [exact Hm|lia].
    + apply Nat.leb_gt in Hb.
      destruct (cancelled (base s)).
      * apply PcOnly. cbn [WS]. rewrite Hm. apply st_at_not_bad.
      * destruct (Nat.ltb 0 k0 && Nat.ltb 0 ww) eqn:Hw; apply PcOnly; cbn [WS].
        -- apply andb_true_iff in Hw. destruct Hw as [H1 H2].
           apply Nat.ltb_lt in H1. apply Nat.ltb_lt in H2.
           destruct k0; [lia|]. cbn in Hm. auto.
        -- split; [|exact Hb]. apply andb_false_iff in Hw. destruct k0 as [|k'].
           ++ left. auto.
           ++ destruct Hw as [Hw|Hw]; [cbn in Hw; discriminate|].
              apply Nat.ltb_ge in Hw. right. left. cbn in Hm. split; [exact Hm|]. split; lia.
  - (* PWait *)
    destruct TS as [Hm [Hk0 [Hw0 Hlt]]].
    destruct (emit o (base s) (CWait nd (wait_item (item_at items i)) k0)) as [b r] eqn:E.
    apply emit_spec in E. destruct E as [cn [_ [L C]]].
    set (ev := ((CWait nd (wait_item (item_at items i)) k0, r, cn) : event)) in *.
    assert (Hst : wr (il s i ++ [ev]) = if cn then WCut else WWaited k0).
    { rewrite wr_snoc, Hm. unfold wstep, ev. cbn [ev_call ev_cancel fst snd].
      rewrite !Nat.eqb_refl.
      assert (H1 : Nat.ltb 0 ww = true) by (apply Nat.ltb_lt; exact Hw0).
      assert (H2 : Nat.ltb k0 NN = true) by (apply Nat.ltb_lt; exact Hlt).
      rewrite H1, H2. reflexivity. }
    destruct (cancelled b) eqn:Cb.
    * eapply Emit with (evs := [ev]); [exact L|]. cbn [WS]. rewrite Hst. destruct cn; discriminate.
    * eapply Emit with (evs := [ev]); [exact L|]. cbn [WS]. rewrite Hst.
      destruct cn.
      -- rewrite Bool.orb_true_r in C. discriminate.
      -- split; [right; right; reflexivity|exact Hlt].
  - (* PExec *)
    destruct TS as [Hr Hlt].
    unfold node_exec. destruct (has_exec c) eqn:Hx.
    + destruct (emit o (base s) (CExec nd (exec_arg (u_exec c) (item_at items i)))) as [b r] eqn:E.
      apply emit_spec in E. destruct E as [cn [_ [L _]]].
      set (ev := ((CExec nd (exec_arg (u_exec c) (item_at items i)), r, cn) : event)) in *.
      assert (Hst : wr (il s i ++ [ev]) = wgo k0 r).
      { rewrite wr_snoc. unfold ev. apply ready_exec; assumption. }
      unfold wgo in Hst.
      destruct (ret_val r) as [v|e] eqn:Er; cbn [map_inl].
      * eapply Emit with (evs := [ev]); [exact L|]. cbn [WS]. rewrite Hst. discriminate.
      * eapply Emit with (evs := [ev]); [exact L|]. cbn [WS]. rewrite Hst. split; [reflexivity|]. split; [lia|]. intros; discriminate.
    + eapply Emit with (evs := []); [now rewrite app_nil_r|]. cbn [WS]. rewrite app_nil_r.
      destruct Hr as [[E _]|[[E _]|E]]; rewrite E; discriminate.
  - (* PFb *)
    destruct TS as [Hr HN].
    unfold node_fallback. destruct (u_fb c) eqn:Hf.
    + eapply Emit with (evs := []); [now rewrite app_nil_r|]. cbn [WS]. rewrite app_nil_r, Hr. discriminate.
    + eapply Emit with (evs := []); [now rewrite app_nil_r|]. cbn [WS]. rewrite app_nil_r, Hr. discriminate.
    + destruct (emit o (base s) (CFallback nd (item_at items i) e)) as [b rr] eqn:E.
      apply emit_spec in E. destruct E as [cn [_ [L _]]].
      eapply Emit with (evs := [((CFallback nd (item_at items i) e, rr, cn) : event)]); [exact L|]. cbn [WS]. rewrite wr_snoc, Hr.
      unfold wstep. cbn [ev_call fst snd]. rewrite !Nat.eqb_refl. discriminate.
  - (* PRec *)
    apply Write. exact TS.
  - (* PDone *)
    eapply wait_task with (s := s) (k := k) (i := i) (pc := PDone) (w' := WIdle); eauto; reflexivity.
Qed.

Lemma bstep_wait s t s' : BInv s -> WaitInv s -> bstep s t = Some s' -> WaitInv s'.
Proof.
  intros B I H. destruct t as [|k|k| |]; cbn [BatchConc.bstep] in H.
  - destruct (mpc s).
    + destruct (adding s).
      * destruct (Nat.ltb (enq s - deq s) qcap); inv H. eapply wait_frame; eauto.
      * destruct (Nat.ltb (enq s) (nitems items)); inv H; eapply wait_frame; eauto.
    + destruct (Nat.eqb (wgc s) 0); inv H. eapply wait_frame; eauto.
    + inv H. eapply wait_frame; eauto.
    + discriminate.
  - destruct (nth_error (ws s) k) as [[|i pc|]|] eqn:Hk; try discriminate.
    + destruct (Nat.ltb (deq s) (enq s)) eqn:Hq; inv H. apply Nat.ltb_lt in Hq.
      pose proof (nth_error_lt _ _ _ Hk) as Hlt.
      intros j Hj. unfold il, running. cbn [ws ilog deq].
      destruct (I j Hj) as [I1 [I2 I3]]. split; [|split].
      * intros Hd. apply I1. lia.
      * intros pc [k' Hr]. destruct (Nat.eq_dec k k') as [<-|Hnk].
        -- rewrite nth_error_set_nth_eq in Hr by exact Hlt. inv Hr. cbn. apply I1. lia.
        -- rewrite nth_error_set_nth_ne in Hr by exact Hnk. apply I2. exists k'. exact Hr.
      * intros Hd Hnr. destruct (Nat.eq_dec j (deq s)) as [->|Hne].
        -- exfalso. apply (Hnr PStop). exists k. apply nth_error_set_nth_eq. exact Hlt.
        -- apply I3; [lia|]. intros pc [k' Hr]. apply (Hnr pc). exists k'.
           rewrite nth_error_set_nth_ne; auto. intros <-. rewrite Hk in Hr. discriminate.
    + inv H. apply task_step_wait; auto.
  - destruct (nth_error (ws s) k) as [[|i pc|]|] eqn:Hk; try discriminate.
    destruct (closed s); inv H.
    pose proof (nth_error_lt _ _ _ Hk) as Hlt.
    intros j Hj. unfold il, running. cbn [ws ilog deq set_w].
    destruct (I j Hj) as [I1 [I2 I3]]. split; [exact I1|]. split.
    + intros pc [k' Hr]. destruct (Nat.eq_dec k k') as [<-|Hnk].
      * rewrite nth_error_set_nth_eq in Hr by exact Hlt. discriminate.
      * rewrite nth_error_set_nth_ne in Hr by exact Hnk. apply I2. exists k'. exact Hr.
    + intros Hd Hnr. apply I3; auto. intros pc [k' Hr]. apply (Hnr pc). exists k'.
      rewrite nth_error_set_nth_ne; auto. intros <-. rewrite Hk in Hr. discriminate.
  - inv H. eapply wait_frame; eauto.
  - inv H. eapply wait_frame; eauto.
Qed.

Lemma brun_wait sched : forall s, BInv s -> WaitInv s -> WaitInv (brun s sched).
Proof.
  induction sched as [|t rest IH]; intros s B I; cbn [BatchConc.brun]; auto.
  destruct (bstep s t) as [s'|] eqn:E; auto. apply IH.
  - eapply bstep_inv; eauto.
  - eapply bstep_wait; eauto.
Qed.

(* C20 per batch item, every schedule (including cancellation at any moment, stop mode, any
   number of workers): in every reachable state the events of item i are accepted by the wait
   monitor *)
Lemma item_waits_lemma s0 sched i :
  let s := brun (binit items nworkers s0) sched in
  i < n -> wr (il s i) <> WBad.
Proof.
  intros s Hi.
  pose proof (brun_inv o c nd items stopmode nworkers qcap sched _ (binit_inv items nworkers s0)) as B.
  pose proof (brun_wait sched _ (binit_inv items nworkers s0) (binit_wait s0)) as I. fold s in B, I.
  destruct (I i Hi) as [I1 [I2 I3]].
  destruct (le_lt_dec (deq s) i) as [Hd|Hd].
  - rewrite (I1 Hd). discriminate.
  - destruct (classic_running s i) as [[pc Hr]|Hnr].
    + pose proof (I2 pc Hr) as T. destruct pc; cbn [WS] in T.
      * rewrite T. discriminate.
      * rewrite T. discriminate.
      * destruct T as [-> _]. apply st_at_not_bad.
      * destruct T as [-> _]. discriminate.
      * destruct T as [[[E _]|[[E _]|E]] _]; rewrite E; discriminate.
      * destruct T as [-> _]. discriminate.
      * exact T.
      * exact T.
    + apply I3; auto.
Qed.

End Wait.
