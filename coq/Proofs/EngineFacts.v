(* EngineFacts.v — basic facts about the engine model: every function only appends to the
   log, the cancelled flag is monotone, success actions are normalised. *)
From Flyt Require Import Base FlowTable Engine.

Lemma norm_act_nonempty a : norm_act a <> A_EMPTY.
Proof. unfold norm_act, A_EMPTY, A_DEFAULT. destruct (Nat.eqb a 0) eqn:E; [discriminate|].
  apply Nat.eqb_neq in E. exact E. Qed.

(* s' extends s: the log grows by a suffix, and the context is cancelled afterwards exactly
   when it was cancelled before or one of the new events cancelled it *)
(* every callback the engine makes is handed the store of the run *)
Definition wf_call (c : call) : Prop :=
  match c with
  | CPrep _ st | CPost _ st _ _ | CBPost _ st _ _ => st = VStore
  | _ => True
  end.
Definition wf_events (evs : list event) : Prop := Forall (fun e => wf_call (ev_call e)) evs.

Definition ext (s s' : ms) : Prop :=
  exists evs, log s' = log s ++ evs /\
              cancelled s' = cancelled s || existsb ev_cancel evs /\ wf_events evs.

Lemma ext_refl s : ext s s.
Proof. exists []. cbn. rewrite app_nil_r, orb_false_r. repeat split; auto. constructor. Qed.

Lemma ext_trans a b c : ext a b -> ext b c -> ext a c.
Proof. intros [e1 [H1 [C1 W1]]] [e2 [H2 [C2 W2]]]. exists (e1 ++ e2). split; [|split].
  - now rewrite H2, H1, app_assoc.
  - now rewrite C2, C1, existsb_app, orb_assoc.
  - apply Forall_app. split; assumption. Qed.

Lemma ext_cancelled s s' : ext s s' -> cancelled s = true -> cancelled s' = true.
Proof. intros [e [_ [C _]]] H. now rewrite C, H. Qed.

Lemma ext_not_cancelled s s' : ext s s' -> cancelled s' = false -> cancelled s = false.
Proof. intros E H. destruct (cancelled s) eqn:C; auto. rewrite (ext_cancelled _ _ E C) in H. discriminate. Qed.

Lemma emit_spec o s c s' r :
  emit o s c = (s', r) ->
  exists cn, o (log s) c = (r, cn) /\ log s' = log s ++ [(c, r, cn)]
             /\ cancelled s' = cancelled s || cn.
Proof.
  unfold emit. destruct (o (log s) c) as [r0 cn] eqn:E. intros H. inversion H; subst.
  exists cn. auto.
Qed.

Lemma emit_ext o s c s' r : wf_call c -> emit o s c = (s', r) -> ext s s'.
Proof.
  intros W H. apply emit_spec in H. destruct H as [cn [_ [L C]]]. eexists. split; [exact L|].
  cbn. rewrite orb_false_r. split; auto. repeat constructor. exact W.
Qed.

Ltac inv H := inversion H; subst; clear H.

(* destruct the emit calls and pair-returning lets met in a hypothesis *)
Ltac step_in H :=
  match type of H with
  | context [emit ?o ?s ?c] =>
      let s' := fresh "s" in let r := fresh "r" in let E := fresh "Eemit" in
      destruct (emit o s c) as [s' r] eqn:E
  end.

Section Facts.
Variable o : oracle.
Variable conc_exec : ucfg -> nat -> bool -> nid -> ms -> list val -> ms * list val.
Hypothesis conc_exec_ext : forall c k st n s items s' rs,
    conc_exec c k st n s items = (s', rs) -> ext s s'.

Lemma node_prep_ext c n s s' r : node_prep o c n s = (s', r) -> ext s s'.
Proof.
  unfold node_prep. destruct (has_prep c); intros H;
    [step_in H; inv H; eapply emit_ext; eauto; exact I || reflexivity | inv H; apply ext_refl].
Qed.

Lemma node_exec_ext c n s a s' r : node_exec o c n s a = (s', r) -> ext s s'.
Proof.
  unfold node_exec. destruct (has_exec c); intros H;
    [step_in H; inv H; eapply emit_ext; eauto; exact I || reflexivity | inv H; apply ext_refl].
Qed.

Lemma node_post_ext c n s p x s' r : node_post o c n s p x = (s', r) -> ext s s'.
Proof.
  unfold node_post. destruct (has_post c); intros H;
    [step_in H; inv H; eapply emit_ext; eauto; exact I || reflexivity | inv H; apply ext_refl].
Qed.

Lemma node_fallback_ext c n s p e s' r : node_fallback o c n s p e = (s', r) -> ext s s'.
Proof.
  unfold node_fallback. destruct (u_fb c); intros H;
    try (inv H; apply ext_refl);
    step_in H; inv H; eapply emit_ext; eauto; exact I || reflexivity.
Qed.

Lemma bnode_post_ext c n s i r s' ra : bnode_post o c n s i r = (s', ra) -> ext s s'.
Proof.
  unfold bnode_post. destruct (u_post c); intros H;
    try (inv H; apply ext_refl);
    step_in H; inv H; eapply emit_ext; eauto; exact I || reflexivity.
Qed.

Lemma retry_loop_ext sr sw wi c n w k : forall i s p last s' r,
    retry_loop o sr sw wi c n w k i s p last = (s', r) -> ext s s'.
Proof.
  induction k as [|k IH]; intros i s p last s' r H; cbn [retry_loop] in H.
  - inv H. apply ext_refl.
  - destruct (cancelled s) eqn:Hc; [inv H; apply ext_refl|].
    destruct (Nat.ltb 0 i && Nat.ltb 0 w).
    + destruct (emit o s (CWait n wi i)) as [sw' rw] eqn:Ew.
      apply emit_ext in Ew; [|exact I].
      destruct (cancelled sw'); [inv H; exact Ew|].
      destruct (node_exec o c n sw' p) as [s2 [x|e]] eqn:Ex; apply node_exec_ext in Ex.
      * inv H. eapply ext_trans; eauto.
      * apply IH in H. eapply ext_trans; [|exact H]. eapply ext_trans; eauto.
    + destruct (node_exec o c n s p) as [s2 [x|e]] eqn:Ex; apply node_exec_ext in Ex.
      * inv H. exact Ex.
      * apply IH in H. eapply ext_trans; eauto.
Qed.

Lemma attempts_ext c n w k : forall i s p last s' r,
    attempts o c n w k i s p last = (s', r) -> ext s s'.
Proof. unfold attempts. intros. eapply retry_loop_ext; eauto. Qed.

Lemma item_attempts_ext c n w k : forall i s p last s' r,
    item_attempts o c n w k i s p last = (s', r) -> ext s s'.
Proof. unfold item_attempts. intros. eapply retry_loop_ext; eauto. Qed.

Lemma exec_with_retries_ext c n s item s' r :
  exec_with_retries o c n s item = (s', r) -> ext s s'.
Proof.
  unfold exec_with_retries. destruct (retry_of c) as [N w].
  destruct (item_attempts o c n w N 0 s item (inl VNil)) as [s1 ar] eqn:Ea.
  apply item_attempts_ext in Ea. intros H.
  destruct ar as [e|[x|e]]; try (inv H; exact Ea).
  destruct (u_fb c) eqn:Ef; try (inv H; exact Ea);
    apply node_fallback_ext in H; eapply ext_trans; eauto.
Qed.

Lemma seq_items_ext c stop n items : forall s s' rs,
    seq_items o c stop n s items = (s', rs) -> ext s s'.
Proof.
  induction items as [|it rest IH]; intros s s' rs H; cbn [seq_items] in H.
  - inv H. apply ext_refl.
  - destruct (cancelled s).
    + destruct stop; [inv H; apply ext_refl|].
      destruct (seq_items o c false n s rest) as [s2 rs2] eqn:E. inv H. eauto.
    + destruct (exec_with_retries o c n s it) as [s1 [x|e]] eqn:Ee;
        apply exec_with_retries_ext in Ee.
      * destruct (seq_items o c stop n s1 rest) as [s2 rs2] eqn:E. inv H.
        eapply ext_trans; eauto.
      * destruct stop; [inv H; exact Ee|].
        destruct (seq_items o c false n s1 rest) as [s2 rs2] eqn:E. inv H.
        eapply ext_trans; eauto.
Qed.

Lemma run_user_ext c n s s' oc : run_user o c n s = (s', oc) -> ext s s'.
Proof.
  unfold run_user. destruct (cancelled s); [intros H; inv H; apply ext_refl|].
  destruct (node_prep o c n s) as [s1 [p|e]] eqn:Ep; apply node_prep_ext in Ep;
    [|intros H; inv H; exact Ep].
  destruct (cancelled s1); [intros H; inv H; exact Ep|].
  destruct (retry_of c) as [N w].
  destruct (attempts o c n w N 0 s1 p (inl VNil)) as [s2 ar] eqn:Ea.
  apply attempts_ext in Ea.
  assert (E12 : ext s s2) by (eapply ext_trans; eauto).
  destruct ar as [e|r]; [intros H; inv H; exact E12|].
  match goal with |- context [let '(_, _) := ?X in _] => destruct X as [s3 r'] eqn:E3 end.
  assert (E13 : ext s s3).
  { destruct r as [x|e]; [inv E3; exact E12|].
    destruct (u_fb c); try (inv E3; exact E12);
      apply node_fallback_ext in E3; eapply ext_trans; eauto. }
  clear E3. rename E13 into E3.
  destruct r' as [x|e]; [|intros H; inv H; exact E3].
  destruct (node_post o c n s3 p x) as [s4 [a|e]] eqn:Epo; apply node_post_ext in Epo;
    intros H; inv H; eapply ext_trans; eauto.
Qed.

Lemma run_batch_ext c conc stop n s s' oc : run_batch o conc_exec c conc stop n s = (s', oc) -> ext s s'.
Proof.
  unfold run_batch.
  destruct (node_prep o c n s) as [s1 [pv|e]] eqn:Ep; apply node_prep_ext in Ep;
    [|intros H; inv H; exact Ep].
  destruct (normalise pv) as [|it rest] eqn:En.
  - destruct (bnode_post o c n s1 [] []) as [s2 [a|e]] eqn:Epo; apply bnode_post_ext in Epo;
      intros H; inv H; eapply ext_trans; eauto.
  - match goal with |- context [let '(_, _) := ?X in _] => destruct X as [s2 results] eqn:E2 end.
    assert (E12 : ext s1 s2).
    { destruct (Nat.ltb 0 conc); [eapply conc_exec_ext; eauto | eapply seq_items_ext; eauto]. }
    destruct (bnode_post o c n s2 (it :: rest) results) as [s3 [a|e]] eqn:Epo;
      apply bnode_post_ext in Epo; intros H; inv H;
      (eapply ext_trans; [|exact Epo]); eapply ext_trans; eauto.
Qed.

Lemma flow_loop_ext runf tm :
  (forall s n s' oc, runf s n = Some (s', oc) -> ext s s') ->
  forall g s cur s' r, flow_loop runf tm g s cur = Some (s', r) -> ext s s'.
Proof.
  intros Hrun. induction g as [|g IH]; intros s cur s' r H; cbn [flow_loop] in H; [discriminate|].
  destruct (cancelled s); [inv H; apply ext_refl|].
  destruct (runf s cur) as [[s1 [a|e]]|] eqn:Er; [| |discriminate].
  - apply Hrun in Er.
    destruct (lookup2 tm cur a) as [[nxt|]|].
    + apply IH in H. eapply ext_trans; eauto.
    + inv H. exact Er.
    + inv H. exact Er.
  - apply Hrun in Er. inv H. exact Er.
Qed.

Lemma run_flow_ext runf g start conns :
  (forall s n s' oc, runf s n = Some (s', oc) -> ext s s') ->
  forall s s' oc, run_flow runf g start conns s = Some (s', oc) -> ext s s'.
Proof.
  intros Hrun s s' oc. unfold run_flow.
  destruct (cancelled s); [intros H; inv H; apply ext_refl|].
  destruct start as [st|].
  - destruct (flow_loop runf (build conns) g s st) as [[s1 [a|e]]|] eqn:El; [| |discriminate];
      apply (flow_loop_ext _ _ Hrun) in El; intros H; inv H; exact El.
  - intros H; inv H; apply ext_refl.
Qed.

Variable tbl : table.

Lemma run_ext : forall fuel s n s' oc,
    run o conc_exec tbl fuel s n = Some (s', oc) -> ext s s'.
Proof.
  induction fuel as [|f IH]; intros s n s' oc H; cbn [run] in H; [discriminate|].
  destruct (tbl n) as [[c|start conns|c conc stop]|].
  - inv H. eapply run_user_ext; eauto.
  - eapply run_flow_ext; eauto.
  - inv H. eapply run_batch_ext; eauto.
  - inv H. apply ext_refl.
Qed.

(* ---------------------------------------------------------------- C18 *)
Lemma run_user_done c n s s' a : run_user o c n s = (s', Done a) -> exists a0, a = norm_act a0.
Proof.
  unfold run_user. destruct (cancelled s); [discriminate|].
  destruct (node_prep o c n s) as [s1 [p|e]]; [|discriminate].
  destruct (cancelled s1); [discriminate|].
  destruct (retry_of c) as [N w].
  destruct (attempts o c n w N 0 s1 p (inl VNil)) as [s2 [e|r]]; [discriminate|].
  match goal with |- context [let '(_, _) := ?X in _] => destruct X as [s3 [x|e]] end; [|discriminate].
  destruct (node_post o c n s3 p x) as [s4 [a0|e]]; [|discriminate].
  intros H; inv H. eauto.
Qed.

Lemma run_batch_done c conc stop n s s' a :
  run_batch o conc_exec c conc stop n s = (s', Done a) -> exists a0, a = norm_act a0.
Proof.
  unfold run_batch.
  destruct (node_prep o c n s) as [s1 [pv|e]]; [|discriminate].
  destruct (normalise pv) as [|it rest].
  - destruct (bnode_post o c n s1 [] []) as [s2 [a0|e]]; intros H; inv H; eauto.
  - match goal with |- context [let '(_, _) := ?X in _] => destruct X as [s2 results] end.
    destruct (bnode_post o c n s2 (it :: rest) results) as [s3 [a0|e]]; intros H; inv H; eauto.
Qed.

Lemma run_flow_done runf g start conns s s' a :
  run_flow runf g start conns s = Some (s', Done a) -> exists a0, a = norm_act a0.
Proof.
  unfold run_flow. destruct (cancelled s); [discriminate|].
  match goal with |- context [match ?X with None => None | _ => _ end] => destruct X as [[s1 [a0|e]]|] end;
    intros H; inv H; eauto.
Qed.

Lemma run_done_norm fuel s n s' a :
  run o conc_exec tbl fuel s n = Some (s', Done a) -> exists a0, a = norm_act a0.
Proof.
  destruct fuel as [|f]; cbn [run]; [discriminate|].
  destruct (tbl n) as [[c|start conns|c conc stop]|]; intros H.
  - inv H. eapply run_user_done; eauto.
  - eapply run_flow_done; eauto.
  - inv H. eapply run_batch_done; eauto.
  - discriminate.
Qed.

End Facts.
