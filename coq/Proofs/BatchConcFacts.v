(* BatchConcFacts.v — the concurrent batch executor only appends callback events: its effect on
   the callback log and the context is an extension in the sense of EngineFacts.ext (store
   arguments well-formed, cancelled flag = some event cancelled) and carries no visit token. *)
From Flyt Require Import Base FlowTable Engine Flatten BatchConc EngineFacts FlattenProofs.

Definition good (s s' : ms) : Prop := ext s s' /\ ntext s s'.

Lemma good_refl s : good s s.
Proof. split; [apply ext_refl|apply ntext_refl]. Qed.
Lemma good_trans a b c : good a b -> good b c -> good a c.
Proof. intros [E1 N1] [E2 N2]. split; [eapply ext_trans|eapply ntext_trans]; eauto. Qed.

Section BF.
Variable o : oracle.
Variable c : ucfg.
Variable nd : nid.
Variable items : list val.
Variable stopmode : bool.
Variable nworkers : nat.
Variable qcap : nat.

Notation task_step := (task_step o c nd items stopmode).
Notation bstep := (bstep o c nd items stopmode qcap).

Lemma base_set_w s k w : base (set_w s k w) = base s.
Proof. reflexivity. Qed.
Lemma base_write_slot s i v b : base (write_slot s i v b) = base s.
Proof. reflexivity. Qed.
Lemma base_with_base s i b : base (with_base s i b) = b.
Proof. reflexivity. Qed.

Lemma task_step_good s k i pc : good (base s) (base (task_step s k i pc)).
Proof.
  destruct pc; cbn [BatchConc.task_step].
  - destruct (stopf s && stopmode); apply good_refl.
  - destruct (cancelled (base s)); apply good_refl.
  - destruct (Nat.leb (budget c) k0).
    + destruct last; [apply good_refl|]. destruct (u_fb c); apply good_refl.
    + destruct (cancelled (base s)); [apply good_refl|].
      destruct (Nat.ltb 0 k0 && Nat.ltb 0 (waitd c)); apply good_refl.
  - destruct (emit o (base s) (CWait nd (wait_item (item_at items i)) k0)) as [b r] eqn:E.
    assert (G : good (base s) b).
    { split; [eapply emit_ext; eauto; exact I|eapply emit_nt; eauto; reflexivity]. }
    destruct (cancelled b); exact G.
  - destruct (node_exec o c nd (base s) (item_at items i)) as [b r] eqn:E.
    assert (G : good (base s) b).
    { split; [eapply node_exec_ext; eauto|eapply node_exec_nt; eauto]. }
    destruct r; exact G.
  - destruct (node_fallback o c nd (base s) (item_at items i) e) as [b r] eqn:E.
    split; [eapply node_fallback_ext; eauto|eapply node_fallback_nt; eauto].
  - apply good_refl.
  - apply good_refl.
Qed.

Lemma note_park_good s ps : good (base s) (base (note_park nd s ps)).
Proof.
  unfold note_park. cbn [base]. split.
  - eexists. split; [reflexivity|]. cbn. rewrite orb_false_r. split; auto. repeat constructor.
  - eexists. split; [reflexivity|]. reflexivity.
Qed.

Lemma bstep_good s t s' : t <> TCancel -> bstep s t = Some s' -> good (base s) (base s').
Proof.
  intros Ht H. destruct t as [|k|k| |]; [| | |contradiction|]; cbn [BatchConc.bstep] in H.
  - destruct (mpc s).
    + destruct (adding s).
      * destruct (Nat.ltb (enq s - deq s) qcap); inv H. apply good_refl.
      * destruct (Nat.ltb (enq s) (nitems items)); inv H; apply good_refl.
    + destruct (Nat.eqb (wgc s) 0); inv H. apply good_refl.
    + inv H. apply good_refl.
    + discriminate.
  - destruct (nth_error (ws s) k) as [[|i pc|]|]; try discriminate.
    + destruct (Nat.ltb (deq s) (enq s)); inv H. apply good_refl.
    + inv H. apply task_step_good.
  - destruct (nth_error (ws s) k) as [[|i pc|]|]; try discriminate.
    destruct (closed s); inv H. apply good_refl.
  - inv H. apply note_park_good.
Qed.

Lemma internal_not_cancel s t : internal_enabled o c nd items stopmode qcap s t = true -> t <> TCancel.
Proof. intros H ->. discriminate. Qed.

Lemma quiesce_good fuel : forall s,
    good (base s) (base (quiesce o c nd items stopmode nworkers qcap fuel s)).
Proof.
  induction fuel as [|f IH]; intros s; cbn [quiesce]; [apply good_refl|].
  destruct (find (internal_enabled o c nd items stopmode qcap s) (all_tids nworkers)) as [t|] eqn:Ef;
    [|apply good_refl].
  apply find_some in Ef. destruct Ef as [_ Hen].
  destruct (bstep s t) as [s'|] eqn:Es; [|apply good_refl].
  eapply good_trans; [eapply bstep_good; eauto; eapply internal_not_cancel; eauto|apply IH].
Qed.

Lemma gated_good fuel rel : forall s acc,
    good (base s) (base (fst (gated o c nd items stopmode nworkers qcap fuel rel s acc))).
Proof.
  induction fuel as [|f IH]; intros s acc; cbn [gated]; [apply good_refl|].
  set (s0 := quiesce o c nd items stopmode nworkers qcap _ s).
  assert (G0 : good (base s) (base s0)) by apply quiesce_good.
  destruct (choose rel (parked c s0)) as [p|]; [|exact G0].
  set (s1 := note_park nd s0 (parked c s0)).
  assert (G1 : good (base s) (base s1)).
  { eapply good_trans; [exact G0|]. unfold s1, note_park. cbn [base]. split.
    - eexists. split; [reflexivity|]. cbn. rewrite orb_false_r. split; auto.
      repeat constructor.
    - eexists. split; [reflexivity|]. reflexivity. }
  destruct (find_parked c (ws s1) p 0) as [k|]; [|exact G1].
  destruct (bstep s1 (TWorker k)) as [s2|] eqn:Es; [|exact G1].
  eapply good_trans; [exact G1|]. eapply good_trans; [|apply IH].
  eapply bstep_good; eauto. discriminate.
Qed.

End BF.

Lemma gated_exec_good o rel c conc stop n s its s' rs :
  gated_exec o rel c conc stop n s its = (s', rs) -> good s s'.
Proof.
  unfold gated_exec.
  match goal with |- context [gated ?a ?b ?c' ?d ?e ?f ?g ?h ?i ?j ?k] =>
    pose proof (gated_good a b c' d e f g h i j k) as G;
    destruct (gated a b c' d e f g h i j k) as [fin pts] end.
  intros H. inv H. exact G.
Qed.

Lemma gated_exec_ext o rel : forall c k st n s its s' rs,
    gated_exec o rel c k st n s its = (s', rs) -> ext s s'.
Proof. intros. eapply gated_exec_good; eauto. Qed.
Lemma gated_exec_nt o rel : forall c k st n s its s' rs,
    gated_exec o rel c k st n s its = (s', rs) -> ntext s s'.
Proof. intros. eapply gated_exec_good; eauto. Qed.
