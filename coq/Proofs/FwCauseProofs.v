(* FwCauseProofs.v — a failed run reports a framework-class error (one with no user error and no
   context error at its root) only if the table has a cause for one: a flow without a start
   node, or a reference (root, start node, connection target) to a node that is not in the
   table — provided the user code itself never returns such an error.  For every oracle with
   that proviso, every table, nesting depth and fuel. *)
From Flyt Require Import Base Script FlowTable Engine EngineFacts BaseFacts FlowTableFacts C04Proofs
     EngineCorr Lifecycle SpecEngine SpecBatch EngineSpecProofs.

Definition Ok (e : err) : Prop := class_of e <> KFw.

Lemma class_wrap site e : class_of (EWrap site e) = class_of e.
Proof. reflexivity. Qed.
Lemma Ok_wrap site e : Ok e -> Ok (EWrap site e).
Proof. unfold Ok. now rewrite class_wrap. Qed.
Lemma Ok_ctx site : Ok (EWrap site ECtx).
Proof. discriminate. Qed.

Lemma last_conn_in cs n a t : last_conn cs n a = Some t -> In (n, a, t) cs.
Proof.
  induction cs as [|[[from b] to] rest IH]; cbn; [discriminate|].
  destruct (last_conn rest n a) as [t'|] eqn:E.
  - intros H; inv H. right. auto.
  - destruct (Nat.eqb n from) eqn:E1, (Nat.eqb a b) eqn:E2; cbn; try discriminate.
    intros H; inv H. apply Nat.eqb_eq in E1. apply Nat.eqb_eq in E2. subst. left. reflexivity.
Qed.

Section Fw.
Variable o : oracle.
Variable conc_exec : ucfg -> nat -> bool -> nid -> ms -> list val -> ms * list val.
(* the user code never answers with a framework-class error *)
Hypothesis Ho : forall h c r cn e, o h c = (r, cn) -> r = RErr e -> Ok e.

Lemma emit_ok s c s' r e : emit o s c = (s', r) -> r = RErr e -> Ok e.
Proof. intros H Hr. apply emit_spec in H. destruct H as [cn [H _]]. eapply Ho; eauto. Qed.

Lemma node_prep_ok c n s s' e : node_prep o c n s = (s', inr e) -> Ok e.
Proof.
  unfold node_prep. destruct (has_prep c); [|discriminate].
  destruct (emit o s (CPrep n VStore)) as [s1 r] eqn:E.
  destruct (ret_val r) as [v|e0] eqn:Er; cbn; intros H; inv H.
  eapply emit_ok; eauto. now apply ret_val_err.
Qed.

Lemma node_exec_ok c n s a s' e : node_exec o c n s a = (s', inr e) -> Ok e.
Proof.
  unfold node_exec. destruct (has_exec c); [|discriminate].
  destruct (emit o s (CExec n (exec_arg (u_exec c) a))) as [s1 r] eqn:E.
  destruct (ret_val r) as [v|e0] eqn:Er; cbn; intros H; inv H.
  eapply emit_ok; eauto. now apply ret_val_err.
Qed.

Lemma node_post_ok c n s p x s' e : node_post o c n s p x = (s', inr e) -> Ok e.
Proof.
  unfold node_post. destruct (has_post c); [|discriminate].
  match goal with |- context [emit o s ?cl] => destruct (emit o s cl) as [s1 r] eqn:E end.
  destruct (ret_act r) as [v|e0] eqn:Er; intros H; inv H.
  eapply emit_ok; eauto. now apply ret_act_err.
Qed.

Lemma bnode_post_ok c n s i rs s' e : bnode_post o c n s i rs = (s', inr e) -> Ok e.
Proof.
  unfold bnode_post. destruct (u_post c); try discriminate.
  destruct (emit o s (CBPost n VStore i rs)) as [s1 r] eqn:E.
  destruct (ret_act r) as [v|e0] eqn:Er; intros H; inv H.
  eapply emit_ok; eauto. now apply ret_act_err.
Qed.

Lemma node_fallback_ok c n s p e s' e2 : node_fallback o c n s p e = (s', inr e2) -> e2 = e \/ Ok e2.
Proof.
  unfold node_fallback. destruct (u_fb c); intros H; try solve [inv H; left; reflexivity].
  destruct (emit o s (CFallback n p e)) as [s1 r] eqn:E.
  destruct (ret_val r) as [v|e0] eqn:Er; inv H.
  right. eapply emit_ok; eauto. now apply ret_val_err.
Qed.

Lemma retry_loop_ok sr sw wi c n w k : forall i s p last s' ar,
  retry_loop o sr sw wi c n w k i s p last = (s', ar) ->
  match ar with
  | AAbort e => Ok e
  | ARes (inr e) => last = inr e \/ Ok e
  | ARes (inl _) => True
  end.
Proof.
  induction k as [|k IH]; intros i s p last s' ar H; cbn [retry_loop] in H.
  - inv H. destruct last; auto.
  - destruct (cancelled s); [inv H; apply Ok_ctx|].
    assert (Body : forall s1,
              (let '(s2, r) := node_exec o c n s1 p in
               match r with
               | inl x => (s2, ARes (inl x))
               | inr e => retry_loop o sr sw wi c n w k (S i) s2 p (inr e)
               end) = (s', ar) ->
              match ar with
              | AAbort e => Ok e
              | ARes (inr e) => last = inr e \/ Ok e
              | ARes (inl _) => True
              end).
    { intros s1 HB. destruct (node_exec o c n s1 p) as [s2 [x|e]] eqn:Ee.
      - inv HB. exact I.
      - pose proof (node_exec_ok _ _ _ _ _ _ Ee) as Hok.
        specialize (IH _ _ _ _ _ _ HB). destruct ar as [ea|[x|e2]]; auto.
        destruct IH as [Hl|Hl]; [inv Hl; right; exact Hok|right; exact Hl]. }
    destruct (Nat.ltb 0 i && Nat.ltb 0 w).
    + destruct (emit o s (CWait n wi i)) as [sw' rw] eqn:Ew.
      destruct (cancelled sw'); [inv H; apply Ok_ctx|]. apply (Body sw'); exact H.
    + apply (Body s); exact H.
Qed.

Lemma run_user_ok c n s s' e : run_user o c n s = (s', Fail e) -> Ok e.
Proof.
  unfold run_user. destruct (cancelled s); [intros H; inv H; apply Ok_ctx|].
  destruct (node_prep o c n s) as [s1 [p|ep]] eqn:Ep.
  2:{ intros H; inv H. apply Ok_wrap. eapply node_prep_ok; eauto. }
  destruct (cancelled s1); [intros H; inv H; apply Ok_ctx|].
  destruct (retry_of c) as [N w].
  destruct (attempts o c n w N 0 s1 p (inl VNil)) as [s2 ar] eqn:Ea.
  unfold attempts in Ea. pose proof (retry_loop_ok _ _ _ _ _ _ _ _ _ _ _ _ _ Ea) as Hl.
  destruct ar as [ea|r]; [intros H; inv H; exact Hl|].
  match goal with |- context [let '(_, _) := ?X in _] => destruct X as [s3 r'] eqn:E3 end.
  assert (Hr' : forall e0, r' = inr e0 -> Ok e0).
  { intros e0 ->. destruct r as [x|e1]; [inv E3|].
    assert (He1 : Ok e1) by (destruct Hl as [Hl|Hl]; [discriminate|exact Hl]).
    destruct (u_fb c).
    - inv E3. exact He1.
    - apply node_fallback_ok in E3. destruct E3 as [->|E3]; auto.
    - apply node_fallback_ok in E3. destruct E3 as [->|E3]; auto. }
  destruct r' as [x|e0]; [|intros H; inv H; apply Ok_wrap; auto].
  destruct (node_post o c n s3 p x) as [s4 [a|e0]] eqn:Epo; intros H; inv H.
  apply Ok_wrap. eapply node_post_ok; eauto.
Qed.

Lemma run_batch_ok c conc stop n s s' e : run_batch o conc_exec c conc stop n s = (s', Fail e) -> Ok e.
Proof.
  unfold run_batch.
  destruct (node_prep o c n s) as [s1 [pv|ep]] eqn:Ep.
  2:{ intros H; inv H. apply Ok_wrap. eapply node_prep_ok; eauto. }
  destruct (normalise pv) as [|it rest].
  - destruct (bnode_post o c n s1 [] []) as [s2 [a|e0]] eqn:Epo; intros H; inv H.
    apply Ok_wrap. eapply bnode_post_ok; eauto.
  - match goal with |- context [let '(_, _) := ?X in _] => destruct X as [s2 results] eqn:E2 end.
    destruct (bnode_post o c n s2 (it :: rest) results) as [s3 [a|e0]] eqn:Epo; intros H; inv H.
    apply Ok_wrap. eapply bnode_post_ok; eauto.
Qed.

Variable tbl : table.

(* what can make the framework itself fail *)
Definition fw_cause : Prop :=
  (exists n cs, tbl n = Some (NFlow None cs)) \/
  (exists n st cs, tbl n = Some (NFlow (Some st) cs) /\ tbl st = None) \/
  (exists n st cs from a t, tbl n = Some (NFlow st cs) /\ In (from, a, Some t) cs /\ tbl t = None).

Lemma flow_loop_fw runf n st conns :
  tbl n = Some (NFlow (Some st) conns) ->
  (forall s m s' e, runf s m = Some (s', Fail e) -> ~ Ok e -> tbl m = None \/ fw_cause) ->
  forall g s cur s' e,
    (cur = st \/ exists from a, In (from, a, Some cur) conns) ->
    flow_loop runf (build conns) g s cur = Some (s', inr e) -> ~ Ok e -> fw_cause.
Proof.
  intros Hn Hrun. induction g as [|g IH]; intros s cur s' e Hcur H Hnok; cbn [flow_loop] in H; [discriminate|].
  destruct (cancelled s); [inv H; exfalso; apply Hnok; apply Ok_ctx|].
  destruct (runf s cur) as [[s1 [a|e1]]|] eqn:Er; [| |discriminate].
  - destruct (lookup2 (build conns) cur a) as [[nxt|]|] eqn:El; try discriminate.
    eapply IH; [|exact H|exact Hnok].
    right. exists cur, a. rewrite connect_last_wins_lemma in El. now apply last_conn_in.
  - inv H. destruct (Hrun _ _ _ _ Er Hnok) as [Hnone|Hc]; [|exact Hc].
    destruct Hcur as [->|[from [a Hin]]].
    + right; left. eauto.
    + right; right. exists n, (Some st), conns, from, a, cur. auto.
Qed.

Lemma run_fw : forall fuel s n s' e,
  run o conc_exec tbl fuel s n = Some (s', Fail e) -> ~ Ok e -> tbl n = None \/ fw_cause.
Proof.
  induction fuel as [|f IH]; intros s n s' e H Hnok; cbn [run] in H; [discriminate|].
  destruct (tbl n) as [[c|start conns|c conc stop]|] eqn:Hn.
  - inv H. exfalso. apply Hnok. eapply run_user_ok; eauto.
  - right. unfold run_flow in H. destruct (cancelled s); [inv H; exfalso; apply Hnok; apply Ok_ctx|].
    destruct start as [st|].
    + destruct (flow_loop (run o conc_exec tbl f) (build conns) f s st) as [[s1 [a|e1]]|] eqn:El; inv H.
      eapply (flow_loop_fw _ n st conns Hn IH); [left; reflexivity|exact El|].
      intros Hok. apply Hnok. apply Ok_wrap. exact Hok.
    + left. eauto.
  - inv H. exfalso. apply Hnok. eapply run_batch_ok; eauto.
  - left. reflexivity.
Qed.

End Fw.

(* ------------------------------------------------------------ scenarios *)
Lemma find_entry_in sc k e : find_entry sc k = Some e -> In e sc.
Proof.
  induction sc as [|x rest IH]; cbn; [discriminate|].
  destruct (key_matches (se_key x) k); [intros H; inv H; left; reflexivity|right; auto].
Qed.

Lemma oracle_of_ok sc : script_no_fw sc = true ->
  forall h c r cn e, oracle_of sc h c = (r, cn) -> r = RErr e -> Ok e.
Proof.
  intros Hs h c r cn e H ->. unfold oracle_of in H.
  assert (Hok : resp_no_fw (RErr e, cn) = true).
  { destruct (find_entry sc (call_key c)) as [en|] eqn:Ef.
    - apply find_entry_in in Ef. unfold script_no_fw in Hs. rewrite forallb_forall in Hs.
      specialize (Hs _ Ef). apply andb_true_iff in Hs. destruct Hs as [H1 H2].
      rewrite <- H.
      destruct (nth_in_or_default (count_matching (se_key en) h) (se_rs en) (se_dflt en)) as [Hin|Heq].
      + rewrite forallb_forall in H1. apply H1. exact Hin.
      + rewrite Heq. exact H2.
    - unfold global_default in H. destruct (snd (fst (call_key c))); inv H. }
  unfold resp_no_fw in Hok. cbn in Hok. unfold Ok. intros Hk. rewrite Hk in Hok. discriminate.
Qed.

Lemma table_of_in l n d : table_of l n = Some d -> In (n, d) l.
Proof.
  induction l as [|[k d'] rest IH]; cbn; [discriminate|].
  destruct (Nat.eqb n k) eqn:E; [intros H; inv H; apply Nat.eqb_eq in E; subst; left; reflexivity|right; auto].
Qed.

Lemma fw_cause_possible sc :
  table_of (es_nodes sc) (es_root sc) = None \/ fw_cause (table_of (es_nodes sc)) -> fw_in_table sc = true.
Proof.
  unfold fw_in_table, known_node. intros [H|[H|[H|H]]].
  - rewrite H. reflexivity.
  - destruct H as [n [cs H]]. apply orb_true_iff. right. apply existsb_exists.
    exists (n, NFlow None cs). split; [now apply table_of_in|reflexivity].
  - destruct H as [n [st [cs [H Hst]]]]. apply orb_true_iff. right. apply existsb_exists.
    exists (n, NFlow (Some st) cs). split; [now apply table_of_in|]. cbn. now rewrite Hst.
  - destruct H as [n [st [cs [from [a [t [H [Hin Ht]]]]]]]]. apply orb_true_iff. right. apply existsb_exists.
    exists (n, NFlow st cs). split; [now apply table_of_in|]. cbn. destruct st as [st|]; [|reflexivity].
    apply orb_true_iff. right. apply existsb_exists. exists (from, a, Some t). split; [exact Hin|].
    cbn. now rewrite Ht.
Qed.

(* C05 (and C04): on every run of the model for every scenario, a framework-class failure has
   a cause in the scenario *)
Lemma fw_clause_model_runs sc :
  script_no_fw (es_script sc) = true ->
  forall k s, fw_clause sc (eobs_of_model (model_runs sc k s)) = true \/ fw_in_table sc = true.
Proof.
  intros Hs. induction k as [|k IH]; intros s; cbn [model_runs eobs_of_model]; [left; reflexivity|].
  destruct (model_run sc s) as [[s' oc]|] eqn:E; cbn [eobs_of_model]; [|left; reflexivity].
  destruct (IH s') as [IH'|IH']; [|right; exact IH'].
  destruct oc as [a|e].
  - left. unfold fw_clause in *. cbn [forallb pair_of_outcome snd]. exact IH'.
  - destruct (eclass_eqb (class_of e) KFw) eqn:Ek.
    + right. apply fw_cause_possible. unfold model_run in E.
      eapply (run_fw (oracle_of (es_script sc))); [apply oracle_of_ok; exact Hs|exact E|].
      unfold Ok. intros Hn. apply Hn. destruct (class_of e); try discriminate. reflexivity.
    + left. unfold fw_clause in *. cbn [forallb pair_of_outcome snd].
      destruct (class_of e); try discriminate; exact IH'.
Qed.

(* for EVERY scenario: the clause holds of the model's observation *)
Lemma fw_clause_model_lemma sc : fw_clause sc (eobs_of_model (model_obs sc)) = true.
Proof.
  assert (Hall : fw_possible sc = true -> fw_clause sc (eobs_of_model (model_obs sc)) = true).
  { intros H. unfold fw_clause. apply forallb_forall. intros [[tr oc] fl] _. destruct (snd oc) as [e|]; auto.
    destruct (class_of e); auto. }
  destruct (script_no_fw (es_script sc)) eqn:Hs.
  - destruct (fw_clause_model_runs sc Hs (Nat.max 1 (es_runs sc)) (init_ms sc)) as [H|H]; [exact H|].
    apply Hall. unfold fw_possible. now rewrite H.
  - apply Hall. unfold fw_possible. rewrite Hs. apply orb_true_r.
Qed.

Lemma spec_C05x_model_lemma sc : spec_C05x sc (eobs_of_model (model_obs sc)) = true.
Proof.
  unfold spec_C05x. rewrite fw_clause_model_lemma, andb_true_r.
  apply EngineSpecProofs.spec_C05_model_lemma.
Qed.

Lemma spec_C04x_model_lemma sc : spec_C04x sc (eobs_of_model (model_obs sc)) = true.
Proof.
  unfold spec_C04x. rewrite fw_clause_model_lemma, andb_true_r.
  apply EngineSpecProofs.spec_C04_model_lemma.
Qed.
