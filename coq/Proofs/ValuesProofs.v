(* ValuesProofs.v — C15: the typed accessors are total, their three variants agree, the store
   getters agree with the result accessors, conversions succeed exactly for the documented
   source types, the slice accessor succeeds exactly for slice values. *)
From Flyt Require Import Values Accessors ValuesCorr.
#[local] Open Scope Z_scope.

(* ------------------------------------------------------------ variants (for every value) *)
Lemma string_variants d v :
  as_string_or d v = (if snd (as_string v) then fst (as_string v) else d) /\
  must_string v = (if snd (as_string v) then OVal (fst (as_string v)) else OPanic).
Proof. unfold as_string_or, must_string. destruct (as_string v) as [s [|]]; auto. Qed.
Lemma int_variants d v :
  as_int_or d v = (if snd (as_int v) then fst (as_int v) else Specified d) /\
  must_int v = (if snd (as_int v) then OVal (fst (as_int v)) else OPanic).
Proof. unfold as_int_or, must_int. destruct (as_int v) as [s [|]]; auto. Qed.
Lemma float64_variants d v :
  as_float64_or d v = (if snd (as_float64 v) then fst (as_float64 v) else d) /\
  must_float64 v = (if snd (as_float64 v) then OVal (fst (as_float64 v)) else OPanic).
Proof. unfold as_float64_or, must_float64. destruct (as_float64 v) as [s [|]]; auto. Qed.
Lemma bool_variants d v :
  as_bool_or d v = (if snd (as_bool v) then fst (as_bool v) else d) /\
  must_bool v = (if snd (as_bool v) then OVal (fst (as_bool v)) else OPanic).
Proof. unfold as_bool_or, must_bool. destruct (as_bool v) as [s [|]]; auto. Qed.
Lemma slice_variants d v :
  as_slice_or d v = (if snd (as_slice v) then fst (as_slice v) else d) /\
  must_slice v = (if snd (as_slice v) then OVal (fst (as_slice v)) else OPanic).
Proof. unfold as_slice_or, must_slice. destruct (as_slice v) as [s [|]]; auto. Qed.
Lemma map_variants d v :
  as_map_or d v = (if snd (as_map v) then fst (as_map v) else d) /\
  must_map v = (if snd (as_map v) then OVal (fst (as_map v)) else OPanic).
Proof. unfold as_map_or, must_map. destruct (as_map v) as [s [|]]; auto. Qed.

(* ------------------------------------------------------------ store getter = result accessor *)
Lemma store_result_string d v : get_string_or d (Some v) = as_string_or d v.
Proof. destruct v; reflexivity. Qed.
Lemma store_result_int d v : get_int_or d (Some v) = as_int_or d v.
Proof. destruct v; try reflexivity. destruct k; reflexivity. Qed.
Lemma store_result_float64 d v : get_float64_or d (Some v) = as_float64_or d v.
Proof. destruct v; try reflexivity. destruct k; reflexivity. Qed.
Lemma store_result_bool d v : get_bool_or d (Some v) = as_bool_or d v.
Proof. destruct v; reflexivity. Qed.
Lemma store_result_slice d v : get_slice_or d (Some v) = as_slice_or d v.
Proof.
  destruct v; try reflexivity.
  - unfold get_slice_or, as_slice_or, as_slice. destruct (is_slice_kind (GNamed name v)); reflexivity.
  - destruct e; reflexivity.
Qed.
Lemma store_result_map d v : get_map_or d (Some v) = as_map_or d v.
Proof. destruct v; try reflexivity. destruct str_any; reflexivity. Qed.
Lemma store_missing ds di df db dl dm :
  get_string_or ds None = ds /\ get_int_or di None = Specified di /\ get_float64_or df None = df /\
  get_bool_or db None = db /\ get_slice_or dl None = dl /\ get_map_or dm None = dm.
Proof. repeat split. Qed.

(* ------------------------------------------------------------ exactness *)
Definition documented_num (v : gval) : bool :=
  match v with
  | GInt KUintptr _ => false
  | GInt _ _ | GF32 _ | GF64 _ => true
  | _ => false
  end.

Lemma conv_exact_lemma v :
  snd (as_int v) = documented_num v /\ snd (as_float64 v) = documented_num v /\
  (forall k z, v = GInt k z -> k <> KUintptr ->
               as_int v = (Specified (wrap_int64 z), true) /\ as_float64 v = (f64_of_Z z, true)) /\
  (forall b, v = GF64 b -> as_int v = (trunc_fl (decode64 b), true) /\ as_float64 v = (b, true)) /\
  (forall b, v = GF32 b -> as_int v = (trunc_fl (decode32 b), true) /\ as_float64 v = (f64_of_f32 b, true)).
Proof.
  repeat split.
  - destruct v; try reflexivity. destruct k; reflexivity.
  - destruct v; try reflexivity. destruct k; reflexivity.
  - subst v. destruct k; try reflexivity. contradiction.
  - subst v. destruct k; try reflexivity. contradiction.
  - subst v. reflexivity.
  - subst v. reflexivity.
  - subst v. reflexivity.
  - subst v. reflexivity.
Qed.

Lemma kind_of_strip v : kind_of v = kind_of (strip v).
Proof. induction v; cbn; auto. Qed.
Lemma is_slice_kind_strip v :
  is_slice_kind v = match strip v with GSlice _ _ _ => true | _ => false end.
Proof.
  unfold is_slice_kind. rewrite kind_of_strip.
  assert (H : forall u, strip u = u \/ exists n w, u = GNamed n w) by (destruct u; eauto).
  induction v; cbn; auto.
Qed.

Lemma slice_exact_lemma v :
  snd (as_slice v) = is_slice_kind v /\
  (snd (as_slice v) = true -> snd (fst (as_slice v)) = to_slice v) /\
  to_slice GNil = [] /\
  (is_slice_kind v = false -> v <> GNil -> to_slice v = [v]).
Proof.
  repeat split.
  - destruct v; try reflexivity.
    + unfold as_slice. destruct (is_slice_kind (GNamed name v)); reflexivity.
    + destruct e; reflexivity.
  - destruct v; cbn; try discriminate; auto.
    + unfold as_slice. destruct (is_slice_kind (GNamed name v)) eqn:E; cbn; [reflexivity|discriminate].
    + destruct e; reflexivity.
  - intros Hk Hn. rewrite is_slice_kind_strip in Hk. unfold to_slice.
    destruct v; try contradiction; cbn [strip] in *; try reflexivity.
    + destruct (strip v); try reflexivity; discriminate.
    + discriminate.
Qed.

(* wrapping into the signed 64-bit range is the identity on that range *)
Lemma wrap_int64_id z : - two 63 <= z < two 63 -> wrap_int64 z = z.
Proof.
  intros H. unfold wrap_int64. unfold two in *.
  destruct (Z_lt_le_dec z 0) as [Hn|Hp].
  - assert (E : z mod 2 ^ 64 = z + 2 ^ 64).
    { symmetry. apply Z.mod_unique with (q := -1); lia. }
    rewrite E. destruct (z + 2 ^ 64 <? 2 ^ 63) eqn:C; [apply Z.ltb_lt in C; lia|lia].
  - rewrite Z.mod_small by lia. destruct (z <? 2 ^ 63) eqn:C; [reflexivity|apply Z.ltb_ge in C; lia].
Qed.

(* ------------------------------------------------------------ the pinned slice test *)
Example pinned_map_panics : as_slice_pinned (GMap false false 1) = OPanic.
Proof. reflexivity. Qed.
Example pinned_struct_with_slice_panics :
  as_slice_pinned (GStruct 1 [GInt KInt 1; GSlice EInt false [GInt KInt 2]]) = OPanic.
Proof. reflexivity. Qed.
Example pinned_nan_is_a_slice :
  as_slice_pinned (GF64 9221120237041090560) = OVal ((false, [GF64 9221120237041090560]), true).
Proof. vm_compute. reflexivity. Qed.
Example fixed_map_is_no_slice : as_slice (GMap false false 1) = (sl_nil, false).
Proof. reflexivity. Qed.
Example fixed_nan_is_no_slice : as_slice (GF64 9221120237041090560) = (sl_nil, false).
Proof. reflexivity. Qed.

(* ------------------------------------------------------------ reflexivity of the comparisons *)
Section GvalInd.
Variable P : gval -> Prop.
Hypothesis H0 : P GNil.
Hypothesis H1 : forall k z, P (GInt k z).
Hypothesis H2 : forall b, P (GF32 b).
Hypothesis H3 : forall b, P (GF64 b).
Hypothesis H4 : forall i, P (GComplex i).
Hypothesis H5 : forall i, P (GString i).
Hypothesis H6 : forall b, P (GBool b).
Hypothesis H7 : forall n u, P u -> P (GNamed n u).
Hypothesis H8 : forall e n l, Forall P l -> P (GSlice e n l).
Hypothesis H9 : forall l, Forall P l -> P (GArray l).
Hypothesis H10 : forall s n i, P (GMap s n i).
Hypothesis H11 : forall n i, P (GPtr n i).
Hypothesis H12 : forall n i, P (GFunc n i).
Hypothesis H13 : forall n i, P (GChan n i).
Hypothesis H14 : forall i l, Forall P l -> P (GStruct i l).
Hypothesis H15 : forall n t u, P u -> P (GPtrTo n t u).

Fixpoint gval_ind' (v : gval) : P v :=
  let fix go (l : list gval) : Forall P l :=
      match l with [] => Forall_nil P | x :: xs => Forall_cons x (gval_ind' x) (go xs) end in
  match v with
  | GNil => H0 | GInt k z => H1 k z | GF32 b => H2 b | GF64 b => H3 b | GComplex i => H4 i
  | GString i => H5 i | GBool b => H6 b | GNamed n u => H7 n u (gval_ind' u)
  | GSlice e n l => H8 e n l (go l) | GArray l => H9 l (go l) | GMap s n i => H10 s n i
  | GPtr n i => H11 n i | GFunc n i => H12 n i | GChan n i => H13 n i
  | GStruct i l => H14 i l (go l)
  | GPtrTo n t u => H15 n t u (gval_ind' u)
  end.
End GvalInd.

Lemma ikind_eqb_refl k : ikind_eqb k k = true. Proof. destruct k; reflexivity. Qed.
Lemma ety_eqb_refl e : ety_eqb e e = true. Proof. destruct e; cbn; auto using Nat.eqb_refl. Qed.

Lemma gval_eqb_refl v : gval_eqb v v = true.
Proof.
  induction v using gval_ind'; cbn;
    rewrite ?ikind_eqb_refl, ?Z.eqb_refl, ?Nat.eqb_refl, ?Bool.eqb_reflx, ?ety_eqb_refl; cbn; auto.
  - induction H as [|x xs Hx _ IH]; auto. now rewrite Hx, IH.
  - induction H as [|x xs Hx _ IH]; auto. now rewrite Hx, IH.
  - induction H as [|x xs Hx _ IH]; auto. now rewrite Hx, IH.
Qed.
Lemma gvals_eqb_refl l : gvals_eqb l l = true.
Proof. induction l; cbn; auto. now rewrite gval_eqb_refl. Qed.

Lemma vres_admits_refl r : vres_admits r r = true.
Proof.
  induction r; cbn; auto using Nat.eqb_refl, Bool.eqb_reflx, Z.eqb_refl.
  - now rewrite Bool.eqb_reflx, gvals_eqb_refl.
  - now rewrite Bool.eqb_reflx, Nat.eqb_refl.
  - destruct o; auto using gval_eqb_refl.
  - now rewrite Bool.eqb_reflx, IHr.
Qed.
Lemma vres_eq_refl r : vres_eq r r = true.
Proof. unfold vres_eq. now rewrite vres_admits_refl. Qed.
Lemma vress_admit_refl l : vress_admit l l = true.
Proof. induction l; cbn; auto. now rewrite vres_admits_refl. Qed.

(* ------------------------------------------------------------ the predicate on the model *)
Ltac crush :=
  cbn -[wrap_int64 f64_of_Z f64_of_f32 trunc_fl decode32 decode64 Z.mul Z.add Z.eqb gvals_eqb gval_eqb Nat.eqb vres_eq];
  repeat match goal with |- context [trunc_fl ?x] => destruct (trunc_fl x) end;
  cbn -[wrap_int64 f64_of_Z f64_of_f32 decode32 decode64 Z.mul Z.add Z.eqb gvals_eqb gval_eqb Nat.eqb vres_eq];
  rewrite ?vres_eq_refl, ?Z.eqb_refl, ?Nat.eqb_refl, ?Bool.eqb_reflx, ?gvals_eqb_refl, ?gval_eqb_refl,
          ?ikind_eqb_refl, ?ety_eqb_refl;
  cbn -[Z.eqb gvals_eqb gval_eqb Nat.eqb vres_eq];
  rewrite ?vres_eq_refl, ?Z.eqb_refl, ?Nat.eqb_refl, ?Bool.eqb_reflx, ?gvals_eqb_refl, ?gval_eqb_refl,
          ?ikind_eqb_refl, ?ety_eqb_refl;
  try reflexivity.

Lemma spec_C15_model_lemma v : spec_C15 v (model_vobs v) = true.
Proof.
  unfold spec_C15, family_ok, nthv, model_vobs, result_obs, store_obs, RES_LEN, AS_TYPES.
  destruct v; try destruct k; try destruct e; try destruct str_any; try solve [crush].
  (* a value of a defined type: its kind and ToSlice go by the value under the names *)
  - unfold as_slice_or, must_slice, as_slice, get_slice_or, get_slice.
    rewrite (is_slice_kind_strip (GNamed name v)). unfold to_slice. cbn [strip].
    destruct (strip v); destruct (Nat.eqb name 1) eqn:En; crush; rewrite ?En; crush;
      unfold must_as_T, as_T; cbn [type_of gtype_eqb]; rewrite ?En; crush.
  - destruct (Nat.eqb id 2) eqn:E2; crush; rewrite ?E2; crush;
      unfold must_as_T, as_T; cbn [type_of gtype_eqb]; rewrite ?E2; crush.
Qed.
