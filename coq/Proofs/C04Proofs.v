(* C04Proofs.v — errors are transparent and runs are fail-stop: when a run fails, the last
   entry of the callback log is the callback whose error ended it, the returned error
   matches that error through every wrap, and nothing was appended after it — at any
   depth of nested flows, for every node kind. *)
From Flyt Require Import Base FlowTable Engine EngineFacts BaseFacts.

(* how a failed run relates to the log *)
Definition FailLast (s s' : ms) (e : err) : Prop :=
  (* a framework error without a user cause: a flow without start node, an unknown node *)
  (root e = EFw F_NO_START \/ root e = EFw F_UNKNOWN_NODE) \/
  (* the context's error, and the context is indeed cancelled *)
  (class_of e = KCtx /\ cancelled s' = true) \/
  (* the last callback of the run returned the error u, and e matches u *)
  (exists evs c u cn, log s' = log s ++ evs ++ [(c, RErr u, cn)] /\ is_wait c = false /\
                      err_sim e u = true /\ root e = root u).

Lemma FailLast_wrap s s' site e : FailLast s s' e -> FailLast s s' (EWrap site e).
Proof.
  intros [H|[H|H]]; [left|right; left|right; right]; auto.
Qed.

Lemma FailLast_ext_l s s1 s' e : ext s s1 -> FailLast s1 s' e -> FailLast s s' e.
Proof.
  intros [pre [Hp _]] [H|[H|H]]; [left|right; left|right; right]; auto.
  destruct H as [evs [c [u [cn [L R]]]]]. exists (pre ++ evs), c, u, cn. split; auto.
  rewrite L, Hp, <- !app_assoc. reflexivity.
Qed.

Lemma FailLast_ext_r s s1 s' e :
  ext s s1 -> (exists c u cn, log s' = log s1 ++ [(c, RErr u, cn)] /\ is_wait c = false /\
                              err_sim e u = true /\ root e = root u) ->
  FailLast s s' e.
Proof.
  intros [pre [Hp _]] [c [u [cn [L R]]]]. right; right. exists pre, c, u, cn. split; auto.
  rewrite L, Hp, <- app_assoc. reflexivity.
Qed.

Lemma ret_val_err r e : ret_val r = inr e -> r = RErr e.
Proof. destruct r; cbn; intros H; inv H; reflexivity. Qed.
Lemma ret_act_err r e : ret_act r = inr e -> r = RErr e.
Proof. destruct r; cbn; intros H; inv H; reflexivity. Qed.

Lemma root_wrap site e : root (EWrap site e) = root e.
Proof. reflexivity. Qed.

Section C04.
Variable o : oracle.
Variable conc_exec : ucfg -> nat -> bool -> nid -> ms -> list val -> ms * list val.
Hypothesis conc_exec_ext : forall c k st n s items s' rs,
    conc_exec c k st n s items = (s', rs) -> ext s s'.

(* an emit whose response is an error is the last entry of the log *)
Lemma emit_err_last s c s' r e :
  emit o s c = (s', r) -> r = RErr e -> is_wait c = false ->
  exists c' u cn, log s' = log s ++ [(c', RErr u, cn)] /\ is_wait c' = false /\
                  err_sim e u = true /\ root e = root u.
Proof.
  intros H -> W. apply emit_spec in H. destruct H as [cn [_ [L _]]].
  exists c, e, cn. split; auto. split; auto. split; [apply err_sim_refl|reflexivity].
Qed.

Lemma node_exec_err c n s arg s' e :
  node_exec o c n s arg = (s', inr e) ->
  exists c' u cn, log s' = log s ++ [(c', RErr u, cn)] /\ is_wait c' = false /\
                  err_sim e u = true /\ root e = root u.
Proof.
  unfold node_exec. destruct (has_exec c); [|discriminate].
  destruct (emit o s (CExec n (exec_arg (u_exec c) arg))) as [s1 r] eqn:E. intros H.
  destruct (ret_val r) as [v|e0] eqn:Er; cbn in H; inv H.
  eapply emit_err_last; eauto. now apply ret_val_err.
Qed.

(* the retry loop: an abort is a context error with the context cancelled; a final failure
   is the error of the last attempt, which is the last entry of the log *)
Lemma retry_loop_fail sr swt wi c n w k : forall i s p last s' ar,
    retry_loop o sr swt wi c n w k i s p last = (s', ar) ->
    match ar with
    | AAbort e => class_of e = KCtx /\ cancelled s' = true
    | ARes (inr e) =>
        (last = inr e /\ s' = s) \/
        (exists evs c' u cn, log s' = log s ++ evs ++ [(c', RErr u, cn)] /\ is_wait c' = false /\
                             err_sim e u = true /\ root e = root u)
    | ARes (inl _) => True
    end.
Proof.
  induction k as [|k IH]; intros i s p last s' ar H; cbn [retry_loop] in H.
  - inv H. destruct last; auto.
  - destruct (cancelled s) eqn:Hc; [inv H; split; auto|].
    assert (Body : forall s1, ext s s1 ->
              (let '(s2, r) := node_exec o c n s1 p in
               match r with
               | inl x => (s2, ARes (inl x))
               | inr e => retry_loop o sr swt wi c n w k (S i) s2 p (inr e)
               end) = (s', ar) ->
              match ar with
              | AAbort e => class_of e = KCtx /\ cancelled s' = true
              | ARes (inr e) =>
                  (last = inr e /\ s' = s) \/
                  (exists evs c' u cn, log s' = log s ++ evs ++ [(c', RErr u, cn)] /\
                                       is_wait c' = false /\ err_sim e u = true /\ root e = root u)
              | ARes (inl _) => True
              end).
    { intros s1 E1 HB. destruct (node_exec o c n s1 p) as [s2 [x|e]] eqn:Ee.
      - inv HB. exact I.
      - pose proof (node_exec_err _ _ _ _ _ _ Ee) as Hlast.
        pose proof (node_exec_ext _ _ _ _ _ _ _ Ee) as E2.
        specialize (IH _ _ _ _ _ _ HB).
        destruct ar as [ea|[x|e2]]; auto.
        right. destruct IH as [[Hl Hs]|IH].
        + inv Hl. destruct E1 as [pre [Hp _]].
          destruct Hlast as [c' [u [cn [L R]]]]. exists pre, c', u, cn. split; auto.
          rewrite L, Hp, <- app_assoc. reflexivity.
        + assert (E02 : ext s s2) by (eapply ext_trans; eauto).
          destruct E02 as [pre [Hp _]].
          destruct IH as [evs [c' [u [cn [L R]]]]]. exists (pre ++ evs), c', u, cn. split; auto.
          rewrite L, Hp, <- !app_assoc. reflexivity. }
    destruct (Nat.ltb 0 i && Nat.ltb 0 w).
    + destruct (emit o s (CWait n wi i)) as [sw' rw] eqn:Ew.
      destruct (cancelled sw') eqn:Hsw; [inv H; split; auto|].
      apply (Body sw'); [eapply emit_ext; eauto; exact I|exact H].
    + apply (Body s); [apply ext_refl|exact H].
Qed.

Lemma node_fallback_err c n s p e s' e2 :
  node_fallback o c n s p e = (s', inr e2) ->
  (s' = s /\ e2 = e) \/
  (exists c' u cn, log s' = log s ++ [(c', RErr u, cn)] /\ is_wait c' = false /\
                   err_sim e2 u = true /\ root e2 = root u).
Proof.
  unfold node_fallback. destruct (u_fb c); intros H; try solve [inv H; left; auto].
  destruct (emit o s (CFallback n p e)) as [s1 r] eqn:E.
  destruct (ret_val r) as [v|e0] eqn:Er; inv H.
  right. eapply emit_err_last; eauto. now apply ret_val_err.
Qed.

Lemma run_user_faillast c n s s' e : run_user o c n s = (s', Fail e) -> FailLast s s' e.
Proof.
  unfold run_user. destruct (cancelled s) eqn:Hc.
  { intros H; inv H. right; left. auto. }
  destruct (node_prep o c n s) as [s1 [p|ep]] eqn:Ep.
  2:{ intros H; inv H. unfold node_prep in Ep. destruct (has_prep c); [|discriminate].
      destruct (emit o s (CPrep n VStore)) as [s1' r] eqn:E.
      destruct (ret_val r) as [v|e0] eqn:Er; cbn in Ep; inv Ep.
      apply FailLast_wrap. eapply FailLast_ext_r; [apply ext_refl|].
      eapply emit_err_last; eauto. now apply ret_val_err. }
  pose proof (node_prep_ext _ _ _ _ _ _ Ep) as E01.
  destruct (cancelled s1) eqn:Hc1.
  { intros H; inv H. right; left. auto. }
  destruct (retry_of c) as [N w].
  destruct (attempts o c n w N 0 s1 p (inl VNil)) as [s2 ar] eqn:Ea.
  pose proof (attempts_ext _ _ _ _ _ _ _ _ _ _ _ Ea) as E12.
  unfold attempts in Ea. pose proof (retry_loop_fail _ _ _ _ _ _ _ _ _ _ _ _ _ Ea) as Hl.
  assert (E02 : ext s s2) by (eapply ext_trans; eauto).
  destruct ar as [ea|r].
  { intros H; inv H. right; left. exact Hl. }
  (* where a failure of the exec phase comes from *)
  assert (Hexec : forall e0, r = inr e0 -> FailLast s s2 e0).
  { intros e0 ->. destruct Hl as [[Hl _]|Hl]; [discriminate|].
    eapply FailLast_ext_l; [exact E01|]. right; right. exact Hl. }
  match goal with |- context [let '(_, _) := ?X in _] => destruct X as [s3 r'] eqn:E3 end.
  assert (E23 : ext s2 s3).
  { destruct r as [x|e0]; [inv E3; apply ext_refl|].
    destruct (u_fb c); try (inv E3; apply ext_refl); eapply node_fallback_ext; eauto. }
  assert (Hr' : forall e0, r' = inr e0 -> FailLast s s3 e0).
  { intros e0 ->. destruct r as [x|e1]; [inv E3|].
    destruct (u_fb c) eqn:Hfb.
    - inv E3. auto.
    - apply node_fallback_err in E3. destruct E3 as [[-> ->]|E3]; auto.
      eapply FailLast_ext_r; eauto.
    - apply node_fallback_err in E3. destruct E3 as [[-> ->]|E3]; auto.
      eapply FailLast_ext_r; eauto. }
  destruct r' as [x|e0].
  2:{ intros H; inv H. apply FailLast_wrap. auto. }
  destruct (node_post o c n s3 p x) as [s4 [a|e0]] eqn:Epo; intros H; inv H.
  unfold node_post in Epo. destruct (has_post c); [|discriminate].
  match type of Epo with context [emit o s3 ?cl] => destruct (emit o s3 cl) as [s4' r4] eqn:E end.
  destruct (ret_act r4) as [a|e1] eqn:Er; inv Epo.
  apply FailLast_wrap. eapply FailLast_ext_r; [eapply ext_trans; eauto|].
  eapply emit_err_last; eauto. now apply ret_act_err.
Qed.

Lemma bnode_post_err c n s i r s' e :
  bnode_post o c n s i r = (s', inr e) ->
  exists c' u cn, log s' = log s ++ [(c', RErr u, cn)] /\ is_wait c' = false /\
                  err_sim e u = true /\ root e = root u.
Proof.
  unfold bnode_post. destruct (u_post c); try discriminate.
  destruct (emit o s (CBPost n VStore i r)) as [s1 r1] eqn:E.
  destruct (ret_act r1) as [a|e1] eqn:Er; intros H; inv H.
  eapply emit_err_last; eauto. now apply ret_act_err.
Qed.

Lemma run_batch_faillast c conc stop n s s' e :
  run_batch o conc_exec c conc stop n s = (s', Fail e) -> FailLast s s' e.
Proof.
  unfold run_batch.
  destruct (node_prep o c n s) as [s1 [pv|ep]] eqn:Ep.
  2:{ intros H; inv H. unfold node_prep in Ep. destruct (has_prep c); [|discriminate].
      destruct (emit o s (CPrep n VStore)) as [s1' r] eqn:E.
      destruct (ret_val r) as [v|e0] eqn:Er; cbn in Ep; inv Ep.
      apply FailLast_wrap. eapply FailLast_ext_r; [apply ext_refl|].
      eapply emit_err_last; eauto. now apply ret_val_err. }
  pose proof (node_prep_ext _ _ _ _ _ _ Ep) as E01.
  destruct (normalise pv) as [|it rest].
  - destruct (bnode_post o c n s1 [] []) as [s2 [a|e0]] eqn:Epo; intros H; inv H.
    apply FailLast_wrap. eapply FailLast_ext_r; [exact E01|]. eapply bnode_post_err; eauto.
  - match goal with |- context [let '(_, _) := ?X in _] => destruct X as [s2 results] eqn:E2 end.
    assert (E12 : ext s1 s2).
    { destruct (Nat.ltb 0 conc); [eapply conc_exec_ext; eauto | eapply seq_items_ext; eauto]. }
    destruct (bnode_post o c n s2 (it :: rest) results) as [s3 [a|e0]] eqn:Epo; intros H; inv H.
    apply FailLast_wrap. eapply FailLast_ext_r; [eapply ext_trans; eauto|].
    eapply bnode_post_err; eauto.
Qed.

Lemma flow_loop_faillast runf tm :
  (forall s n s' oc, runf s n = Some (s', oc) -> ext s s') ->
  (forall s n s' e, runf s n = Some (s', Fail e) -> FailLast s s' e) ->
  forall g s cur s' e, flow_loop runf tm g s cur = Some (s', inr e) -> FailLast s s' e.
Proof.
  intros Hext Hrun. induction g as [|g IH]; intros s cur s' e H; cbn [flow_loop] in H; [discriminate|].
  destruct (cancelled s) eqn:Hc.
  { inv H. right; left. auto. }
  destruct (runf s cur) as [[s1 [a|e1]]|] eqn:Er; [| |discriminate].
  - destruct (lookup2 tm cur a) as [[nxt|]|]; try discriminate.
    eapply FailLast_ext_l; [eapply Hext; eauto|]. eapply IH; eauto.
  - inv H. eapply Hrun; eauto.
Qed.

Lemma run_flow_faillast runf g start conns :
  (forall s n s' oc, runf s n = Some (s', oc) -> ext s s') ->
  (forall s n s' e, runf s n = Some (s', Fail e) -> FailLast s s' e) ->
  forall s s' e, run_flow runf g start conns s = Some (s', Fail e) -> FailLast s s' e.
Proof.
  intros Hext Hrun s s' e. unfold run_flow. destruct (cancelled s) eqn:Hc.
  { intros H; inv H. right; left. auto. }
  destruct start as [st|].
  - destruct (flow_loop runf (build conns) g s st) as [[s1 [a|e1]]|] eqn:El; intros H; inv H.
    apply FailLast_wrap. eapply flow_loop_faillast; eauto.
  - intros H; inv H. left. left. reflexivity.
Qed.

Variable tbl : table.

Lemma run_faillast : forall fuel s n s' e,
    run o conc_exec tbl fuel s n = Some (s', Fail e) -> FailLast s s' e.
Proof.
  induction fuel as [|f IH]; intros s n s' e H; cbn [run] in H; [discriminate|].
  destruct (tbl n) as [[c|start conns|c conc stop]|].
  - inv H. eapply run_user_faillast; eauto.
  - eapply run_flow_faillast; eauto. intros. eapply run_ext; eauto.
  - inv H. eapply run_batch_faillast; eauto.
  - inv H. left. right. reflexivity.
Qed.

End C04.
