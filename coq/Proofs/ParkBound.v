(* ParkBound.v — C08, upper bound, on the log: in the callback log of EVERY schedule (the observer
   may note the calls in flight at any moment: TNote) every note lists at most `workers` calls.
   This is the walk the check applies to the implementation's notes (parks_ok: length codes <=
   workers), proved of every run, hence of the model run of the correspondence check. *)
From Flyt Require Import Base FlowTable Engine BatchConc EngineFacts BatchConcInv.
From Coq Require Import Lia.

Definition park_ok (w : nat) (e : event) : Prop :=
  match ev_call e with CPark _ codes => length codes <= w | _ => True end.
Definition ParkOK (w : nat) (l : list event) : Prop := Forall (park_ok w) l.

Lemma insert_sorted_len x l : length (insert_sorted x l) = S (length l).
Proof. induction l as [|y t IH]; cbn; auto. destruct (Nat.leb x y); cbn; auto. Qed.
Lemma sort_nat_len l : length (sort_nat l) = length l.
Proof. unfold sort_nat. induction l as [|x t IH]; cbn; auto. now rewrite insert_sorted_len, IH. Qed.

Section PB.
Variable o : oracle.
Variable c : ucfg.
Variable nd : nid.
Variable items : list val.
Variable stopmode : bool.
Variable nworkers : nat.
Variable qcap : nat.
Notation bstep := (bstep o c nd items stopmode qcap).
Notation brun := (brun o c nd items stopmode qcap).
Notation BInv := (BInv items nworkers).

Lemma emit_park_ok s cl s' r :
  emit o s cl = (s', r) -> (match cl with CPark _ _ => False | _ => True end) ->
  ParkOK nworkers (log s) -> ParkOK nworkers (log s').
Proof.
  intros H Hc P. apply emit_spec in H. destruct H as [cn [_ [L _]]]. rewrite L.
  apply Forall_app. split; [exact P|]. constructor; [|constructor].
  unfold park_ok. cbn. destruct cl; try exact I. contradiction.
Qed.

Lemma task_step_park s k i pc :
  ParkOK nworkers (log (base s)) -> ParkOK nworkers (log (base (task_step o c nd items stopmode s k i pc))).
Proof.
  intros P. destruct pc; cbn [task_step].
  - destruct (stopf s && stopmode); exact P.
  - destruct (cancelled (base s)); exact P.
  - destruct (Nat.leb (budget c) k0).
    + destruct last; [exact P|]. destruct (u_fb c); exact P.
    + destruct (cancelled (base s)); [exact P|]. destruct (Nat.ltb 0 k0 && Nat.ltb 0 (waitd c)); exact P.
  - destruct (emit o (base s) (CWait nd (wait_item (item_at items i)) k0)) as [b r] eqn:E.
    assert (Pb : ParkOK nworkers (log b)) by (eapply emit_park_ok; eauto; exact I).
    destruct (cancelled b); exact Pb.
  - unfold node_exec. destruct (has_exec c).
    + destruct (emit o (base s) (CExec nd (exec_arg (u_exec c) (item_at items i)))) as [b r] eqn:E.
      assert (Pb : ParkOK nworkers (log b)) by (eapply emit_park_ok; eauto; exact I).
      destruct (map_inl (exec_ret (u_exec c)) (ret_val r)); exact Pb.
    + exact P.
  - unfold node_fallback. destruct (u_fb c); try exact P.
    destruct (emit o (base s) (CFallback nd (item_at items i) e)) as [b r] eqn:E.
    eapply emit_park_ok; eauto. exact I.
  - exact P.
  - exact P.
Qed.

Lemma bstep_park s t s' :
  BInv s -> ParkOK nworkers (log (base s)) -> bstep s t = Some s' -> ParkOK nworkers (log (base s')).
Proof.
  intros B P H. destruct t as [|k|k| |]; cbn [BatchConc.bstep] in H.
  - destruct (mpc s).
    + destruct (adding s); [destruct (Nat.ltb (enq s - deq s) qcap)|destruct (Nat.ltb (enq s) (nitems items))];
        inv H; exact P.
    + destruct (Nat.eqb (wgc s) 0); inv H; exact P.
    + inv H; exact P.
    + discriminate.
  - destruct (nth_error (ws s) k) as [[|i pc|]|]; try discriminate.
    + destruct (Nat.ltb (deq s) (enq s)); inv H; exact P.
    + inv H. apply task_step_park. exact P.
  - destruct (nth_error (ws s) k) as [[|i pc|]|]; try discriminate.
    destruct (closed s); inv H; exact P.
  - inv H. exact P.
  - inv H. unfold note_park. cbn [base log]. apply Forall_app. split; [exact P|].
    constructor; [|constructor]. unfold park_ok. cbn. rewrite sort_nat_len, map_length.
    apply (inflight_bound c items nworkers s B).
Qed.

Lemma brun_park sched : forall s, BInv s -> ParkOK nworkers (log (base s)) -> ParkOK nworkers (log (base (brun s sched))).
Proof.
  induction sched as [|t rest IH]; intros s B P; cbn [BatchConc.brun]; auto.
  destruct (bstep s t) as [s'|] eqn:E; auto. apply IH.
  - eapply bstep_inv; eauto.
  - eapply bstep_park; eauto.
Qed.

(* every note in the log of every schedule lists at most `workers` calls in flight *)
Lemma notes_bounded_lemma s0 sched :
  ParkOK nworkers (log s0) ->
  ParkOK nworkers (log (base (brun (binit items nworkers s0) sched))).
Proof. intros P. apply brun_park; [apply binit_inv|exact P]. Qed.

End PB.
