(* C17Glue.v - instantiations of invariants at reachable states and other short steps behind the
   theorems of Properties/C17.v (kept out of that file, which holds statements only). *)
From Flyt Require Import Base Script Engine EngineCorr Lifecycle SpecEngine C17Proofs EngineSpecProofs.


Lemma C17_styles_interchangeable_glue :
  (forall a, exec_arg FAny a = value_of (exec_arg FRes a)) /\
  (forall p, post_p FAny p = value_of (post_p FRes p)) /\
  (forall x, post_x FAny x = value_of (post_x FRes x)) /\
  (forall v, is_res v = false -> prep_ret FAny v = prep_ret FRes v) /\
  (forall v, is_res v = false -> exec_ret FAny v = exec_ret FRes v).
Proof.
  exact (conj styles_exec_arg_lemma (conj styles_post_p_lemma (conj styles_post_x_lemma
        (conj styles_prep_ret_lemma styles_exec_ret_lemma)))).
Qed.
