(* LinProofs.v — a witness accepted by check_witness proves the history linearizable. *)
From Flyt Require Import Store Lin.
From Coq Require Import Permutation.

Lemma nodup_ids_spec l : nodup_ids l = true -> NoDup l.
Proof.
  induction l as [|x t IH]; cbn; intros H; [constructor|].
  apply andb_prop in H. destruct H as [H1 H2]. constructor; [|auto].
  intros Hin. apply negb_true_iff in H1.
  assert (existsb (Nat.eqb x) t = true) by (apply existsb_exists; exists x; split; auto using Nat.eqb_refl).
  congruence.
Qed.

Lemma nodup_map_inj {A B} (f : A -> B) l : NoDup (map f l) -> NoDup l.
Proof.
  induction l as [|x t IH]; cbn; intros H; [constructor|]. inversion H; subst.
  constructor; [|auto]. intros Hin. apply H2. apply in_map. exact Hin.
Qed.

Lemma find_op_spec H id a : find_op H id = Some a -> In a H /\ h_id a = id.
Proof.
  induction H as [|b t IH]; cbn; [discriminate|].
  destruct (Nat.eqb (h_id b) id) eqn:E.
  - intros X. inversion X; subst. apply Nat.eqb_eq in E. auto.
  - intros X. destruct (IH X). auto.
Qed.

Lemma resolve_spec H : forall w sq, resolve H w = Some sq -> incl sq H /\ map h_id sq = w.
Proof.
  induction w as [|id rest IH]; cbn; intros sq HS.
  - inversion HS; subst. split; [intros x []|reflexivity].
  - destruct (find_op H id) as [a|] eqn:Ef; [|discriminate].
    destruct (resolve H rest) as [l|] eqn:Er; [|discriminate]. inversion HS; subst.
    destruct (find_op_spec _ _ _ Ef) as [Hin Hid]. destruct (IH l eq_refl) as [Hincl Hmap].
    split.
    + intros x [<-|Hx]; auto.
    + cbn. now rewrite Hid, Hmap.
Qed.

Lemma legalb_legal sq : forall m, legalb m sq = true -> legal m sq.
Proof.
  induction sq as [|a rest IH]; cbn; intros m H; auto.
  apply andb_prop in H. destruct H. split; auto.
Qed.

Lemma before_or (sq : list hop) a b :
  NoDup sq -> In a sq -> In b sq -> a <> b -> before sq a b \/ before sq b a.
Proof.
  intros Hnd Ha Hb Hne.
  apply in_split in Ha. destruct Ha as [l1 [l2 ->]].
  apply in_app_or in Hb. destruct Hb as [Hb|[Hb|Hb]].
  - right. apply in_split in Hb. destruct Hb as [m1 [m2 ->]].
    exists m1, m2, l2. now rewrite <- app_assoc.
  - congruence.
  - left. apply in_split in Hb. destruct Hb as [m1 [m2 ->]]. exists l1, m1, m2. reflexivity.
Qed.

Lemma realtime_before sq : forall b a,
    realtime_ok sq = true -> before sq b a -> ~ (h_res a < h_inv b).
Proof.
  induction sq as [|x rest IH]; intros b a H [l1 [l2 [l3 E]]].
  - destruct l1; discriminate.
  - cbn in H. apply andb_prop in H. destruct H as [H1 H2].
    destruct l1 as [|y l1]; cbn in E; inversion E; subst.
    + rewrite forallb_forall in H1.
      assert (Hin : In a (l2 ++ a :: l3)) by (apply in_or_app; right; now left).
      specialize (H1 a Hin). apply negb_true_iff in H1. apply Nat.ltb_ge in H1. lia.
    + apply IH; auto. exists l1, l2, l3. reflexivity.
Qed.

Lemma check_witness_sound_lemma H w : check_witness H w = true -> Linearizable H.
Proof.
  unfold check_witness. intros C.
  repeat (apply andb_prop in C; destruct C as [C ?]).
  rename H0 into Hres, H1 into Hwf, H2 into Hlen, H3 into Hndw.
  destruct (resolve H w) as [sq|] eqn:Er; [|discriminate].
  apply andb_prop in Hres. destruct Hres as [Hleg Hrt].
  destruct (resolve_spec _ _ _ Er) as [Hincl Hmap].
  apply nodup_ids_spec in C. apply nodup_ids_spec in Hndw.
  assert (HndH : NoDup H) by (eapply nodup_map_inj; eauto).
  assert (HndS : NoDup sq) by (apply (nodup_map_inj h_id); now rewrite Hmap).
  assert (Hl : length sq = length H).
  { apply Nat.eqb_eq in Hlen. rewrite <- Hlen, <- Hmap, map_length. reflexivity. }
  assert (Hperm : Permutation H sq).
  { apply Permutation_sym. apply NoDup_Permutation_bis; auto. lia. }
  exists sq. split; [exact Hperm|]. split; [now apply legalb_legal|].
  intros a b Ha Hb Hlt.
  assert (Hne : a <> b).
  { intros ->. rewrite forallb_forall in Hwf. specialize (Hwf b Hb). apply Nat.leb_le in Hwf. lia. }
  destruct (before_or sq a b HndS) as [Hab|Hba]; auto.
  - eapply Permutation_in; eauto.
  - eapply Permutation_in; eauto.
  - exfalso. eapply realtime_before; eauto.
Qed.
