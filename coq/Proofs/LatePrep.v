(* LatePrep.v — "no further node of the flow is started" for EVERY scenario, every oracle, every
   table (full user nodes, partial nodes, batch nodes, flows of any nesting), every fuel: once
   the context is cancelled the model makes no prep callback, except for a batch node that is
   itself the root of the run.  This is the clause late_prep_runs of spec_C05y (Spec/SpecBatch.v),
   proved of the model's observation. *)
From Flyt Require Import Base Script FlowTable Engine Flatten BatchConc EngineFacts BaseFacts
     FlattenProofs BatchConcFacts C18Proofs EngineCorr SpecC18 SpecEngine SpecBatch FwCauseProofs.

Definition lp (okn : nid -> bool) (s s' : ms) : Prop :=
  exists evs, log s' = log s ++ evs /\ cancelled s' = cancelled s || existsb ev_cancel evs /\
              late_prep_ok okn (cancelled s) evs = true.

Lemma late_prep_app okn : forall a c b,
    late_prep_ok okn c (a ++ b) = late_prep_ok okn c a && late_prep_ok okn (c || existsb ev_cancel a) b.
Proof.
  induction a as [|e a IH]; intros c b; cbn [app late_prep_ok existsb].
  - now rewrite orb_false_r.
  - rewrite IH, andb_assoc, orb_assoc. reflexivity.
Qed.

Lemma lp_refl okn s : lp okn s s.
Proof. exists []. cbn. now rewrite app_nil_r, orb_false_r. Qed.

Lemma lp_trans okn a b c : lp okn a b -> lp okn b c -> lp okn a c.
Proof.
  intros [e1 [L1 [C1 P1]]] [e2 [L2 [C2 P2]]]. exists (e1 ++ e2). split; [|split].
  - now rewrite L2, L1, app_assoc.
  - now rewrite C2, C1, existsb_app, orb_assoc.
  - rewrite late_prep_app, P1. cbn [andb]. rewrite <- C1. exact P2.
Qed.

(* events without visit tokens contain no prep *)
Lemma noprep_lp okn : forall evs c, tokens evs = [] -> late_prep_ok okn c evs = true.
Proof.
  induction evs as [|e evs IH]; intros c T; cbn [late_prep_ok]; [reflexivity|].
  unfold tokens in T. cbn [flat_map] in T. apply app_eq_nil in T. destruct T as [T1 T2].
  rewrite (IH _ T2), andb_true_r.
  destruct c; [|reflexivity]. unfold tok_of in T1. destruct (ev_call e); try reflexivity; discriminate.
Qed.

Lemma good_lp okn s s' : ext s s' -> ntext s s' -> lp okn s s'.
Proof.
  intros [evs [L [C _]]] [evs' [L' T]]. exists evs. split; [exact L|]. split; [exact C|].
  assert (evs = evs') by (apply (app_inv_head (log s)); now rewrite <- L, <- L'). subst evs'.
  apply noprep_lp. exact T.
Qed.

Section LP.
Variable o : oracle.
Variable conc_exec : ucfg -> nat -> bool -> nid -> ms -> list val -> ms * list val.
Hypothesis conc_exec_ext : forall c k st n s items s' rs,
    conc_exec c k st n s items = (s', rs) -> ext s s'.
Hypothesis conc_exec_nt : forall c k st n s items s' rs,
    conc_exec c k st n s items = (s', rs) -> ntext s s'.
Variable okn : nid -> bool.

Lemma emit_lp s cl s' r :
  (match cl with CPrep _ _ => False | _ => True end) -> emit o s cl = (s', r) -> lp okn s s'.
Proof.
  intros Hc H. apply emit_spec in H. destruct H as [cn [_ [L C]]]. eexists. split; [exact L|].
  cbn [existsb ev_cancel snd late_prep_ok ev_call fst]. rewrite orb_false_r. split; [exact C|].
  rewrite andb_true_r. destruct (cancelled s); [|reflexivity]. destruct cl; try reflexivity; contradiction.
Qed.

Lemma node_prep_lp c n s s' r :
  node_prep o c n s = (s', r) -> cancelled s = false \/ okn n = true -> lp okn s s'.
Proof.
  unfold node_prep. destruct (has_prep c); intros H Hok; [|inv H; apply lp_refl].
  step_in H. inv H. apply emit_spec in Eemit. destruct Eemit as [cn [_ [L C]]].
  eexists. split; [exact L|].
  cbn [existsb ev_cancel snd late_prep_ok ev_call fst]. rewrite orb_false_r. split; [exact C|].
  rewrite andb_true_r. destruct (cancelled s); [|reflexivity]. destruct Hok as [Hok|Hok]; [discriminate|exact Hok].
Qed.

Lemma node_post_lp c n s p x s' r : node_post o c n s p x = (s', r) -> lp okn s s'.
Proof.
  unfold node_post. destruct (has_post c); intros H; [|inv H; apply lp_refl].
  step_in H. inv H. eapply emit_lp; eauto. exact I.
Qed.

Lemma bnode_post_lp c n s i rs s' r : bnode_post o c n s i rs = (s', r) -> lp okn s s'.
Proof.
  unfold bnode_post. destruct (u_post c); intros H; try (inv H; apply lp_refl).
  step_in H. inv H. eapply emit_lp; eauto. exact I.
Qed.

Lemma run_user_lp c n s s' oc : run_user o c n s = (s', oc) -> lp okn s s'.
Proof.
  unfold run_user. destruct (cancelled s) eqn:Hc; [intros H; inv H; apply lp_refl|].
  destruct (node_prep o c n s) as [s1 [p|e]] eqn:Ep; apply node_prep_lp in Ep.
  all: try (left; exact Hc).
  2: { intros H; inv H; exact Ep. }
  destruct (cancelled s1); [intros H; inv H; exact Ep|].
  destruct (retry_of c) as [N w].
  destruct (attempts o c n w N 0 s1 p (inl VNil)) as [s2 ar] eqn:Ea.
  assert (E12 : lp okn s s2).
  { eapply lp_trans; [exact Ep|]. apply good_lp.
    - eapply attempts_ext; eauto.
    - unfold attempts in Ea. eapply (retry_loop_nt o); eauto. }
  destruct ar as [e|r]; [intros H; inv H; exact E12|].
  match goal with |- context [let '(_, _) := ?X in _] => destruct X as [s3 r'] eqn:E3 end.
  assert (E13 : lp okn s s3).
  { destruct r as [x|e]; [inv E3; exact E12|].
    destruct (u_fb c); try (inv E3; exact E12);
      (eapply lp_trans; [exact E12|]);
      (apply good_lp; [eapply node_fallback_ext; eauto|eapply (node_fallback_nt o); eauto]). }
  clear E3. rename E13 into E3.
  destruct r' as [x|e]; [|intros H; inv H; exact E3].
  destruct (node_post o c n s3 p x) as [s4 [a|e]] eqn:Epo; apply node_post_lp in Epo;
    intros H; inv H; eapply lp_trans; eauto.
Qed.

Lemma run_batch_lp c conc stop n s s' oc :
  run_batch o conc_exec c conc stop n s = (s', oc) -> cancelled s = false \/ okn n = true -> lp okn s s'.
Proof.
  unfold run_batch. intros H Hok. revert H.
  destruct (node_prep o c n s) as [s1 [pv|e]] eqn:Ep; apply node_prep_lp in Ep.
  all: try exact Hok.
  2: { intros H; inv H; exact Ep. }
  destruct (normalise pv) as [|it rest] eqn:En.
  - destruct (bnode_post o c n s1 [] []) as [s2 [a|e]] eqn:Epo; apply bnode_post_lp in Epo;
      intros H; inv H; eapply lp_trans; eauto.
  - match goal with |- context [let '(_, _) := ?X in _] => destruct X as [s2 results] eqn:E2 end.
    assert (E12 : lp okn s1 s2).
    { destruct (Nat.ltb 0 conc).
      - apply good_lp; [eapply conc_exec_ext; eauto|eapply conc_exec_nt; eauto].
      - apply good_lp; [eapply seq_items_ext; eauto|eapply (seq_items_nt o); eauto]. }
    destruct (bnode_post o c n s2 (it :: rest) results) as [s3 [a|e]] eqn:Epo;
      apply bnode_post_lp in Epo; intros H; inv H;
      (eapply lp_trans; [|exact Epo]); eapply lp_trans; eauto.
Qed.

Lemma flow_loop_lp runf tm :
  (forall s n s' oc, runf s n = Some (s', oc) -> cancelled s = false -> lp okn s s') ->
  forall g s cur s' r, flow_loop runf tm g s cur = Some (s', r) -> lp okn s s'.
Proof.
  intros Hrun. induction g as [|g IH]; intros s cur s' r H; cbn [flow_loop] in H; [discriminate|].
  destruct (cancelled s) eqn:Hc; [inv H; apply lp_refl|].
  destruct (runf s cur) as [[s1 [a|e]]|] eqn:Er; [| |discriminate].
  - apply Hrun in Er; [|exact Hc].
    destruct (lookup2 tm cur a) as [[nxt|]|].
    + apply IH in H. eapply lp_trans; eauto.
    + inv H. exact Er.
    + inv H. exact Er.
  - apply Hrun in Er; [|exact Hc]. inv H. exact Er.
Qed.

Lemma run_flow_lp runf g start conns :
  (forall s n s' oc, runf s n = Some (s', oc) -> cancelled s = false -> lp okn s s') ->
  forall s s' oc, run_flow runf g start conns s = Some (s', oc) -> lp okn s s'.
Proof.
  intros Hrun s s' oc. unfold run_flow.
  destruct (cancelled s); [intros H; inv H; apply lp_refl|].
  destruct start as [st|].
  - destruct (flow_loop runf (build conns) g s st) as [[s1 [a|e]]|] eqn:El; [| |discriminate];
      apply (flow_loop_lp _ _ Hrun) in El; intros H; inv H; exact El.
  - intros H; inv H; apply lp_refl.
Qed.

Variable tbl : table.

(* a run that starts with the context alive *)
Lemma run_lp : forall fuel s n s' oc,
    run o conc_exec tbl fuel s n = Some (s', oc) -> cancelled s = false -> lp okn s s'.
Proof.
  induction fuel as [|f IH]; intros s n s' oc H Hc; cbn [run] in H; [discriminate|].
  destruct (tbl n) as [[c|start conns|c conc stop]|].
  - inv H. eapply run_user_lp; eauto.
  - eapply run_flow_lp; eauto.
  - inv H. eapply run_batch_lp; eauto.
  - inv H. apply lp_refl.
Qed.

(* the run of the root, whatever the state of the context *)
Lemma run_root_lp fuel s n s' oc :
  (match tbl n with Some (NBatch _ _ _) => okn n = true | _ => True end) ->
  run o conc_exec tbl fuel s n = Some (s', oc) -> lp okn s s'.
Proof.
  intros Hroot H. destruct fuel as [|f]; cbn [run] in H; [discriminate|].
  destruct (tbl n) as [[c|start conns|c conc stop]|].
  - inv H. eapply run_user_lp; eauto.
  - eapply run_flow_lp; [|exact H]. intros. eapply run_lp; eauto.
  - inv H. eapply run_batch_lp; eauto.
  - inv H. apply lp_refl.
Qed.

End LP.

(* ------------------------------------------------------------ the model's observations *)
Lemma is_root_batch_root sc :
  match table_of (es_nodes sc) (es_root sc) with
  | Some (NBatch _ _ _) => is_root_batch sc (es_root sc) = true
  | _ => True
  end.
Proof.
  unfold is_root_batch. destruct (table_of (es_nodes sc) (es_root sc)) as [[c|st cs|c k b]|]; auto.
  now rewrite Nat.eqb_refl.
Qed.

Lemma late_prep_model_runs sc : forall k s,
    late_prep_runs (is_root_batch sc) (cancelled s) (eobs_of_model (model_runs sc k s)) = true.
Proof.
  induction k as [|k IH]; intros s; cbn [model_runs eobs_of_model late_prep_runs]; [reflexivity|].
  destruct (model_run sc s) as [[s' oc]|] eqn:E; cbn [eobs_of_model late_prep_runs]; [|reflexivity].
  unfold model_run in E.
  pose proof (run_root_lp _ _ (gated_exec_ext _ _) (gated_exec_nt _ _) (is_root_batch sc) _ _ _ _ _ _
                          (is_root_batch_root sc) E) as [evs [L [C P]]].
  rewrite L, skipn_app_exact, P. cbn [andb]. rewrite <- C. apply IH.
Qed.

Lemma late_prep_model_lemma sc :
  late_prep_runs (is_root_batch sc) (es_precancel sc) (eobs_of_model (model_obs sc)) = true.
Proof. unfold model_obs. exact (late_prep_model_runs sc _ (init_ms sc)). Qed.

(* for EVERY scenario: spec_C05y holds of the model's observation *)
Lemma spec_C05y_model_lemma sc : spec_C05y sc (eobs_of_model (model_obs sc)) = true.
Proof. unfold spec_C05y. now rewrite spec_C05x_model_lemma, late_prep_model_lemma. Qed.

(* stated directly on Run, for every oracle, release order, table, fuel and start state: after the
   context is cancelled (before the run or by a callback of the run) no prep callback is made,
   except the one of a batch node that is the root of this very run *)
Lemma no_prep_after_cancel_lemma o rel tbl fuel s n s' oc :
  run o (gated_exec o rel) tbl fuel s n = Some (s', oc) ->
  exists evs, log s' = log s ++ evs /\
    late_prep_ok (fun m => Nat.eqb m n && match tbl n with Some (NBatch _ _ _) => true | _ => false end)
                 (cancelled s) evs = true.
Proof.
  intros H.
  assert (Hroot : match tbl n with
                  | Some (NBatch _ _ _) =>
                      (fun m => Nat.eqb m n && match tbl n with Some (NBatch _ _ _) => true | _ => false end) n = true
                  | _ => True end).
  { destruct (tbl n) as [[c|st cs|c k b]|] eqn:E; auto. cbn. now rewrite Nat.eqb_refl. }
  destruct (run_root_lp _ _ (gated_exec_ext _ _) (gated_exec_nt _ _) _ _ _ _ _ _ _ Hroot H) as [evs [L [_ P]]].
  exists evs. auto.
Qed.
