(* C17Proofs.v — the adapters between the engine and function-style callbacks
   (CustomNode.Prep/Exec/Post, flyt.go:1117-1156; the Any-style closures, flyt.go:1325-1384,
   builder.go:91-122, batch.go:144-153) pass payloads through unchanged. *)
From Flyt Require Import Base Engine BaseFacts.

(* what a callback of style st observes as "the payload" of the argument a it is handed:
   Result style: a.Value(); Any style: the argument itself *)
Definition seen (st : fstyle) (a : val) : val :=
  match st with FRes => value_of a | _ => a end.
(* Result style only: does the argument report IsError()? *)
Definition seen_error (st : fstyle) (a : val) : bool :=
  match st with FRes => res_is_error a | _ => false end.

Definition fun_style (st : fstyle) : Prop := st = FRes \/ st = FAny.

Lemma prep_to_exec_lemma sp se v :
  fun_style sp -> fun_style se -> is_res v = false ->
  seen se (exec_arg se (prep_ret sp v)) = v /\ seen_error se (exec_arg se (prep_ret sp v)) = false.
Proof.
  intros [->| ->] [->| ->] Hv; cbn; unfold as_res; rewrite ?Hv; cbn; rewrite ?Hv; cbn; auto.
Qed.

(* the exec function returned the plain value x: the post function observes x, not an error,
   and not wrapped twice *)
Lemma exec_to_post_value_lemma se sq x :
  fun_style se -> fun_style sq -> is_res x = false ->
  seen sq (post_x sq (exec_ret se x)) = x /\ seen_error sq (post_x sq (exec_ret se x)) = false /\
  (sq = FRes -> post_x sq (exec_ret se x) = VRes x None).
Proof.
  intros [->| ->] [->| ->] Hx; cbn; unfold as_res, post_exec_view, new_result;
    rewrite ?Hx; cbn; rewrite ?Hx; cbn; repeat split; auto; discriminate.
Qed.

(* the Result-style exec function returned an error Result: the Result-style post function
   observes exactly that error Result (IsError, same error), the Any-style one observes nil
   (= Value() of an error Result); never a Result holding a Result *)
Lemma exec_to_post_error_lemma sq e :
  fun_style sq ->
  let r := VRes VNil (Some e) in
  post_x sq (exec_ret FRes r) = (match sq with FRes => r | _ => VNil end).
Proof. intros [->| ->]; reflexivity. Qed.

(* the two styles are interchangeable: in every position the Any-style view is Value() of the
   Result-style view *)
Lemma styles_exec_arg_lemma a : exec_arg FAny a = value_of (exec_arg FRes a).
Proof. reflexivity. Qed.
Lemma styles_post_p_lemma p : post_p FAny p = value_of (post_p FRes p).
Proof. reflexivity. Qed.
Lemma styles_post_x_lemma x : post_x FAny x = value_of (post_x FRes x).
Proof. reflexivity. Qed.
Lemma styles_prep_ret_lemma v : is_res v = false -> prep_ret FAny v = prep_ret FRes v.
Proof. intros H. cbn. unfold as_res. now rewrite H. Qed.
Lemma styles_exec_ret_lemma v : is_res v = false -> exec_ret FAny v = exec_ret FRes v.
Proof. intros H. cbn. unfold as_res. now rewrite H. Qed.

(* batches: item i of a prep value that is not already a []Result reaches the exec function
   as NewResult(item) (Result style) / the item itself (Any style); the slot holds the exec
   value wrapped once, or the error Result itself *)
Lemma batch_item_lemma se l i v :
  fun_style se -> nth_error l i = Some v -> is_res v = false ->
  exists it, nth_error (normalise (VSl false l)) i = Some it /\
             seen se (exec_arg se it) = v /\ seen_error se (exec_arg se it) = false.
Proof.
  intros Hs Hn Hv. exists (new_result v). split.
  - cbn. rewrite nth_error_map, Hn. reflexivity.
  - destruct Hs as [->| ->]; cbn; auto.
Qed.

Lemma batch_slot_value_lemma se x :
  fun_style se -> is_res x = false ->
  slot_of_result (inl (exec_ret se x)) = VRes x None.
Proof. intros [->| ->] Hx; cbn; unfold as_res; rewrite ?Hx; cbn; rewrite ?Hx; reflexivity. Qed.

Lemma batch_slot_error_result_lemma e :
  slot_of_result (inl (exec_ret FRes (VRes VNil (Some e)))) = VRes VNil (Some e).
Proof. reflexivity. Qed.
