(* C02Glue.v - short steps behind the theorems of Properties/C02.v (kept out of that file, which
   holds statements only). *)
From Flyt Require Import Base Script FlowTable Engine EngineCorr EngineFacts SpecEngine
     C02Proofs EngineSpecProofs.


Lemma C02_no_retry_iface_glue :
  forall c, u_retry c = None -> retry_of c = (1, 0).
Proof. intros c H. unfold retry_of. now rewrite H. Qed.
