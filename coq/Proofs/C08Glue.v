(* C08Glue.v - instantiations of invariants at reachable states and other short steps behind the
   theorems of Properties/C08.v (kept out of that file, which holds statements only). *)
From Flyt Require Import Base Script FlowTable Engine BatchConc EngineCorr EngineFacts
     BatchConcInv BatchConcLive.


Lemma C08_upper_glue :
  forall (o : oracle) c nd (items : list val) stopmode nworkers qcap s0 sched,
    let s := brun o c nd items stopmode qcap (binit items nworkers s0) sched in
    length (parked c s) <= nworkers /\ count_run (ws s) <= nworkers.
Proof.
  intros. apply (inflight_bound c items nworkers). apply brun_inv. apply binit_inv.
Qed.

Lemma C08_usable_glue :
  forall (o : oracle) c nd (items : list val) stopmode nworkers qcap,
    0 < nworkers -> 0 < qcap ->
    forall s0 sched,
      let s := brun o c nd items stopmode qcap (binit items nworkers s0) sched in
      quiescent o c nd items stopmode qcap s -> mpc s <> MRet ->
      forall k w, nth_error (ws s) k = Some w ->
        (exists i a l, w = WRun i (PExec a l)) \/ (w = WIdle /\ deq s = length items).
Proof.
  intros o c nd items stopmode nworkers qcap Hw Hq s0 sched s Q Hm.
  apply (usable_lemma o c nd items stopmode nworkers qcap Hw Hq); auto.
  - apply brun_inv. apply binit_inv.
  - apply brun_exit. apply binit_exit.
Qed.

Lemma C08_no_deadlock_glue :
  forall (o : oracle) c nd (items : list val) stopmode nworkers qcap,
    0 < nworkers -> 0 < qcap ->
    forall s0 sched,
      let s := brun o c nd items stopmode qcap (binit items nworkers s0) sched in
      mpc s <> MRet -> exists t, t <> TCancel /\ t <> TNote /\ bstep o c nd items stopmode qcap s t <> None.
Proof.
  intros o c nd items stopmode nworkers qcap Hw Hq s0 sched s Hm.
  apply (no_deadlock_lemma o c nd items stopmode nworkers qcap Hw Hq); auto.
  - apply brun_inv. apply binit_inv.
  - apply brun_exit. apply binit_exit.
Qed.

Lemma C08_workers_clamped_glue : forall conc, Nat.max 1 conc >= 1 /\ (1 <= conc -> Nat.max 1 conc = conc).
Proof. intros conc. split; [apply Nat.le_max_l|intros H; apply Nat.max_r; exact H]. Qed.
