(* C12Glue.v - instantiations of invariants at reachable states and other short steps behind the
   theorems of Properties/C12.v (kept out of that file, which holds statements only). *)
From Flyt Require Import Pool PoolCorr PoolProofs.
From Coq Require Import Permutation.


Lemma C12_conservation_glue :
  forall qcap progs workers sched,
    NoDup (flat_map (fun ops => flat_map (fun o => match o with PSubmit t => [t] | _ => [] end) ops) progs) ->
    let s := prun qcap (pinit progs workers) sched in
    Permutation (p_added s) (pending_sends (p_subs s) ++ p_queue s ++ busy_tasks (p_ws s) ++ ends (p_log s)) /\
    p_wg s = length (pending_sends (p_subs s)) + length (p_queue s) + length (busy_tasks (p_ws s)).
Proof.
  intros qcap progs workers sched H s.
  pose proof (prun_inv qcap sched _ (pinit_inv progs workers H)) as I. split; apply I.
Qed.

Lemma C12_exactly_once_glue :
  forall qcap progs workers sched,
    NoDup (flat_map (fun ops => flat_map (fun o => match o with PSubmit t => [t] | _ => [] end) ops) progs) ->
    let s := prun qcap (pinit progs workers) sched in
    NoDup (starts (p_log s)) /\ NoDup (ends (p_log s)) /\
    (forall t, In t (starts (p_log s)) -> In t (p_added s)) /\
    (forall t, In t (ends (p_log s)) -> In t (starts (p_log s))).
Proof.
  intros qcap progs workers sched H s. apply exactly_once_lemma.
  apply prun_inv. apply pinit_inv. exact H.
Qed.

Lemma C12_barrier_glue :
  forall qcap progs workers sched,
    NoDup (flat_map (fun ops => flat_map (fun o => match o with PSubmit t => [t] | _ => [] end) ops) progs) ->
    let s := prun qcap (pinit progs workers) sched in
    forall j x rest s',
      nth_error (p_subs s) j = Some x -> s_ops x = PWait :: rest -> pstep qcap s (TSub j) = Some s' ->
      Permutation (p_added s) (ends (p_log s)).
Proof.
  intros qcap progs workers sched H s j x rest s' Hj Hops Hstep.
  apply (barrier_lemma s).
  - apply prun_inv. apply pinit_inv. exact H.
  - eapply wait_needs_zero; eauto.
Qed.
