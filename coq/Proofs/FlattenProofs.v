(* FlattenProofs.v — every run of the hierarchical engine is a path of the flattened machine:
   the visit tokens of its trace drive the machine from "enter the root" to the state the
   outcome names.  One induction over fuel and nesting, for any depth. *)
From Flyt Require Import Base FlowTable Engine Flatten EngineFacts BaseFacts FlowTableFacts C04Proofs.

Lemma tokens_app a b : tokens (a ++ b) = tokens a ++ tokens b.
Proof. unfold tokens. apply flat_map_app. Qed.

Lemma arun_app tbl d st a b : arun tbl d st (a ++ b) = arun tbl d (arun tbl d st a) b.
Proof. unfold arun. apply fold_left_app. Qed.

Lemma norm_act_idem a : norm_act (norm_act a) = norm_act a.
Proof. unfold norm_act. destruct (Nat.eqb a A_EMPTY) eqn:E; cbn; auto. now rewrite E. Qed.

Lemma afinal_wrap st site e : afinal st (Fail (EWrap site e)) = afinal st (Fail e).
Proof. destruct st; reflexivity. Qed.

(* s' extends s by events that carry no visit token *)
Definition ntext (s s' : ms) : Prop := exists evs, log s' = log s ++ evs /\ tokens evs = [].

Lemma ntext_refl s : ntext s s.
Proof. exists []. now rewrite app_nil_r. Qed.
Lemma ntext_trans a b c : ntext a b -> ntext b c -> ntext a c.
Proof. intros [e1 [H1 T1]] [e2 [H2 T2]]. exists (e1 ++ e2). split.
  - now rewrite H2, H1, app_assoc.
  - now rewrite tokens_app, T1, T2. Qed.

Section FP.
Variable o : oracle.
Variable conc_exec : ucfg -> nat -> bool -> nid -> ms -> list val -> ms * list val.
Hypothesis conc_exec_ext : forall c k st n s items s' rs,
    conc_exec c k st n s items = (s', rs) -> ext s s'.
Hypothesis conc_exec_nt : forall c k st n s items s' rs,
    conc_exec c k st n s items = (s', rs) -> ntext s s'.

Lemma emit_nt s c s' r : tok_of (c, r, false) = [] -> (forall cn, tok_of (c, r, cn) = tok_of (c, r, false)) ->
  emit o s c = (s', r) -> ntext s s'.
Proof.
  intros T Tc H. apply emit_spec in H. destruct H as [cn [_ [L _]]]. eexists. split; [exact L|].
  cbn. now rewrite Tc, T.
Qed.

Lemma node_exec_nt c n s a s' r : node_exec o c n s a = (s', r) -> ntext s s'.
Proof.
  unfold node_exec. destruct (has_exec c); intros H; [|inv H; apply ntext_refl].
  step_in H. inv H. eapply emit_nt; eauto; reflexivity.
Qed.

Lemma node_fallback_nt c n s p e s' r : node_fallback o c n s p e = (s', r) -> ntext s s'.
Proof.
  unfold node_fallback. destruct (u_fb c); intros H; try (inv H; apply ntext_refl).
  step_in H. inv H. eapply emit_nt; eauto; reflexivity.
Qed.

Lemma retry_loop_nt sr swt wi c n w k : forall i s p last s' r,
    retry_loop o sr swt wi c n w k i s p last = (s', r) -> ntext s s'.
Proof.
  induction k as [|k IH]; intros i s p last s' r H; cbn [retry_loop] in H.
  - inv H. apply ntext_refl.
  - destruct (cancelled s) eqn:Hc; [inv H; apply ntext_refl|].
    destruct (Nat.ltb 0 i && Nat.ltb 0 w).
    + destruct (emit o s (CWait n wi i)) as [sw' rw] eqn:Ew.
      assert (Ew' : ntext s sw') by (eapply emit_nt; eauto; reflexivity).
      destruct (cancelled sw'); [inv H; exact Ew'|].
      destruct (node_exec o c n sw' p) as [s2 [x|e]] eqn:Ex; apply node_exec_nt in Ex.
      * inv H. eapply ntext_trans; eauto.
      * apply IH in H. eapply ntext_trans; [|exact H]. eapply ntext_trans; eauto.
    + destruct (node_exec o c n s p) as [s2 [x|e]] eqn:Ex; apply node_exec_nt in Ex.
      * inv H. exact Ex.
      * apply IH in H. eapply ntext_trans; eauto.
Qed.

Lemma exec_with_retries_nt c n s item s' r :
  exec_with_retries o c n s item = (s', r) -> ntext s s'.
Proof.
  unfold exec_with_retries. destruct (retry_of c) as [N w].
  destruct (item_attempts o c n w N 0 s item (inl VNil)) as [s1 ar] eqn:Ea.
  unfold item_attempts in Ea. apply retry_loop_nt in Ea. intros H.
  destruct ar as [e|[x|e]]; try (inv H; exact Ea).
  destruct (u_fb c) eqn:Ef; try (inv H; exact Ea);
    apply node_fallback_nt in H; eapply ntext_trans; eauto.
Qed.

Lemma seq_items_nt c stop n items : forall s s' rs,
    seq_items o c stop n s items = (s', rs) -> ntext s s'.
Proof.
  induction items as [|it rest IH]; intros s s' rs H; cbn [seq_items] in H.
  - inv H. apply ntext_refl.
  - destruct (cancelled s).
    + destruct stop; [inv H; apply ntext_refl|].
      destruct (seq_items o c false n s rest) as [s2 rs2] eqn:E. inv H. eauto.
    + destruct (exec_with_retries o c n s it) as [s1 [x|e]] eqn:Ee;
        apply exec_with_retries_nt in Ee.
      * destruct (seq_items o c stop n s1 rest) as [s2 rs2] eqn:E. inv H.
        eapply ntext_trans; eauto.
      * destruct stop; [inv H; exact Ee|].
        destruct (seq_items o c false n s1 rest) as [s2 rs2] eqn:E. inv H.
        eapply ntext_trans; eauto.
Qed.

(* ------------------------------------------------------------ leaves *)
Definition leaf_tokens (n : nid) (oc : outcome) (ts : list token) : Prop :=
  match oc with
  | Done a => ts = [TStart n; TEnd n (Some a)]
  | Fail _ => ts = [TStart n] \/ ts = [TStart n; TEnd n None]
  end.

Lemma run_user_tokens c n s s' oc :
  has_prep c = true -> has_post c = true ->
  run_user o c n s = (s', oc) -> cancelled s' = false ->
  exists evs, log s' = log s ++ evs /\ leaf_tokens n oc (tokens evs).
Proof.
  intros Hprep Hpost H Hc'.
  pose proof (ext_not_cancelled _ _ (run_user_ext _ _ _ _ _ _ H) Hc') as Hc.
  unfold run_user in H. rewrite Hc in H.
  unfold node_prep in H. rewrite Hprep in H.
  destruct (emit o s (CPrep n VStore)) as [s1 r] eqn:Ep.
  pose proof (emit_spec _ _ _ _ _ Ep) as [cn [_ [L1 _]]].
  assert (T1 : tokens [(CPrep n VStore, r, cn)] = [TStart n]) by reflexivity.
  destruct (ret_val r) as [v|e] eqn:Er; cbn [map_inl] in H.
  2:{ inv H. eexists. split; [exact L1|]. left. exact T1. }
  destruct (cancelled s1) eqn:Hc1; [inv H; congruence|].
  destruct (retry_of c) as [N w].
  destruct (attempts o c n w N 0 s1 (prep_ret (u_prep c) v) (inl VNil)) as [s2 ar] eqn:Ea.
  unfold attempts in Ea.
  pose proof (retry_loop_nt _ _ _ _ _ _ _ _ _ _ _ _ _ Ea) as [evs2 [L2 T2]].
  pose proof (retry_loop_fail _ _ _ _ _ _ _ _ _ _ _ _ _ _ Ea) as Hab.
  destruct ar as [ea|rr].
  { inv H. destruct Hab as [_ Hab]. congruence. }
  match type of H with context [let '(_, _) := ?X in _] => destruct X as [s3 r'] eqn:E3 end.
  assert (N23 : ntext s2 s3).
  { destruct rr as [x|e0]; [inv E3; apply ntext_refl|].
    destruct (u_fb c); try (inv E3; apply ntext_refl); eapply node_fallback_nt; eauto. }
  destruct N23 as [evs3 [L3 T3]].
  assert (Lpre : log s3 = log s ++ (CPrep n VStore, r, cn) :: evs2 ++ evs3).
  { rewrite L3, L2, L1, <- !app_assoc. reflexivity. }
  assert (Tpre : tokens ((CPrep n VStore, r, cn) :: evs2 ++ evs3) = [TStart n]).
  { change ((CPrep n VStore, r, cn) :: evs2 ++ evs3) with ([(CPrep n VStore, r, cn)] ++ evs2 ++ evs3).
    now rewrite !tokens_app, T1, T2, T3. }
  destruct r' as [x|e0].
  2:{ inv H. eexists. split; [exact Lpre|]. left. exact Tpre. }
  unfold node_post in H. rewrite Hpost in H.
  match type of H with context [emit o s3 ?cl] => destruct (emit o s3 cl) as [s4 r4] eqn:Epo end.
  pose proof (emit_spec _ _ _ _ _ Epo) as [cn4 [_ [L4 _]]].
  destruct (ret_act r4) as [a|e1] eqn:Er4; inv H.
  - eexists. split; [rewrite L4, Lpre, <- app_assoc; reflexivity|].
    rewrite tokens_app, Tpre. cbn. unfold tok_of. cbn. now rewrite Er4.
  - eexists. split; [rewrite L4, Lpre, <- app_assoc; reflexivity|].
    right. rewrite tokens_app, Tpre. cbn. unfold tok_of. cbn. now rewrite Er4.
Qed.

Lemma run_batch_tokens c conc stop n s s' oc :
  has_prep c = true -> u_post c = FBatch ->
  run_batch o conc_exec c conc stop n s = (s', oc) ->
  exists evs, log s' = log s ++ evs /\ leaf_tokens n oc (tokens evs).
Proof.
  intros Hprep Hpost H. unfold run_batch in H.
  unfold node_prep in H. rewrite Hprep in H.
  destruct (emit o s (CPrep n VStore)) as [s1 r] eqn:Ep.
  pose proof (emit_spec _ _ _ _ _ Ep) as [cn [_ [L1 _]]].
  assert (T1 : tokens [(CPrep n VStore, r, cn)] = [TStart n]) by reflexivity.
  destruct (ret_val r) as [v|e] eqn:Er; cbn [map_inl] in H.
  2:{ inv H. eexists. split; [exact L1|]. left. exact T1. }
  unfold bnode_post in H. rewrite Hpost in H.
  destruct (normalise (prep_ret (u_prep c) v)) as [|it rest].
  - destruct (emit o s1 (CBPost n VStore [] [])) as [s2 r2] eqn:Epo.
    pose proof (emit_spec _ _ _ _ _ Epo) as [cn2 [_ [L2 _]]].
    destruct (ret_act r2) as [a|e1] eqn:Er2; inv H.
    + eexists. split; [rewrite L2, L1, <- app_assoc; reflexivity|].
      cbn. unfold tok_of. cbn. now rewrite Er2.
    + eexists. split; [rewrite L2, L1, <- app_assoc; reflexivity|].
      right. cbn. unfold tok_of. cbn. now rewrite Er2.
  - match type of H with context [let '(_, _) := ?X in _] => destruct X as [s2 results] eqn:E2 end.
    assert (N12 : ntext s1 s2).
    { destruct (Nat.ltb 0 conc); [eapply conc_exec_nt; eauto | eapply seq_items_nt; eauto]. }
    destruct N12 as [evs2 [L2 T2]].
    match type of H with context [emit o s2 ?cl] => destruct (emit o s2 cl) as [s3 r3] eqn:Epo end.
    pose proof (emit_spec _ _ _ _ _ Epo) as [cn3 [_ [L3 _]]].
    assert (Tpre : tokens ((CPrep n VStore, r, cn) :: evs2) = [TStart n]).
    { change ((CPrep n VStore, r, cn) :: evs2) with ([(CPrep n VStore, r, cn)] ++ evs2).
      now rewrite tokens_app, T1, T2. }
    destruct (ret_act r3) as [a|e1] eqn:Er3; inv H.
    + eexists. split; [rewrite L3, L2, L1, <- !app_assoc; reflexivity|].
      rewrite !tokens_app, T1, T2. cbn. unfold tok_of. cbn. now rewrite Er3.
    + eexists. split; [rewrite L3, L2, L1, <- !app_assoc; reflexivity|].
      right. rewrite !tokens_app, T1, T2. cbn. unfold tok_of. cbn. now rewrite Er3.
Qed.

(* ------------------------------------------------------------ the machine follows the run *)
Variable tbl : table.
Hypothesis Hvis : forall n d, tbl n = Some d -> vis_def d = true.

Definition Sim (s s' : ms) (oc : outcome) (n : nid) : Prop :=
  forall d dd stk,
    exists evs, log s' = log s ++ evs /\
      match oc with
      | Done a => arun tbl d (enter tbl (S dd) n stk) (tokens evs) = advance tbl d stk a
      | Fail e => afinal (arun tbl d (enter tbl (S dd) n stk) (tokens evs)) (Fail e) = true
      end.

Lemma enter_flow dd n st cs stk :
  tbl n = Some (NFlow (Some st) cs) -> enter tbl (S dd) n stk = enter tbl dd st ((n, st) :: stk).
Proof. intros H. cbn [enter]. now rewrite H. Qed.
Lemma enter_nostart dd n cs stk :
  tbl n = Some (NFlow None cs) -> enter tbl (S dd) n stk = ANoStart.
Proof. intros H. cbn [enter]. now rewrite H. Qed.
Lemma enter_unknown dd n stk : tbl n = None -> enter tbl (S dd) n stk = ANoStart.
Proof. intros H. cbn [enter]. now rewrite H. Qed.

Lemma astep_start d n stk : astep tbl d (AAt n stk) (TStart n) = AIn n stk.
Proof. unfold astep. now rewrite Nat.eqb_refl. Qed.
Lemma astep_end_ok d n stk a : astep tbl d (AIn n stk) (TEnd n (Some a)) = advance tbl d stk a.
Proof. unfold astep. now rewrite Nat.eqb_refl. Qed.
Lemma astep_end_fail d n stk : astep tbl d (AIn n stk) (TEnd n None) = AFail.
Proof. unfold astep. now rewrite Nat.eqb_refl. Qed.

Lemma leaf_sim n s s' oc :
  (match tbl n with Some (NUser _) | Some (NBatch _ _ _) => True | _ => False end) ->
  (exists evs, log s' = log s ++ evs /\ leaf_tokens n oc (tokens evs)) ->
  Sim s s' oc n.
Proof.
  intros Hk [evs [L T]] d dd stk. exists evs. split; [exact L|].
  assert (He : enter tbl (S dd) n stk = AAt n stk).
  { cbn [enter]. destruct (tbl n) as [[c|st cs|c k b]|]; try contradiction; reflexivity. }
  rewrite He. destruct oc as [a|e]; cbn [leaf_tokens] in T.
  - rewrite T. unfold arun. cbn [fold_left]. now rewrite astep_start, astep_end_ok.
  - destruct T as [-> | ->]; unfold arun; cbn [fold_left];
      rewrite astep_start, ?astep_end_fail; reflexivity.
Qed.

Lemma flow_loop_sim F start conns f :
  tbl F = Some (NFlow start conns) ->
  (forall s n s' oc, run o conc_exec tbl f s n = Some (s', oc) -> cancelled s' = false ->
                     forall d dd stk, f <= d -> f <= S dd ->
                       exists evs, log s' = log s ++ evs /\
                         match oc with
                         | Done a => arun tbl d (enter tbl (S dd) n stk) (tokens evs) = advance tbl d stk a
                         | Fail e => afinal (arun tbl d (enter tbl (S dd) n stk) (tokens evs)) (Fail e) = true
                         end) ->
  forall g s cur s' r,
    flow_loop (run o conc_exec tbl f) (build conns) g s cur = Some (s', r) ->
    cancelled s' = false ->
    forall d dd stk, f <= d -> f <= S dd ->
      exists evs, log s' = log s ++ evs /\
        match r with
        | inl a => arun tbl d (enter tbl (S dd) cur ((F, cur) :: stk)) (tokens evs) = advance tbl d stk a
                   /\ exists a0, a = norm_act a0
        | inr e => afinal (arun tbl d (enter tbl (S dd) cur ((F, cur) :: stk)) (tokens evs)) (Fail e) = true
        end.
Proof.
  intros HF IHrun. induction g as [|g IH]; intros s cur s' r H Hc' d dd stk Hd Hdd;
    cbn [flow_loop] in H; [discriminate|].
  assert (Hext : forall s n s' oc, run o conc_exec tbl f s n = Some (s', oc) -> ext s s')
    by (intros; eapply run_ext; eauto).
  destruct (cancelled s) eqn:Hc.
  { inv H. congruence. }
  destruct (run o conc_exec tbl f s cur) as [[s1 [a|e]]|] eqn:Er; [| |discriminate].
  - pose proof (run_done_norm _ _ _ _ _ _ _ _ Er) as Hnorm.
    destruct (lookup2 (build conns) cur a) as [[nxt|]|] eqn:Hl.
    + (* continue with nxt *)
      assert (Hc1 : cancelled s1 = false).
      { eapply ext_not_cancelled; [|exact Hc']. eapply flow_loop_ext; eauto. }
      destruct (IHrun _ _ _ _ Er Hc1 d dd ((F, cur) :: stk) Hd Hdd) as [evs1 [L1 R1]].
      destruct d as [|d0].
      { (* f <= 0: run with no fuel cannot return *) assert (f = 0) by lia. subst f. discriminate. }
      destruct (IH _ _ _ _ H Hc' (S d0) d0 stk Hd ltac:(lia)) as [evs2 [L2 R2]].
      exists (evs1 ++ evs2). split; [rewrite L2, L1, <- app_assoc; reflexivity|].
      rewrite tokens_app, arun_app, R1.
      cbn [advance]. rewrite HF, <- connect_last_wins_lemma, Hl. exact R2.
    + inv H. destruct (IHrun _ _ _ _ Er Hc' d dd ((F, cur) :: stk) Hd Hdd) as [evs1 [L1 R1]].
      exists evs1. split; [exact L1|]. split; [|exact Hnorm].
      rewrite R1. cbn [advance]. rewrite HF, <- connect_last_wins_lemma, Hl. reflexivity.
    + inv H. destruct (IHrun _ _ _ _ Er Hc' d dd ((F, cur) :: stk) Hd Hdd) as [evs1 [L1 R1]].
      exists evs1. split; [exact L1|]. split; [|exact Hnorm].
      rewrite R1. cbn [advance]. rewrite HF, <- connect_last_wins_lemma, Hl. reflexivity.
  - inv H. destruct (IHrun _ _ _ _ Er Hc' d dd ((F, cur) :: stk) Hd Hdd) as [evs1 [L1 R1]].
    exists evs1. auto.
Qed.

Lemma run_sim : forall fuel s n s' oc,
    run o conc_exec tbl fuel s n = Some (s', oc) -> cancelled s' = false ->
    forall d dd stk, fuel <= d -> fuel <= S dd ->
      exists evs, log s' = log s ++ evs /\
        match oc with
        | Done a => arun tbl d (enter tbl (S dd) n stk) (tokens evs) = advance tbl d stk a
        | Fail e => afinal (arun tbl d (enter tbl (S dd) n stk) (tokens evs)) (Fail e) = true
        end.
Proof.
  induction fuel as [|f IH]; intros s n s' oc H Hc' d dd stk Hd Hdd; cbn [run] in H; [discriminate|].
  destruct (tbl n) as [[c|start conns|c conc stop]|] eqn:Ht.
  - (* user leaf *)
    inv H. pose proof (Hvis _ _ Ht) as Hv. cbn in Hv. apply andb_prop in Hv. destruct Hv as [Hp Hq].
    apply leaf_sim; [now rewrite Ht|]. eapply run_user_tokens; eauto.
  - (* flow *)
    unfold run_flow in H. destruct (cancelled s) eqn:Hc.
    { inv H. congruence. }
    destruct start as [st|].
    + destruct (flow_loop (run o conc_exec tbl f) (build conns) f s st) as [[s1 [a|e]]|] eqn:El;
        [| |discriminate]; inv H.
      * destruct dd as [|dd0]; [assert (f = 0) by lia; subst f; discriminate|].
        destruct (flow_loop_sim n (Some st) conns f Ht
                    (fun s n s' oc Hr Hcc d dd stk Hd Hdd => IH s n s' oc Hr Hcc d dd stk Hd Hdd)
                    _ _ _ _ _ El Hc' d dd0 stk ltac:(lia) ltac:(lia)) as [evs [L [R [a0 Ha]]]].
        exists evs. split; [exact L|].
        rewrite (enter_flow _ _ _ _ _ Ht), R. subst a. now rewrite norm_act_idem.
      * destruct dd as [|dd0]; [assert (f = 0) by lia; subst f; discriminate|].
        destruct (flow_loop_sim n (Some st) conns f Ht
                    (fun s n s' oc Hr Hcc d dd stk Hd Hdd => IH s n s' oc Hr Hcc d dd stk Hd Hdd)
                    _ _ _ _ _ El Hc' d dd0 stk ltac:(lia) ltac:(lia)) as [evs [L R]].
        exists evs. split; [exact L|].
        rewrite (enter_flow _ _ _ _ _ Ht), afinal_wrap. exact R.
    + inv H. exists []. split; [now rewrite app_nil_r|]. rewrite (enter_nostart _ _ _ _ Ht). reflexivity.
  - (* batch leaf *)
    inv H. pose proof (Hvis _ _ Ht) as Hv. cbn in Hv. apply andb_prop in Hv. destruct Hv as [Hp Hq].
    apply leaf_sim; [now rewrite Ht|]. eapply run_batch_tokens; eauto.
    destruct (u_post c); auto; discriminate.
  - inv H. exists []. split; [now rewrite app_nil_r|]. rewrite (enter_unknown _ _ _ Ht). reflexivity.
Qed.

End FP.
