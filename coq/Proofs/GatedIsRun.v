(* GatedIsRun.v — the deterministic gated schedule that produces the model's observation in the
   correspondence check (Model/BatchConc.v: quiesce, note the calls in flight, release one) is ONE
   of the schedules the all-schedule theorems quantify over: the final state of a gated run is
   `brun` of the initial state under a schedule made of internal steps, the observer's note
   (TNote) and the release of one parked worker.  So every theorem stated for `brun … sched`
   holds of the very model run that is compared with the implementation. *)
From Flyt Require Import Base FlowTable Engine BatchConc EngineFacts BatchConcInv BatchConcItems
     BatchConcWait WaitMon ItemMon.

Section G.
Variable o : oracle.
Variable c : ucfg.
Variable nd : nid.
Variable items : list val.
Variable stopmode : bool.
Variable nworkers : nat.
Variable qcap : nat.

Notation bstep := (bstep o c nd items stopmode qcap).
Notation brun := (brun o c nd items stopmode qcap).
Notation quiesce := (quiesce o c nd items stopmode nworkers qcap).
Notation gated := (gated o c nd items stopmode nworkers qcap).

Lemma brun_app a : forall s b, brun s (a ++ b) = brun (brun s a) b.
Proof.
  induction a as [|t a IH]; intros s b; cbn [app BatchConc.brun]; [reflexivity|].
  destruct (bstep s t); apply IH.
Qed.

Lemma quiesce_is_brun fuel : forall s, exists sched, quiesce fuel s = brun s sched.
Proof.
  induction fuel as [|f IH]; intros s; cbn [BatchConc.quiesce].
  - exists []. reflexivity.
  - destruct (find (internal_enabled o c nd items stopmode qcap s) (all_tids nworkers)) as [t|].
    + destruct (bstep s t) as [s'|] eqn:E.
      * destruct (IH s') as [sched H]. exists (t :: sched). cbn [BatchConc.brun]. rewrite E. exact H.
      * exists []. reflexivity.
    + exists []. reflexivity.
Qed.

Lemma gated_is_brun fuel rel : forall s acc, exists sched, fst (gated fuel rel s acc) = brun s sched.
Proof.
  induction fuel as [|f IH]; intros s acc; cbn [BatchConc.gated].
  - exists []. reflexivity.
  - destruct (quiesce_is_brun (64 + 32 * nitems items * (2 + budget c)) s) as [sched0 H0].
    set (s0 := quiesce (64 + 32 * nitems items * (2 + budget c)) s) in *.
    destruct (choose rel (parked c s0)) as [p|].
    + assert (Hn : bstep s0 TNote = Some (note_park nd s0 (parked c s0))) by reflexivity.
      set (s1 := note_park nd s0 (parked c s0)) in *.
      assert (H1 : s1 = brun s (sched0 ++ [TNote])).
      { rewrite brun_app, <- H0. cbn [BatchConc.brun]. rewrite Hn. reflexivity. }
      destruct (find_parked c (ws s1) p 0) as [k|].
      * destruct (bstep s1 (TWorker k)) as [s2|] eqn:E2.
        -- destruct (IH s2 (acc ++ [parked c s0])) as [sched2 H2].
           exists ((sched0 ++ [TNote]) ++ TWorker k :: sched2).
           rewrite brun_app, <- H1. cbn [BatchConc.brun]. rewrite E2. exact H2.
        -- exists (sched0 ++ [TNote]). exact H1.
      * exists (sched0 ++ [TNote]). exact H1.
    + exists sched0. exact H0.
Qed.

End G.

(* the executor handed to the engine model in the correspondence check *)
Lemma gated_exec_is_brun (o : oracle) rel c conc stop n s its :
  exists sched,
    let fin := brun o c n its stop (2 * Nat.max 1 conc) (binit its (Nat.max 1 conc) s) sched in
    gated_exec o rel c conc stop n s its = (base fin, results_of fin).
Proof.
  unfold gated_exec.
  destruct (gated_is_brun o c n its stop (Nat.max 1 conc) (2 * Nat.max 1 conc)
              (8 + length its * (1 + fst (retry_of c))) rel (binit its (Nat.max 1 conc) s) []) as [sched H].
  exists sched. cbn zeta.
  destruct (gated o c n its stop (Nat.max 1 conc) (2 * Nat.max 1 conc)
              (8 + length its * (1 + fst (retry_of c))) rel (binit its (Nat.max 1 conc) s) []) as [fin pts].
  cbn [fst] in H. rewrite H. reflexivity.
Qed.

(* consequences for the model run of the correspondence check, read off the all-schedule theorems:
   what is done for every item is a processing of that item (per-item monitor), with the retry
   waits where they belong (wait monitor) *)
Lemma gated_exec_items_ok (o : oracle) rel c conc stop n s its :
  has_exec c = true ->
  exists sched,
    let fin := brun o c n its stop (2 * Nat.max 1 conc) (binit its (Nat.max 1 conc) s) sched in
    gated_exec o rel c conc stop n s its = (base fin, results_of fin) /\
    forall i, i < length its ->
      irun c n (item_at its i) (il fin i) <> IBad /\
      wrun (waitd c) (budget c) n (il fin i) <> WBad.
Proof.
  intros Hx. destruct (gated_exec_is_brun o rel c conc stop n s its) as [sched H].
  exists sched. cbn zeta in *. split; [exact H|]. intros i Hi. split.
  - apply (never_bad_lemma o c n its stop (Nat.max 1 conc) (2 * Nat.max 1 conc) Hx s sched i Hi).
    apply retry_of_pos.
  - apply (item_waits_lemma o c n its stop (Nat.max 1 conc) (2 * Nat.max 1 conc) s sched i Hi).
Qed.
