(* WaitProofs.v — C20 on the sequential retry loop (flyt.go:719-738 and its copy
   batch.go:317-334, one definition in the model) and on the clock. *)
From Flyt Require Import Base FlowTable Engine EngineFacts WaitMon.
From Coq Require Import Lia ZArith.

Lemma wrun_bad w N nd l : wrun_from w N nd WBad l = WBad.
Proof.
  unfold wrun_from. induction l as [|e l IH]; cbn [fold_left]; auto.
  replace (wstep w N nd WBad e) with WBad; [exact IH|].
  unfold wstep. destruct (ev_call e); try reflexivity. destruct (Nat.eqb n nd); reflexivity.
Qed.

Lemma wrun_from_app w N nd st l1 l2 :
  wrun_from w N nd st (l1 ++ l2) = wrun_from w N nd (wrun_from w N nd st l1) l2.
Proof. unfold wrun_from. apply fold_left_app. Qed.

Lemma wrun_from_cons w N nd st e l :
  wrun_from w N nd st (e :: l) = wrun_from w N nd (wstep w N nd st e) l.
Proof. reflexivity. Qed.

Lemma wrun_not_bad_step w N nd st e l :
  wrun_from w N nd st (e :: l) <> WBad -> wstep w N nd st e <> WBad.
Proof. rewrite wrun_from_cons. intros H E. rewrite E, wrun_bad in H. contradiction. Qed.

Section Seq.
Variable o : oracle.
Variable sr sw witem : nat.
Variable c : ucfg.
Variable n : nid.
Variable w N : nat.

Definition st_at (i : nat) : wst := match i with 0 => WStart | S _ => WFailed i end.

(* how the loop's answer and the monitor's final state go together *)
Definition wres_ok (stf : wst) (ar : ares) : Prop :=
  match ar with
  | AAbort e =>
      (stf = WCut /\ e = EWrap sw ECtx) \/
      (e = EWrap sr ECtx /\ (stf = WStart \/ exists j, stf = WFailed j /\ j < N))
  | ARes (inl _) => has_exec c = true -> stf = WDone
  | ARes (inr _) => stf = WFailed N
  end.

(* the monitor is ready for attempt i *)
Definition ready (st : wst) (i : nat) : Prop :=
  (st = WStart /\ i = 0) \/ (st = WFailed i /\ w = 0 /\ 0 < i) \/ st = WWaited i.

Lemma ready_exec st i a r cn :
  ready st i -> i < N -> wstep w N n st (CExec n a, r, cn) = wgo i r.
Proof.
  intros R Hi. unfold wstep. cbn [ev_call ev_resp fst snd]. rewrite Nat.eqb_refl.
  destruct R as [[-> ->]|[[-> [-> _]]| ->]].
  - assert (H : Nat.ltb 0 N = true) by (apply Nat.ltb_lt; lia). rewrite H. reflexivity.
  - assert (H : Nat.ltb i N = true) by (apply Nat.ltb_lt; lia). rewrite H. reflexivity.
  - reflexivity.
Qed.

Lemma retry_loop_waits k : forall i s p last s' ar,
  i + k = N -> (k = 0 -> 0 < N /\ exists e, last = inr e) ->
  retry_loop o sr sw witem c n w k i s p last = (s', ar) ->
  exists evs, log s' = log s ++ evs /\
              wrun_from w N n (st_at i) evs <> WBad /\
              wres_ok (wrun_from w N n (st_at i) evs) ar.
Proof.
  induction k as [|k IH]; intros i s p last s' ar Hik Hlast H; cbn [retry_loop] in H.
  - destruct (Hlast eq_refl) as [HN [e ->]]. inversion H; subst. exists []. rewrite app_nil_r.
    split; [reflexivity|]. assert (i = N) by lia. subst i. cbn.
    destruct N; [lia|]. split; [discriminate|reflexivity].
  - assert (HiN : i < N) by lia.
    destruct (cancelled s) eqn:Hc.
    { inversion H; subst. exists []. rewrite app_nil_r. split; [reflexivity|]. cbn.
      split; [destruct i; discriminate|]. right. split; [reflexivity|].
      destruct i; [left; reflexivity|right; eexists; split; [reflexivity|lia]]. }
    (* the part after the wait, from any state that is ready for attempt i *)
    assert (Rest : forall s1 pre st1,
               log s1 = log s ++ pre -> wrun_from w N n (st_at i) pre = st1 -> ready st1 i ->
               (let '(s2, r) := node_exec o c n s1 p in
                match r with
                | inl x => (s2, ARes (inl x))
                | inr e => retry_loop o sr sw witem c n w k (S i) s2 p (inr e)
                end) = (s', ar) ->
               exists evs, log s' = log s ++ evs /\
                           wrun_from w N n (st_at i) evs <> WBad /\
                           wres_ok (wrun_from w N n (st_at i) evs) ar).
    { intros s1 pre st1 L1 R1 Rd H1. unfold node_exec in H1.
      destruct (has_exec c) eqn:Hx.
      - destruct (emit o s1 (CExec n (exec_arg (u_exec c) p))) as [s2 r] eqn:E.
        apply emit_spec in E. destruct E as [cn [_ [L2 _]]].
        set (ev := ((CExec n (exec_arg (u_exec c) p), r, cn) : event)) in *.
        assert (Hst : wrun_from w N n (st_at i) (pre ++ [ev]) = wgo i r).
        { rewrite wrun_from_app, R1. change (wstep w N n st1 ev = wgo i r). unfold ev. apply ready_exec; assumption. }
        unfold wgo in Hst.
        destruct (ret_val r) as [x|e] eqn:Er; cbn [map_inl] in H1.
        + inversion H1; subst s2 ar. exists (pre ++ [ev]). rewrite L2, L1, <- app_assoc.
          split; [reflexivity|]. rewrite Hst. split; [discriminate|]. cbn. auto.
        + destruct (IH (S i) s2 p (inr e) s' ar) as [evs [L3 [Hnb Hres]]]; try lia; auto.
          { intros ->. split; [lia|eauto]. }
          exists (pre ++ [ev] ++ evs). rewrite L3, L2, L1, <- !app_assoc. split; [reflexivity|].
          rewrite app_assoc, wrun_from_app, Hst. cbn [st_at] in Hnb, Hres. auto.
      - (* BaseNode.Exec: no callback, a nil success *)
        inversion H1; subst. exists pre. split; [exact L1|].
        split.
        + destruct Rd as [[E _]|[[E _]|E]]; rewrite E; discriminate.
        + cbn. intros; congruence. }
    destruct (Nat.ltb 0 i && Nat.ltb 0 w) eqn:Hw.
    + apply andb_true_iff in Hw. destruct Hw as [Hi0 Hw0].
      apply Nat.ltb_lt in Hi0.
      destruct (emit o s (CWait n witem i)) as [s1 rw] eqn:Ew.
      apply emit_spec in Ew. destruct Ew as [cn [_ [L1 C1]]]. rewrite Hc in C1. cbn in C1.
      set (ev := ((CWait n witem i, rw, cn) : event)) in *.
      assert (Hst : wrun_from w N n (st_at i) [ev] = if cn then WCut else WWaited i).
      { destruct i as [|i']; [lia|]. unfold wrun_from. cbn [fold_left st_at]. unfold wstep, ev. cbn [ev_call ev_cancel fst snd].
        rewrite !Nat.eqb_refl, Hw0. assert (Hl : Nat.ltb (S i') N = true) by (apply Nat.ltb_lt; lia).
        rewrite Hl. reflexivity. }
      rewrite C1 in H. destruct cn.
      * inversion H; subst. exists [ev]. split; [exact L1|]. rewrite Hst.
        split; [discriminate|]. left. auto.
      * apply (Rest s1 [ev] (WWaited i)); auto. right. right. reflexivity.
    + apply (Rest s [] (st_at i)); auto.
      * now rewrite app_nil_r.
      * apply andb_false_iff in Hw. destruct i as [|i'].
        -- left. auto.
        -- destruct Hw as [Hw|Hw]; [cbn in Hw; discriminate|].
           right. left. cbn. apply Nat.ltb_ge in Hw. split; [reflexivity|]. split; lia.
Qed.

(* C20 for one node visit: the events of the exec phase (flyt.go:719-738) from a budget N >= 1 *)
Lemma attempts_waits_lemma s p s' ar :
  0 < N ->
  retry_loop o sr sw witem c n w N 0 s p (inl VNil) = (s', ar) ->
  exists evs, log s' = log s ++ evs /\
              wrun w N n evs <> WBad /\ wres_ok (wrun w N n evs) ar.
Proof.
  intros HN H. apply (retry_loop_waits N 0 s p (inl VNil) s' ar); auto. intros ->. lia.
Qed.

End Seq.

(* ------------------------------------------------------------ the clock *)
#[local] Open Scope Z_scope.

Section Clock.
Variable w N : nat.
Variable nd : nid.
Variable wz : Z.
Hypothesis Hwz : w = 0%nat -> wz <= 0.

(* the monitor state st, the end `last` of the latest failed attempt, and the previous record *)
Definition rel (st : wst) (last : option Z) (p : trec) : Prop :=
  match st with
  | WStart => last = None
  | WFailed _ => last = Some (tr_t1 p)
  | WWaited _ => is_wait (ev_call (tr_ev p)) = true /\ exists e, last = Some e /\ e <= tr_t0 p
  | WDone | WCut => True
  | WBad => False
  end.

Lemma wstep_exec_cases st n0 a rs cn :
  wstep w N nd st (CExec n0 a, rs, cn) <> WBad ->
  exists k, wstep w N nd st (CExec n0 a, rs, cn) = wgo k rs /\
            (st = WStart \/ (st = WFailed k /\ w = 0%nat) \/ st = WWaited k).
Proof.
  unfold wstep. cbn [ev_call ev_resp fst snd]. destruct (Nat.eqb n0 nd); [|contradiction].
  destruct st; try contradiction.
  - destruct (Nat.ltb 0 N); [|contradiction]. intros _. exists 0%nat. auto.
  - destruct (Nat.eqb w 0) eqn:E; [|contradiction]. cbn [andb].
    destruct (Nat.ltb k N); [|contradiction]. intros _. exists k. apply Nat.eqb_eq in E. auto.
  - intros _. exists k. auto.
Qed.

Lemma wgo_rel k rs cn cl r :
  tr_ev r = (cl, rs, cn) ->
  rel (wgo k rs) (if ev_failed (tr_ev r) then Some (tr_t1 r) else None) r.
Proof.
  intros E. unfold wgo, ev_failed. rewrite E. cbn [ev_resp fst snd].
  destruct (ret_val rs); cbn; auto.
Qed.

Lemma gaps_aux l : forall p st last,
  rel st last p -> chain_ok wz (p :: l) ->
  wrun_from w N nd st (map tr_ev l) <> WBad ->
  gaps_from wz last l = true.
Proof.
  induction l as [|r rest IH]; intros p st last R Hc Hnb; [reflexivity|].
  cbn [map] in Hnb. pose proof (wrun_not_bad_step _ _ _ _ _ _ Hnb) as Hs.
  rewrite wrun_from_cons in Hnb.
  cbn [chain_ok] in Hc. destruct Hc as [Hp [[Hpr Htimer] Hc]].
  cbn [gaps_from]. fold (chain_ok wz (r :: rest)) in Hc.
  set (r' := r) in Hc, Htimer.
  destruct (tr_ev r) as [[cl rs] cn] eqn:Er. subst r'. cbn [ev_call fst snd] in Hs, Hnb |- *.
  destruct cl as [n0 sv|n0 a|n0 a e0|n0 sv pv xv|n0 sv its rss|n0 it a|n0 cs]; cbn [is_exec];
    try (exfalso; apply Hs; reflexivity).
  - (* an attempt *)
    destruct (wstep_exec_cases _ _ _ _ _ Hs) as [k [Ego Hst]].
    assert (Hgap : match last with Some e => e + wz <=? tr_t0 r | None => true end = true).
    { destruct Hst as [->|[[-> Hw0]| ->]]; cbn [rel] in R.
      - subst last. reflexivity.
      - subst last. apply Z.leb_le. specialize (Hwz Hw0). lia.
      - destruct R as [Hw [e [-> He]]]. apply Z.leb_le.
        assert (tr_t0 p + wz <= tr_t1 p) by (apply Htimer; [exact Hw|rewrite Er; reflexivity]). lia. }
    rewrite Hgap. cbn [andb].
    apply (IH r (wgo k rs)).
    + rewrite <- Er. eapply wgo_rel. exact Er.
    + exact Hc.
    + rewrite <- Ego. exact Hnb.
  - (* the fallback *)
    apply (IH r (wstep w N nd st (CFallback n0 a e0, rs, cn))); auto.
    unfold wstep in *. cbn [ev_call fst snd] in *. destruct st; try contradiction.
    destruct (Nat.eqb n0 nd && Nat.eqb k N); [exact I|contradiction].
  - (* a wait *)
    apply (IH r (wstep w N nd st (CWait n0 it a, rs, cn))); auto.
    unfold wstep in *. cbn [ev_call ev_cancel fst snd] in *. destruct st; try contradiction.
    destruct (Nat.eqb n0 nd && Nat.eqb a k && Nat.ltb 0 w && Nat.ltb k N); [|contradiction].
    destruct cn; [exact I|]. cbn [rel] in *. split; [rewrite Er; reflexivity|].
    exists (tr_t1 p). split; [exact R|exact Hpr].
Qed.

(* C20, the time between attempts.  l: the timed events of one node visit (or of one batch
   item), accepted by the wait monitor for the configured wait w (wz on the clock), made in
   sequence, every wait that is followed by an attempt having run until its timer fired (at
   least wz).  Then every attempt that follows a failed attempt begins at least wz after that
   attempt ended. *)
Lemma gaps_lemma l :
  chain_ok wz l -> wrun w N nd (map tr_ev l) <> WBad -> gaps_from wz None l = true.
Proof.
  destruct l as [|r rest]; [reflexivity|]. intros Hc Hnb. unfold wrun in Hnb. cbn [map] in Hnb.
  pose proof (wrun_not_bad_step _ _ _ _ _ _ Hnb) as Hs. rewrite wrun_from_cons in Hnb.
  cbn [gaps_from].
  destruct (tr_ev r) as [[cl rs] cn] eqn:Er.
  destruct cl as [n0 sv|n0 a|n0 a e0|n0 sv pv xv|n0 sv its rss|n0 it a|n0 cs]; cbn [is_exec ev_call fst snd];
    try (exfalso; apply Hs; reflexivity).
  destruct (wstep_exec_cases _ _ _ _ _ Hs) as [k [Ego _]]. cbn [andb].
  apply (gaps_aux rest r (wgo k rs)).
  - rewrite <- Er. eapply wgo_rel. exact Er.
  - exact Hc.
  - rewrite <- Ego. exact Hnb.
Qed.

End Clock.

#[local] Close Scope Z_scope.
(* ------------------------------------------------------------ the two Go copies *)
Lemma node_waits_lemma (o : oracle) c n w N s p s' ar :
  0 < N -> attempts o c n w N 0 s p (inl VNil) = (s', ar) ->
  exists evs, log s' = log s ++ evs /\ wrun w N n evs <> WBad /\
              wres_ok W_CTX_RETRY W_CTX_WAIT c N (wrun w N n evs) ar.
Proof. intros HN H. eapply attempts_waits_lemma; eauto. Qed.

Lemma item_waits_seq_lemma (o : oracle) c n w N s item s' ar :
  0 < N -> item_attempts o c n w N 0 s item (inl VNil) = (s', ar) ->
  exists evs, log s' = log s ++ evs /\ wrun w N n evs <> WBad /\
              wres_ok W_ITEM_CTX_RETRY W_ITEM_CTX_WAIT c N (wrun w N n evs) ar.
Proof. intros HN H. eapply attempts_waits_lemma; eauto. Qed.

(* an interrupted wait ends the exec phase at once with the context's error wrapped at the wait
   site; Run hands an abort on unchanged (run_user: AAbort e => Fail e, no fallback, no post) *)
Lemma cut_aborts_lemma sr sw c N stf ar :
  stf = WCut -> wres_ok sr sw c N stf ar -> has_exec c = true -> ar = AAbort (EWrap sw ECtx).
Proof.
  intros -> H Hx. destruct ar as [e|[x|e]]; cbn in H.
  - destruct H as [[_ ->]|[_ [H|[j [H _]]]]]; [reflexivity|discriminate|discriminate].
  - specialize (H Hx). discriminate.
  - discriminate.
Qed.

Lemma run_user_abort (o : oracle) c n s p s1 N w s2 e :
  cancelled s = false -> node_prep o c n s = (s1, inl p) -> cancelled s1 = false ->
  retry_of c = (N, w) -> attempts o c n w N 0 s1 p (inl VNil) = (s2, AAbort e) ->
  run_user o c n s = (s2, Fail e).
Proof.
  intros Hc Hp Hc1 Hr Ha. unfold run_user. rewrite Hc, Hp, Hc1, Hr, Ha. reflexivity.
Qed.

(* ------------------------------------------------------------ the monitor is not vacuous *)
Definition xe (ok : bool) : event := (CExec 7 VNil, if ok then ROk VNil else RErr (EUser 1), false).
Definition xw (k : nat) (cut : bool) : event := (CWait 7 0 k, ROk VNil, cut).

Example mon_accepts_fail_wait_fail_wait_ok :
  wrun 5 3 7 [xe false; xw 1 false; xe false; xw 2 false; xe true] = WDone.
Proof. reflexivity. Qed.
Example mon_rejects_wait_before_first : wrun 5 3 7 [xw 0 false; xe true] = WBad.
Proof. reflexivity. Qed.
Example mon_rejects_missing_wait : wrun 5 3 7 [xe false; xe true] = WBad.
Proof. reflexivity. Qed.
Example mon_rejects_wait_after_last : wrun 5 2 7 [xe false; xw 1 false; xe false; xw 2 false] = WBad.
Proof. reflexivity. Qed.
Example mon_rejects_wait_after_success : wrun 5 3 7 [xe true; xw 1 false] = WBad.
Proof. reflexivity. Qed.
Example mon_rejects_attempt_after_cut : wrun 5 3 7 [xe false; xw 1 true; xe true] = WBad.
Proof. reflexivity. Qed.
Example mon_accepts_cut : wrun 5 3 7 [xe false; xw 1 true] = WCut.
Proof. reflexivity. Qed.
(* the clock predicate is not vacuous either: a gap shorter than the wait is refused *)
Example gaps_refuses_short :
  gaps_from 5000 None [{| tr_ev := xe false; tr_t0 := 0; tr_t1 := 10 |};
                       {| tr_ev := xe true; tr_t0 := 4000; tr_t1 := 4010 |}]%Z = false.
Proof. reflexivity. Qed.
Example gaps_accepts_long :
  gaps_from 5000 None [{| tr_ev := xe false; tr_t0 := 0; tr_t1 := 10 |};
                       {| tr_ev := xe true; tr_t0 := 5010; tr_t1 := 5020 |}]%Z = true.
Proof. reflexivity. Qed.
