(* BatchConcLive.v — the pool never deadlocks, and its limit is fully usable: in a state where
   nothing but user code can move, every worker is inside an exec call or there is nothing left
   to hand out. *)
From Flyt Require Import Base FlowTable Engine BatchConc EngineFacts BatchConcInv.
From Coq Require Import Lia.

Section Live.
Variable o : oracle.
Variable c : ucfg.
Variable nd : nid.
Variable items : list val.
Variable stopmode : bool.
Variable nworkers : nat.
Variable qcap : nat.
Hypothesis Hworkers : 0 < nworkers.
Hypothesis Hqcap : 0 < qcap.

Notation n := (length items).
Notation bstep := (bstep o c nd items stopmode qcap).
Notation brun := (brun o c nd items stopmode qcap).
Notation BInv := (BInv items nworkers).

(* workers leave only after Close, and Close is the submitter's last step *)
Definition ExitInv (s : bst) : Prop :=
  (closed s = true -> mpc s = MRet) /\
  (forall k, nth_error (ws s) k = Some WExit -> closed s = true).

Lemma binit_exit s0 : ExitInv (binit items nworkers s0).
Proof.
  split; cbn; [discriminate|]. intros k H. apply nth_error_In in H. apply repeat_spec in H. discriminate.
Qed.

Lemma task_step_shape s k i pc :
  nth_error (ws s) k = Some (WRun i pc) ->
  let s' := task_step o c nd items stopmode s k i pc in
  closed s' = closed s /\ mpc s' = mpc s /\
  exists w, ws s' = set_nth (ws s) k w /\ w <> WExit.
Proof.
  intros Hk. destruct pc; cbn [BatchConc.task_step].
  - destruct (stopf s && stopmode); cbn; repeat split; eauto; eexists; split; eauto; discriminate.
  - destruct (cancelled (base s)); cbn; repeat split; eauto; eexists; split; eauto; discriminate.
  - destruct (Nat.leb (budget c) k0); [destruct last; [|destruct (u_fb c)]|
      destruct (cancelled (base s)); [|destruct (Nat.ltb 0 k0 && Nat.ltb 0 (waitd c))]];
      cbn; repeat split; eauto; eexists; split; eauto; discriminate.
  - destruct (emit o (base s) (CWait nd (wait_item (item_at items i)) k0)) as [b r].
    destruct (cancelled b); cbn; repeat split; eauto; eexists; split; eauto; discriminate.
  - destruct (node_exec o c nd (base s) (item_at items i)) as [b [x|e]];
      cbn; repeat split; eauto; eexists; split; eauto; discriminate.
  - destruct (node_fallback o c nd (base s) (item_at items i) e) as [b r].
    cbn; repeat split; eauto; eexists; split; eauto; discriminate.
  - cbn; repeat split; eauto; eexists; split; eauto; discriminate.
  - cbn; repeat split; eauto; eexists; split; eauto; discriminate.
Qed.

Lemma bstep_exit s t s' : ExitInv s -> bstep s t = Some s' -> ExitInv s'.
Proof.
  intros [E1 E2] H. destruct t as [|k|k| |]; cbn [BatchConc.bstep] in H.
  - destruct (mpc s) eqn:Hm.
    + assert (closed s = false) by (destruct (closed s); auto; specialize (E1 eq_refl); congruence).
      destruct (adding s); [destruct (Nat.ltb (enq s - deq s) qcap)|destruct (Nat.ltb (enq s) (nitems items))];
        inv H; split; cbn; auto; congruence.
    + assert (closed s = false) by (destruct (closed s); auto; specialize (E1 eq_refl); congruence).
      destruct (Nat.eqb (wgc s) 0); inv H. split; cbn; auto; congruence.
    + inv H. split; cbn; auto.
    + discriminate.
  - destruct (nth_error (ws s) k) as [[|i pc|]|] eqn:Hk; try discriminate.
    + destruct (Nat.ltb (deq s) (enq s)); inv H. split; cbn; auto.
      intros k' H'. destruct (Nat.eq_dec k k') as [<-|Hne].
      * rewrite nth_error_set_nth_eq in H' by (eapply nth_error_lt; eauto). discriminate.
      * rewrite nth_error_set_nth_ne in H' by exact Hne. eauto.
    + inv H. destruct (task_step_shape s k i pc Hk) as [Ec [Em [w [Ew Hw]]]].
      split; [rewrite Ec, Em; exact E1|]. rewrite Ec. intros k' H'. rewrite Ew in H'.
      destruct (Nat.eq_dec k k') as [<-|Hne].
      * rewrite nth_error_set_nth_eq in H' by (eapply nth_error_lt; eauto). inv H'. contradiction.
      * rewrite nth_error_set_nth_ne in H' by exact Hne. eauto.
  - destruct (nth_error (ws s) k) as [[|i pc|]|] eqn:Hk; try discriminate.
    destruct (closed s) eqn:Hc; inv H. split; cbn; auto.
  - inv H. split; cbn; auto.
  - inv H. split; cbn; auto.
Qed.

Lemma brun_exit sched : forall s, ExitInv s -> ExitInv (brun s sched).
Proof.
  induction sched as [|t rest IH]; intros s E; cbn [BatchConc.brun]; auto.
  destruct (bstep s t) as [s'|] eqn:Es; auto. apply IH. eapply bstep_exit; eauto.
Qed.

(* some worker is in state w, or none is *)
Lemma ws_cases (l : list wstate) :
  (exists k i pc, nth_error l k = Some (WRun i pc)) \/
  (exists k, nth_error l k = Some WIdle) \/
  (forall k w, nth_error l k = Some w -> w = WExit).
Proof.
  induction l as [|w t IH].
  - right; right. intros [|k] w; discriminate.
  - destruct w as [|i pc|].
    + right; left. exists 0. reflexivity.
    + left. exists 0, i, pc. reflexivity.
    + destruct IH as [[k [i [pc H]]]|[[k H]|H]].
      * left. exists (S k), i, pc. exact H.
      * right; left. exists (S k). exact H.
      * right; right. intros [|k] w Hw; cbn in Hw; [inv Hw; reflexivity|eapply H; eauto].
Qed.

Lemma count_run_zero_no_run l : count_run l = 0 -> forall k i pc, nth_error l k <> Some (WRun i pc).
Proof.
  unfold count_run. intros H k i pc Hk. apply nth_error_In in Hk.
  apply length_zero_iff_nil in H.
  assert (In (WRun i pc) (filter is_run l)) by (apply filter_In; split; auto).
  rewrite H in *. contradiction.
Qed.

Lemma count_run_pos l : count_run l <> 0 -> exists k i pc, nth_error l k = Some (WRun i pc).
Proof.
  unfold count_run. induction l as [|w t IH]; cbn; [congruence|].
  destruct w as [|i pc|]; cbn.
  - intros H. destruct (IH H) as [k [i [pc Hk]]]. exists (S k), i, pc. exact Hk.
  - intros _. exists 0, i, pc. reflexivity.
  - intros H. destruct (IH H) as [k [i [pc Hk]]]. exists (S k), i, pc. exact Hk.
Qed.

(* C11 / C08: no deadlock.  In every reachable state in which the submitter has not returned,
   some thread of the pool (not the environment's cancel, not the observer's note) can take a step. *)
Lemma no_deadlock_lemma s :
  BInv s -> ExitInv s -> mpc s <> MRet -> exists t, t <> TCancel /\ t <> TNote /\ bstep s t <> None.
Proof.
  intros B [E1 E2] Hm.
  assert (Hnc : closed s = false) by (destruct (closed s); auto; specialize (E1 eq_refl); contradiction).
  assert (Hlen : length (ws s) = nworkers) by apply B.
  (* a running worker can always step *)
  assert (Run : (exists k i pc, nth_error (ws s) k = Some (WRun i pc)) -> exists t, t <> TCancel /\ t <> TNote /\ bstep s t <> None).
  { intros [k [i [pc Hk]]]. exists (TWorker k). split; [discriminate|]. split; [discriminate|]. cbn [BatchConc.bstep]. rewrite Hk. discriminate. }
  (* an idle worker can receive when the queue is not empty *)
  assert (Idle : deq s < enq s -> (exists k, nth_error (ws s) k = Some WIdle) -> exists t, t <> TCancel /\ t <> TNote /\ bstep s t <> None).
  { intros Hq [k Hk]. exists (TWorker k). split; [discriminate|]. split; [discriminate|]. cbn [BatchConc.bstep]. rewrite Hk.
    apply Nat.ltb_lt in Hq. rewrite Hq. discriminate. }
  assert (NoExit : ~ (forall k w, nth_error (ws s) k = Some w -> w = WExit)).
  { intros H. destruct (ws s) as [|w t] eqn:Ew; [cbn in Hlen; lia|].
    specialize (H 0 w eq_refl). subst w.
    assert (closed s = true) by (apply (E2 0); reflexivity). congruence. }
  destruct (mpc s) eqn:Hmp; [| | |contradiction].
  - (* MLoop *)
    destruct (adding s) eqn:Ha.
    + destruct (Nat.ltb (enq s - deq s) qcap) eqn:Hq.
      * exists TMain. split; [discriminate|]. split; [discriminate|]. cbn [BatchConc.bstep]. rewrite Hmp, Ha, Hq. discriminate.
      * apply Nat.ltb_ge in Hq.
        destruct (ws_cases (ws s)) as [H|[H|H]]; [apply Run; exact H|apply Idle; [lia|exact H]|contradiction].
    + exists TMain. split; [discriminate|]. split; [discriminate|]. cbn [BatchConc.bstep]. rewrite Hmp, Ha.
      destruct (Nat.ltb (enq s) (nitems items)); discriminate.
  - (* MWait *)
    destruct (Nat.eqb (wgc s) 0) eqn:Hw.
    + exists TMain. split; [discriminate|]. split; [discriminate|]. cbn [BatchConc.bstep]. rewrite Hmp, Hw. discriminate.
    + apply Nat.eqb_neq in Hw. rewrite (I_wg _ _ _ B) in Hw.
      destruct (I_main _ _ _ B) as [_ Ha]; [rewrite Hmp; discriminate|]. rewrite Ha in Hw.
      destruct (Nat.eq_dec (count_run (ws s)) 0) as [Hz|Hz].
      * destruct (ws_cases (ws s)) as [[k [i [pc Hk]]]|[H|H]].
        -- exfalso. eapply count_run_zero_no_run; eauto.
        -- apply Idle; [lia|exact H].
        -- contradiction.
      * apply Run. apply count_run_pos. exact Hz.
  - exists TMain. split; [discriminate|]. split; [discriminate|]. cbn [BatchConc.bstep]. rewrite Hmp. discriminate.
Qed.

(* ------------------------------------------------------------ the limit is fully usable *)
Notation internal_enabled := (internal_enabled o c nd items stopmode qcap).

Definition quiescent (s : bst) : Prop :=
  internal_enabled s TMain = false /\
  forall k, internal_enabled s (TWorker k) = false /\ internal_enabled s (TWorkerExit k) = false.

(* C08: in a quiescent state before the submitter has returned, every worker is inside an
   exec call, or it is idle and every one of the n items has already been handed to a worker:
   with c workers, c executions that all block do run at the same time *)
Lemma usable_lemma s :
  BInv s -> ExitInv s -> quiescent s -> mpc s <> MRet ->
  forall k w, nth_error (ws s) k = Some w ->
    (exists i a l, w = WRun i (PExec a l)) \/ (w = WIdle /\ deq s = n).
Proof.
  intros B [E1 E2] [Qm Qw] Hm k w Hk. destruct (Qw k) as [Q1 _].
  destruct w as [|i pc|].
  - right. split; [reflexivity|].
    (* the idle worker cannot receive: the queue is empty *)
    assert (Hq : Nat.ltb (deq s) (enq s) = false).
    { unfold BatchConc.internal_enabled in Q1. rewrite Hk in Q1. cbn [BatchConc.bstep] in Q1. rewrite Hk in Q1.
      destruct (Nat.ltb (deq s) (enq s)); [cbn in Q1; discriminate|reflexivity]. }
    apply Nat.ltb_ge in Hq. pose proof (I_deq _ _ _ B).
    (* the submitter cannot move either *)
    unfold BatchConc.internal_enabled in Qm. cbn [BatchConc.bstep] in Qm.
    destruct (mpc s) eqn:Hmp.
    + destruct (adding s) eqn:Ha.
      * destruct (Nat.ltb (enq s - deq s) qcap) eqn:Hc; [cbn in Qm; discriminate|].
        apply Nat.ltb_ge in Hc. lia.
      * destruct (Nat.ltb (enq s) (nitems items)); cbn in Qm; discriminate.
    + destruct (I_main _ _ _ B) as [He _]; [rewrite Hmp; discriminate|]. lia.
    + cbn in Qm. discriminate.
    + contradiction.
  - left. destruct pc; try (exfalso; unfold BatchConc.internal_enabled in Q1; rewrite Hk in Q1;
                            cbn [BatchConc.bstep] in Q1; rewrite Hk in Q1; discriminate).
    eauto.
  - exfalso. apply Hm. apply E1. eapply E2; eauto.
Qed.

End Live.
