(* C16Glue.v - short steps behind the theorems of Properties/C16.v (kept out of that file, which
   holds statements only). *)
From Flyt Require Import Values Accessors Bind BindCorr BindProofs.


Lemma C16_no_panic_glue :
  forall bytes jerr marshal unmarshal,
    (forall v d, fst (bind_result bytes jerr marshal unmarshal v d) <> BPanic) /\
    (forall o d, fst (bind_store bytes jerr marshal unmarshal o d) <> BPanic).
Proof. intros. split; [apply no_panic_result|apply no_panic_store]. Qed.
