(* C06Glue.v - instantiations of invariants at reachable states and other short steps behind the
   theorems of Properties/C06.v (kept out of that file, which holds statements only). *)
From Flyt Require Import Base Script FlowTable Engine BatchConc EngineCorr EngineFacts BatchConcFacts
     ItemMon BatchConcInv BatchConcItems.


Lemma C06_post_after_all_settled_glue :
  forall (o : oracle) c nd (items : list val) stopmode nworkers qcap s0 sched,
    let s := brun o c nd items stopmode qcap (binit items nworkers s0) sched in
    (mpc s = MClose \/ mpc s = MRet) ->
    deq s = length items /\ count_run (ws s) = 0 /\ forall i, i < length items -> slot_at s i <> None.
Proof.
  intros. apply (wait_is_barrier items nworkers); auto.
  apply brun_inv. apply binit_inv.
Qed.
