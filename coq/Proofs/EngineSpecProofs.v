(* EngineSpecProofs.v — the executable predicates of Spec/SpecEngine.v hold of every
   observation the model produces. *)
From Flyt Require Import Base Script FlowTable Engine EngineCorr EngineFacts BaseFacts
     Lifecycle LifecycleProofs SpecC18 SpecEngine C18Proofs C04Proofs BatchConc BatchConcFacts.

Lemma lrun_canc tbl : forall evs st canc st' canc',
    lrun tbl st canc evs = Some (st', canc') -> canc' = canc || existsb ev_cancel evs.
Proof.
  induction evs as [|ev evs IH]; intros st canc st' canc' H; cbn [lrun] in H.
  - inv H. now rewrite orb_false_r.
  - destruct (lstep tbl st canc ev); [|discriminate]. apply IH in H. rewrite H. cbn.
    now rewrite orb_assoc.
Qed.

Lemma table_of_in l : forall n d, table_of l n = Some d -> In (n, d) l.
Proof.
  induction l as [|[k d0] l IH]; intros n d H; cbn in H; [discriminate|].
  destruct (Nat.eqb n k) eqn:E.
  - inv H. apply Nat.eqb_eq in E. subst. now left.
  - right. now apply IH.
Qed.

Lemma scen_full_table sc :
  scen_full sc = true -> forall n d, table_of (es_nodes sc) n = Some d -> full_def d = true.
Proof.
  unfold scen_full. rewrite forallb_forall. intros H n d Hd.
  apply table_of_in in Hd. apply (H (n, d)). exact Hd.
Qed.

Lemma outcome_pair_roundtrip o ce tbl fuel s n s' oc :
  run o ce tbl fuel s n = Some (s', oc) -> outcome_of_pair (pair_of_outcome oc) = Some oc.
Proof.
  intros H. destruct oc as [a|e]; cbn; [|reflexivity].
  destruct (run_done_norm _ _ _ _ _ _ _ _ H) as [a0 ->].
  destruct (Nat.eqb (norm_act a0) A_EMPTY) eqn:E; [|reflexivity].
  apply Nat.eqb_eq in E. now apply norm_act_nonempty in E.
Qed.

(* ------------------------------------------------------------ lifecycle *)
Lemma spec_lc_model sc :
  scen_full sc = true ->
  forall k s, spec_lc_runs (table_of (es_nodes sc)) (cancelled s)
                           (eobs_of_model (model_runs sc k s)) = true.
Proof.
  intros Hfull. induction k as [|k IH]; intros s; cbn [model_runs eobs_of_model spec_lc_runs]; auto.
  destruct (model_run sc s) as [[s' oc]|] eqn:E; cbn [eobs_of_model spec_lc_runs]; auto.
  unfold model_run in E.
  rewrite (outcome_pair_roundtrip _ _ _ _ _ _ _ _ E).
  destruct (run_lc _ _ _ (scen_full_table _ Hfull) _ _ _ _ _ E) as [evs [st' [L [R F]]]].
  rewrite L, skipn_app_exact.
  unfold lifecycle_ok. rewrite R, (final_ok_accept _ _ _ F). cbn [andb].
  apply lrun_canc in R. rewrite <- R. apply IH.
Qed.

(* ------------------------------------------------------------ C05 *)
Lemma lrun_no_new_work tbl f : forall tr st canc x,
    lrun tbl st canc tr = Some x -> no_new_work_after_cancel f canc tr = true.
Proof.
  induction tr as [|ev tr IH]; intros st canc x H; cbn [lrun no_new_work_after_cancel] in *; auto.
  destruct (lstep tbl st canc ev) as [st1|] eqn:Es; [|discriminate].
  rewrite (IH _ _ _ H), andb_true_r.
  destruct canc; auto.
  destruct ev as [[cl r] cn]. cbn [ev_call fst]. destruct cl; auto; exfalso; cbn [lstep] in Es.
  - destruct st; try discriminate. destruct (full_user tbl n); discriminate.
  - destruct st; try discriminate. destruct (full_user tbl n); try discriminate.
    rewrite !andb_false_r in Es. cbn in Es. discriminate.
Qed.

Lemma run_precancelled o ce tbl fuel s n s' oc :
  cancelled s = true ->
  (match tbl n with Some (NUser _) | Some (NFlow _ _) => True | _ => False end) ->
  run o ce tbl fuel s n = Some (s', oc) ->
  s' = s /\ exists e, oc = Fail e /\ class_of e = KCtx.
Proof.
  intros Hc Hk H. destruct fuel as [|f]; [discriminate|]. cbn [run] in H.
  destruct (tbl n) as [[c|st cs|c k b]|]; try contradiction.
  - unfold run_user in H. rewrite Hc in H. inv H. split; auto. eexists; split; eauto.
  - unfold run_flow in H. rewrite Hc in H. inv H. split; auto. eexists; split; eauto.
Qed.

Lemma spec_C05_model sc :
  scen_full sc = true -> root_known sc = true ->
  forall k s, spec_C05_runs sc (cancelled s) (eobs_of_model (model_runs sc k s)) = true.
Proof.
  intros Hfull Hroot. induction k as [|k IH]; intros s; cbn [model_runs eobs_of_model spec_C05_runs]; auto.
  destruct (model_run sc s) as [[s' oc]|] eqn:E; cbn [eobs_of_model spec_C05_runs]; auto.
  unfold model_run in E.
  destruct (run_lc _ _ _ (scen_full_table _ Hfull) _ _ _ _ _ E) as [evs [st' [L [R F]]]].
  rewrite L, skipn_app_exact.
  rewrite (lrun_no_new_work _ _ _ _ _ _ R). cbn [andb].
  pose proof (lrun_canc _ _ _ _ _ _ R) as Hcn. rewrite <- Hcn, IH, andb_true_r.
  destruct (cancelled s) eqn:Hc; auto.
  unfold root_known in Hroot.
  destruct (table_of (es_nodes sc) (es_root sc)) as [d|] eqn:Hd; [|discriminate].
  pose proof (scen_full_table _ Hfull _ _ Hd) as Hfd.
  destruct d as [c|st cs|c kk b]; [| |discriminate].
  - destruct (run_precancelled _ _ _ _ _ _ _ _ Hc ltac:(rewrite Hd; exact I) E) as [-> [e [-> Hk]]].
    assert (evs = []) by (apply (app_inv_head (log s)); now rewrite app_nil_r, <- L).
    subst evs. cbn. now rewrite Hk.
  - destruct (run_precancelled _ _ _ _ _ _ _ _ Hc ltac:(rewrite Hd; exact I) E) as [-> [e [-> Hk]]].
    assert (evs = []) by (apply (app_inv_head (log s)); now rewrite app_nil_r, <- L).
    subst evs. cbn. now rewrite Hk.
Qed.

(* ------------------------------------------------------------ C18 on whole observations *)
Lemma spec_C18_eobs sc : forall k s, spec_C18 sc (eobs_of_model (model_runs sc k s)) = true.
Proof.
  induction k as [|k IH]; intros s; cbn [model_runs eobs_of_model]; auto.
  destruct (model_run sc s) as [[s' oc]|] eqn:E; cbn [eobs_of_model]; auto.
  unfold spec_C18 in *. cbn [forallb]. rewrite (spec_C18_model_run _ _ _ _ E). apply IH.
Qed.

(* ------------------------------------------------------------ the specs on the model *)
Lemma spec_lifecycle_model sc : spec_lifecycle sc (eobs_of_model (model_obs sc)) = true.
Proof.
  unfold spec_lifecycle. destruct (scen_full sc) eqn:Hf; auto.
  unfold model_obs. change (es_precancel sc) with (cancelled (init_ms sc)). now apply spec_lc_model.
Qed.

Lemma spec_C01_model_lemma sc : spec_C01 sc (eobs_of_model (model_obs sc)) = true.
Proof. unfold spec_C01. rewrite spec_lifecycle_model. apply spec_C18_eobs. Qed.

Lemma spec_C02_model_lemma sc : spec_C02 sc (eobs_of_model (model_obs sc)) = true.
Proof. apply spec_lifecycle_model. Qed.

Lemma last_visible_snoc pre c r cn :
  is_wait c = false -> last_visible (pre ++ [(c, r, cn)]) = Some (c, r, cn).
Proof.
  intros W. unfold last_visible. rewrite filter_app. cbn. rewrite W. cbn.
  rewrite rev_app_distr. reflexivity.
Qed.

Lemma fail_last_ok_model o ce tbl fuel s n s' oc evs :
  (forall c k st n s items s' rs, ce c k st n s items = (s', rs) -> ext s s') ->
  run o ce tbl fuel s n = Some (s', oc) ->
  log s' = log s ++ evs ->
  fail_last_ok (cancelled s) evs (pair_of_outcome oc) = true.
Proof.
  intros Hce H L. destruct oc as [a|e]; cbn; auto.
  pose proof (run_ext _ _ Hce _ _ _ _ _ _ H) as [evs' [L' [C _]]].
  assert (evs' = evs) by (apply (app_inv_head (log s)); now rewrite <- L, <- L'). subst evs'.
  destruct (run_faillast _ _ Hce _ _ _ _ _ _ H) as [[Hr|Hr]|[[Hk Hc]|[pre [c [u [cn [L2 [W [S _]]]]]]]]].
  - unfold class_of. now rewrite Hr.
  - unfold class_of. now rewrite Hr.
  - rewrite Hk. rewrite <- C, Hc. reflexivity.
  - assert (evs = pre ++ [(c, RErr u, cn)]) by (apply (app_inv_head (log s)); now rewrite <- L, L2).
    subst evs. unfold last_err_matches. rewrite (last_visible_snoc _ _ _ _ W). rewrite S.
    destruct (class_of e); auto. now rewrite orb_true_r.
Qed.

Lemma spec_fail_last_model sc : forall k s,
    spec_fail_last_runs (cancelled s) (eobs_of_model (model_runs sc k s)) = true.
Proof.
  induction k as [|k IH]; intros s; cbn [model_runs eobs_of_model spec_fail_last_runs]; auto.
  destruct (model_run sc s) as [[s' oc]|] eqn:E; cbn [eobs_of_model spec_fail_last_runs]; auto.
  unfold model_run in E.
  pose proof (run_ext _ _ (gated_exec_ext _ _) _ _ _ _ _ _ E) as [evs [L [C _]]].
  rewrite L, skipn_app_exact.
  rewrite (fail_last_ok_model _ _ _ _ _ _ _ _ _ (gated_exec_ext _ _) E L). cbn [andb].
  rewrite <- C. apply IH.
Qed.

Lemma spec_C04_model_lemma sc : spec_C04 sc (eobs_of_model (model_obs sc)) = true.
Proof.
  unfold spec_C04. rewrite spec_lifecycle_model. cbn [andb].
  unfold model_obs. change (es_precancel sc) with (cancelled (init_ms sc)). apply spec_fail_last_model.
Qed.

Lemma spec_C05_model_lemma sc : spec_C05 sc (eobs_of_model (model_obs sc)) = true.
Proof.
  unfold spec_C05. rewrite spec_lifecycle_model. cbn [andb].
  destruct (scen_full sc) eqn:Hf; auto. destruct (root_known sc) eqn:Hr; auto. cbn [andb].
  unfold model_obs. change (es_precancel sc) with (cancelled (init_ms sc)). now apply spec_C05_model.
Qed.

(* ------------------------------------------------------------ routing (C03, C10) *)
From Flyt Require Import Flatten FlattenProofs SpecRoute.


Lemma wf_events_stores_ok evs : wf_events evs -> stores_ok evs = true.
Proof.
  unfold wf_events, stores_ok. induction 1 as [|e evs He _ IH]; cbn; auto.
  rewrite IH, andb_true_r. unfold store_arg_ok. destruct (ev_call e); cbn in He; subst; auto.
Qed.

Lemma scen_vis_table sc :
  scen_vis sc = true -> forall n d, table_of (es_nodes sc) n = Some d -> vis_def d = true.
Proof.
  unfold scen_vis. rewrite forallb_forall. intros H n d Hd.
  apply table_of_in in Hd. apply (H (n, d)). exact Hd.
Qed.

Lemma spec_route_model sc :
  scen_vis sc = true ->
  forall k s, spec_route_runs (table_of (es_nodes sc)) (es_root sc) (cancelled s)
                              (eobs_of_model (model_runs sc k s)) = true.
Proof.
  intros Hvis. induction k as [|k IH]; intros s; cbn [model_runs eobs_of_model spec_route_runs]; auto.
  destruct (model_run sc s) as [[s' oc]|] eqn:E; cbn [eobs_of_model spec_route_runs]; auto.
  unfold model_run in E.
  rewrite (outcome_pair_roundtrip _ _ _ _ _ _ _ _ E).
  pose proof (run_ext _ _ (gated_exec_ext _ _) _ _ _ _ _ _ E) as [evs [L [C W]]].
  rewrite L, skipn_app_exact. rewrite (wf_events_stores_ok _ W). cbn [andb].
  rewrite <- C. rewrite IH, andb_true_r.
  destruct (cancelled s') eqn:Hc'; auto.
  destruct (run_sim _ _ (gated_exec_ext _ _) (gated_exec_nt _ _) _ (scen_vis_table _ Hvis) _ _ _ _ _ E Hc'
              FUEL FUEL [] (le_n _) (le_S _ _ (le_n _))) as [evs' [L' R]].
  assert (evs' = evs) by (apply (app_inv_head (log s)); now rewrite <- L, <- L'). subst evs'.
  unfold route_ok. destruct oc as [a|e]; [|exact R].
  rewrite R. cbn. apply Nat.eqb_refl.
Qed.

Lemma spec_route_model_lemma sc : spec_route sc (eobs_of_model (model_obs sc)) = true.
Proof.
  unfold spec_route. destruct (scen_vis sc) eqn:Hv; auto.
  unfold model_obs. change (es_precancel sc) with (cancelled (init_ms sc)). now apply spec_route_model.
Qed.

Lemma spec_C03_model_lemma sc : spec_C03 sc (eobs_of_model (model_obs sc)) = true.
Proof. unfold spec_C03. now rewrite spec_route_model_lemma, spec_lifecycle_model. Qed.
Lemma spec_C10_model_lemma sc : spec_C10 sc (eobs_of_model (model_obs sc)) = true.
Proof. unfold spec_C10. now rewrite spec_route_model_lemma, spec_lifecycle_model. Qed.

Lemma spec_C18x_model_lemma sc : spec_C18x sc (eobs_of_model (model_obs sc)) = true.
Proof.
  unfold spec_C18x. rewrite spec_route_model_lemma, andb_true_r. unfold model_obs. apply spec_C18_eobs.
Qed.
