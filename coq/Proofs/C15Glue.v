(* C15Glue.v - instantiations of invariants at reachable states and other short steps behind the
   theorems of Properties/C15.v (kept out of that file, which holds statements only). *)
From Flyt Require Import Values Accessors ValuesCorr ValuesProofs.
#[local] Open Scope Z_scope.

Lemma C15_variants_glue :
  forall v,
    (forall d, as_string_or d v = (if snd (as_string v) then fst (as_string v) else d)) /\
    must_string v = (if snd (as_string v) then OVal (fst (as_string v)) else OPanic) /\
    (forall d, as_int_or d v = (if snd (as_int v) then fst (as_int v) else Specified d)) /\
    must_int v = (if snd (as_int v) then OVal (fst (as_int v)) else OPanic) /\
    (forall d, as_float64_or d v = (if snd (as_float64 v) then fst (as_float64 v) else d)) /\
    must_float64 v = (if snd (as_float64 v) then OVal (fst (as_float64 v)) else OPanic) /\
    (forall d, as_bool_or d v = (if snd (as_bool v) then fst (as_bool v) else d)) /\
    must_bool v = (if snd (as_bool v) then OVal (fst (as_bool v)) else OPanic) /\
    (forall d, as_slice_or d v = (if snd (as_slice v) then fst (as_slice v) else d)) /\
    must_slice v = (if snd (as_slice v) then OVal (fst (as_slice v)) else OPanic) /\
    (forall d, as_map_or d v = (if snd (as_map v) then fst (as_map v) else d)) /\
    must_map v = (if snd (as_map v) then OVal (fst (as_map v)) else OPanic).
Proof.
  intros v.
  exact (conj (fun d => proj1 (string_variants d v)) (conj (proj2 (string_variants 0%nat v))
        (conj (fun d => proj1 (int_variants d v)) (conj (proj2 (int_variants 0 v))
        (conj (fun d => proj1 (float64_variants d v)) (conj (proj2 (float64_variants 0 v))
        (conj (fun d => proj1 (bool_variants d v)) (conj (proj2 (bool_variants true v))
        (conj (fun d => proj1 (slice_variants d v)) (conj (proj2 (slice_variants sl_nil v))
        (conj (fun d => proj1 (map_variants d v)) (proj2 (map_variants mp_nil v))))))))))))).
Qed.

Lemma C15_store_result_glue :
  forall v,
    (forall d, get_string_or d (Some v) = as_string_or d v) /\
    (forall d, get_int_or d (Some v) = as_int_or d v) /\
    (forall d, get_float64_or d (Some v) = as_float64_or d v) /\
    (forall d, get_bool_or d (Some v) = as_bool_or d v) /\
    (forall d, get_slice_or d (Some v) = as_slice_or d v) /\
    (forall d, get_map_or d (Some v) = as_map_or d v).
Proof.
  intros v.
  exact (conj (fun d => store_result_string d v) (conj (fun d => store_result_int d v)
        (conj (fun d => store_result_float64 d v) (conj (fun d => store_result_bool d v)
        (conj (fun d => store_result_slice d v) (fun d => store_result_map d v)))))).
Qed.
