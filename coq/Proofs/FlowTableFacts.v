(* FlowTableFacts.v — the two-level transition table built by a list of Connect calls reads
   back as "the last Connect on the (node, action) pair wins". *)
From Flyt Require Import Base FlowTable.

Lemma row_get_set r a t b :
  row_get (row_set r a t) b = if Nat.eqb b a then Some t else row_get r b.
Proof.
  induction r as [|[c u] r IH]; cbn.
  - destruct (Nat.eqb b a); reflexivity.
  - destruct (Nat.eqb a c) eqn:Eac; cbn.
    + apply Nat.eqb_eq in Eac. subst c. destruct (Nat.eqb b a); reflexivity.
    + destruct (Nat.eqb b c) eqn:Ebc.
      * apply Nat.eqb_eq in Ebc. subst c.
        rewrite Nat.eqb_sym in Eac. now rewrite Eac.
      * exact IH.
Qed.

Lemma tmap_get_set m n r k :
  tmap_get (tmap_set m n r) k = if Nat.eqb k n then Some r else tmap_get m k.
Proof.
  induction m as [|[c u] m IH]; cbn.
  - destruct (Nat.eqb k n); reflexivity.
  - destruct (Nat.eqb n c) eqn:Enc; cbn.
    + apply Nat.eqb_eq in Enc. subst c. destruct (Nat.eqb k n); reflexivity.
    + destruct (Nat.eqb k c) eqn:Ekc.
      * apply Nat.eqb_eq in Ekc. subst c.
        rewrite Nat.eqb_sym in Enc. now rewrite Enc.
      * exact IH.
Qed.

Lemma lookup2_connect m from a to n b :
  lookup2 (connect m (from, a, to)) n b =
  if Nat.eqb n from && Nat.eqb b a then Some to else lookup2 m n b.
Proof.
  unfold lookup2, connect. rewrite tmap_get_set.
  destruct (Nat.eqb n from) eqn:E; cbn [andb]; [|reflexivity].
  apply Nat.eqb_eq in E. subst n. rewrite row_get_set.
  destruct (Nat.eqb b a); [reflexivity|].
  destruct (tmap_get m from); reflexivity.
Qed.

Lemma lookup2_fold cs : forall m n a,
    lookup2 (fold_left connect cs m) n a =
    match last_conn cs n a with Some t => Some t | None => lookup2 m n a end.
Proof.
  induction cs as [|[[from b] to] cs IH]; intros m n a; cbn [fold_left last_conn]; [reflexivity|].
  rewrite IH. destruct (last_conn cs n a); [reflexivity|].
  rewrite lookup2_connect. destruct (Nat.eqb n from && Nat.eqb a b); reflexivity.
Qed.

(* Connect overwrites per (from, action): the table built by any list of Connect calls maps a
   pair to the target of the LAST call on that pair; None if there is none; Some None if that
   call connected it to nil *)
Lemma connect_last_wins_lemma cs n a : lookup2 (build cs) n a = last_conn cs n a.
Proof.
  unfold build. rewrite lookup2_fold. destruct (last_conn cs n a); reflexivity.
Qed.

(* the abstract reading, spelled out: appending a Connect on the pair overrides, appending a
   Connect on another pair changes nothing *)
Lemma last_conn_app cs cs' n a :
  last_conn (cs ++ cs') n a =
  match last_conn cs' n a with Some t => Some t | None => last_conn cs n a end.
Proof.
  induction cs as [|[[from b] to] cs IH]; cbn [app last_conn].
  - destruct (last_conn cs' n a); reflexivity.
  - rewrite IH. destruct (last_conn cs' n a); reflexivity.
Qed.

Lemma last_conn_snoc_same cs n a t : last_conn (cs ++ [(n, a, t)]) n a = Some t.
Proof. rewrite last_conn_app. cbn. now rewrite !Nat.eqb_refl. Qed.

Lemma last_conn_snoc_other cs from b t n a :
  (n, a) <> (from, b) -> last_conn (cs ++ [(from, b, t)]) n a = last_conn cs n a.
Proof.
  intros H. rewrite last_conn_app. cbn.
  destruct (Nat.eqb n from) eqn:E1; destruct (Nat.eqb a b) eqn:E2; cbn; auto.
  apply Nat.eqb_eq in E1, E2. subst. contradiction.
Qed.
