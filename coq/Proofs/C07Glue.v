(* C07Glue.v - instantiations of invariants at reachable states and other short steps behind the
   theorems of Properties/C07.v (kept out of that file, which holds statements only). *)
From Flyt Require Import Base Script FlowTable Engine BatchConc EngineCorr EngineFacts
     ItemMon BatchConcInv BatchConcItems C02Proofs.


Lemma C07_one_worker_per_item_glue :
  forall (o : oracle) c nd (items : list val) stopmode nworkers qcap s0 sched k k' i pc pc',
    let s := brun o c nd items stopmode qcap (binit items nworkers s0) sched in
    nth_error (ws s) k = Some (WRun i pc) -> nth_error (ws s) k' = Some (WRun i pc') -> k = k'.
Proof.
  intros. eapply (one_worker_per_item items nworkers); eauto.
  apply brun_inv. apply binit_inv.
Qed.
