(* BatchConcItems.v — under EVERY schedule, what is done on behalf of item i is a processing of
   item i in the sense of the per-item monitor (Spec/ItemMon.v), independent of all other
   items, and the slot of item i is what the events of item i alone determine. *)
From Flyt Require Import Base FlowTable Engine BatchConc EngineFacts BaseFacts ItemMon BatchConcInv.
From Coq Require Import Lia Permutation.

Section Items.
Variable o : oracle.
Variable c : ucfg.
Variable nd : nid.
Variable items : list val.
Variable stopmode : bool.
Variable nworkers : nat.
Variable qcap : nat.
Hypothesis Hexec : has_exec c = true.

Notation n := (length items).
Notation bstep := (bstep o c nd items stopmode qcap).
Notation brun := (brun o c nd items stopmode qcap).
Notation task_step := (task_step o c nd items stopmode).
Notation BInv := (BInv items nworkers).
Notation NN := (N c).

Definition il (s : bst) (i : nat) : list event := nth i (ilog s) [].
Definition itm (i : nat) : val := item_at items i.

Definition mon_at (i k : nat) (last : val + err) (l : list event) : Prop :=
  match k with
  | 0 => irun c nd (itm i) l = IStart /\ last = inl VNil
  | S j => exists e, irun c nd (itm i) l = IFailed (S j) e /\ last = inr e
  end.

Definition rec_ok (i : nat) (l : list event) (r : val + err) : Prop :=
  ist_result c (irun c nd (itm i) l) = Some r \/
  (ist_abortable c (irun c nd (itm i) l) = true /\ exists site, r = inr (EWrap site ECtx)).

Definition TaskState (i : nat) (pc : tpc) (l : list event) (slot : option val) : Prop :=
  match pc with
  | PStop | PCtx => l = []
  | PTop k last => mon_at i k last l /\ k <= NN
  | PWait k last | PExec k last => mon_at i k last l /\ k < NN
  | PFb e => irun c nd (itm i) l = IFailed NN e /\ u_fb c <> FbNone /\ 0 < NN
  | PRec r => rec_ok i l r
  | PDone => exists v, slot = Some v /\ settled c nd (itm i) l v
  end.

Definition ItemInv (s : bst) : Prop :=
  forall i, i < n ->
    (deq s <= i -> il s i = []) /\
    (forall pc, running s i pc -> TaskState i pc (il s i) (slot_at s i)) /\
    (i < deq s -> (forall pc, ~ running s i pc) ->
     exists v, slot_at s i = Some v /\ settled c nd (itm i) (il s i) v).

Lemma nth_repeat_nil {A} k m : nth k (repeat (@nil A) m) [] = [].
Proof. revert k; induction m; intros [|k]; cbn; auto. Qed.

Lemma binit_items s0 : ItemInv (binit items nworkers s0).
Proof.
  intros i Hi. split; [|split].
  - intros _. unfold il. cbn. apply nth_repeat_nil.
  - intros pc [k H]. cbn in H. apply nth_error_In in H. apply repeat_spec in H. discriminate.
  - cbn. lia.
Qed.

Lemma irun_app it l l' : irun c nd it (l ++ l') = fold_left (istep c nd it) l' (irun c nd it l).
Proof. unfold irun. apply fold_left_app. Qed.

Lemma irun_snoc it l ev : irun c nd it (l ++ [ev]) = istep c nd it (irun c nd it l) ev.
Proof. rewrite irun_app. reflexivity. Qed.

(* steps that do not touch items at all *)
Lemma items_frame s s' :
  ItemInv s -> ws s' = ws s -> slots s' = slots s -> ilog s' = ilog s -> deq s' = deq s -> ItemInv s'.
Proof.
  intros I E1 E2 E3 E4 i Hi. unfold il, slot_at, running. rewrite E1, E2, E3, E4. apply I. exact Hi.
Qed.

(* the step of worker k on its item i: every other item is untouched *)
Lemma items_task s s' k i pc w' :
  BInv s -> ItemInv s -> nth_error (ws s) k = Some (WRun i pc) ->
  ws s' = set_nth (ws s) k w' -> deq s' = deq s ->
  (forall j, j <> i -> il s' j = il s j /\ slot_at s' j = slot_at s j) ->
  (match w' with
   | WRun i' pc' => i' = i /\ TaskState i pc' (il s' i) (slot_at s' i)
   | WIdle => exists v, slot_at s' i = Some v /\ settled c nd (itm i) (il s' i) v
   | WExit => False
   end) ->
  ItemInv s'.
Proof.
  intros B I Hk Ew Ed Hoth Hnew j Hj.
  pose proof (nth_error_lt _ _ _ Hk) as Hlt.
  pose proof (I_run _ _ _ B _ _ _ Hk) as Hideq.
  destruct (Nat.eq_dec j i) as [->|Hne].
  - (* the item of this step *)
    split; [|split].
    + intros Hd. rewrite Ed in Hd. lia.
    + intros pc'' [k' H]. rewrite Ew in H. destruct (Nat.eq_dec k k') as [<-|Hnk].
      * rewrite nth_error_set_nth_eq in H by exact Hlt. inv H. destruct Hnew as [_ Hn]. exact Hn.
      * rewrite nth_error_set_nth_ne in H by exact Hnk.
        exfalso. apply Hnk. eapply (I_inj _ _ _ B); eauto.
    + intros _ Hnr. destruct w' as [|i' pc'|].
      * exact Hnew.
      * destruct Hnew as [-> _]. exfalso. apply (Hnr pc'). exists k. rewrite Ew.
        apply nth_error_set_nth_eq. exact Hlt.
      * contradiction.
  - (* another item *)
    destruct (Hoth _ Hne) as [Eil Esl]. rewrite Eil, Esl, Ed.
    assert (Hrun : forall pc'', running s' j pc'' <-> running s j pc'').
    { intros pc''. unfold running. rewrite Ew. split; intros [k' H]; exists k'.
      - destruct (Nat.eq_dec k k') as [<-|Hnk].
        + rewrite nth_error_set_nth_eq in H by exact Hlt. inv H.
          destruct Hnew as [Hji _]. contradiction.
        + rewrite nth_error_set_nth_ne in H by exact Hnk. exact H.
      - destruct (Nat.eq_dec k k') as [<-|Hnk].
        + rewrite Hk in H. inv H. contradiction.
        + rewrite nth_error_set_nth_ne by exact Hnk. exact H. }
    destruct (I j Hj) as [I1 [I2 I3]]. split; [exact I1|]. split.
    + intros pc'' Hr. apply I2. apply Hrun. exact Hr.
    + intros Hd Hnr. apply I3; auto. intros pc'' Hr. apply (Hnr pc''). apply Hrun. exact Hr.
Qed.

Lemma skipn_app_exact' {A} (l r : list A) : skipn (length l) (l ++ r) = r.
Proof. induction l; cbn; auto. Qed.

(* how the pieces of task_step act on il / slot_at *)
Lemma il_with_base s i b evs j :
  i < length (ilog s) -> log b = log (base s) ++ evs ->
  il (with_base s i b) j = if Nat.eq_dec i j then il s i ++ evs else il s j.
Proof.
  intros Hi L. unfold il, with_base. cbn [ilog]. rewrite L, skipn_app_exact'. unfold app_nth.
  destruct (Nat.eq_dec i j) as [<-|Hne].
  - apply nth_set_nth_eq. exact Hi.
  - apply nth_set_nth_ne. exact Hne.
Qed.

Lemma skipn_all_nil {A} (l : list A) : skipn (length l) l = [].
Proof. induction l; cbn; auto. Qed.

Lemma slot_write s i v sf j :
  i < length (slots s) ->
  slot_at (write_slot s i v sf) j = if Nat.eq_dec i j then Some v else slot_at s j.
Proof.
  intros Hi. unfold slot_at, write_slot. cbn [slots].
  destruct (Nat.eq_dec i j) as [<-|Hne]; [apply nth_set_nth_eq; exact Hi|apply nth_set_nth_ne; exact Hne].
Qed.

Lemma mon_at_abortable i k last l : mon_at i k last l -> k < NN -> ist_abortable c (irun c nd (itm i) l) = true.
Proof.
  destruct k as [|j]; cbn [mon_at].
  - intros [-> _] H. unfold ist_abortable. now apply Nat.ltb_lt.
  - intros [e [-> _]] H. unfold ist_abortable. now apply Nat.ltb_lt.
Qed.

Lemma ctx_slot_of_abort site : ctx_error_slot (slot_of_result (inr (EWrap site ECtx))) = true.
Proof. reflexivity. Qed.

Lemma task_step_items s k i pc :
  BInv s -> ItemInv s -> nth_error (ws s) k = Some (WRun i pc) -> ItemInv (task_step s k i pc).
Proof.
  intros B I Hk.
  pose proof (I_run _ _ _ B _ _ _ Hk) as Hideq.
  assert (Hin : i < n) by (pose proof (I_deq _ _ _ B); pose proof (I_enq _ _ _ B); lia).
  assert (Hil : i < length (ilog s)) by (rewrite (I_ilog _ _ _ B); exact Hin).
  assert (Hsl : i < length (slots s)) by (rewrite (I_slots _ _ _ B); exact Hin).
  destruct (I i Hin) as [_ [Irun _]].
  pose proof (Irun pc (ex_intro _ k Hk)) as TS.
  (* a step that changes only the pc *)
  assert (PcOnly : forall pc' sf,
             TaskState i pc' (il s i) (slot_at s i) ->
             ItemInv {| enq := enq s; adding := adding s; mpc := mpc s; deq := deq s;
                        ws := set_nth (ws s) k (WRun i pc'); slots := slots s; stopf := sf;
                        wgc := wgc s; closed := closed s; base := base s; ilog := ilog s |}).
  { intros pc' sf T. eapply items_task with (s := s) (k := k) (i := i) (pc := pc) (w' := WRun i pc');
      eauto; try reflexivity; try (intros j _; split; reflexivity). }
  (* a step that writes the slot and goes to PDone *)
  assert (Write : forall v sf,
             settled c nd (itm i) (il s i) v ->
             ItemInv (set_w (write_slot s i v sf) k (WRun i PDone))).
  { intros v sf T. eapply items_task with (s := s) (k := k) (i := i) (pc := pc) (w' := WRun i PDone);
      eauto; try reflexivity.
    - intros j Hne. split; [reflexivity|]. unfold set_w, slot_at. cbn [slots].
      change (nth j (slots (write_slot s i v sf)) None) with (slot_at (write_slot s i v sf) j).
      rewrite slot_write by exact Hsl. destruct (Nat.eq_dec i j); [congruence|reflexivity].
    - split; [reflexivity|]. cbn [TaskState]. exists v. split; [|exact T].
      change (slot_at (set_w (write_slot s i v sf) k (WRun i PDone)) i) with (slot_at (write_slot s i v sf) i).
      rewrite slot_write by exact Hsl. destruct (Nat.eq_dec i i); [reflexivity|contradiction]. }
  (* a step that appends events evs to the log on behalf of item i and moves to pc' *)
  assert (Emit : forall b evs pc',
             log b = log (base s) ++ evs ->
             TaskState i pc' (il s i ++ evs) (slot_at s i) ->
             ItemInv (set_w (with_base s i b) k (WRun i pc'))).
  { intros b evs pc' L T. eapply items_task with (s := s) (k := k) (i := i) (pc := pc) (w' := WRun i pc');
      eauto; try reflexivity.
    - intros j Hne. split; [|reflexivity].
      change (il (set_w (with_base s i b) k (WRun i pc')) j) with (il (with_base s i b) j).
      rewrite (il_with_base _ _ _ evs) by assumption. destruct (Nat.eq_dec i j); [congruence|reflexivity].
    - split; [reflexivity|].
      change (il (set_w (with_base s i b) k (WRun i pc')) i) with (il (with_base s i b) i).
      rewrite (il_with_base _ _ _ evs) by assumption. destruct (Nat.eq_dec i i); [exact T|contradiction]. }
  destruct pc; cbn [BatchConc.task_step]; cbn [TaskState] in TS.
  - (* PStop *)
    destruct (stopf s && stopmode).
    + apply Write. left. auto.
    + apply PcOnly. exact TS.
  - (* PCtx *)
    destruct (cancelled (base s)).
    + apply Write. left. auto.
    + apply PcOnly. cbn. rewrite TS. split; [split; reflexivity|lia].
  - (* PTop *)
    destruct TS as [Hm Hle].
    destruct (Nat.leb (budget c) k0) eqn:Hb.
    + apply Nat.leb_le in Hb. assert (k0 = NN) by (unfold budget in Hb; unfold N in *; lia). subst k0.
      destruct last as [x|e].
      * apply PcOnly. cbn. left. destruct NN eqn:HN; cbn in Hm.
        -- destruct Hm as [Hr Hx]. inv Hx. rewrite Hr. unfold ist_result. rewrite HN. reflexivity.
        -- destruct Hm as [e [_ Hx]]. discriminate.
      * destruct NN eqn:HN; cbn in Hm; [destruct Hm as [_ Hx]; discriminate|].
        destruct Hm as [e' [Hr Hx]]. inv Hx.
        destruct (u_fb c) eqn:Hf.
        -- apply PcOnly. cbn. left. rewrite Hr. unfold ist_result. rewrite HN, Nat.eqb_refl, Hf. reflexivity.
        -- apply PcOnly. cbn. rewrite Hr. rewrite HN. split; [reflexivity|]. split; [rewrite Hf; discriminate|lia].
        -- apply PcOnly. cbn. rewrite Hr. rewrite HN. split; [reflexivity|]. split; [rewrite Hf; discriminate|lia].
    + apply Nat.leb_gt in Hb. assert (Hlt : k0 < NN) by (unfold budget in Hb; unfold N; lia).
      destruct (cancelled (base s)).
      * apply PcOnly. cbn. right. split; [eapply mon_at_abortable; eauto|eauto].
      * destruct (Nat.ltb 0 k0 && Nat.ltb 0 (waitd c)); apply PcOnly; cbn; auto.
  - (* PWait *)
    destruct TS as [Hm Hlt].
    destruct (emit o (base s) (CWait nd (wait_item (item_at items i)) k0)) as [b r] eqn:E.
    apply emit_spec in E. destruct E as [cn [_ [L _]]].
    assert (Hsame : irun c nd (itm i) (il s i ++ [(CWait nd (wait_item (item_at items i)) k0, r, cn)])
                    = irun c nd (itm i) (il s i)) by (rewrite irun_snoc; reflexivity).
    assert (Hm' : mon_at i k0 last (il s i ++ [(CWait nd (wait_item (item_at items i)) k0, r, cn)])).
    { destruct k0; cbn in *; rewrite Hsame; exact Hm. }
    destruct (cancelled b).
    * eapply Emit; [exact L|]. cbn. right. split; [eapply mon_at_abortable; eauto|eauto].
    * eapply Emit; [exact L|]. cbn. auto.
  - (* PExec *)
    destruct TS as [Hm Hlt].
    unfold node_exec. rewrite Hexec.
    destruct (emit o (base s) (CExec nd (exec_arg (u_exec c) (item_at items i)))) as [b r] eqn:E.
    apply emit_spec in E. destruct E as [cn [_ [L _]]].
    set (ev := (CExec nd (exec_arg (u_exec c) (item_at items i)), r, cn)) in *.
    assert (Hstep : irun c nd (itm i) (il s i ++ [ev]) = attempt c k0 r).
    { rewrite irun_snoc. unfold istep, ev. cbn [ev_call ev_resp fst snd].
      rewrite Nat.eqb_refl. unfold itm. rewrite val_eqb_refl. cbn [andb].
      destruct k0 as [|j]; cbn [mon_at] in Hm; unfold itm in Hm.
      - destruct Hm as [-> _]. apply Nat.ltb_lt in Hlt. rewrite Hlt. reflexivity.
      - destruct Hm as [e [-> _]]. apply Nat.ltb_lt in Hlt. rewrite Hlt. reflexivity. }
    unfold attempt in Hstep.
    destruct (ret_val r) as [v|e] eqn:Er; cbn [map_inl].
    + eapply Emit; [exact L|]. cbn. left. rewrite Hstep. reflexivity.
    + eapply Emit; [exact L|]. cbn. split; [|lia]. exists e. split; [exact Hstep|reflexivity].
  - (* PFb *)
    destruct TS as [Hr [Hfb HN]].
    unfold node_fallback. destruct (u_fb c) eqn:Hf; [contradiction| |].
    + (* the default fallback passes the error on, no callback *)
      replace (with_base s i (base s)) with (with_base s i (base s)) by reflexivity.
      eapply Emit with (evs := []); [now rewrite app_nil_r|].
      cbn. left. rewrite app_nil_r, Hr. cbn. rewrite Nat.eqb_refl, Hf. reflexivity.
    + destruct (emit o (base s) (CFallback nd (item_at items i) e)) as [b rr] eqn:E.
      apply emit_spec in E. destruct E as [cn [_ [L _]]].
      eapply Emit; [exact L|]. cbn. left. rewrite irun_snoc, Hr.
      unfold istep. cbn [ev_call ev_resp fst snd]. unfold itm in *.
      rewrite !Nat.eqb_refl, val_eqb_refl, err_sim_refl, Hf. reflexivity.
  - (* PRec *)
    apply Write. destruct TS as [T|[Ta [site ->]]].
    + right; left. eauto.
    + right; right. split; [exact Ta|reflexivity].
  - (* PDone: the worker becomes idle, the item is finished *)
    destruct TS as [v [Hv Hs]].
    eapply items_task with (s := s) (k := k) (i := i) (pc := PDone) (w' := WIdle); eauto; try reflexivity;
      try (intros j _; split; reflexivity); try (exists v; split; assumption).
Qed.

Lemma bstep_items s t s' : BInv s -> ItemInv s -> bstep s t = Some s' -> ItemInv s'.
Proof.
  intros B I H. destruct t as [|k|k| |]; cbn [BatchConc.bstep] in H.
  - destruct (mpc s).
    + destruct (adding s).
      * destruct (Nat.ltb (enq s - deq s) qcap); inv H. eapply items_frame; eauto.
      * destruct (Nat.ltb (enq s) (nitems items)); inv H; eapply items_frame; eauto.
    + destruct (Nat.eqb (wgc s) 0); inv H. eapply items_frame; eauto.
    + inv H. eapply items_frame; eauto.
    + discriminate.
  - destruct (nth_error (ws s) k) as [[|i pc|]|] eqn:Hk; try discriminate.
    + (* receive item deq *)
      destruct (Nat.ltb (deq s) (enq s)) eqn:Hq; inv H. apply Nat.ltb_lt in Hq.
      pose proof (nth_error_lt _ _ _ Hk) as Hlt.
      intros j Hj. unfold il, slot_at, running. cbn [ws slots ilog deq].
      destruct (I j Hj) as [I1 [I2 I3]]. split; [|split].
      * intros Hd. apply I1. lia.
      * intros pc [k' Hr]. destruct (Nat.eq_dec k k') as [<-|Hnk].
        -- rewrite nth_error_set_nth_eq in Hr by exact Hlt. inv Hr. cbn. apply I1. lia.
        -- rewrite nth_error_set_nth_ne in Hr by exact Hnk. apply I2. exists k'. exact Hr.
      * intros Hd Hnr. destruct (Nat.eq_dec j (deq s)) as [->|Hne].
        -- exfalso. apply (Hnr PStop). exists k. apply nth_error_set_nth_eq. exact Hlt.
        -- apply I3; [lia|]. intros pc [k' Hr]. apply (Hnr pc). exists k'.
           rewrite nth_error_set_nth_ne; auto. intros <-. rewrite Hk in Hr. discriminate.
    + inv H. apply task_step_items; auto.
  - destruct (nth_error (ws s) k) as [[|i pc|]|] eqn:Hk; try discriminate.
    destruct (closed s); inv H.
    pose proof (nth_error_lt _ _ _ Hk) as Hlt.
    intros j Hj. unfold il, slot_at, running. cbn [ws slots ilog deq set_w].
    destruct (I j Hj) as [I1 [I2 I3]]. split; [exact I1|]. split.
    + intros pc [k' Hr]. destruct (Nat.eq_dec k k') as [<-|Hnk].
      * rewrite nth_error_set_nth_eq in Hr by exact Hlt. discriminate.
      * rewrite nth_error_set_nth_ne in Hr by exact Hnk. apply I2. exists k'. exact Hr.
    + intros Hd Hnr. apply I3; auto. intros pc [k' Hr]. apply (Hnr pc). exists k'.
      rewrite nth_error_set_nth_ne; auto. intros <-. rewrite Hk in Hr. discriminate.
  - inv H. eapply items_frame; eauto.
  - inv H. eapply items_frame; eauto.
Qed.

Lemma brun_both sched : forall s, BInv s -> ItemInv s -> BInv (brun s sched) /\ ItemInv (brun s sched).
Proof.
  induction sched as [|t rest IH]; intros s B I; cbn [BatchConc.brun]; auto.
  destruct (bstep s t) as [s'|] eqn:E; auto. apply IH.
  - eapply bstep_inv; eauto.
  - eapply bstep_items; eauto.
Qed.

(* ------------------------------------------------------------ the theorem for every schedule *)
(* Whatever the schedule: once the submitter is past Wait, every one of the n slots is written,
   and slot i is a value the events of item i alone determine (settled): the outcome of a
   complete, budget-exact processing of item i; or an error slot if item i was never executed
   or was cut short by the context.  A slot never depends on another item's events, and an
   item that was not processed is never presented as a success. *)
Lemma all_settled_lemma s0 sched :
  let s := brun (binit items nworkers s0) sched in
  (mpc s = MClose \/ mpc s = MRet) ->
  length (slots s) = n /\
  forall i, i < n -> exists v, slot_at s i = Some v /\ settled c nd (itm i) (il s i) v.
Proof.
  intros s Hm.
  destruct (brun_both sched _ (binit_inv items nworkers s0) (binit_items s0)) as [B I]. fold s in B, I.
  destruct (wait_is_barrier _ _ _ B Hm) as [Hd [Hc _]].
  split; [apply (I_slots _ _ _ B)|].
  intros i Hi. destruct (I i Hi) as [_ [_ I3]]. apply I3; [lia|].
  intros pc [k Hk]. apply nth_error_In in Hk.
  unfold count_run in Hc. apply length_zero_iff_nil in Hc.
  assert (Hin : In (WRun i pc) (filter is_run (ws s))) by (apply filter_In; split; auto).
  rewrite Hc in Hin. contradiction.
Qed.

Lemma running_dec_list (l : list wstate) i :
  (exists k pc, nth_error l k = Some (WRun i pc)) \/ (forall k pc, nth_error l k <> Some (WRun i pc)).
Proof.
  induction l as [|w t IH].
  - right. intros [|k] pc; discriminate.
  - destruct w as [|j pc|].
    + destruct IH as [[k [pc H]]|H]; [left; exists (S k), pc; exact H|].
      right. intros [|k] pc; cbn; [discriminate|apply H].
    + destruct (Nat.eq_dec j i) as [->|Hne].
      * left. exists 0, pc. reflexivity.
      * destruct IH as [[k [pc' H]]|H]; [left; exists (S k), pc'; exact H|].
        right. intros [|k] pc'; cbn; [intros X; inv X; contradiction|apply H].
    + destruct IH as [[k [pc H]]|H]; [left; exists (S k), pc; exact H|].
      right. intros [|k] pc; cbn; [discriminate|apply H].
Qed.

Lemma classic_running s i : (exists pc, running s i pc) \/ (forall pc, ~ running s i pc).
Proof.
  destruct (running_dec_list (ws s) i) as [[k [pc H]]|H].
  - left. exists pc, k. exact H.
  - right. intros pc [k Hk]. exact (H k pc Hk).
Qed.

(* in every reachable state: what has been done for item i so far is a prefix of a processing
   of item i (the monitor has not rejected), whatever the other items did *)
Lemma never_bad_lemma s0 sched i :
  let s := brun (binit items nworkers s0) sched in
  i < n -> 0 < NN -> irun c nd (itm i) (il s i) <> IBad.
Proof.
  intros s Hi HN.
  destruct (brun_both sched _ (binit_inv items nworkers s0) (binit_items s0)) as [B I]. fold s in B, I.
  destruct (I i Hi) as [I1 [I2 I3]].
  destruct (le_lt_dec (deq s) i) as [Hd|Hd].
  - rewrite (I1 Hd). discriminate.
  - destruct (classic_running s i) as [[pc Hr]|Hnr].
    + pose proof (I2 pc Hr) as T. destruct pc; cbn in T.
      * rewrite T. discriminate.
      * rewrite T. discriminate.
      * destruct T as [T _]. destruct k; cbn in T; [destruct T as [-> _]|destruct T as [e [-> _]]]; discriminate.
      * destruct T as [T _]. destruct k; cbn in T; [destruct T as [-> _]|destruct T as [e [-> _]]]; discriminate.
      * destruct T as [T _]. destruct k; cbn in T; [destruct T as [-> _]|destruct T as [e [-> _]]]; discriminate.
      * destruct T as [-> _]. discriminate.
      * destruct T as [T|[T _]]; intros Hb; rewrite Hb in T; discriminate.
      * destruct T as [v [_ [[-> _]|[[r [T _]]|[T _]]]]]; try discriminate; intros Hb; rewrite Hb in T; discriminate.
    + destruct (I3 Hd Hnr) as [v [_ [[-> _]|[[r [T _]]|[T _]]]]]; try discriminate;
        intros Hb; rewrite Hb in T; discriminate.
Qed.

End Items.

(* ------------------------------------------------------------ never run, never a success *)
Lemma retry_of_pos (c : ucfg) : 1 <= fst (retry_of c).
Proof. unfold retry_of. destruct (u_retry c) as [[n w]|]; cbn [fst]; [apply Nat.le_max_l|apply le_n]. Qed.

(* an item for which no callback was ever made (no exec attempt, no fallback) has an error in its
   slot: "batch stopped", or an error matching the context's - for every budget setting (a budget
   below one means one attempt), mode, number of workers and schedule *)
Lemma never_run_error_lemma (o : oracle) c nd (items : list val) stopmode nworkers qcap :
  has_exec c = true ->
  forall s0 sched,
    let s := brun o c nd items stopmode qcap (binit items nworkers s0) sched in
    (mpc s = MClose \/ mpc s = MRet) ->
    forall i, i < length items -> il s i = [] ->
      exists e, slot_at s i = Some (VRes VNil (Some e)).
Proof.
  intros Hx s0 sched s Hm i Hi Hil.
  destruct (all_settled_lemma o c nd items stopmode nworkers qcap Hx s0 sched Hm) as [_ Hall].
  destruct (Hall i Hi) as [v [Hv Hs]]. fold s in Hv, Hs. rewrite Hil in Hs.
  destruct Hs as [[_ [->| ->]]|[[r [Hr _]]|[_ Hc]]].
  - eexists. exact Hv.
  - eexists. exact Hv.
  - exfalso. cbn in Hr. pose proof (retry_of_pos c) as Hp. unfold N in Hr.
    destruct (fst (retry_of c)) eqn:E; [inversion Hp|discriminate].
  - unfold ctx_error_slot in Hc.
    destruct v as [| | | | |v' oe|]; try discriminate.
    destruct v'; try discriminate. destruct oe as [e|]; [|discriminate]. eexists. exact Hv.
Qed.
