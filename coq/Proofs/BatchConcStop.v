(* BatchConcStop.v — what happens after the stop flag is set, and after the context is cancelled,
   under EVERY continuation of EVERY schedule:
     - the flag and the cancellation are permanent;
     - stop mode: an item that had not passed its stop-flag check when the flag was set is never
       executed (its events stay empty);
     - cancellation: no item gains an exec attempt, except that an exec call already in flight
       may return (at most one per worker) — no new item, no new retry attempt. *)
From Flyt Require Import Base FlowTable Engine BatchConc EngineFacts BaseFacts BatchConcInv
     BatchConcFacts BatchConcItems.
From Coq Require Import Lia.

Lemma tid_is_cancel t : t = TCancel \/ t <> TCancel.
Proof. destruct t; [right|right|right|left|right]; try discriminate; reflexivity. Qed.

Section Stop.
Variable o : oracle.
Variable c : ucfg.
Variable nd : nid.
Variable items : list val.
Variable stopmode : bool.
Variable nworkers : nat.
Variable qcap : nat.

Notation n := (length items).
Notation bstep := (bstep o c nd items stopmode qcap).
Notation brun := (brun o c nd items stopmode qcap).
Notation task_step := (task_step o c nd items stopmode).
Notation BInv := (BInv items nworkers).

(* ------------------------------------------------------------ permanence *)
Lemma task_step_stop s k i pc : stopf s = true -> stopf (task_step s k i pc) = true.
Proof.
  intros H. destruct pc; cbn [BatchConc.task_step].
  - destruct (stopf s && stopmode); cbn; auto.
  - destruct (cancelled (base s)); cbn; auto.
  - destruct (Nat.leb (budget c) k0); [destruct last; [|destruct (u_fb c)]|
      destruct (cancelled (base s)); [|destruct (Nat.ltb 0 k0 && Nat.ltb 0 (waitd c))]]; cbn; auto.
  - destruct (emit o (base s) (CWait nd (wait_item (item_at items i)) k0)) as [b r].
    destruct (cancelled b); cbn; auto.
  - destruct (node_exec o c nd (base s) (item_at items i)) as [b [x|e]]; cbn; auto.
  - destruct (node_fallback o c nd (base s) (item_at items i) e) as [b r]. cbn; auto.
  - cbn. rewrite H. reflexivity.
  - cbn. auto.
Qed.

Lemma bstep_stop s t s' : bstep s t = Some s' -> stopf s = true -> stopf s' = true.
Proof.
  intros H Hs. destruct t as [|k|k| |]; cbn [BatchConc.bstep] in H.
  - destruct (mpc s).
    + destruct (adding s); [destruct (Nat.ltb (enq s - deq s) qcap)|destruct (Nat.ltb (enq s) (nitems items))];
        inv H; auto.
    + destruct (Nat.eqb (wgc s) 0); inv H; auto.
    + inv H; auto.
    + discriminate.
  - destruct (nth_error (ws s) k) as [[|i pc|]|]; try discriminate.
    + destruct (Nat.ltb (deq s) (enq s)); inv H; auto.
    + inv H. apply task_step_stop; auto.
  - destruct (nth_error (ws s) k) as [[|i pc|]|]; try discriminate.
    destruct (closed s); inv H; auto.
  - inv H; auto.
  - inv H; auto.
Qed.

Lemma bstep_cancelled s t s' :
  bstep s t = Some s' -> cancelled (base s) = true -> cancelled (base s') = true.
Proof.
  intros H Hc. destruct (tid_is_cancel t) as [->|Ht].
  - cbn in H. inv H. reflexivity.
  - destruct (bstep_good _ _ _ _ _ _ _ _ _ Ht H) as [E _]. eapply ext_cancelled; eauto.
Qed.

(* ------------------------------------------------------------ the frame of a task step *)
Definition il' := il.

Lemma task_step_frame s k j pc :
  nth_error (ws s) k = Some (WRun j pc) -> j < length (ilog s) ->
  let s' := task_step s k j pc in
  deq s' = deq s /\
  (forall i, i <> j -> il s' i = il s i) /\
  (exists evs, il s' j = il s j ++ evs) /\
  ((pc = PDone /\ ws s' = set_nth (ws s) k WIdle) \/
   (pc <> PDone /\ exists pc', ws s' = set_nth (ws s) k (WRun j pc'))).
Proof.
  intros Hk Hj.
  assert (WB : forall b evs i, log b = log (base s) ++ evs ->
                               il (with_base s j b) i = if Nat.eq_dec j i then il s j ++ evs else il s i).
  { intros b evs i L. apply il_with_base; assumption. }
  assert (Nil : il s j = il s j ++ []) by now rewrite app_nil_r.
  destruct pc; cbn [BatchConc.task_step].
  - destruct (stopf s && stopmode); cbn; repeat split; eauto; right; split; try discriminate; eauto.
  - destruct (cancelled (base s)); cbn; repeat split; eauto; right; split; try discriminate; eauto.
  - destruct (Nat.leb (budget c) k0); [destruct last; [|destruct (u_fb c)]|
      destruct (cancelled (base s)); [|destruct (Nat.ltb 0 k0 && Nat.ltb 0 (waitd c))]];
      cbn; repeat split; eauto; right; split; try discriminate; eauto.
  - destruct (emit o (base s) (CWait nd (wait_item (item_at items j)) k0)) as [b r] eqn:E.
    apply emit_spec in E. destruct E as [cn [_ [L _]]].
    destruct (cancelled b); (split; [reflexivity|]); (split; [intros i Hi|split]).
    all: try (change (il (set_w (with_base s j b) k _) i) with (il (with_base s j b) i);
              rewrite (WB _ _ _ L); destruct (Nat.eq_dec j i); [congruence|reflexivity]).
    all: try (eexists; change (il (set_w (with_base s j b) k ?w) j) with (il (with_base s j b) j);
              rewrite (WB _ _ _ L); destruct (Nat.eq_dec j j); [reflexivity|contradiction]).
    all: right; split; [discriminate|eexists; reflexivity].
  - destruct (node_exec o c nd (base s) (item_at items j)) as [b r] eqn:E.
    pose proof (node_exec_ext _ _ _ _ _ _ _ E) as [evs [L _]].
    destruct r as [x|e]; (split; [reflexivity|]); (split; [intros i Hi|split]).
    all: try (change (il (set_w (with_base s j b) k _) i) with (il (with_base s j b) i);
              rewrite (WB _ _ _ L); destruct (Nat.eq_dec j i); [congruence|reflexivity]).
    all: try (eexists; change (il (set_w (with_base s j b) k ?w) j) with (il (with_base s j b) j);
              rewrite (WB _ _ _ L); destruct (Nat.eq_dec j j); [reflexivity|contradiction]).
    all: right; split; [discriminate|eexists; reflexivity].
  - destruct (node_fallback o c nd (base s) (item_at items j) e) as [b r] eqn:E.
    pose proof (node_fallback_ext _ _ _ _ _ _ _ _ E) as [evs [L _]].
    split; [reflexivity|]. split; [intros i Hi|split].
    + change (il (set_w (with_base s j b) k (WRun j (PRec r))) i) with (il (with_base s j b) i).
      rewrite (WB _ _ _ L). destruct (Nat.eq_dec j i); [congruence|reflexivity].
    + eexists. change (il (set_w (with_base s j b) k (WRun j (PRec r))) j) with (il (with_base s j b) j).
      rewrite (WB _ _ _ L). destruct (Nat.eq_dec j j); [reflexivity|contradiction].
    + right. split; [discriminate|eexists; reflexivity].
  - cbn; repeat split; eauto; right; split; try discriminate; eauto.
  - cbn; repeat split; eauto.
Qed.

(* ------------------------------------------------------------ stop mode *)
(* item i has not been executed and can no longer pass the stop-flag check with the flag down *)
Definition unstarted (s : bst) (i : nat) : Prop :=
  il s i = [] /\
  (deq s <= i \/ running s i PStop \/ running s i PDone \/ (i < deq s /\ forall pc, ~ running s i pc)).

Lemma bstep_unstarted s t s' i :
  BInv s -> stopf s && stopmode = true -> unstarted s i -> bstep s t = Some s' -> unstarted s' i.
Proof.
  intros B Hss [Hil Hst] H.
  destruct t as [|k|k| |]; cbn [BatchConc.bstep] in H.
  - (* the submitter: nothing about items changes *)
    assert (Same : ws s' = ws s /\ ilog s' = ilog s /\ deq s' = deq s).
    { destruct (mpc s).
      - destruct (adding s); [destruct (Nat.ltb (enq s - deq s) qcap)|destruct (Nat.ltb (enq s) (nitems items))];
          inv H; auto.
      - destruct (Nat.eqb (wgc s) 0); inv H; auto.
      - inv H; auto.
      - discriminate. }
    destruct Same as [E1 [E2 E3]]. unfold unstarted, il, running. rewrite E1, E2, E3. split; assumption.
  - destruct (nth_error (ws s) k) as [[|j pc|]|] eqn:Hk; try discriminate.
    + (* receive *)
      destruct (Nat.ltb (deq s) (enq s)) eqn:Hq; inv H.
      pose proof (nth_error_lt _ _ _ Hk) as Hlt.
      split; [exact Hil|]. cbn [deq ws]. unfold running. cbn [ws].
      destruct Hst as [Hd|[[k' Hr]|[[k' Hr]|[Hd Hnr]]]].
      * destruct (Nat.eq_dec i (deq s)) as [->|Hne].
        -- right; left. exists k. apply nth_error_set_nth_eq. exact Hlt.
        -- left. lia.
      * right; left. exists k'. rewrite nth_error_set_nth_ne; auto. intros <-. rewrite Hk in Hr. discriminate.
      * right; right; left. exists k'. rewrite nth_error_set_nth_ne; auto. intros <-. rewrite Hk in Hr. discriminate.
      * right; right; right. split; [lia|]. intros pc [k' Hr].
        destruct (Nat.eq_dec k k') as [<-|Hnk].
        -- rewrite nth_error_set_nth_eq in Hr by exact Hlt. inv Hr. lia.
        -- rewrite nth_error_set_nth_ne in Hr by exact Hnk. apply (Hnr pc). exists k'. exact Hr.
    + (* a task step of worker k on item j *)
      inv H.
      pose proof (I_run _ _ _ B _ _ _ Hk) as Hjd.
      assert (Hjl : j < length (ilog s)).
      { rewrite (I_ilog _ _ _ B). pose proof (I_deq _ _ _ B). pose proof (I_enq _ _ _ B). lia. }
      pose proof (nth_error_lt _ _ _ Hk) as Hlt.
      destruct (task_step_frame s k j pc Hk Hjl) as [Ed [Eoth [_ Ews]]].
      destruct (Nat.eq_dec i j) as [->|Hne].
      * (* the step is on item i itself: it is at PStop or PDone *)
        assert (Hpc : pc = PStop \/ pc = PDone).
        { destruct Hst as [Hd|[[k' Hr]|[[k' Hr]|[_ Hnr]]]].
          - lia.
          - left. assert (k = k') by (eapply (I_inj _ _ _ B); eauto). subst k'. rewrite Hk in Hr. now inv Hr.
          - right. assert (k = k') by (eapply (I_inj _ _ _ B); eauto). subst k'. rewrite Hk in Hr. now inv Hr.
          - exfalso. apply (Hnr pc). exists k. exact Hk. }
        destruct Hpc as [-> | ->]; cbn [BatchConc.task_step].
        -- rewrite Hss. split; [exact Hil|].
           right; right; left. exists k. cbn [ws set_w write_slot]. apply nth_error_set_nth_eq. exact Hlt.
        -- split; [exact Hil|]. right; right; right. cbn [deq ws]. split; [exact Hjd|].
           intros pc' [k' Hr]. cbn [ws] in Hr. destruct (Nat.eq_dec k k') as [<-|Hnk].
           ++ rewrite nth_error_set_nth_eq in Hr by exact Hlt. discriminate.
           ++ rewrite nth_error_set_nth_ne in Hr by exact Hnk.
              apply Hnk. eapply (I_inj _ _ _ B); eauto.
      * (* another item's step *)
        split; [rewrite (Eoth _ Hne); exact Hil|]. rewrite Ed.
        assert (Hrun : forall pc', running (task_step s k j pc) i pc' <-> running s i pc').
        { intros pc'. unfold running.
          destruct Ews as [[_ Ew]|[_ [pcn Ew]]]; rewrite Ew; split; intros [k' Hr]; exists k'.
          - destruct (Nat.eq_dec k k') as [<-|Hnk].
            + rewrite nth_error_set_nth_eq in Hr by exact Hlt. discriminate.
            + rewrite nth_error_set_nth_ne in Hr by exact Hnk. exact Hr.
          - destruct (Nat.eq_dec k k') as [<-|Hnk].
            + rewrite Hk in Hr. inv Hr. contradiction.
            + rewrite nth_error_set_nth_ne by exact Hnk. exact Hr.
          - destruct (Nat.eq_dec k k') as [<-|Hnk].
            + rewrite nth_error_set_nth_eq in Hr by exact Hlt. inv Hr. contradiction.
            + rewrite nth_error_set_nth_ne in Hr by exact Hnk. exact Hr.
          - destruct (Nat.eq_dec k k') as [<-|Hnk].
            + rewrite Hk in Hr. inv Hr. contradiction.
            + rewrite nth_error_set_nth_ne by exact Hnk. exact Hr. }
        destruct Hst as [Hd|[Hr|[Hr|[Hd Hnr]]]].
        -- left. exact Hd.
        -- right; left. apply Hrun. exact Hr.
        -- right; right; left. apply Hrun. exact Hr.
        -- right; right; right. split; [exact Hd|]. intros pc' Hr. apply (Hnr pc'). apply Hrun. exact Hr.
  - destruct (nth_error (ws s) k) as [[|j pc|]|] eqn:Hk; try discriminate.
    destruct (closed s); [|discriminate]. inv H.
    pose proof (nth_error_lt _ _ _ Hk) as Hlt.
    split; [exact Hil|]. cbn [deq ws set_w]. unfold running. cbn [ws set_w].
    destruct Hst as [Hd|[[k' Hr]|[[k' Hr]|[Hd Hnr]]]].
    + left. exact Hd.
    + right; left. exists k'. rewrite nth_error_set_nth_ne; auto. intros <-. rewrite Hk in Hr. discriminate.
    + right; right; left. exists k'. rewrite nth_error_set_nth_ne; auto. intros <-. rewrite Hk in Hr. discriminate.
    + right; right; right. split; [exact Hd|]. intros pc [k' Hr].
      destruct (Nat.eq_dec k k') as [<-|Hnk].
      * rewrite nth_error_set_nth_eq in Hr by exact Hlt. discriminate.
      * rewrite nth_error_set_nth_ne in Hr by exact Hnk. apply (Hnr pc). exists k'. exact Hr.
  - inv H. split; assumption.
  - inv H. split; assumption.
Qed.

(* C09: once the stop flag is up, an item that has not yet passed its stop-flag check is never
   executed, whatever the rest of the schedule: its events are empty for ever.  The items that
   can still be executed are those whose task had already passed the check: they were received
   by a worker before, so there are at most (workers - 1) of them besides the failing one. *)
Lemma stop_skips_lemma sched : forall s i,
    BInv s -> stopf s && stopmode = true -> unstarted s i ->
    il (brun s sched) i = [].
Proof.
  induction sched as [|t rest IH]; intros s i B Hss Hu; cbn [BatchConc.brun].
  - apply Hu.
  - destruct (bstep s t) as [s'|] eqn:E; [|apply IH; auto].
    apply IH; auto.
    + eapply bstep_inv; eauto.
    + destruct (andb_prop _ _ Hss) as [Hsf Hm]. rewrite (bstep_stop _ _ _ E Hsf). exact Hm.
    + eapply bstep_unstarted; eauto.
Qed.

(* ------------------------------------------------------------ cancellation *)
Definition is_exec_call (e : event) : bool := match ev_call e with CExec _ _ => true | _ => false end.
Definition count_exec (l : list event) : nat := length (filter is_exec_call l).

Definition in_exec (s : bst) (i : nat) : Prop := exists k a l, nth_error (ws s) k = Some (WRun i (PExec a l)).

(* allowance: exec attempts made for item i, plus one if an exec call of item i is in flight *)
Definition allowance_le (s : bst) (i : nat) (m : nat) : Prop :=
  (in_exec s i -> S (count_exec (il s i)) <= m) /\ (count_exec (il s i) <= m).

Lemma count_exec_app a b : count_exec (a ++ b) = count_exec a + count_exec b.
Proof. unfold count_exec. rewrite filter_app, app_length. reflexivity. Qed.

Lemma bstep_allowance s t s' i m :
  BInv s -> cancelled (base s) = true -> allowance_le s i m -> bstep s t = Some s' -> allowance_le s' i m.
Proof.
  intros B Hc [A1 A2] H.
  destruct t as [|k|k| |]; cbn [BatchConc.bstep] in H.
  - assert (Same : ws s' = ws s /\ ilog s' = ilog s).
    { destruct (mpc s).
      - destruct (adding s); [destruct (Nat.ltb (enq s - deq s) qcap)|destruct (Nat.ltb (enq s) (nitems items))];
          inv H; auto.
      - destruct (Nat.eqb (wgc s) 0); inv H; auto.
      - inv H; auto.
      - discriminate. }
    destruct Same as [E1 E2]. unfold allowance_le, in_exec, il. rewrite E1, E2. split; assumption.
  - destruct (nth_error (ws s) k) as [[|j pc|]|] eqn:Hk; try discriminate.
    + destruct (Nat.ltb (deq s) (enq s)); inv H.
      pose proof (nth_error_lt _ _ _ Hk) as Hlt.
      split; [|exact A2]. intros [k' [a [l Hr]]]. cbn [ws] in Hr. apply A1.
      destruct (Nat.eq_dec k k') as [<-|Hnk].
      * rewrite nth_error_set_nth_eq in Hr by exact Hlt. discriminate.
      * rewrite nth_error_set_nth_ne in Hr by exact Hnk. exists k', a, l. exact Hr.
    + inv H.
      pose proof (I_run _ _ _ B _ _ _ Hk) as Hjd.
      assert (Hjl : j < length (ilog s)).
      { rewrite (I_ilog _ _ _ B). pose proof (I_deq _ _ _ B). pose proof (I_enq _ _ _ B). lia. }
      pose proof (nth_error_lt _ _ _ Hk) as Hlt.
      destruct (task_step_frame s k j pc Hk Hjl) as [Ed [Eoth [_ Ews]]].
      destruct (Nat.eq_dec i j) as [->|Hne].
      * (* the step is on item i itself *)
        assert (Only : forall k' pc', nth_error (ws s) k' = Some (WRun j pc') -> k' = k /\ pc' = pc).
        { intros k' pc' Hr. assert (k = k') by (eapply (I_inj _ _ _ B); eauto). subst k'.
          rewrite Hk in Hr. inv Hr. auto. }
        (* after the step, item j is in flight only if worker k is at PExec *)
        assert (After : forall s2, in_exec s2 j -> forall w, ws s2 = set_nth (ws s) k w ->
                                   exists a l, w = WRun j (PExec a l)).
        { intros s2 [k' [a [l Hr]]] w Ew. rewrite Ew in Hr. destruct (Nat.eq_dec k k') as [<-|Hnk].
          - rewrite nth_error_set_nth_eq in Hr by exact Hlt. inv Hr. eauto.
          - rewrite nth_error_set_nth_ne in Hr by exact Hnk. destruct (Only _ _ Hr) as [-> _]. contradiction. }
        clear Ed Eoth Ews. destruct pc; cbn [BatchConc.task_step].
        -- (* PStop *) destruct (stopf s && stopmode); split; try exact A2;
             intros Hin; destruct (After _ Hin _ eq_refl) as [a [l Hw]]; discriminate.
        -- rewrite Hc. split; try exact A2.
           intros Hin; destruct (After _ Hin _ eq_refl) as [a [l Hw]]; discriminate.
        -- (* PTop: cancelled, so never to PWait / PExec *)
           destruct (Nat.leb (budget c) k0); [destruct last; [|destruct (u_fb c)]|rewrite Hc];
             (split; [|exact A2]);
             intros Hin; destruct (After _ Hin _ eq_refl) as [a [l Hw]]; discriminate.
        -- (* PWait: the wait is interrupted *)
           destruct (emit o (base s) (CWait nd (wait_item (item_at items j)) k0)) as [b r] eqn:E.
           pose proof (emit_ext _ _ (CWait nd (wait_item (item_at items j)) k0) _ _ I E) as Eb.
           rewrite (ext_cancelled _ _ Eb Hc).
           apply emit_spec in E. destruct E as [cn [_ [L _]]].
           assert (Hil : il (set_w (with_base s j b) k (WRun j (PRec (inr (EWrap W_ITEM_CTX_WAIT ECtx))))) j
                         = il s j ++ [(CWait nd (wait_item (item_at items j)) k0, r, cn)]).
           { change (il (set_w (with_base s j b) k _) j) with (il (with_base s j b) j).
             rewrite (il_with_base _ _ _ _ _ Hjl L). destruct (Nat.eq_dec j j); [reflexivity|contradiction]. }
           split.
           ++ intros Hin; destruct (After _ Hin _ eq_refl) as [a [l Hw]]; discriminate.
           ++ rewrite Hil, count_exec_app. cbn. lia.
        -- (* PExec: the call in flight returns; one more event, no longer in flight *)
           assert (Hinf : in_exec s j) by (exists k, k0, last; exact Hk).
           specialize (A1 Hinf).
           destruct (node_exec o c nd (base s) (item_at items j)) as [b r] eqn:E.
           assert (Hev : exists evs, log b = log (base s) ++ evs /\ count_exec evs <= 1).
           { unfold node_exec in E. destruct (has_exec c).
             - destruct (emit o (base s) (CExec nd (exec_arg (u_exec c) (item_at items j)))) as [b' r'] eqn:E'.
               apply emit_spec in E'. destruct E' as [cn [_ [L _]]]. inv E. eexists. split; [exact L|]. cbn. lia.
             - inv E. exists []. split; [now rewrite app_nil_r|]. cbn. lia. }
           destruct Hev as [evs [L Hcnt]].
           destruct r as [x|e].
           ++ assert (Hil : il (set_w (with_base s j b) k (WRun j (PRec (inl x)))) j = il s j ++ evs).
              { change (il (set_w (with_base s j b) k _) j) with (il (with_base s j b) j).
                rewrite (il_with_base _ _ _ _ _ Hjl L). destruct (Nat.eq_dec j j); [reflexivity|contradiction]. }
              split.
              ** intros Hin; destruct (After _ Hin _ eq_refl) as [a [l Hw]]; discriminate.
              ** rewrite Hil, count_exec_app. lia.
           ++ assert (Hil : il (set_w (with_base s j b) k (WRun j (PTop (S k0) (inr e)))) j = il s j ++ evs).
              { change (il (set_w (with_base s j b) k _) j) with (il (with_base s j b) j).
                rewrite (il_with_base _ _ _ _ _ Hjl L). destruct (Nat.eq_dec j j); [reflexivity|contradiction]. }
              split.
              ** intros Hin; destruct (After _ Hin _ eq_refl) as [a [l Hw]]; discriminate.
              ** rewrite Hil, count_exec_app. lia.
        -- (* PFb *)
           destruct (node_fallback o c nd (base s) (item_at items j) e) as [b r] eqn:E.
           assert (Hev : exists evs, log b = log (base s) ++ evs /\ count_exec evs = 0).
           { unfold node_fallback in E. destruct (u_fb c).
             - inv E. exists []. split; [now rewrite app_nil_r|reflexivity].
             - inv E. exists []. split; [now rewrite app_nil_r|reflexivity].
             - destruct (emit o (base s) (CFallback nd (item_at items j) e)) as [b' r'] eqn:E'.
               apply emit_spec in E'. destruct E' as [cn [_ [L _]]]. inv E. eexists. split; [exact L|]. reflexivity. }
           destruct Hev as [evs [L Hcnt]].
           assert (Hil : il (set_w (with_base s j b) k (WRun j (PRec r))) j = il s j ++ evs).
           { change (il (set_w (with_base s j b) k _) j) with (il (with_base s j b) j).
             rewrite (il_with_base _ _ _ _ _ Hjl L). destruct (Nat.eq_dec j j); [reflexivity|contradiction]. }
           split.
           ++ intros Hin; destruct (After _ Hin _ eq_refl) as [a [l Hw]]; discriminate.
           ++ rewrite Hil, count_exec_app. lia.
        -- split; [|exact A2].
           intros Hin; destruct (After _ Hin _ eq_refl) as [a [l Hw]]; discriminate.
        -- split; [|exact A2].
           intros Hin; destruct (After _ Hin _ eq_refl) as [a [l Hw]]; discriminate.
      * (* another item's step *)
        unfold allowance_le. rewrite (Eoth _ Hne). split; [|exact A2].
        intros [k' [a [l Hr]]]. apply A1.
        destruct Ews as [[_ Ew]|[_ [pcn Ew]]]; rewrite Ew in Hr;
          (destruct (Nat.eq_dec k k') as [<-|Hnk];
           [rewrite nth_error_set_nth_eq in Hr by exact Hlt; inv Hr; try contradiction
           |rewrite nth_error_set_nth_ne in Hr by exact Hnk; exists k', a, l; exact Hr]).
  - destruct (nth_error (ws s) k) as [[|j pc|]|] eqn:Hk; try discriminate.
    destruct (closed s); inv H.
    pose proof (nth_error_lt _ _ _ Hk) as Hlt.
    split; [|exact A2]. intros [k' [a [l Hr]]]. cbn [ws set_w] in Hr. apply A1.
    destruct (Nat.eq_dec k k') as [<-|Hnk].
    + rewrite nth_error_set_nth_eq in Hr by exact Hlt. discriminate.
    + rewrite nth_error_set_nth_ne in Hr by exact Hnk. exists k', a, l. exact Hr.
  - inv H. split; assumption.
  - inv H. split; assumption.
Qed.

(* C11: once the context is cancelled, whatever the rest of the schedule, item i gains no exec
   attempt — except the one exec call of item i that was already in flight, which may return.
   So no new item is started and no new retry attempt is made; at most one committed call per
   worker completes. *)
Lemma cancel_no_new_work_lemma sched : forall s i m,
    BInv s -> cancelled (base s) = true -> allowance_le s i m ->
    count_exec (il (brun s sched) i) <= m.
Proof.
  induction sched as [|t rest IH]; intros s i m B Hc A; cbn [BatchConc.brun].
  - apply A.
  - destruct (bstep s t) as [s'|] eqn:E; [|apply IH; auto].
    apply IH.
    + eapply bstep_inv; eauto.
    + eapply bstep_cancelled; eauto.
    + eapply bstep_allowance; eauto.
Qed.

End Stop.
