(* BindProofs.v — C16, for every marshal / unmarshal function. *)
From Flyt Require Import Values Accessors Bind.

Section BP.
Variable bytes jerr : Type.
Variable marshal : gval -> bytes + jerr.
Variable unmarshal : bytes -> gtype -> gval -> gval * option jerr.
Notation bind_value := (bind_value bytes jerr marshal unmarshal).
Notation bind_result := (bind_result bytes jerr marshal unmarshal).
Notation bind_store := (bind_store bytes jerr marshal unmarshal).

(* no partial reflect operation is ever reached outside its domain *)
Lemma no_panic_lemma v d : fst (bind_value v d) <> BPanic.
Proof.
  unfold Bind.bind_value. destruct d as [|nilable|T|T cur]; cbn; try discriminate.
  destruct (gtype_eqb (type_of v) T); cbn; [discriminate|].
  destruct (marshal v) as [b|e]; cbn; [|discriminate].
  destruct (unmarshal b T cur) as [after [e|]]; cbn; discriminate.
Qed.

Lemma no_panic_result v d : fst (bind_result v d) <> BPanic.
Proof. destruct v; cbn; try discriminate; apply no_panic_lemma. Qed.
Lemma no_panic_store o d : fst (bind_store o d) <> BPanic.
Proof. destruct o; cbn; [apply no_panic_lemma|discriminate]. Qed.

(* the error cases: reported as errors, nothing written *)
Lemma errors_lemma :
  (forall d, bind_result GNil d = (BErrNilValue, EUnchanged)) /\
  (forall d, bind_store None d = (BErrMissing, EUnchanged)) /\
  (forall v, bind_value v BNilIface = (BErrNotPtr, EUnchanged)) /\
  (forall v nilable, bind_value v (BNonPtr nilable) = (BErrNotPtr, EUnchanged)) /\
  (forall v T, bind_value v (BPtrNil T) = (BErrNotPtr, EUnchanged)).
Proof. repeat split. Qed.

(* identity for a destination of the value's own type: no JSON involved *)
Lemma identity_lemma v T cur :
  type_of v = T -> bind_value v (BPtr T cur) = (BOk, ESetTo v).
Proof.
  intros <-. unfold Bind.bind_value. cbn.
  assert (H : gtype_eqb (type_of v) (type_of v) = true).
  { destruct (type_of v); cbn; auto using Nat.eqb_refl, Bool.eqb_reflx.
    - destruct k; reflexivity.
    - destruct e; cbn; auto using Nat.eqb_refl. }
  now rewrite H.
Qed.

(* any other destination: exactly the JSON round trip, including its errors *)
Lemma json_lemma v T cur :
  gtype_eqb (type_of v) T = false ->
  bind_value v (BPtr T cur) =
  match marshal v with
  | inr _ => (BErrMarshal, EUnchanged)
  | inl b => match unmarshal b T cur with
             | (after, None) => (BOk, EJson after)
             | (after, Some _) => (BErrUnmarshal, EJson after)
             end
  end.
Proof. intros H. unfold Bind.bind_value. cbn. now rewrite H. Qed.

(* the store's Bind and a result's Bind agree on every non-nil value *)
Lemma agree_lemma v d : v <> GNil -> bind_store (Some v) d = bind_result v d.
Proof. intros H. destruct v; try reflexivity. contradiction. Qed.

End BP.

(* with the reflect tests in the other order, a non-pointer struct destination panics *)
Example isnil_first_panics :
  fst (bind_value_isnil_first unit unit (fun _ => inl tt) (fun _ _ c => (c, None)) (GInt KInt 1) (BNonPtr false)) = BPanic.
Proof. reflexivity. Qed.
Example kind_first_is_an_error :
  fst (bind_value unit unit (fun _ => inl tt) (fun _ _ c => (c, None)) (GInt KInt 1) (BNonPtr false)) = BErrNotPtr.
Proof. reflexivity. Qed.

(* ------------------------------------------------------------ the predicate on the model *)
From Flyt Require Import BindCorr.

Lemma spec_C16_model_lemma sc : spec_C16 sc (model_bobs sc) = true.
Proof.
  destruct sc as [v p d mo uo].
  unfold spec_C16, model_bobs, model_result, model_store, obs_of_model, bind_result, bind_store, bind_value,
    o_marshal, o_unmarshal; cbn [bs_val bs_present bs_dest bs_marshal_ok bs_unmarshal_ok].
  destruct d as [|nilable|T|T cur]; try destruct nilable; destruct p; destruct v;
    cbn -[gtype_eqb type_of]; try reflexivity;
    match goal with
    | |- context [gtype_eqb ?a ?b] => destruct (gtype_eqb a b) eqn:E
    end; destruct mo; destruct uo; cbn -[gtype_eqb type_of]; rewrite ?E; reflexivity.
Qed.
