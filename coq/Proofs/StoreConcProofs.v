(* StoreConcProofs.v — C13 on the lock-disciplined model, for every schedule of any number of
   threads running any operation lists: writers exclude everybody (no data race on the map),
   and the completed operations taken in the order of their responses are a legal sequential
   execution of an ordinary map — the history is linearizable, and in particular Merge and
   Clear are atomic although Merge writes key by key. *)
From Flyt Require Import Store Lin StoreConc StoreProofs.
From Coq Require Import Lia Permutation.

(* ------------------------------------------------------------ lists *)
Lemma set_nth_len {A} (l : list A) i x : length (set_nth l i x) = length l.
Proof. revert i; induction l as [|h t IH]; intros [|i]; cbn; auto. Qed.
Lemma nth_set_same {A} (l : list A) i x : i < length l -> nth_error (set_nth l i x) i = Some x.
Proof. revert i; induction l as [|h t IH]; intros [|i] H; cbn in *; try lia; auto. apply IH. lia. Qed.
Lemma nth_set_other {A} (l : list A) i j x : i <> j -> nth_error (set_nth l i x) j = nth_error l j.
Proof.
  revert i j; induction l as [|h t IH]; intros [|i] [|j] H; cbn; auto; try congruence;
    try (apply IH; congruence).
Qed.
Lemma nth_lt {A} (l : list A) i x : nth_error l i = Some x -> i < length l.
Proof. intros H. apply nth_error_Some. congruence. Qed.

Lemma firstn_snoc {A} (l : list A) i x : nth_error l i = Some x -> firstn (S i) l = firstn i l ++ [x].
Proof.
  revert i; induction l as [|h t IH]; intros [|i] H; cbn in *; try discriminate.
  - inversion H; reflexivity.
  - f_equal. apply IH. exact H.
Qed.
Lemma firstn_all_none {A} (l : list A) i : nth_error l i = None -> firstn i l = l.
Proof. intros H. apply firstn_all2. apply nth_error_None. exact H. Qed.
Lemma nth_error_map_fst (m : amap) i k v : nth_error m i = Some (k, v) -> nth_error (akeys m) i = Some k.
Proof. intros H. unfold akeys. rewrite nth_error_map, H. reflexivity. Qed.
Lemma nth_error_map_none (m : amap) i : nth_error m i = None -> nth_error (akeys m) i = None.
Proof. intros H. unfold akeys. rewrite nth_error_map, H. reflexivity. Qed.

Lemma amerge_snoc m dp k v : amerge m (dp ++ [(k, v)]) = aset (amerge m dp) k v.
Proof. unfold amerge. rewrite fold_left_app. reflexivity. Qed.

Lemma replay_app l1 : forall m l2, replay m (l1 ++ l2) = replay (replay m l1) l2.
Proof. induction l1 as [|[op r] t IH]; cbn; intros; auto. Qed.
Lemma legal_seq_app l1 : forall m l2, legal_seq m (l1 ++ l2) = legal_seq m l1 && legal_seq (replay m l1) l2.
Proof. induction l1 as [|[op r] t IH]; cbn; intros; auto. rewrite IH. now rewrite andb_assoc. Qed.

Lemma read_keeps_map op m : is_write op = false -> fst (lstep m op) = m.
Proof. destruct op; cbn; intros; try discriminate; reflexivity. Qed.
Lemma write_returns_unit op m : is_write op = true -> snd (lstep m op) = LU.
Proof. destruct op; cbn; intros; try discriminate; reflexivity. Qed.

Lemma amap_eqb_refl m : amap_eqb m m = true.
Proof. induction m as [|[a b] m IH]; cbn; auto. now rewrite !Nat.eqb_refl. Qed.
Lemma keys_eqb_refl l : keys_eqb l l = true.
Proof. induction l; cbn; auto. now rewrite Nat.eqb_refl. Qed.
Lemma lret_eqb_refl r : lret_eqb r r = true.
Proof.
  destruct r; cbn; auto using Nat.eqb_refl, Bool.eqb_reflx, keys_eqb_refl, amap_eqb_refl.
  destruct o; cbn; auto using Nat.eqb_refl.
Qed.

(* ------------------------------------------------------------ the invariant *)
Definition A (s : sst) : amap := replay [] (s_done s).

(* what a thread inside its critical section has done so far, against the map m, the abstract map
   a (the completed operations replayed) and the lock *)
Definition thread_ok (m a : amap) (w : option nat) (j : nat) (th : thread) : Prop :=
  match t_st th with
  | TIdle | TWant _ => True
  | TBody op acc =>
      if is_write op then
        w = Some j /\
        match op, acc with
        | LMerge src, BMerge rest => exists dp, src = dp ++ rest /\ m = amerge a dp
        | LMerge _, _ => False
        | _, BStart => m = a
        | _, _ => False
        end
      else
        w = None /\ m = a /\
        match op, acc with
        | LKeys, BKeys i col => col = firstn i (akeys m)
        | LGetAll, BAll i col => col = firstn i m
        | LKeys, _ | LGetAll, _ => False
        | _, BStart => True
        | _, _ => False
        end
  | TUnlock op ret =>
      if is_write op then w = Some j /\ m = fst (lstep a op) /\ ret = LU
      else w = None /\ m = a /\ ret = snd (lstep a op)
  end.

Definition read_cs (th : thread) : bool :=
  match in_cs th with Some op => negb (is_write op) | None => false end.
Definition count_readers (l : list thread) : nat := length (filter read_cs l).

Record SInv (s : sst) : Prop := {
  S_threads : forall j th, nth_error (s_threads s) j = Some th ->
                           thread_ok (s_map s) (A s) (s_writer s) j th;
  S_readers : s_readers s = count_readers (s_threads s);
  S_quiet : s_writer s = None -> s_map s = A s;
  S_legal : legal_seq [] (s_done s) = true
}.

Lemma count_readers_set l j th th0 :
  nth_error l j = Some th0 ->
  count_readers (set_nth l j th) + (if read_cs th0 then 1 else 0) = count_readers l + (if read_cs th then 1 else 0).
Proof.
  unfold count_readers. revert j; induction l as [|h t IH]; intros [|j] H; cbn in *; try discriminate.
  - inversion H; subst. destruct (read_cs th), (read_cs th0); cbn; lia.
  - specialize (IH _ H). destruct (read_cs h); cbn; lia.
Qed.

Lemma sinit_inv progs : SInv (sinit progs).
Proof.
  constructor; cbn; auto.
  - intros j th H. apply nth_error_In in H. apply in_map_iff in H. destruct H as [ops [<- _]]. exact I.
  - unfold count_readers. induction progs; cbn; auto.
Qed.

(* a thread in a critical section pins the lock state *)
Lemma cs_lock m a w j th op :
  thread_ok m a w j th -> in_cs th = Some op ->
  if is_write op then w = Some j else w = None.
Proof.
  unfold thread_ok, in_cs. destruct (t_st th) as [| |op' acc|op' ret]; try discriminate;
    intros H E; inversion E; subst; destruct (is_write op); tauto.
Qed.

(* if thread j holds the write lock, nobody else is in a critical section *)
Lemma writer_alone s j :
  SInv s -> s_writer s = Some j ->
  forall i th op, i <> j -> nth_error (s_threads s) i = Some th -> in_cs th = Some op -> False.
Proof.
  intros Iv Hw i th op Hne Hi Hcs.
  pose proof (cs_lock _ _ _ _ _ _ (S_threads _ Iv _ _ Hi) Hcs) as H. rewrite Hw in H.
  destruct (is_write op); [inversion H; congruence|discriminate].
Qed.

(* with the lock free and no readers, nobody is in a critical section *)
Lemma nobody_in_cs s :
  SInv s -> s_writer s = None -> s_readers s = 0 ->
  forall i th op, nth_error (s_threads s) i = Some th -> in_cs th = Some op -> False.
Proof.
  intros Iv Hw Hr i th op Hi Hcs.
  pose proof (cs_lock _ _ _ _ _ _ (S_threads _ Iv _ _ Hi) Hcs) as H. rewrite Hw in H.
  destruct (is_write op) eqn:E; [discriminate|].
  rewrite (S_readers _ Iv) in Hr. unfold count_readers in Hr. apply length_zero_iff_nil in Hr.
  assert (Hin : In th (filter read_cs (s_threads s))).
  { apply filter_In. split; [eapply nth_error_In; eauto|]. unfold read_cs. now rewrite Hcs, E. }
  rewrite Hr in Hin. contradiction.
Qed.

Lemma thread_ok_outside m a w j th m' a' w' :
  in_cs th = None -> thread_ok m a w j th -> thread_ok m' a' w' j th.
Proof. unfold thread_ok, in_cs. destruct (t_st th); intros H _; try discriminate; exact I. Qed.

Section Proofs.
Notation sstep := (sstep true).
Notation srun := (srun true).

Lemma sstep_inv s j s' : SInv s -> sstep s j = Some s' -> SInv s'.
Proof.
  intros Iv H. unfold StoreConc.sstep in H.
  destruct (nth_error (s_threads s) j) as [th|] eqn:Hj; [|discriminate].
  pose proof (nth_lt _ _ _ Hj) as Hlt.
  pose proof (S_threads _ Iv _ _ Hj) as Hown.
  destruct (t_st th) as [| op | op acc | op ret] eqn:Hst.
  - (* invoke *)
    destruct (t_ops th) as [|op rest]; [discriminate|]. inversion H; subst; clear H.
    constructor; unfold A; cbn [s_map s_writer s_readers s_threads s_done s_hist upd]; fold (A s).
    + intros i thi Hi. destruct (Nat.eq_dec j i) as [<-|Hne].
      * rewrite nth_set_same in Hi by exact Hlt. inversion Hi; subst. exact I.
      * rewrite nth_set_other in Hi by exact Hne. apply (S_threads _ Iv). exact Hi.
    + pose proof (count_readers_set _ _ {| t_ops := rest; t_st := TWant op |} _ Hj) as Hc.
      unfold read_cs, in_cs in Hc. rewrite Hst in Hc. cbn in Hc. rewrite (S_readers _ Iv). lia.
    + apply Iv.
    + apply Iv.
  - (* acquire *)
    cbn [negb orb] in H.
    destruct (is_write op) eqn:Ew.
    + destruct (s_writer s) eqn:Hw; [discriminate|].
      destruct (Nat.eqb (s_readers s) 0) eqn:Hr; [|discriminate]. apply Nat.eqb_eq in Hr.
      inversion H; subst; clear H.
      pose proof (nobody_in_cs s Iv Hw Hr) as Hnone.
      constructor; unfold A; cbn [s_map s_writer s_readers s_threads s_done s_hist upd]; fold (A s).
      * intros i thi Hi. destruct (Nat.eq_dec j i) as [<-|Hne].
        -- rewrite nth_set_same in Hi by exact Hlt. inversion Hi; subst.
           unfold thread_ok. cbn [t_st]. rewrite Ew. split; [reflexivity|].
           pose proof (S_quiet _ Iv Hw) as Hq. fold (A s).
           destruct op; cbn in Ew; try discriminate; cbn [init_acc]; auto.
           exists []. split; [reflexivity|exact Hq].
        -- rewrite nth_set_other in Hi by exact Hne.
           apply thread_ok_outside with (m := s_map s) (a := A s) (w := s_writer s).
           ++ destruct (in_cs thi) eqn:Ec; auto. exfalso. eapply Hnone; eauto.
           ++ apply (S_threads _ Iv). exact Hi.
      * pose proof (count_readers_set _ _ {| t_ops := t_ops th; t_st := TBody op (init_acc op) |} _ Hj) as Hc.
        unfold read_cs, in_cs in Hc. rewrite Hst in Hc. cbn [t_st] in Hc. rewrite Ew in Hc. cbn in Hc.
        rewrite (S_readers _ Iv). lia.
      * discriminate.
      * apply Iv.
    + destruct (s_writer s) eqn:Hw; [discriminate|]. inversion H; subst; clear H.
      constructor; unfold A; cbn [s_map s_writer s_readers s_threads s_done s_hist upd]; fold (A s).
      * intros i thi Hi. destruct (Nat.eq_dec j i) as [<-|Hne].
        -- rewrite nth_set_same in Hi by exact Hlt. inversion Hi; subst.
           unfold thread_ok. cbn [t_st]. rewrite Ew. split; [reflexivity|].
           split; [apply (S_quiet _ Iv Hw)|].
           destruct op; cbn in Ew; try discriminate; cbn [init_acc]; auto.
        -- rewrite nth_set_other in Hi by exact Hne. rewrite <- Hw. apply (S_threads _ Iv). exact Hi.
      * pose proof (count_readers_set _ _ {| t_ops := t_ops th; t_st := TBody op (init_acc op) |} _ Hj) as Hc.
        unfold read_cs, in_cs in Hc. rewrite Hst in Hc. cbn [t_st] in Hc. rewrite Ew in Hc. cbn in Hc.
        rewrite (S_readers _ Iv). lia.
      * intros _. apply (S_quiet _ Iv Hw).
      * apply Iv.
  - (* a body step *)
    destruct (body_step (s_map s) op acc) as [m' st'] eqn:Eb. inversion H; subst; clear H.
    unfold thread_ok in Hown. rewrite Hst in Hown.
    destruct (is_write op) eqn:Ew.
    + (* a writer: alone in its critical section *)
      destruct Hown as [Hw Hacc].
      pose proof (writer_alone s j Iv Hw) as Halone.
      assert (Hst' : thread_ok m' (A s) (s_writer s) j {| t_ops := t_ops th; t_st := st' |}).
      { unfold thread_ok. cbn [t_st].
        destruct op; cbn in Ew; try discriminate; cbn [body_step] in Eb.
        - inversion Eb; subst. cbn [is_write lstep fst]. destruct acc; try contradiction. rewrite Hacc. auto.
        - inversion Eb; subst. cbn [is_write lstep fst]. destruct acc; try contradiction. rewrite Hacc. auto.
        - destruct acc as [|rest| |]; try contradiction. destruct Hacc as [dp [Hsrc Hm]].
          destruct rest as [|[k v] rest]; inversion Eb; subst.
          + cbn [is_write]. rewrite app_nil_r. auto.
          + cbn [is_write]. split; [exact Hw|]. exists (dp ++ [(k, v)]). split.
            * now rewrite <- app_assoc.
            * rewrite amerge_snoc, <- Hm. reflexivity.
        - inversion Eb; subst. cbn [is_write]. destruct acc; try contradiction. auto. }
      constructor; unfold A; cbn [s_map s_writer s_readers s_threads s_done s_hist upd]; fold (A s).
      * intros i thi Hi. destruct (Nat.eq_dec j i) as [<-|Hne].
        -- rewrite nth_set_same in Hi by exact Hlt. inversion Hi; subst. exact Hst'.
        -- rewrite nth_set_other in Hi by exact Hne.
           apply thread_ok_outside with (m := s_map s) (a := A s) (w := s_writer s).
           ++ destruct (in_cs thi) eqn:Ec; auto. exfalso. eapply (Halone i); eauto.
           ++ apply (S_threads _ Iv). exact Hi.
      * pose proof (count_readers_set _ _ {| t_ops := t_ops th; t_st := st' |} _ Hj) as Hc.
        assert (E1 : read_cs th = false) by (unfold read_cs, in_cs; rewrite Hst, Ew; reflexivity).
        assert (E2 : read_cs {| t_ops := t_ops th; t_st := st' |} = false).
        { unfold read_cs, in_cs. cbn [t_st].
          destruct op; cbn in Ew; try discriminate; cbn [body_step] in Eb.
          - inversion Eb; subst. reflexivity.
          - inversion Eb; subst. reflexivity.
          - destruct acc as [|rest| |]; try (inversion Eb; subst; reflexivity).
            destruct rest as [|[k v] rest]; inversion Eb; subst; reflexivity.
          - inversion Eb; subst. reflexivity. }
        rewrite E1, E2 in Hc. rewrite (S_readers _ Iv). lia.
      * rewrite Hw. discriminate.
      * apply Iv.
    + (* a reader: the map is not touched *)
      destruct Hown as [Hw [Hm Hacc]].
      assert (Hsame : m' = s_map s).
      { destruct op; cbn in Ew; try discriminate; cbn [body_step] in Eb.
        - inversion Eb; reflexivity.
        - inversion Eb; reflexivity.
        - inversion Eb; reflexivity.
        - destruct acc; try (inversion Eb; reflexivity).
          destruct (nth_error (s_map s) i) as [[k v]|]; inversion Eb; reflexivity.
        - destruct acc; try (inversion Eb; reflexivity).
          destruct (nth_error (s_map s) i) as [kv|]; inversion Eb; reflexivity. }
      subst m'.
      assert (Hst' : thread_ok (s_map s) (A s) (s_writer s) j {| t_ops := t_ops th; t_st := st' |}).
      { unfold thread_ok. cbn [t_st].
        destruct op; cbn in Ew; try discriminate; cbn [body_step] in Eb.
        - inversion Eb; subst. cbn [is_write]. rewrite <- Hm. auto.
        - inversion Eb; subst. cbn [is_write]. rewrite <- Hm. auto.
        - inversion Eb; subst. cbn [is_write]. rewrite <- Hm. auto.
        - destruct acc as [| |i col|]; try contradiction.
          destruct (nth_error (s_map s) i) as [[k v]|] eqn:En; inversion Eb; subst; cbn [is_write].
          + split; [exact Hw|]. split; [exact Hm|].
            rewrite (firstn_snoc _ _ _ (nth_error_map_fst _ _ _ _ En)). reflexivity.
          + split; [exact Hw|]. split; [exact Hm|].
            rewrite (firstn_all_none _ _ (nth_error_map_none _ _ En)). rewrite <- Hm. reflexivity.
        - destruct acc as [| | |i col]; try contradiction.
          destruct (nth_error (s_map s) i) as [kv|] eqn:En; inversion Eb; subst; cbn [is_write].
          + split; [exact Hw|]. split; [exact Hm|]. rewrite (firstn_snoc _ _ _ En). reflexivity.
          + split; [exact Hw|]. split; [exact Hm|]. rewrite (firstn_all_none _ _ En). rewrite <- Hm. reflexivity. }
      constructor; unfold A; cbn [s_map s_writer s_readers s_threads s_done s_hist upd]; fold (A s).
      * intros i thi Hi. destruct (Nat.eq_dec j i) as [<-|Hne].
        -- rewrite nth_set_same in Hi by exact Hlt. inversion Hi; subst. exact Hst'.
        -- rewrite nth_set_other in Hi by exact Hne. apply (S_threads _ Iv). exact Hi.
      * pose proof (count_readers_set _ _ {| t_ops := t_ops th; t_st := st' |} _ Hj) as Hc.
        assert (E1 : read_cs th = true) by (unfold read_cs, in_cs; rewrite Hst, Ew; reflexivity).
        assert (E2 : read_cs {| t_ops := t_ops th; t_st := st' |} = true).
        { unfold read_cs, in_cs. cbn [t_st].
          destruct op; cbn in Ew; try discriminate; cbn [body_step] in Eb.
          - inversion Eb; subst. reflexivity.
          - inversion Eb; subst. reflexivity.
          - inversion Eb; subst. reflexivity.
          - destruct acc; try (inversion Eb; subst; reflexivity).
            destruct (nth_error (s_map s) i) as [[k v]|]; inversion Eb; subst; reflexivity.
          - destruct acc; try (inversion Eb; subst; reflexivity).
            destruct (nth_error (s_map s) i) as [kv|]; inversion Eb; subst; reflexivity. }
        rewrite E1, E2 in Hc. rewrite (S_readers _ Iv). lia.
      * apply Iv.
      * apply Iv.
  - (* unlock and respond *)
    inversion H; subst; clear H.
    unfold thread_ok in Hown. rewrite Hst in Hown.
    destruct (is_write op) eqn:Ew.
    + destruct Hown as [Hw [Hm Hret]]. subst ret.
      pose proof (writer_alone s j Iv Hw) as Halone.
      assert (HA : replay [] (s_done s ++ [(op, LU)]) = s_map s).
      { rewrite replay_app. cbn. fold (A s). now rewrite Hm. }
      constructor; unfold A; cbn [s_map s_writer s_readers s_threads s_done s_hist upd]; fold (A s).
      * intros i thi Hi. destruct (Nat.eq_dec j i) as [<-|Hne].
        -- rewrite nth_set_same in Hi by exact Hlt. inversion Hi; subst. exact I.
        -- rewrite nth_set_other in Hi by exact Hne.
           apply thread_ok_outside with (m := s_map s) (a := A s) (w := s_writer s).
           ++ destruct (in_cs thi) eqn:Ec; auto. exfalso. eapply (Halone i); eauto.
           ++ apply (S_threads _ Iv). exact Hi.
      * pose proof (count_readers_set _ _ {| t_ops := t_ops th; t_st := TIdle |} _ Hj) as Hc.
        unfold read_cs, in_cs in Hc. rewrite Hst in Hc. cbn [t_st] in Hc. rewrite Ew in Hc. cbn in Hc.
        rewrite (S_readers _ Iv). lia.
      * intros _. now rewrite HA.
      * rewrite legal_seq_app, (S_legal _ Iv). cbn. fold (A s).
        rewrite (write_returns_unit _ _ Ew). reflexivity.
    + destruct Hown as [Hw [Hm Hret]].
      assert (HA : replay [] (s_done s ++ [(op, ret)]) = A s).
      { rewrite replay_app. cbn. fold (A s). apply read_keeps_map. exact Ew. }
      constructor; unfold A; cbn [s_map s_writer s_readers s_threads s_done s_hist upd]; fold (A s).
      * intros i thi Hi. rewrite HA. destruct (Nat.eq_dec j i) as [<-|Hne].
        -- rewrite nth_set_same in Hi by exact Hlt. inversion Hi; subst. exact I.
        -- rewrite nth_set_other in Hi by exact Hne. apply (S_threads _ Iv). exact Hi.
      * pose proof (count_readers_set _ _ {| t_ops := t_ops th; t_st := TIdle |} _ Hj) as Hc.
        unfold read_cs, in_cs in Hc. rewrite Hst in Hc. cbn [t_st] in Hc. rewrite Ew in Hc. cbn in Hc.
        rewrite (S_readers _ Iv). lia.
      * intros Hw'. rewrite HA. apply (S_quiet _ Iv Hw').
      * rewrite legal_seq_app, (S_legal _ Iv). cbn. fold (A s). rewrite Hret, lret_eqb_refl. reflexivity.
Qed.

Lemma srun_inv sched : forall s, SInv s -> SInv (srun s sched).
Proof.
  induction sched as [|j rest IH]; intros s Iv; cbn [StoreConc.srun]; auto.
  destruct (sstep s j) as [s'|] eqn:E; auto. apply IH. eapply sstep_inv; eauto.
Qed.

(* C13: linearizable.  For every thread programs and every schedule, the completed operations in
   the order of their responses are a legal sequential execution of an ordinary map. *)
Lemma linearizable_lemma progs sched : legal_seq [] (s_done (srun (sinit progs) sched)) = true.
Proof. apply (S_legal _ (srun_inv sched _ (sinit_inv progs))). Qed.

(* C13: no data race on the map.  Two threads are never inside their bodies together when one
   of them writes. *)
Lemma race_free_lemma progs sched : ~ racy (srun (sinit progs) sched).
Proof.
  pose proof (srun_inv sched _ (sinit_inv progs)) as Iv.
  intros [i [j [thi [thj [opi [opj [Hne [Hi [Hj [Ci [Cj Hw]]]]]]]]]]].
  pose proof (cs_lock _ _ _ _ _ _ (S_threads _ Iv _ _ Hi) Ci) as Li.
  pose proof (cs_lock _ _ _ _ _ _ (S_threads _ Iv _ _ Hj) Cj) as Lj.
  destruct Hw as [Hw|Hw]; rewrite Hw in *.
  - destruct (is_write opj); rewrite Li in Lj; [inversion Lj; congruence|discriminate].
  - destruct (is_write opi); rewrite Lj in Li; [inversion Li; congruence|discriminate].
Qed.

End Proofs.

(* ------------------------------------------------------------ the classic definition *)
(* the timestamped history of a run, in the sense of Spec/Lin.v, is Linearizable: the witness
   is the order of the responses *)
Definition opret (a : hop) : lop * lret := (h_op a, h_ret a).

Record HInv (a : hacc) : Prop := {
  H_pend : forall j q, pend_find (ha_pend a) j = Some q -> q < ha_pos a;
  H_out : forall x, In x (ha_out a) -> h_inv x <= h_res x /\ h_res x < ha_pos a;
  H_sorted : forall l1 x l2, ha_out a = l1 ++ x :: l2 -> forall y, In y l1 -> h_res y < h_res x
}.

Lemma hacc0_inv : HInv hacc0.
Proof.
  constructor; cbn; intros; try discriminate; try contradiction.
  destruct l1; discriminate.
Qed.

Lemma app_snoc_cases {T} (l l1 l2 : list T) x y :
  l ++ [y] = l1 ++ x :: l2 ->
  (l2 = [] /\ l = l1 /\ y = x) \/ (exists l2', l2 = l2' ++ [y] /\ l = l1 ++ x :: l2').
Proof.
  revert l1; induction l as [|h t IH]; intros [|h1 t1] E; cbn in E.
  - inversion E; subst. left; auto.
  - inversion E; subst. destruct t1; discriminate.
  - inversion E; subst. right. exists t. auto.
  - inversion E; subst. destruct (IH _ H1) as [[-> [-> ->]]|[l2' [-> ->]]]; [left|right]; auto.
    exists l2'. auto.
Qed.

Lemma hist_step_inv a e : HInv a -> HInv (hist_step a e).
Proof.
  intros Ha. destruct e as [j op|j op ret]; cbn [hist_step].
  - constructor; cbn [ha_pos ha_pend ha_out].
    + intros i q. cbn [pend_find]. destruct (Nat.eqb j i).
      * intros E; inversion E; lia.
      * intros E. pose proof (H_pend _ Ha _ _ E). lia.
    + intros x Hx. pose proof (H_out _ Ha _ Hx). lia.
    + apply (H_sorted _ Ha).
  - constructor; cbn [ha_pos ha_pend ha_out].
    + intros i q E. pose proof (H_pend _ Ha _ _ E). lia.
    + intros x Hx. apply in_app_or in Hx. destruct Hx as [Hx|[<-|[]]].
      * pose proof (H_out _ Ha _ Hx). lia.
      * cbn [h_inv h_res]. destruct (pend_find (ha_pend a) j) as [q|] eqn:E.
        -- pose proof (H_pend _ Ha _ _ E). lia.
        -- lia.
    + intros l1 x l2 E y Hy. apply app_snoc_cases in E.
      destruct E as [[-> [<- <-]]|[l2' [-> E]]].
      * cbn [h_res]. apply (H_out _ Ha _ Hy).
      * eapply (H_sorted _ Ha); eauto.
Qed.

Lemma hist_fold_inv h : forall a, HInv a -> HInv (fold_left hist_step h a).
Proof. induction h as [|e h IH]; cbn; intros; auto using hist_step_inv. Qed.

Lemma hist_of_snoc h e : hist_of (h ++ [e]) = ha_out (hist_step (fold_left hist_step h hacc0) e).
Proof. unfold hist_of. rewrite fold_left_app. reflexivity. Qed.

Lemma hist_of_inv_event h j op : map opret (hist_of (h ++ [CInv j op])) = map opret (hist_of h).
Proof. rewrite hist_of_snoc. reflexivity. Qed.
Lemma hist_of_res_event h j op ret :
  map opret (hist_of (h ++ [CRes j op ret])) = map opret (hist_of h) ++ [(op, ret)].
Proof. rewrite hist_of_snoc. cbn [hist_step ha_out]. rewrite map_app. reflexivity. Qed.

(* the completed-operation ghost is the history's operations in response order (any lock mode) *)
Lemma sstep_done ul s j s' :
  sstep ul s j = Some s' -> map opret (hist_of (s_hist s)) = s_done s ->
  map opret (hist_of (s_hist s')) = s_done s'.
Proof.
  intros H E. unfold sstep in H.
  destruct (nth_error (s_threads s) j) as [th|]; [|discriminate].
  destruct (t_st th) as [| op | op acc | op ret].
  - destruct (t_ops th); [discriminate|]. inversion H; subst; cbn [upd s_hist s_done].
    now rewrite hist_of_inv_event.
  - destruct (is_write op).
    + destruct (negb ul || _); [|discriminate]. inversion H; subst; cbn [upd s_hist s_done]. exact E.
    + destruct (negb ul || _); [|discriminate]. inversion H; subst; cbn [upd s_hist s_done]. exact E.
  - destruct (body_step (s_map s) op acc). inversion H; subst; cbn [upd s_hist s_done]. exact E.
  - inversion H; subst; cbn [upd s_hist s_done]. now rewrite hist_of_res_event, E.
Qed.
Lemma srun_done ul sched : forall s,
  map opret (hist_of (s_hist s)) = s_done s ->
  map opret (hist_of (s_hist (srun ul s sched))) = s_done (srun ul s sched).
Proof.
  induction sched as [|j rest IH]; intros s E; cbn [srun]; auto.
  destruct (sstep ul s j) as [s'|] eqn:Es; auto. apply IH. eapply sstep_done; eauto.
Qed.

Lemma legal_of_seq sq : forall m, legal_seq m (map opret sq) = true -> legal m sq.
Proof.
  induction sq as [|a sq IH]; cbn; intros m H; auto.
  apply andb_true_iff in H. destruct H as [H1 H2]. split; auto.
Qed.

Lemma sorted_before (sq : history) :
  (forall l1 x l2, sq = l1 ++ x :: l2 -> forall y, In y l1 -> h_res y < h_res x) ->
  forall a b, In a sq -> In b sq -> h_res a < h_res b -> before sq a b.
Proof.
  intros Hs a b Ha Hb Hlt.
  apply in_split in Hb. destruct Hb as [l1 [l3 ->]].
  apply in_app_or in Ha. destruct Ha as [Ha|[<-|Ha]].
  - apply in_split in Ha. destruct Ha as [k1 [k2 ->]].
    exists k1, k2, l3. now rewrite <- app_assoc.
  - lia.
  - exfalso. apply in_split in Ha. destruct Ha as [k1 [k2 ->]].
    assert (h_res b < h_res a).
    { apply (Hs (l1 ++ b :: k1) a k2).
      - rewrite <- app_assoc. reflexivity.
      - apply in_or_app. right. left. reflexivity. }
    lia.
Qed.

Lemma linearizable_classic_lemma progs sched :
  Linearizable (hist_of (s_hist (srun true (sinit progs) sched))).
Proof.
  set (s := srun true (sinit progs) sched).
  pose proof (hist_fold_inv (s_hist s) _ hacc0_inv) as Hh.
  exists (hist_of (s_hist s)). split; [apply Permutation_refl|]. split.
  - apply legal_of_seq. unfold s. rewrite srun_done by reflexivity. apply linearizable_lemma.
  - intros a b Ha Hb Hlt. apply sorted_before; auto.
    + apply (H_sorted _ Hh).
    + pose proof (H_out _ Hh _ Hb). lia.
Qed.

(* ------------------------------------------------------------ without the lock *)
(* the same system with the lock not taken: a Len answers 1 in the middle of a two-key Merge —
   no sequential execution of a map explains that — and the two bodies overlap *)
Definition demo_progs : list (list lop) := [[LMerge [(1, 1); (2, 2)]]; [LLen]].
Definition demo_sched : list nat := [0; 0; 0; 1; 1; 1; 1; 0; 0; 0].
Example unlocked_not_linearizable :
  legal_seq [] (s_done (srun false (sinit demo_progs) demo_sched)) = false.
Proof. vm_compute. reflexivity. Qed.
Example locked_same_schedule_linearizable :
  legal_seq [] (s_done (srun true (sinit demo_progs) demo_sched)) = true.
Proof. vm_compute. reflexivity. Qed.
Example unlocked_racy :
  racy (srun false (sinit demo_progs) [0; 0; 0; 1; 1]).
Proof.
  exists 0, 1. eexists. eexists. eexists. eexists.
  split; [discriminate|]. vm_compute. repeat split; eauto.
Qed.

(* ------------------------------------------------------------ one sequential specification *)
(* the map against which histories are linearized (Spec/Lin.v, lstep) is the store model of C14
   (Model/Store.v, dstep - the machine that is run side by side with the Go store): same map
   afterwards, same answer *)
Definition sop_of_lop (op : lop) : sop :=
  match op with
  | LSet k v => OSet k v | LGet k => OGet k | LHas k => OHas k | LDelete k => ODelete k
  | LLen => OLen | LKeys => OKeys | LGetAll => OGetAll | LMerge m => OMergeLit m | LClear => OClear
  end.
Definition lret_of_sret (r : sret) : lret :=
  match r with
  | RU => LU | RVal o => LVal o | RB b => LB b | RN n => LN n
  | RNewKeys _ l => LKs l | RNewMap _ m => LMap (sort_map m)
  | _ => LU
  end.
Lemma lstep_is_dstep (s : dst) (op : lop) :
  d_map (fst (dstep s (sop_of_lop op))) = fst (lstep (d_map s) op) /\
  lret_eqb (lret_of_sret (snd (dstep s (sop_of_lop op)))) (snd (lstep (d_map s) op)) = true.
Proof.
  destruct op; cbn; split; try reflexivity; auto using lret_eqb_refl.
  - destruct (aget (d_map s) k); cbn; auto using Nat.eqb_refl.
  - apply Bool.eqb_reflx.
  - apply Nat.eqb_refl.
  - apply keys_eqb_refl.
  - apply amap_eqb_refl.
Qed.
