(* C14Glue.v - short steps behind the theorems of Properties/C14.v (kept out of that file, which
   holds statements only). *)
From Flyt Require Import Store StoreCorr StoreProofs.


Lemma C14_reachable_nodup_glue :
  forall ops, NoDup (akeys (d_map (dstates dinit ops))).
Proof. intros ops. apply dstates_ok. constructor. Qed.

Lemma C14_answers_consistent_glue :
  forall m k, ahas m k = (match aget m k with Some _ => true | None => false end) /\
              length m = length (akeys m) /\ akeys m = map fst m.
Proof. intros m k. split; [reflexivity|]. split; [unfold akeys; now rewrite map_length|reflexivity]. Qed.
