(* C18Proofs.v — a successful run reports post's action, normalised; the boolean predicate
   spec_C18 holds of every observation the model produces. *)
From Flyt Require Import Base Script FlowTable Engine EngineCorr EngineFacts SpecC18 BatchConc BatchConcFacts.

Section P.
Variable o : oracle.
Variable conc_exec : ucfg -> nat -> bool -> nid -> ms -> list val -> ms * list val.
Hypothesis conc_exec_ext : forall c k st n s items s' rs,
    conc_exec c k st n s items = (s', rs) -> ext s s'.

Definition has_user_post (c : ucfg) : bool := has_post c.

Definition is_post_event (n : nid) (e : event) : Prop :=
  match ev_call e with
  | CPost m _ _ _ => m = n
  | CBPost m _ _ _ => m = n
  | _ => False
  end.

Lemma node_post_last c n s p x s' a :
  has_user_post c = true ->
  node_post o c n s p x = (s', inl a) ->
  exists ev, log s' = log s ++ [ev] /\ is_post_event n ev /\ ret_act (ev_resp ev) = inl a.
Proof.
  unfold has_user_post, node_post. intros -> H.
  step_in H; inv H; apply emit_spec in Eemit; destruct Eemit as [cn [_ [L _]]];
    eexists; split; try exact L; split; cbn; auto.
Qed.

Lemma run_user_done_post c n s s' a :
  has_user_post c = true ->
  run_user o c n s = (s', Done a) ->
  exists evs ev a0, log s' = log s ++ evs ++ [ev] /\ is_post_event n ev
                    /\ ret_act (ev_resp ev) = inl a0 /\ a = norm_act a0.
Proof.
  intros Hp. unfold run_user. destruct (cancelled s); [discriminate|].
  destruct (node_prep o c n s) as [s1 [p|e]] eqn:Ep; [|discriminate].
  apply node_prep_ext in Ep.
  destruct (cancelled s1); [discriminate|].
  destruct (retry_of c) as [N w].
  destruct (attempts o c n w N 0 s1 p (inl VNil)) as [s2 [e|r]] eqn:Ea; [discriminate|].
  apply attempts_ext in Ea.
  match goal with |- context [let '(_, _) := ?X in _] => destruct X as [s3 [x|e]] eqn:E3 end; [|discriminate].
  assert (E23 : ext s2 s3).
  { destruct r as [y|e]; [inv E3; apply ext_refl|].
    destruct (u_fb c); try (inv E3; apply ext_refl); eapply node_fallback_ext; eauto. }
  destruct (node_post o c n s3 p x) as [s4 [a0|e]] eqn:Epo; [|discriminate].
  intros H; inv H.
  destruct (node_post_last _ _ _ _ _ _ _ Hp Epo) as [ev [L [Hev Hr]]].
  assert (E03 : ext s s3) by (eapply ext_trans; [|exact E23]; eapply ext_trans; eauto).
  destruct E03 as [evs [Hl _]].
  exists evs, ev, a0. rewrite L, Hl, app_assoc. auto.
Qed.

Lemma bnode_post_last c n s i r s' a :
  u_post c = FBatch ->
  bnode_post o c n s i r = (s', inl a) ->
  exists ev, log s' = log s ++ [ev] /\ is_post_event n ev /\ ret_act (ev_resp ev) = inl a.
Proof.
  unfold bnode_post. intros ->. intros H.
  step_in H; inv H; apply emit_spec in Eemit; destruct Eemit as [cn [_ [L _]]].
  eexists; split; try exact L; split; cbn; auto.
Qed.

Lemma run_batch_done_post c conc stop n s s' a :
  u_post c = FBatch ->
  run_batch o conc_exec c conc stop n s = (s', Done a) ->
  exists evs ev a0, log s' = log s ++ evs ++ [ev] /\ is_post_event n ev
                    /\ ret_act (ev_resp ev) = inl a0 /\ a = norm_act a0.
Proof.
  intros Hp. unfold run_batch.
  destruct (node_prep o c n s) as [s1 [pv|e]] eqn:Ep; [|discriminate].
  apply node_prep_ext in Ep.
  destruct (normalise pv) as [|it rest].
  - destruct (bnode_post o c n s1 [] []) as [s2 [a0|e]] eqn:Epo; [|discriminate].
    intros H; inv H.
    destruct (bnode_post_last _ _ _ _ _ _ _ Hp Epo) as [ev [L [Hev Hr]]].
    destruct Ep as [evs [Hl _]].
    exists evs, ev, a0. rewrite L, Hl, app_assoc. auto.
  - match goal with |- context [let '(_, _) := ?X in _] => destruct X as [s2 results] eqn:E2 end.
    assert (E12 : ext s1 s2).
    { destruct (Nat.ltb 0 conc); [eapply conc_exec_ext; eauto | eapply seq_items_ext; eauto]. }
    destruct (bnode_post o c n s2 (it :: rest) results) as [s3 [a0|e]] eqn:Epo; [|discriminate].
    intros H; inv H.
    destruct (bnode_post_last _ _ _ _ _ _ _ Hp Epo) as [ev [L [Hev Hr]]].
    assert (E02 : ext s s2) by (eapply ext_trans; eauto).
    destruct E02 as [evs [Hl _]].
    exists evs, ev, a0. rewrite L, Hl, app_assoc. auto.
Qed.

End P.

(* ------------------------------------------------------------ the boolean spec on the model *)

Lemma skipn_app_exact {A} (l r : list A) : skipn (length l) (l ++ r) = r.
Proof. induction l; cbn; auto. Qed.

Lemma visible_app a b : visible (a ++ b) = visible a ++ visible b.
Proof. unfold visible. apply filter_app. Qed.

Lemma last_post_act_snoc n tr ev a0 :
  is_post_event n ev -> ret_act (ev_resp ev) = inl a0 ->
  last_post_act (tr ++ [ev]) = Some a0.
Proof.
  intros Hev Hr. unfold is_post_event in Hev.
  destruct ev as [[c r] cn]. cbn in *.
  destruct c; try contradiction; cbn; unfold last_post_act; rewrite rev_app_distr; cbn;
    now rewrite Hr.
Qed.

Lemma spec_C18_model_run sc s s' oc :
  model_run sc s = Some (s', oc) ->
  spec_C18_run (root_has_post sc) (skipn (length (log s)) (log s')) (pair_of_outcome oc) = true.
Proof.
  unfold model_run. intros H.
  destruct oc as [a|e]; cbn [pair_of_outcome spec_C18_run]; [|apply Nat.eqb_refl].
  destruct (run_done_norm _ _ _ _ _ _ _ _ H) as [a1 Ha1].
  assert (Hne : Nat.eqb a A_EMPTY = false).
  { apply Nat.eqb_neq. rewrite Ha1. apply norm_act_nonempty. }
  rewrite Hne. cbn [negb andb].
  destruct (root_has_post sc) eqn:Hrp; [|reflexivity].
  unfold root_has_post in Hrp.
  destruct FUEL as [|f] eqn:HF; [discriminate|]. cbn [run] in H.
  destruct (table_of (es_nodes sc) (es_root sc)) as [[c|start conns|c conc stop]|]; try discriminate.
  - inv H. match goal with H : run_user _ _ _ _ = _ |- _ =>
      apply run_user_done_post in H; [|exact Hrp] end.
    destruct H1 as [evs [ev [a0 [L [Hev [Hr Ha]]]]]].
    rewrite L, skipn_app_exact, (last_post_act_snoc _ _ _ _ Hev Hr).
    rewrite Ha. unfold norm_act. apply Nat.eqb_refl.
  - inv H. match goal with H : run_batch _ _ _ _ _ _ _ = _ |- _ =>
      apply run_batch_done_post in H;
        [|apply (gated_exec_ext _ _)|destruct (u_post c); auto; discriminate] end.
    destruct H1 as [evs [ev [a0 [L [Hev [Hr Ha]]]]]].
    rewrite L, skipn_app_exact, (last_post_act_snoc _ _ _ _ Hev Hr).
    rewrite Ha. unfold norm_act. apply Nat.eqb_refl.
Qed.

Lemma spec_C18_model_runs sc : forall k s,
    Forall (fun m => match erun_of_model m with
                     | Some (tr, oc, fl) => spec_C18_run (root_has_post sc) tr oc = true
                     | None => True
                     end) (model_runs sc k s).
Proof.
  induction k as [|k IH]; intros s; cbn [model_runs]; [constructor|].
  destruct (model_run sc s) as [[s' oc]|] eqn:E.
  - constructor; [|apply IH]. cbn. eapply spec_C18_model_run; eauto.
  - constructor; [exact I|constructor].
Qed.

(* ------------------------------------------------------------ statements used by Properties/C18.v *)
Lemma C18_nonempty_lemma :
  forall (o : oracle) conc_exec (tbl : table) fuel s n s' a,
    run o conc_exec tbl fuel s n = Some (s', Done a) ->
    a <> A_EMPTY /\ exists a0, a = norm_act a0.
Proof.
  intros. destruct (run_done_norm _ _ _ _ _ _ _ _ H) as [a0 Ha]. split; [|eauto].
  rewrite Ha. apply norm_act_nonempty.
Qed.

Lemma C18_post_action_lemma :
  forall (o : oracle) conc_exec (tbl : table) fuel s n s' a,
    (forall c k st n s items s' rs, conc_exec c k st n s items = (s', rs) -> ext s s') ->
    (match tbl n with
     | Some (NUser c) => has_user_post c = true
     | Some (NBatch c _ _) => u_post c = FBatch
     | _ => False
     end) ->
    run o conc_exec tbl fuel s n = Some (s', Done a) ->
    exists evs ev a0, log s' = log s ++ evs ++ [ev] /\ is_post_event n ev /\
                      ret_act (ev_resp ev) = inl a0 /\
                      a = (if Nat.eqb a0 A_EMPTY then A_DEFAULT else a0).
Proof.
  intros o ce tbl fuel s n s' a Hce Hk H. destruct fuel as [|f]; [discriminate|]. cbn [run] in H.
  destruct (tbl n) as [[c|st cs|c conc stop]|]; try contradiction.
  - inv H. eapply run_user_done_post; eauto.
  - inv H. eapply run_batch_done_post; eauto.
Qed.

Lemma C18_default_edge_lemma :
  forall runf tm g s cur s1 nxt,
    cancelled s = false ->
    runf s cur = Some (s1, Done (norm_act A_EMPTY)) ->
    lookup2 tm cur A_DEFAULT = Some (Some nxt) ->
    flow_loop runf tm (S g) s cur = flow_loop runf tm g s1 nxt.
Proof.
  intros runf tm g s cur s1 nxt Hc Hr Hl. cbn [flow_loop]. rewrite Hc, Hr.
  change (norm_act A_EMPTY) with A_DEFAULT. now rewrite Hl.
Qed.

Lemma C18_spec_model_lemma :
  forall sc : escen,
    Forall (fun m => match erun_of_model m with
                     | Some (tr, oc, fl) => spec_C18_run (root_has_post sc) tr oc = true
                     | None => True      (* out of fuel: no observation *)
                     end) (model_obs sc).
Proof. intros sc. apply spec_C18_model_runs. Qed.
