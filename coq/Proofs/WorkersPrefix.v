(* WorkersPrefix.v — stop mode on a pool of ANY number of workers, under EVERY schedule:

     if an item y was executed (a callback was made for it), then at most workers - 1 items before
     y are anything else than processed to the end with SUCCESS.

   Why: when y passes its stop-flag check the flag is down, so every item that was finished by
   then succeeded; all items before y have been received (the queue is FIFO); the ones not
   finished are held by workers other than y's: at most workers - 1.  So an item before y that
   was skipped, and the item whose failure raised the stop flag if it is before y, are among
   those workers - 1 items.  With TWO workers (the free-running stress of C09,
   Corr/BatchStressCorr.v): if y was executed and an earlier item m was skipped, every OTHER item
   before y succeeded - the failing item is not before y.

   The context is assumed not cancelled (a cancelled context produces error slots without
   raising the flag). *)
From Flyt Require Import Base FlowTable Engine BatchConc EngineFacts BaseFacts ItemMon BatchConcInv
     BatchConcFacts BatchConcItems BatchConcStop.
From Coq Require Import Lia.

Section Prefix.
Variable o : oracle.
Variable c : ucfg.
Variable nd : nid.
Variable items : list val.
Variable nworkers : nat.
Variable qcap : nat.
Hypothesis Hexec : has_exec c = true.

Notation n := (length items).
Notation bstep := (bstep o c nd items true qcap).
Notation brun := (brun o c nd items true qcap).
Notation task_step := (task_step o c nd items true).
Notation BInv := (BInv items nworkers).
Notation ItemInv := (ItemInv c nd items).
Notation il := BatchConcItems.il.
Notation itm := (BatchConcItems.itm items).

Definition fin (s : bst) (i : nat) : Prop := i < deq s /\ forall pc, ~ running s i pc.
Definition succ (i : nat) (l : list event) : Prop :=
  exists x, ist_result c (irun c nd (itm i) l) = Some (inl x).
Definition okI (s : bst) (i : nat) : Prop := fin s i /\ succ i (il s i).

Definition passed (s : bst) (y : nat) : Prop :=
  il s y <> [] \/ exists pc, running s y pc /\ pc <> PStop /\ pc <> PDone.

(* while the flag is down (and the context alive) everything recorded so far is a success *)
Definition G (s : bst) : Prop :=
  stopf s = false -> cancelled (base s) = false ->
  forall i, (running s i PDone \/ fin s i) -> succ i (il s i).

(* before an item that passed its check at most one item is not (yet) a finished success *)
Definition Q (s : bst) : Prop :=
  cancelled (base s) = false ->
  forall y, passed s y ->
  exists l, length l <= nworkers - 1 /\ forall i, i < y -> ~ okI s i -> In i l.

(* the items held by the workers other than worker k *)
Definition item_of (w : wstate) : list nat := match w with WRun i _ => [i] | _ => [] end.
Fixpoint others (l : list wstate) (k : nat) : list nat :=
  match l with
  | [] => []
  | w :: t => match k with 0 => flat_map item_of t | S k' => item_of w ++ others t k' end
  end.

Lemma items_length t : length (flat_map item_of t) <= length t.
Proof. induction t as [|w t IH]; cbn; [lia|]. rewrite app_length. destruct w; cbn; lia. Qed.

Lemma others_length : forall l k, k < length l -> length (others l k) <= length l - 1.
Proof.
  induction l as [|w t IH]; intros k Hk; cbn in *; [lia|].
  destruct k as [|k]; [pose proof (items_length t); lia|].
  rewrite app_length. specialize (IH k ltac:(lia)). destruct w; cbn; lia.
Qed.

Lemma in_items t : forall k i pc, nth_error t k = Some (WRun i pc) -> In i (flat_map item_of t).
Proof.
  induction t as [|w t IH]; intros [|k] i pc H; cbn in *; try discriminate.
  - inv H. cbn. auto.
  - apply in_or_app. right. eapply IH; eauto.
Qed.

Lemma in_others : forall l k k1 i pc,
    nth_error l k1 = Some (WRun i pc) -> k1 <> k -> In i (others l k).
Proof.
  induction l as [|w t IH]; intros k k1 i pc H Hne; [destruct k1; discriminate|].
  destruct k as [|k], k1 as [|k1]; cbn in *.
  - contradiction.
  - eapply in_items; eauto.
  - inv H. cbn. auto.
  - apply in_or_app. right. eapply IH; eauto.
Qed.

(* ------------------------------------------------------------ the three kinds of step *)
Definition neutral (s s' : bst) : Prop :=
  (forall i pc, running s' i pc <-> running s i pc) /\ ilog s' = ilog s /\ deq s' = deq s /\
  stopf s' = stopf s /\ (cancelled (base s') = false -> cancelled (base s) = false).

Definition receive (s s' : bst) : Prop :=
  exists k, nth_error (ws s) k = Some WIdle /\ ws s' = set_nth (ws s) k (WRun (deq s) PStop) /\
            deq s' = S (deq s) /\ ilog s' = ilog s /\ stopf s' = stopf s /\ base s' = base s.

Lemma running_same_ws s s' : ws s' = ws s -> forall i pc, running s' i pc <-> running s i pc.
Proof. intros E i pc. unfold running. rewrite E. tauto. Qed.

Lemma step_kinds s t s' :
  bstep s t = Some s' ->
  neutral s s' \/ receive s s' \/
  exists k j pc, nth_error (ws s) k = Some (WRun j pc) /\ s' = task_step s k j pc.
Proof.
  intros H. destruct t as [|k|k| |]; cbn [BatchConc.bstep] in H.
  - left. destruct (mpc s).
    + destruct (adding s); [destruct (Nat.ltb (enq s - deq s) qcap)|destruct (Nat.ltb (enq s) (nitems items))];
        inv H; (split; [apply running_same_ws; reflexivity|cbn; repeat split; auto; try discriminate]).
    + destruct (Nat.eqb (wgc s) 0); inv H. split; [apply running_same_ws; reflexivity|cbn; repeat split; auto; try discriminate].
    + inv H. split; [apply running_same_ws; reflexivity|cbn; repeat split; auto; try discriminate].
    + discriminate.
  - destruct (nth_error (ws s) k) as [[|i pc|]|] eqn:E; try discriminate.
    + destruct (Nat.ltb (deq s) (enq s)); inv H. right. left. exists k. cbn. auto 10.
    + inv H. right. right. exists k, i, pc. auto.
  - destruct (nth_error (ws s) k) as [[|i pc|]|] eqn:E; try discriminate.
    destruct (closed s); inv H. left. split; [|cbn; repeat split; auto; try discriminate].
    intros i pc. unfold running. cbn [ws set_w]. split; intros [k' H]; exists k'.
    + destruct (Nat.eq_dec k k') as [<-|Hne].
      * rewrite nth_error_set_nth_eq in H by (eapply nth_error_lt; eauto). discriminate.
      * rewrite nth_error_set_nth_ne in H by exact Hne. exact H.
    + destruct (Nat.eq_dec k k') as [<-|Hne].
      * rewrite E in H. discriminate.
      * rewrite nth_error_set_nth_ne by exact Hne. exact H.
  - inv H. left. split; [apply running_same_ws; reflexivity|cbn; repeat split; auto; try discriminate].
  - inv H. left. split; [apply running_same_ws; reflexivity|cbn; repeat split; auto; try discriminate].
Qed.

(* what a task step does to the worker's slot, the flag and the item's events *)
Definition next_ok (s : bst) (j : nat) (pc : tpc) (w : wstate) (s' : bst) : Prop :=
  match pc with
  | PStop => w = (if stopf s then WRun j PDone else WRun j PCtx) /\ stopf s' = stopf s /\ il s' j = il s j
  | PCtx => w = (if cancelled (base s) then WRun j PDone else WRun j (PTop 0 (inl VNil))) /\
            stopf s' = stopf s /\ il s' j = il s j
  | PRec r => w = WRun j PDone /\ stopf s' = (stopf s || is_err_result r) /\ il s' j = il s j
  | PDone => w = WIdle /\ stopf s' = stopf s /\ il s' j = il s j
  | PTop _ _ => (exists pc', w = WRun j pc' /\ pc' <> PStop /\ pc' <> PDone) /\ stopf s' = stopf s /\ il s' j = il s j
  | _ => (exists pc', w = WRun j pc' /\ pc' <> PStop /\ pc' <> PDone) /\ stopf s' = stopf s
  end.

Lemma task_summary s k j pc :
  nth_error (ws s) k = Some (WRun j pc) -> j < length (ilog s) ->
  let s' := task_step s k j pc in
  deq s' = deq s /\ (forall i, i <> j -> il s' i = il s i) /\
  (cancelled (base s') = false -> cancelled (base s) = false) /\
  exists w, ws s' = set_nth (ws s) k w /\ next_ok s j pc w s'.
Proof.
  intros Hk Hj s'.
  destruct (task_step_frame o c nd items true s k j pc Hk Hj) as [Hd [Hoth _]].
  fold s' in Hd, Hoth. split; [exact Hd|]. split; [exact Hoth|]. split.
  { intros Hc. eapply ext_not_cancelled; [|exact Hc]. apply (task_step_good o c nd items true s k j pc). }
  subst s'. destruct pc; cbn [BatchConc.task_step next_ok].
  - rewrite Bool.andb_true_r. destruct (stopf s) eqn:Hf; eexists; cbn; rewrite ?Hf; (split; [reflexivity|repeat split; try reflexivity; auto]).
  - destruct (cancelled (base s)) eqn:Hcc; eexists; cbn; rewrite ?Hcc; (split; [reflexivity|repeat split; try reflexivity; auto]).
  - destruct (Nat.leb (budget c) k0); [destruct last; [|destruct (u_fb c)]|
      destruct (cancelled (base s)); [|destruct (Nat.ltb 0 k0 && Nat.ltb 0 (waitd c))]];
      eexists; cbn; (split; [reflexivity|]); (split; [eexists; split; [reflexivity|split; discriminate]|repeat split; try reflexivity; auto]).
  - destruct (emit o (base s) (CWait nd (wait_item (item_at items j)) k0)) as [b r].
    destruct (cancelled b); eexists; cbn; (split; [reflexivity|]);
      (split; [eexists; split; [reflexivity|split; discriminate]|repeat split; try reflexivity; auto]).
  - destruct (node_exec o c nd (base s) (item_at items j)) as [b [x|e]];
      eexists; cbn; (split; [reflexivity|]); (split; [eexists; split; [reflexivity|split; discriminate]|repeat split; try reflexivity; auto]).
  - destruct (node_fallback o c nd (base s) (item_at items j) e) as [b r].
    eexists; cbn; (split; [reflexivity|]); (split; [eexists; split; [reflexivity|split; discriminate]|repeat split; try reflexivity; auto]).
  - eexists; cbn; (split; [reflexivity|]). rewrite Bool.andb_true_r. repeat split; reflexivity.
  - eexists; cbn; (split; [reflexivity|repeat split; try reflexivity; auto]).
Qed.

(* running after worker k's slot was replaced *)
Lemma running_after s s' k j pc w :
  BInv s -> nth_error (ws s) k = Some (WRun j pc) -> ws s' = set_nth (ws s) k w ->
  forall i pc', running s' i pc' <-> (w = WRun i pc' \/ (i <> j /\ running s i pc')).
Proof.
  intros B Hk Ew i pc'. pose proof (nth_error_lt _ _ _ Hk) as Hlt. unfold running. rewrite Ew. split.
  - intros [k' H]. destruct (Nat.eq_dec k k') as [<-|Hne].
    + rewrite nth_error_set_nth_eq in H by exact Hlt. inv H. auto.
    + rewrite nth_error_set_nth_ne in H by exact Hne. right. split; [|exists k'; exact H].
      intros ->. apply Hne. eapply (I_inj _ _ _ B); eauto.
  - intros [->|[Hne [k' H]]].
    + exists k. apply nth_error_set_nth_eq. exact Hlt.
    + exists k'. rewrite nth_error_set_nth_ne; [exact H|]. intros <-. rewrite Hk in H. inv H. contradiction.
Qed.

Lemma il_same s s' i : ilog s' = ilog s -> il s' i = il s i.
Proof. intros E. unfold il. rewrite E. reflexivity. Qed.

(* ------------------------------------------------------------ a finished success stays one *)
Lemma okI_stable s t s' i : BInv s -> bstep s t = Some s' -> okI s i -> okI s' i.
Proof.
  intros B H [[Hd Hnr] Hs]. destruct (step_kinds _ _ _ H) as [N|[R|T]].
  - destruct N as [Hr [Ei [Ed _]]]. split; [split|].
    + rewrite Ed. exact Hd.
    + intros pc Hp. apply (Hnr pc). apply Hr. exact Hp.
    + rewrite (il_same _ _ _ Ei). exact Hs.
  - destruct R as [k [Hk [Ew [Ed [Ei _]]]]]. split; [split|].
    + rewrite Ed. lia.
    + intros pc [k' Hp]. rewrite Ew in Hp. destruct (Nat.eq_dec k k') as [<-|Hne].
      * rewrite nth_error_set_nth_eq in Hp by (eapply nth_error_lt; eauto). inv Hp. lia.
      * rewrite nth_error_set_nth_ne in Hp by exact Hne. apply (Hnr pc). exists k'. exact Hp.
    + rewrite (il_same _ _ _ Ei). exact Hs.
  - destruct T as [k [j [pc [Hk ->]]]].
    assert (Hj : j < length (ilog s)).
    { rewrite (I_ilog _ _ _ B). pose proof (I_run _ _ _ B _ _ _ Hk). pose proof (I_deq _ _ _ B).
      pose proof (I_enq _ _ _ B). lia. }
    destruct (task_summary s k j pc Hk Hj) as [Ed [Hoth [_ [w [Ew _]]]]].
    assert (Hne : i <> j). { intros ->. apply (Hnr pc). exists k. exact Hk. }
    split; [split|].
    + rewrite Ed. exact Hd.
    + intros pc' Hp. apply (running_after _ _ _ _ _ _ B Hk Ew) in Hp. destruct Hp as [->|[_ Hp]].
      * (* w = WRun i pc' with i <> j is impossible: the summary says w is about j or idle *)
        exfalso. destruct (task_summary s k j pc Hk Hj) as [_ [_ [_ [w' [Ew' Hn]]]]].
        rewrite Ew in Ew'.
        assert (w' = WRun i pc').
        { pose proof (nth_error_lt _ _ _ Hk) as Hlt.
          pose proof (nth_error_set_nth_eq (ws s) k (WRun i pc') Hlt) as E1.
          rewrite Ew' in E1. rewrite nth_error_set_nth_eq in E1 by exact Hlt. inv E1. reflexivity. }
        subst w'. destruct pc; cbn [next_ok] in Hn.
        all: try (destruct Hn as [[pc'' [Hw _]] _]; inv Hw; contradiction).
        { destruct Hn as [Hw _]. destruct (stopf s); inv Hw; contradiction. }
        { destruct Hn as [Hw _]. destruct (cancelled (base s)); inv Hw; contradiction. }
        { destruct Hn as [Hw _]. inv Hw; contradiction. }
        { destruct Hn as [Hw _]. discriminate. }
      * exact (Hnr pc' Hp).
    + rewrite (Hoth _ Hne). exact Hs.
Qed.

Lemma succ_nil i : ~ succ i [].
Proof.
  intros [x H]. cbn in H. pose proof (retry_of_pos c) as P. unfold N in H.
  destruct (Nat.eqb (fst (retry_of c)) 0) eqn:E; [|discriminate].
  apply Nat.eqb_eq in E. lia.
Qed.

(* ------------------------------------------------------------ the invariants *)
Lemma stop_back s t s' : bstep s t = Some s' -> stopf s' = false -> stopf s = false.
Proof.
  intros H Hs. destruct (stopf s) eqn:E; auto.
  rewrite (bstep_stop o c nd items true qcap _ _ _ H E) in Hs. discriminate.
Qed.

Lemma cancel_back s t s' : bstep s t = Some s' -> cancelled (base s') = false -> cancelled (base s) = false.
Proof.
  intros H Hs. destruct (cancelled (base s)) eqn:E; auto.
  rewrite (bstep_cancelled o c nd items true qcap _ _ _ H E) in Hs. discriminate.
Qed.

Lemma running_lt s i pc : BInv s -> running s i pc -> i < deq s /\ i < n.
Proof.
  intros B [k Hk]. pose proof (I_run _ _ _ B _ _ _ Hk). pose proof (I_deq _ _ _ B).
  pose proof (I_enq _ _ _ B). lia.
Qed.

Lemma G_step s t s' : BInv s -> ItemInv s -> G s -> bstep s t = Some s' -> G s'.
Proof.
  intros B I Gs H Hf' Hc' i Hi.
  pose proof (stop_back _ _ _ H Hf') as Hf. pose proof (cancel_back _ _ _ H Hc') as Hc.
  specialize (Gs Hf Hc).
  destruct (step_kinds _ _ _ H) as [N|[R|T]].
  - destruct N as [Hr [Ei [Ed _]]]. rewrite (il_same _ _ _ Ei). apply Gs.
    destruct Hi as [Hi|[Hd Hnr]]; [left; apply Hr; exact Hi|right].
    split; [rewrite <- Ed; exact Hd|]. intros pc Hp. apply (Hnr pc). apply Hr. exact Hp.
  - destruct R as [k [Hk [Ew [Ed [Ei _]]]]]. rewrite (il_same _ _ _ Ei). apply Gs.
    pose proof (nth_error_lt _ _ _ Hk) as Hlt.
    destruct Hi as [[k' Hp]|[Hd Hnr]].
    + left. rewrite Ew in Hp. destruct (Nat.eq_dec k k') as [<-|Hne].
      * rewrite nth_error_set_nth_eq in Hp by exact Hlt. discriminate.
      * rewrite nth_error_set_nth_ne in Hp by exact Hne. exists k'. exact Hp.
    + right. assert (i <> deq s).
      { intros ->. apply (Hnr PStop). exists k. rewrite Ew. apply nth_error_set_nth_eq. exact Hlt. }
      split; [rewrite Ed in Hd; lia|].
      intros pc [k' Hp]. apply (Hnr pc). exists k'. rewrite Ew.
      rewrite nth_error_set_nth_ne; [exact Hp|]. intros <-. rewrite Hk in Hp. discriminate.
  - destruct T as [k [j [pc [Hk ->]]]].
    destruct (running_lt s j pc B (ex_intro _ k Hk)) as [Hjd Hjn].
    assert (Hj : j < length (ilog s)) by (rewrite (I_ilog _ _ _ B); exact Hjn).
    destruct (task_summary s k j pc Hk Hj) as [Ed [Hoth [_ [w [Ew Hn]]]]].
    pose proof (running_after _ _ _ _ _ _ B Hk Ew) as RA.
    destruct (Nat.eq_dec i j) as [->|Hne].
    + (* the item of this step *)
      destruct Hi as [Hp|[_ Hnr]].
      * apply RA in Hp. destruct Hp as [Hw|[Hx _]]; [|contradiction].
        destruct pc; cbn [next_ok] in Hn.
        all: try (destruct Hn as [[pc'' [Hw' [_ Hnd]]] _]; rewrite Hw in Hw'; inv Hw'; contradiction).
        { destruct Hn as [Hw' _]. rewrite Hf in Hw'. rewrite Hw in Hw'. discriminate. }
        { destruct Hn as [Hw' _]. rewrite Hc in Hw'. rewrite Hw in Hw'. discriminate. }
        { destruct Hn as [_ [Hsf Hil]]. rewrite Hil. rewrite Hf' in Hsf. rewrite Hf in Hsf. cbn in Hsf.
          destruct r as [x|e]; [|discriminate].
          destruct (I j Hjn) as [_ [I2 _]]. specialize (I2 _ (ex_intro _ k Hk)). cbn in I2.
          destruct I2 as [Hr|[_ [site Hs]]]; [exists x; exact Hr|discriminate]. }
        { destruct Hn as [Hw' _]. rewrite Hw in Hw'. discriminate. }
      * (* finished now: it was at PDone *)
        destruct pc; cbn [next_ok] in Hn.
        all: try (destruct Hn as [[pc'' [Hw' _]] _]; exfalso; apply (Hnr pc''); apply RA; left; exact Hw').
        { exfalso. destruct Hn as [Hw' _]. destruct (stopf s); [apply (Hnr PDone)|apply (Hnr PCtx)]; apply RA; left; exact Hw'. }
        { exfalso. destruct Hn as [Hw' _].
          destruct (cancelled (base s)); [apply (Hnr PDone)|apply (Hnr (PTop 0 (inl VNil)))]; apply RA; left; exact Hw'. }
        { exfalso. destruct Hn as [Hw' _]. apply (Hnr PDone); apply RA; left; exact Hw'. }
        { destruct Hn as [_ [_ Hil]]. rewrite Hil. apply Gs. left. exists k. exact Hk. }
    + rewrite (Hoth _ Hne). apply Gs. destruct Hi as [Hp|[Hd Hnr]].
      * left. apply RA in Hp. destruct Hp as [Hw|[_ Hp]]; [|exact Hp].
        exfalso. (* w is about j or idle *)
        destruct pc; cbn [next_ok] in Hn.
        all: try (destruct Hn as [[pc'' [Hw' _]] _]; rewrite Hw in Hw'; inv Hw'; contradiction).
        { destruct Hn as [Hw' _]. rewrite Hw in Hw'. destruct (stopf s); inv Hw'; contradiction. }
        { destruct Hn as [Hw' _]. rewrite Hw in Hw'. destruct (cancelled (base s)); inv Hw'; contradiction. }
        { destruct Hn as [Hw' _]. rewrite Hw in Hw'. inv Hw'; contradiction. }
        { destruct Hn as [Hw' _]. rewrite Hw in Hw'. discriminate. }
      * right. split; [rewrite <- Ed; exact Hd|].
        intros pc' Hp. apply (Hnr pc'). apply RA. right. split; assumption.
Qed.

Lemma okI_dec_run s i : BInv s -> G s -> stopf s = false -> cancelled (base s) = false ->
  i < deq s -> ~ okI s i -> exists pc, running s i pc.
Proof.
  intros B Gs Hf Hc Hd Hn. destruct (classic_running s i) as [Hr|Hnr]; [exact Hr|].
  exfalso. apply Hn. split; [split; assumption|]. apply (Gs Hf Hc). right. split; assumption.
Qed.

Lemma Q_step s t s' : BInv s -> G s -> Q s -> bstep s t = Some s' -> Q s'.
Proof.
  intros B Gs Qs H Hc' y Hp.
  pose proof (cancel_back _ _ _ H Hc') as Hc.
  assert (Old : passed s y ->
                exists l, length l <= nworkers - 1 /\ forall i, i < y -> ~ okI s' i -> In i l).
  { intros P. destruct (Qs Hc y P) as [l [Hl Hin]]. exists l. split; [exact Hl|].
    intros i Hi Hn. apply Hin; [exact Hi|]. intros X. apply Hn. eapply okI_stable; eauto. }
  destruct (step_kinds _ _ _ H) as [N|[R|T]].
  - destruct N as [Hr [Ei _]]. apply Old. destruct Hp as [Hp|[pc [Hp Hpc]]].
    + left. rewrite <- (il_same _ _ _ Ei). exact Hp.
    + right. exists pc. split; [apply Hr; exact Hp|exact Hpc].
  - destruct R as [k [Hk [Ew [_ [Ei _]]]]]. apply Old. destruct Hp as [Hp|[pc [[k' Hp] Hpc]]].
    + left. rewrite <- (il_same _ _ _ Ei). exact Hp.
    + right. exists pc. split; [|exact Hpc]. rewrite Ew in Hp.
      destruct (Nat.eq_dec k k') as [<-|Hne].
      * rewrite nth_error_set_nth_eq in Hp by (eapply nth_error_lt; eauto). inv Hp. destruct Hpc; contradiction.
      * rewrite nth_error_set_nth_ne in Hp by exact Hne. exists k'. exact Hp.
  - destruct T as [k [j [pc [Hk ->]]]].
    destruct (running_lt s j pc B (ex_intro _ k Hk)) as [Hjd Hjn].
    assert (Hj : j < length (ilog s)) by (rewrite (I_ilog _ _ _ B); exact Hjn).
    destruct (task_summary s k j pc Hk Hj) as [Ed [Hoth [_ [w [Ew Hnx]]]]].
    pose proof (running_after _ _ _ _ _ _ B Hk Ew) as RA.
    destruct (Nat.eq_dec y j) as [->|Hne].
    + (* a step of y itself *)
      destruct pc.
      * (* its stop-flag check *)
        cbn [next_ok] in Hnx. destruct Hnx as [Hw [_ Hil]].
        destruct (stopf s) eqn:Hf.
        { (* flag up: y is skipped, so it did not pass *)
          destruct Hp as [Hp|[pc' [Hp [_ Hpd]]]].
          - apply Old. left. rewrite <- Hil. exact Hp.
          - exfalso. apply RA in Hp. destruct Hp as [Hw'|[Hx _]]; [|contradiction].
            rewrite Hw in Hw'. inv Hw'. contradiction. }
        (* flag down: the new case *)
        exists (others (ws s) k). split.
        { pose proof (nth_error_lt _ _ _ Hk) as L. pose proof (others_length (ws s) k L) as OL.
          rewrite (I_ws _ _ _ B) in OL. exact OL. }
        intros i Hi Hn.
        assert (Hb : ~ okI s i) by (intros X; apply Hn; eapply okI_stable; eauto).
        destruct (okI_dec_run s i B Gs Hf Hc ltac:(lia) Hb) as [p1 [k1 H1]].
        eapply in_others; [exact H1|]. intros ->. rewrite Hk in H1. inv H1. lia.
      * apply Old. right. exists PCtx. split; [exists k; exact Hk|split; discriminate].
      * apply Old. right. eexists. split; [exists k; exact Hk|split; discriminate].
      * apply Old. right. eexists. split; [exists k; exact Hk|split; discriminate].
      * apply Old. right. eexists. split; [exists k; exact Hk|split; discriminate].
      * apply Old. right. eexists. split; [exists k; exact Hk|split; discriminate].
      * apply Old. right. eexists. split; [exists k; exact Hk|split; discriminate].
      * (* PDone: the events are unchanged and y is no longer running *)
        cbn [next_ok] in Hnx. destruct Hnx as [Hw [_ Hil]]. apply Old.
        destruct Hp as [Hp|[pc' [Hp _]]].
        { left. rewrite <- Hil. exact Hp. }
        { exfalso. apply RA in Hp. destruct Hp as [Hw'|[Hx _]]; [|contradiction].
          rewrite Hw in Hw'. discriminate. }
    + (* a step of another item *)
      apply Old. destruct Hp as [Hp|[pc' [Hp Hpc]]].
      * left. rewrite <- (Hoth _ Hne). exact Hp.
      * right. exists pc'. split; [|exact Hpc]. apply RA in Hp. destruct Hp as [Hw|[_ Hp]]; [|exact Hp].
        exfalso. destruct pc; cbn [next_ok] in Hnx.
        all: try (destruct Hnx as [[pc'' [Hw' _]] _]; rewrite Hw in Hw'; inv Hw'; contradiction).
        { destruct Hnx as [Hw' _]. rewrite Hw in Hw'. destruct (stopf s); inv Hw'; contradiction. }
        { destruct Hnx as [Hw' _]. rewrite Hw in Hw'. destruct (cancelled (base s)); inv Hw'; contradiction. }
        { destruct Hnx as [Hw' _]. rewrite Hw in Hw'. inv Hw'; contradiction. }
        { destruct Hnx as [Hw' _]. rewrite Hw in Hw'. discriminate. }
Qed.

Lemma run_GQ sched : forall s, BInv s -> ItemInv s -> G s -> Q s ->
  let s' := brun s sched in BInv s' /\ G s' /\ Q s'.
Proof.
  induction sched as [|t rest IH]; intros s B I Gs Qs; cbn [BatchConc.brun]; auto.
  destruct (bstep s t) as [s1|] eqn:E; [|apply IH; auto].
  apply IH.
  - eapply bstep_inv; eauto.
  - eapply bstep_items; eauto.
  - eapply G_step; eauto.
  - eapply Q_step; eauto.
Qed.

Lemma init_no_running s0 i pc : ~ running (binit items nworkers s0) i pc.
Proof. intros [k H]. unfold binit in H. cbn [ws] in H. apply nth_error_In in H. apply repeat_spec in H. discriminate. Qed.

Lemma G_init s0 : G (binit items nworkers s0).
Proof.
  intros _ _ i [Hr|[Hd _]]; [exfalso; eapply init_no_running; eauto|cbn in Hd; lia].
Qed.

Lemma Q_init s0 : Q (binit items nworkers s0).
Proof.
  intros _ y [Hp|[pc [Hr _]]].
  - exfalso. apply Hp. unfold il. cbn. apply nth_repeat_nil.
  - exfalso. eapply init_no_running; eauto.
Qed.

Lemma succ_dec i l : succ i l \/ ~ succ i l.
Proof.
  unfold succ. destruct (ist_result c (irun c nd (itm i) l)) as [[x|e]|].
  - left. exists x. reflexivity.
  - right. intros [x H]. discriminate.
  - right. intros [x H]. discriminate.
Qed.

Lemma okI_dec s i : okI s i \/ ~ okI s i.
Proof.
  destruct (succ_dec i (il s i)) as [S|S]; [|right; intros [_ X]; contradiction].
  destruct (classic_running s i) as [[pc Hr]|Hnr]; [right; intros [[_ X] _]; exact (X pc Hr)|].
  destruct (lt_dec i (deq s)) as [L|L]; [left; split; [split|]; assumption|right; intros [[X _] _]; contradiction].
Qed.

(* the statement, for any number of workers *)
Lemma workers_prefix_lemma s0 sched :
  let s := brun (binit items nworkers s0) sched in
  cancelled (base s) = false ->
  forall y, il s y <> [] ->
  exists l, length l <= nworkers - 1 /\
    forall i, i < y -> ~ In i l ->
      (i < deq s /\ (forall pc, ~ running s i pc)) /\
      exists x, ist_result c (irun c nd (item_at items i) (il s i)) = Some (inl x).
Proof.
  intros s Hc y Hy.
  destruct (run_GQ sched (binit items nworkers s0) (binit_inv items nworkers s0)
                   (binit_items c nd items nworkers s0) (G_init s0) (Q_init s0)) as [B [Gs Qs]].
  fold s in B, Gs, Qs.
  destruct (Qs Hc y (or_introl Hy)) as [l [Hl Hin]]. exists l. split; [exact Hl|].
  intros i Hi Hni. destruct (okI_dec s i) as [[F S]|Hn]; [split; [exact F|exact S]|].
  exfalso. apply Hni. apply Hin; assumption.
Qed.

End Prefix.

(* two workers: the list has at most one element; a skipped item m before y is in it, so every other
   item before y succeeded *)
Lemma two_workers_lemma (o : oracle) c nd (items : list val) qcap :
  has_exec c = true ->
  forall s0 sched,
  let s := brun o c nd items true qcap (binit items 2 s0) sched in
  cancelled (base s) = false ->
  forall m y, m < y -> BatchConcItems.il s m = [] -> BatchConcItems.il s y <> [] ->
  forall i, i < y -> i <> m ->
    (i < deq s /\ (forall pc, ~ running s i pc)) /\
    exists x, ist_result c (irun c nd (item_at items i) (BatchConcItems.il s i)) = Some (inl x).
Proof.
  intros Hexec s0 sched s Hc m y Hmy Hm Hy i Hi Him.
  destruct (workers_prefix_lemma o c nd items 2 qcap Hexec s0 sched Hc y Hy) as [l [Hl Hin]].
  fold s in Hin.
  assert (Hml : In m l).
  { destruct (in_dec Nat.eq_dec m l) as [X|X]; [exact X|exfalso].
    destruct (Hin m Hmy X) as [_ [x Hx]]. rewrite Hm in Hx.
    apply (succ_nil c nd items m). exists x. exact Hx. }
  apply Hin; [exact Hi|]. intros Hil.
  destruct l as [|a [|b l]]; cbn in Hl; [contradiction| |lia].
  destruct Hml as [<-|[]]. destruct Hil as [<-|[]]. contradiction.
Qed.
