(* BaseFacts.v — reflexivity of the boolean comparisons, error classes under wrapping. *)
From Flyt Require Import Base.

Lemma eclass_eqb_refl k : eclass_eqb k k = true.
Proof. destruct k; cbn; auto using Nat.eqb_refl. Qed.

Lemma err_sim_refl e : err_sim e e = true.
Proof. apply eclass_eqb_refl. Qed.

Lemma oerr_sim_refl e : oerr_sim e e = true.
Proof. destruct e; cbn; auto using err_sim_refl. Qed.

Lemma class_of_wrap s e : class_of (EWrap s e) = class_of e.
Proof. reflexivity. Qed.

Lemma err_sim_wrap_l s e f : err_sim (EWrap s e) f = err_sim e f.
Proof. reflexivity. Qed.

Lemma err_sim_wrap_refl s e : err_sim (EWrap s e) e = true.
Proof. rewrite err_sim_wrap_l. apply err_sim_refl. Qed.

Lemma eclass_eqb_sym a b : eclass_eqb a b = eclass_eqb b a.
Proof. destruct a, b; cbn; auto using Nat.eqb_sym. Qed.

Lemma err_sim_sym a b : err_sim a b = err_sim b a.
Proof. apply eclass_eqb_sym. Qed.

Lemma eclass_eqb_eq a b : eclass_eqb a b = true <-> a = b.
Proof.
  destruct a, b; cbn; split; intros H; try discriminate; auto.
  - apply Nat.eqb_eq in H. now subst.
  - inversion H. apply Nat.eqb_refl.
Qed.

Lemma err_sim_trans a b c : err_sim a b = true -> err_sim b c = true -> err_sim a c = true.
Proof.
  unfold err_sim. rewrite !eclass_eqb_eq. congruence.
Qed.

(* matches follows the %w chain down to the root *)
Lemma matches_root e t : matches e t = matches (root e) t.
Proof. induction e; cbn; auto. Qed.

Lemma matches_class_user e u : matches e (EUser u) = true <-> class_of e = KUser u.
Proof.
  induction e as [v| |f|st e IH]; cbn.
  - unfold class_of; cbn. split; intros H.
    + apply Nat.eqb_eq in H. now subst.
    + inversion H. apply Nat.eqb_refl.
  - unfold class_of; cbn. split; discriminate.
  - unfold class_of; cbn. split; discriminate.
  - rewrite class_of_wrap. exact IH.
Qed.

Lemma matches_class_ctx e : matches e ECtx = true <-> class_of e = KCtx.
Proof.
  induction e as [v| |f|st e IH]; cbn.
  - unfold class_of; cbn. split; discriminate.
  - unfold class_of; cbn. split; auto.
  - unfold class_of; cbn. split; discriminate.
  - rewrite class_of_wrap. exact IH.
Qed.

(* nested induction principle for val *)
Section ValInd.
Variable P : val -> Prop.
Hypothesis HNil : P VNil.
Hypothesis HTok : forall t, P (VTok t).
Hypothesis HStore : P VStore.
Hypothesis HOther : P VOther.
Hypothesis HAct : forall a, P (VAct a).
Hypothesis HRes : forall v e, P v -> P (VRes v e).
Hypothesis HSl : forall k l, Forall P l -> P (VSl k l).

Fixpoint val_ind' (v : val) : P v :=
  match v with
  | VNil => HNil
  | VTok t => HTok t
  | VStore => HStore
  | VOther => HOther
  | VAct a => HAct a
  | VRes v e => HRes v e (val_ind' v)
  | VSl k l =>
      HSl k l ((fix go (l : list val) : Forall P l :=
                  match l with
                  | [] => Forall_nil P
                  | x :: xs => Forall_cons x (val_ind' x) (go xs)
                  end) l)
  end.
End ValInd.

Lemma val_eqb_refl v : val_eqb v v = true.
Proof.
  induction v using val_ind'; cbn; auto using Nat.eqb_refl.
  - rewrite IHv, oerr_sim_refl. reflexivity.
  - rewrite Bool.eqb_reflx. cbn.
    induction H as [|x xs Hx Hxs IH]; auto. now rewrite Hx, IH.
Qed.

Lemma list_eqb_refl {A} (eqb : A -> A -> bool) :
  (forall x, eqb x x = true) -> forall l, list_eqb eqb l l = true.
Proof. intros H. induction l; cbn; auto. now rewrite H, IHl. Qed.
