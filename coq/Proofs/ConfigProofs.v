(* ConfigProofs.v — C19: the option form and the builder form of every setting are the same
   function; NewNode's re-ordering of its options changes nothing; any mixture of options and
   builder calls is the left-to-right application of the settings in the order in which they
   take effect; the last setting of a parameter wins and other parameters are untouched. *)
From Flyt Require Import Base Engine Config.
From Coq Require Import ZArith Lia.

Lemma forms_agree_lemma p c : apply_bld p c = apply_opt p c.
Proof. destruct p; try reflexivity. destruct cont; reflexivity. Qed.

Lemma cfg_ext a b :
  c_retries a = c_retries b -> c_wait a = c_wait b -> c_conc a = c_conc b -> c_errh a = c_errh b ->
  c_prep a = c_prep b -> c_exec a = c_exec b -> c_post a = c_post b -> c_fb a = c_fb b -> a = b.
Proof. destruct a, b; cbn; intros; subst; reflexivity. Qed.

(* a field: how to read it, and which settings write it *)
Section Field.
Variable V : Type.
Variable fget : cfg -> V.
Variable fupd : param -> option V.
Hypothesis Hupd : forall p c, fget (apply_opt p c) = match fupd p with Some v => v | None => fget c end.

Definition lastf (ps : list param) (d : V) : V :=
  fold_left (fun acc p => match fupd p with Some v => v | None => acc end) ps d.

Lemma fget_apply_all ps : forall c, fget (apply_all ps c) = lastf ps (fget c).
Proof.
  unfold apply_all, lastf. induction ps as [|p ps IH]; intros c; cbn; auto.
  rewrite IH, Hupd. reflexivity.
Qed.

Lemma lastf_filter keep ps : forall d,
    (forall p, fupd p <> None -> keep p = true) -> lastf (filter keep ps) d = lastf ps d.
Proof.
  unfold lastf. induction ps as [|p ps IH]; intros d Hk; cbn; auto.
  destruct (keep p) eqn:E; cbn.
  - apply IH. exact Hk.
  - destruct (fupd p) eqn:Eu; [|apply IH; exact Hk].
    exfalso. assert (keep p = true) by (apply Hk; congruence). congruence.
Qed.

Lemma lastf_untouched ps : forall d, (forall p, In p ps -> fupd p = None) -> lastf ps d = d.
Proof.
  unfold lastf. induction ps as [|p ps IH]; intros d H; cbn; auto.
  rewrite (H p) by now left. apply IH. intros q Hq. apply H. now right.
Qed.

Lemma lastf_app a b d : lastf (a ++ b) d = lastf b (lastf a d).
Proof. unfold lastf. apply fold_left_app. Qed.

Lemma lastf_snoc ps p d v : fupd p = Some v -> lastf (ps ++ [p]) d = v.
Proof. intros H. rewrite lastf_app. cbn. now rewrite H. Qed.

(* the field after NewNode's two passes equals the field after one pass in the given order,
   provided the settings that write it are all base or all custom *)
Lemma field_newnode opts :
  ((forall p, fupd p <> None -> is_base p = true) \/ (forall p, fupd p <> None -> is_base p = false)) ->
  fget (new_node opts) = fget (apply_all opts cinit).
Proof.
  intros Hcls. unfold new_node.
  change (fold_left (fun c p => apply_opt p c) ?l ?c) with (apply_all l c).
  rewrite !fget_apply_all.
  destruct Hcls as [Hb|Hc].
  - (* written by base options only: the custom pass leaves it alone *)
    rewrite (lastf_untouched (filter (fun p => negb (is_base p)) opts)).
    + apply lastf_filter. exact Hb.
    + intros p Hin. apply filter_In in Hin. destruct Hin as [_ Hn].
      destruct (fupd p) eqn:E; auto. assert (is_base p = true) by (apply Hb; congruence).
      rewrite H in Hn. discriminate.
  - (* written by custom options only: the base pass leaves it alone *)
    rewrite (lastf_untouched (filter is_base opts)).
    + apply lastf_filter. intros p Hp. rewrite (Hc p Hp). reflexivity.
    + intros p Hin. apply filter_In in Hin. destruct Hin as [_ Hn].
      destruct (fupd p) eqn:E; auto. assert (is_base p = false) by (apply Hc; congruence). congruence.
Qed.
End Field.

(* the eight fields *)
Definition u_retries p := match p with PMaxRetries n => Some n | _ => None end.
Definition u_wait p := match p with PWait d => Some d | _ => None end.
Definition u_conc p := match p with PConc k => Some k | _ => None end.
Definition u_errh p := match p with PErrH b => Some (if b then Some true else Some false) | _ => None end.
Definition u_prepf p := match p with PPrep st t => Some (Some (st, t)) | _ => None end.
Definition u_execf p := match p with PExec st t => Some (Some (st, t)) | _ => None end.
Definition u_postf p := match p with PPost st t => Some (Some (st, t)) | _ => None end.
Definition u_fbf p := match p with PFb t => Some (Some t) | _ => None end.

Lemma upd_retries p c : c_retries (apply_opt p c) = match u_retries p with Some v => v | None => c_retries c end.
Proof. destruct p; reflexivity. Qed.
Lemma upd_wait p c : c_wait (apply_opt p c) = match u_wait p with Some v => v | None => c_wait c end.
Proof. destruct p; reflexivity. Qed.
Lemma upd_conc p c : c_conc (apply_opt p c) = match u_conc p with Some v => v | None => c_conc c end.
Proof. destruct p; reflexivity. Qed.
Lemma upd_errh p c : c_errh (apply_opt p c) = match u_errh p with Some v => v | None => c_errh c end.
Proof. destruct p; reflexivity. Qed.
Lemma upd_prepf p c : c_prep (apply_opt p c) = match u_prepf p with Some v => v | None => c_prep c end.
Proof. destruct p; reflexivity. Qed.
Lemma upd_execf p c : c_exec (apply_opt p c) = match u_execf p with Some v => v | None => c_exec c end.
Proof. destruct p; reflexivity. Qed.
Lemma upd_postf p c : c_post (apply_opt p c) = match u_postf p with Some v => v | None => c_post c end.
Proof. destruct p; reflexivity. Qed.
Lemma upd_fbf p c : c_fb (apply_opt p c) = match u_fbf p with Some v => v | None => c_fb c end.
Proof. destruct p; reflexivity. Qed.

(* NewNode(opts): the partition into base and custom options does not matter *)
Lemma newnode_order_lemma opts : new_node opts = apply_all opts cinit.
Proof.
  apply cfg_ext.
  - apply (field_newnode _ _ _ upd_retries). left. destruct p; cbn; congruence.
  - apply (field_newnode _ _ _ upd_wait). left. destruct p; cbn; congruence.
  - apply (field_newnode _ _ _ upd_conc). left. destruct p; cbn; congruence.
  - apply (field_newnode _ _ _ upd_errh). left. destruct p; cbn; congruence.
  - apply (field_newnode _ _ _ upd_prepf). right. destruct p; cbn; congruence.
  - apply (field_newnode _ _ _ upd_execf). right. destruct p; cbn; congruence.
  - apply (field_newnode _ _ _ upd_postf). right. destruct p; cbn; congruence.
  - apply (field_newnode _ _ _ upd_fbf). right. destruct p; cbn; congruence.
Qed.

Lemma fold_bld_is_opt ps : forall c, fold_left (fun c p => apply_bld p c) ps c = apply_all ps c.
Proof.
  unfold apply_all. induction ps as [|p ps IH]; intros c; cbn; auto. rewrite forms_agree_lemma. apply IH.
Qed.

(* any mixture: constructor options and chained builder calls = the settings applied left to
   right in the order in which they take effect *)
Lemma mix_lemma l : build_node l = apply_all (effective l) cinit.
Proof.
  unfold build_node, effective. rewrite fold_bld_is_opt, newnode_order_lemma.
  unfold apply_all. now rewrite fold_left_app.
Qed.

(* batch builders take base options only; when no custom option is passed to the constructor
   the same holds *)
Lemma mix_batch_lemma l :
  (forall p, In p (opts_of l) -> is_base p = true) -> build_batch l = apply_all (effective l) cinit.
Proof.
  intros H. unfold build_batch, effective, new_batch_node. rewrite fold_bld_is_opt.
  assert (E : filter is_base (opts_of l) = opts_of l).
  { induction (opts_of l) as [|p ps IH]; cbn; auto. rewrite (H p) by now left.
    f_equal. apply IH. intros q Hq. apply H. now right. }
  rewrite E. unfold apply_all. now rewrite fold_left_app.
Qed.

(* last setting wins, unrelated parameters untouched: for each getter *)
Lemma last_wins_lemma ps c :
  (forall n, get_max_retries (apply_all (ps ++ [PMaxRetries n]) c) = n) /\
  (forall d, get_wait (apply_all (ps ++ [PWait d]) c) = d) /\
  (forall k, get_conc (apply_all (ps ++ [PConc k]) c) = k) /\
  (forall b, get_continue (apply_all (ps ++ [PErrH b]) c) = b) /\
  (forall st t, c_prep (apply_all (ps ++ [PPrep st t]) c) = Some (st, t)) /\
  (forall st t, c_exec (apply_all (ps ++ [PExec st t]) c) = Some (st, t)) /\
  (forall st t, c_post (apply_all (ps ++ [PPost st t]) c) = Some (st, t)) /\
  (forall t, c_fb (apply_all (ps ++ [PFb t]) c) = Some t).
Proof.
  unfold apply_all. repeat split; intros; rewrite fold_left_app; cbn; try reflexivity.
  unfold get_continue. cbn. destruct b; reflexivity.
Qed.

Lemma frame_lemma p c :
  (u_retries p = None -> get_max_retries (apply_opt p c) = get_max_retries c) /\
  (u_wait p = None -> get_wait (apply_opt p c) = get_wait c) /\
  (u_conc p = None -> get_conc (apply_opt p c) = get_conc c) /\
  (u_errh p = None -> get_continue (apply_opt p c) = get_continue c) /\
  (u_prepf p = None -> c_prep (apply_opt p c) = c_prep c) /\
  (u_execf p = None -> c_exec (apply_opt p c) = c_exec c) /\
  (u_postf p = None -> c_post (apply_opt p c) = c_post c) /\
  (u_fbf p = None -> c_fb (apply_opt p c) = c_fb c).
Proof. destruct p; cbn; repeat split; intros; try discriminate; reflexivity. Qed.

Lemma defaults_lemma :
  get_max_retries cinit = 1%Z /\ get_wait cinit = 0%Z /\ get_conc cinit = 0%Z /\ get_continue cinit = true /\
  c_prep cinit = None /\ c_exec cinit = None /\ c_post cinit = None /\ c_fb cinit = None /\
  (forall w, (w <= 0)%Z -> pool_size w = 1%Z) /\ (forall w, (0 < w)%Z -> pool_size w = w).
Proof.
  repeat split; intros w H; unfold pool_size.
  - apply Z.leb_le in H. now rewrite H.
  - destruct (w <=? 0)%Z eqn:E; [apply Z.leb_le in E; lia|reflexivity].
Qed.

From Flyt Require Import ConfigCorr.
Lemma built_is_denoted_lemma sc :
  (cs_batch sc = true -> forall p, In p (opts_of (cs_settings sc)) -> is_base p = true) ->
  cfg_built sc = cfg_denoted sc.
Proof.
  intros H. unfold cfg_built, cfg_denoted. destruct (cs_batch sc).
  - apply mix_batch_lemma. auto.
  - apply mix_lemma.
Qed.
