(* PoolProofs.v — C12, for every schedule of any number of submitters, workers, queue capacity and
   operations: tasks are conserved (never dropped, never duplicated), each is executed exactly
   once, Wait is a barrier, and after Close idle workers can always leave. *)
From Flyt Require Import Pool.
From Coq Require Import Permutation.

(* ------------------------------------------------------------ lists *)
Lemma set_nth_len {A} (l : list A) i x : length (set_nth l i x) = length l.
Proof. revert i; induction l as [|h t IH]; intros [|i]; cbn; auto. Qed.

Lemma nth_error_set_same {A} (l : list A) i x : i < length l -> nth_error (set_nth l i x) i = Some x.
Proof. revert i; induction l as [|h t IH]; intros [|i] H; cbn in *; try lia; auto. apply IH. lia. Qed.

Lemma nth_error_set_other {A} (l : list A) i j x : i <> j -> nth_error (set_nth l i x) j = nth_error l j.
Proof.
  revert i j; induction l as [|h t IH]; intros [|i] [|j] H; cbn; auto; try congruence;
    try (apply IH; congruence).
Qed.

Lemma nodup_app_r {A} (a b : list A) : NoDup (a ++ b) -> NoDup b.
Proof. induction a as [|x a IH]; cbn; intros H; auto. inversion H; subst. auto. Qed.
Lemma nodup_app_l {A} (a b : list A) : NoDup (a ++ b) -> NoDup a.
Proof.
  induction a as [|x a IH]; cbn; intros H; [constructor|]. inversion H; subst.
  constructor; [|auto]. intros Hin. apply H2. apply in_or_app. now left.
Qed.

(* replacing the j-th element changes a flat_map by exactly that element's contribution *)
Lemma flat_map_set_nth {A B} (f : A -> list B) (l : list A) j old x :
  nth_error l j = Some old ->
  exists rest, Permutation (flat_map f l) (f old ++ rest) /\
               Permutation (flat_map f (set_nth l j x)) (f x ++ rest).
Proof.
  revert j; induction l as [|h t IH]; intros [|j] H; cbn in *; try discriminate.
  - inversion H; subst. exists (flat_map f t). split; apply Permutation_refl.
  - destruct (IH _ H) as [rest [P1 P2]]. exists (f h ++ rest). split.
    + rewrite P1. rewrite !app_assoc. apply Permutation_app_tail. apply Permutation_app_comm.
    + rewrite P2. rewrite !app_assoc. apply Permutation_app_tail. apply Permutation_app_comm.
Qed.

Lemma starts_app a b : starts (a ++ b) = starts a ++ starts b.
Proof. unfold starts. apply flat_map_app. Qed.
Lemma ends_app a b : ends (a ++ b) = ends a ++ ends b.
Proof. unfold ends. apply flat_map_app. Qed.

Definition sub_pending (x : sub) : list taskid :=
  if s_adding x then match s_ops x with PSubmit t :: _ => [t] | _ => [] end else [].
Lemma pending_sends_eq subs : pending_sends subs = flat_map sub_pending subs.
Proof. reflexivity. Qed.
Definition w_busy (w : wst) : list taskid := match w with PBusy t => [t] | _ => [] end.
Lemma busy_tasks_eq ws : busy_tasks ws = flat_map w_busy ws.
Proof. reflexivity. Qed.

(* the tasks still to be added by a submitter *)
Definition sub_future (x : sub) : list taskid :=
  let ts := flat_map (fun o => match o with PSubmit t => [t] | _ => [] end) (s_ops x) in
  if s_adding x then tl ts else ts.
Definition future (subs : list sub) : list taskid := flat_map sub_future subs.

Section PP.
Variable qcap : nat.
Notation pstep := (pstep qcap).
Notation prun := (prun qcap).

(* where every added task is: waiting to be sent, queued, running, or finished *)
Definition whereabouts (s : pst) : list taskid :=
  pending_sends (p_subs s) ++ p_queue s ++ busy_tasks (p_ws s) ++ ends (p_log s).

Record PInv (s : pst) : Prop := {
  P_wg : p_wg s = length (pending_sends (p_subs s)) + length (p_queue s) + length (busy_tasks (p_ws s));
  P_cons : Permutation (p_added s) (whereabouts s);
  P_started : Permutation (starts (p_log s)) (busy_tasks (p_ws s) ++ ends (p_log s));
  P_nodup : NoDup (p_added s ++ future (p_subs s));
  (* an adding submitter is at its Submit *)
  P_adding : forall j x, nth_error (p_subs s) j = Some x -> s_adding x = true ->
                         exists t rest, s_ops x = PSubmit t :: rest
}.

Lemma pinit_inv progs workers :
  NoDup (flat_map (fun ops => flat_map (fun o => match o with PSubmit t => [t] | _ => [] end) ops) progs) ->
  PInv (pinit progs workers).
Proof.
  intros Hnd.
  assert (Hp : pending_sends (map (fun ops => {| s_ops := ops; s_adding := false |}) progs) = []).
  { induction progs; cbn; auto. apply IHprogs. cbn in Hnd. apply nodup_app_r in Hnd. exact Hnd. }
  assert (Hb : busy_tasks (repeat PIdle workers) = []) by (induction workers; cbn; auto).
  constructor; cbn [pinit p_wg p_subs p_queue p_ws p_added p_log p_closed].
  - rewrite Hp, Hb. reflexivity.
  - unfold whereabouts. cbn [pinit p_wg p_subs p_queue p_ws p_added p_log p_closed]. rewrite Hp, Hb. apply Permutation_refl.
  - rewrite Hb. apply Permutation_refl.
  - cbn [app]. unfold future. rewrite flat_map_concat_map, map_map, <- flat_map_concat_map. exact Hnd.
  - intros j x Hx Ha. apply nth_error_In in Hx. apply in_map_iff in Hx.
    destruct Hx as [ops [<- _]]. discriminate.
Qed.

Lemma perm_len {A} (a b : list A) : Permutation a b -> length a = length b.
Proof. apply Permutation_length. Qed.

Lemma perm_move2 {A} (a : A) l1 l2 l3 : Permutation (a :: l1 ++ l2 ++ l3) (l1 ++ l2 ++ a :: l3).
Proof. rewrite !app_assoc. apply Permutation_middle. Qed.
Lemma perm_move1 {A} (a : A) l1 l2 : Permutation (a :: l1 ++ l2) (l1 ++ a :: l2).
Proof. apply Permutation_middle. Qed.

Ltac pj := cbn [p_wg p_subs p_queue p_ws p_added p_log p_closed].

Lemma pstep_inv s t s' : PInv s -> pstep s t = Some s' -> PInv s'.
Proof.
  intros I H. destruct t as [j|k|k|]; cbn [Pool.pstep] in H.
  - (* a submitter *)
    destruct (nth_error (p_subs s) j) as [x|] eqn:Hj; [|discriminate].
    destruct (s_ops x) as [|op rest] eqn:Hops; [discriminate|].
    destruct op.
    + destruct (s_adding x) eqn:Ha.
      * (* send *)
        destruct (Nat.ltb (length (p_queue s)) qcap); inversion H; subst; clear H.
        destruct (flat_map_set_nth sub_pending (p_subs s) j x {| s_ops := rest; s_adding := false |} Hj)
          as [r1 [Q1 Q2]].
        unfold sub_pending in Q1 at 2. rewrite Ha, Hops in Q1. cbn in Q2.
        destruct (flat_map_set_nth sub_future (p_subs s) j x {| s_ops := rest; s_adding := false |} Hj)
          as [r2 [F1 F2]].
        assert (Ef : sub_future x = sub_future {| s_ops := rest; s_adding := false |}).
        { unfold sub_future. rewrite Ha, Hops. reflexivity. }
        constructor; pj.
        -- rewrite <- pending_sends_eq in *. rewrite (perm_len _ _ Q2), (P_wg _ I), (perm_len _ _ Q1), app_length.
           rewrite ?app_length; cbn [length]. lia.
        -- unfold whereabouts. pj. rewrite (P_cons _ I). unfold whereabouts.
           rewrite pending_sends_eq in *. rewrite Q1, Q2. cbn.
           cbn [app]. rewrite <- !app_assoc. cbn [app]. apply perm_move2.
        -- apply I.
        -- unfold future in *. eapply Permutation_NoDup; [|apply (P_nodup _ I)].
           apply Permutation_app_head. rewrite F1, F2, Ef. apply Permutation_refl.
        -- intros j' x' Hx' Ha'. destruct (Nat.eq_dec j j') as [<-|Hne].
           ++ rewrite nth_error_set_same in Hx' by (apply nth_error_Some; congruence).
              inversion Hx'; subst. discriminate.
           ++ rewrite nth_error_set_other in Hx' by exact Hne. eapply (P_adding _ I); eauto.
      * (* wg.Add(1) *)
        inversion H; subst; clear H.
        destruct (flat_map_set_nth sub_pending (p_subs s) j x {| s_ops := s_ops x; s_adding := true |} Hj)
          as [r1 [Q1 Q2]].
        unfold sub_pending in Q1 at 2. rewrite Ha in Q1. unfold sub_pending in Q2 at 2. cbn in Q1, Q2. rewrite Hops in Q2.
        destruct (flat_map_set_nth sub_future (p_subs s) j x {| s_ops := s_ops x; s_adding := true |} Hj)
          as [r2 [F1 F2]].
        unfold sub_future in F1 at 2. rewrite Ha, Hops in F1. unfold sub_future in F2 at 2. cbn in F1, F2.
        rewrite Hops in F2. cbn in F2.
        constructor; pj.
        -- rewrite <- pending_sends_eq in *. rewrite (perm_len _ _ Q2), (P_wg _ I), (perm_len _ _ Q1). rewrite ?app_length; cbn [length]. lia.
        -- unfold whereabouts. pj. rewrite pending_sends_eq in *. rewrite Q2. cbn.
           rewrite Permutation_app_comm. cbn. apply perm_skip.
           rewrite (P_cons _ I). unfold whereabouts. rewrite pending_sends_eq, Q1. apply Permutation_refl.
        -- apply I.
        -- unfold future in *. eapply Permutation_NoDup; [|apply (P_nodup _ I)].
           rewrite F1, F2. rewrite <- !app_assoc. apply Permutation_app_head. cbn.
           apply Permutation_refl.
        -- intros j' x' Hx' Ha'. destruct (Nat.eq_dec j j') as [<-|Hne].
           ++ rewrite nth_error_set_same in Hx' by (apply nth_error_Some; congruence).
              inversion Hx'; subst. cbn. eauto.
           ++ rewrite nth_error_set_other in Hx' by exact Hne. eapply (P_adding _ I); eauto.
    + (* Wait: only the submitter's program moves on *)
      destruct (Nat.eqb (p_wg s) 0); inversion H; subst; clear H.
      assert (Hna : s_adding x = false).
      { destruct (s_adding x) eqn:Ha; auto. destruct (P_adding _ I j x Hj Ha) as [t [r E]]. congruence. }
      destruct (flat_map_set_nth sub_pending (p_subs s) j x {| s_ops := rest; s_adding := false |} Hj) as [r1 [Q1 Q2]].
      unfold sub_pending in Q1 at 2. rewrite Hna in Q1. cbn in Q1, Q2.
      destruct (flat_map_set_nth sub_future (p_subs s) j x {| s_ops := rest; s_adding := false |} Hj) as [r2 [F1 F2]].
      assert (Ef : sub_future x = sub_future {| s_ops := rest; s_adding := false |})
        by (unfold sub_future; rewrite Hna, Hops; reflexivity).
      constructor; pj.
      * rewrite <- pending_sends_eq in *. rewrite (perm_len _ _ Q2), (P_wg _ I), (perm_len _ _ Q1). reflexivity.
      * unfold whereabouts. pj. rewrite ends_app. cbn. rewrite app_nil_r.
        rewrite (P_cons _ I). unfold whereabouts. rewrite pending_sends_eq in *. rewrite Q1, Q2. apply Permutation_refl.
      * rewrite starts_app, ends_app. cbn. rewrite !app_nil_r. apply I.
      * unfold future in *. eapply Permutation_NoDup; [|apply (P_nodup _ I)].
        apply Permutation_app_head. rewrite F1, F2, Ef. apply Permutation_refl.
      * intros j' x' Hx' Ha'. destruct (Nat.eq_dec j j') as [<-|Hne].
        -- rewrite nth_error_set_same in Hx' by (apply nth_error_Some; congruence). inversion Hx'; subst. discriminate.
        -- rewrite nth_error_set_other in Hx' by exact Hne. eapply (P_adding _ I); eauto.
    + (* Sync *)
      destruct (all_done s); inversion H; subst; clear H. unfold with_sub.
      assert (Hna : s_adding x = false).
      { destruct (s_adding x) eqn:Ha; auto. destruct (P_adding _ I j x Hj Ha) as [t [r E]]. congruence. }
      destruct (flat_map_set_nth sub_pending (p_subs s) j x {| s_ops := rest; s_adding := false |} Hj) as [r1 [Q1 Q2]].
      unfold sub_pending in Q1 at 2. rewrite Hna in Q1. cbn in Q1, Q2.
      destruct (flat_map_set_nth sub_future (p_subs s) j x {| s_ops := rest; s_adding := false |} Hj) as [r2 [F1 F2]].
      assert (Ef : sub_future x = sub_future {| s_ops := rest; s_adding := false |})
        by (unfold sub_future; rewrite Hna, Hops; reflexivity).
      constructor; pj.
      * rewrite <- pending_sends_eq in *. rewrite (perm_len _ _ Q2), (P_wg _ I), (perm_len _ _ Q1). reflexivity.
      * unfold whereabouts. pj. rewrite (P_cons _ I). unfold whereabouts.
        rewrite pending_sends_eq in *. rewrite Q1, Q2. apply Permutation_refl.
      * apply I.
      * unfold future in *. eapply Permutation_NoDup; [|apply (P_nodup _ I)].
        apply Permutation_app_head. rewrite F1, F2, Ef. apply Permutation_refl.
      * intros j' x' Hx' Ha'. destruct (Nat.eq_dec j j') as [<-|Hne].
        -- rewrite nth_error_set_same in Hx' by (apply nth_error_Some; congruence). inversion Hx'; subst. discriminate.
        -- rewrite nth_error_set_other in Hx' by exact Hne. eapply (P_adding _ I); eauto.
    + (* Close *)
      inversion H; subst; clear H.
      assert (Hna : s_adding x = false).
      { destruct (s_adding x) eqn:Ha; auto. destruct (P_adding _ I j x Hj Ha) as [t [r E]]. congruence. }
      destruct (flat_map_set_nth sub_pending (p_subs s) j x {| s_ops := rest; s_adding := false |} Hj) as [r1 [Q1 Q2]].
      unfold sub_pending in Q1 at 2. rewrite Hna in Q1. cbn in Q1, Q2.
      destruct (flat_map_set_nth sub_future (p_subs s) j x {| s_ops := rest; s_adding := false |} Hj) as [r2 [F1 F2]].
      assert (Ef : sub_future x = sub_future {| s_ops := rest; s_adding := false |})
        by (unfold sub_future; rewrite Hna, Hops; reflexivity).
      constructor; pj.
      * rewrite <- pending_sends_eq in *. rewrite (perm_len _ _ Q2), (P_wg _ I), (perm_len _ _ Q1). reflexivity.
      * unfold whereabouts. pj. rewrite (P_cons _ I). unfold whereabouts.
        rewrite pending_sends_eq in *. rewrite Q1, Q2. apply Permutation_refl.
      * apply I.
      * unfold future in *. eapply Permutation_NoDup; [|apply (P_nodup _ I)].
        apply Permutation_app_head. rewrite F1, F2, Ef. apply Permutation_refl.
      * intros j' x' Hx' Ha'. destruct (Nat.eq_dec j j') as [<-|Hne].
        -- rewrite nth_error_set_same in Hx' by (apply nth_error_Some; congruence). inversion Hx'; subst. discriminate.
        -- rewrite nth_error_set_other in Hx' by exact Hne. eapply (P_adding _ I); eauto.
  - (* a worker *)
    pose proof (P_wg _ I) as Hw. pose proof (P_cons _ I) as Hc. pose proof (P_started _ I) as Hs.
    unfold whereabouts in Hc.
    destruct (nth_error (p_ws s) k) as [[|tk|]|] eqn:Hk; try discriminate.
    + (* receive *)
      destruct (p_queue s) as [|tk rest] eqn:Hq; [discriminate|]. inversion H; subst; clear H.
      destruct (flat_map_set_nth w_busy (p_ws s) k PIdle (PBusy tk) Hk) as [r1 [Q1 Q2]].
      cbn [w_busy app] in Q1, Q2. rewrite <- busy_tasks_eq in Q1, Q2.
      constructor; pj.
      * rewrite (perm_len _ _ Q2), Hw, (perm_len _ _ Q1). cbn [length]. lia.
      * unfold whereabouts. pj. rewrite ends_app. cbn [ends flat_map app]. rewrite app_nil_r.
        rewrite Hc, Q1, Q2. apply Permutation_app_head. cbn [app]. apply perm_move1 with (l1 := rest).
      * rewrite starts_app, ends_app. cbn [starts ends flat_map app]. rewrite app_nil_r.
        rewrite Q2, Hs, Q1. cbn [app]. apply Permutation_sym. apply Permutation_cons_append.
      * apply I.
      * apply I.
    + (* the task returns *)
      inversion H; subst; clear H.
      destruct (flat_map_set_nth w_busy (p_ws s) k (PBusy tk) PIdle Hk) as [r1 [Q1 Q2]].
      cbn [w_busy app] in Q1, Q2. rewrite <- busy_tasks_eq in Q1, Q2.
      constructor; pj.
      * rewrite (perm_len _ _ Q2), Hw, (perm_len _ _ Q1). cbn [length]. lia.
      * unfold whereabouts. pj. rewrite ends_app. cbn [ends flat_map app].
        rewrite Hc, Q1, Q2. apply Permutation_app_head. apply Permutation_app_head. cbn [app].
        rewrite app_assoc. apply Permutation_cons_append.
      * rewrite starts_app, ends_app. cbn [starts ends flat_map app]. rewrite app_nil_r.
        rewrite Hs, Q1, Q2. cbn [app]. rewrite app_assoc. apply Permutation_cons_append.
      * apply I.
      * apply I.
  - (* a worker leaves *)
    pose proof (P_wg _ I) as Hw. pose proof (P_cons _ I) as Hc. pose proof (P_started _ I) as Hs.
    unfold whereabouts in Hc.
    destruct (nth_error (p_ws s) k) as [[|tk|]|] eqn:Hk; try discriminate.
    destruct (p_closed s); inversion H; subst; clear H.
    destruct (flat_map_set_nth w_busy (p_ws s) k PIdle PExited Hk) as [r1 [Q1 Q2]].
    cbn [w_busy app] in Q1, Q2. rewrite <- busy_tasks_eq in Q1, Q2.
    constructor; pj.
    + rewrite (perm_len _ _ Q2), Hw, (perm_len _ _ Q1). reflexivity.
    + unfold whereabouts. pj. rewrite Hc, Q1, Q2. apply Permutation_refl.
    + rewrite Hs, Q1, Q2. apply Permutation_refl.
    + apply I.
    + apply I.
  - (* the observer: two pseudo-events in the log, neither a start nor an end *)
    inversion H; subst; clear H.
    constructor; pj.
    + apply I.
    + unfold whereabouts. pj. rewrite ends_app. cbn [ends flat_map app]. rewrite app_nil_r. apply (P_cons _ I).
    + rewrite starts_app, ends_app. cbn [starts ends flat_map app]. rewrite !app_nil_r. apply (P_started _ I).
    + apply I.
    + apply I.
Qed.

Lemma prun_inv sched : forall s, PInv s -> PInv (prun s sched).
Proof.
  induction sched as [|t rest IH]; intros s I; cbn [Pool.prun]; auto.
  destruct (pstep s t) as [s'|] eqn:E; auto. apply IH. eapply pstep_inv; eauto.
Qed.

(* ------------------------------------------------------------ consequences *)
(* exactly once: every task is started at most once and finished at most once, and only added
   tasks are ever started *)
Lemma exactly_once_lemma s :
  PInv s -> NoDup (starts (p_log s)) /\ NoDup (ends (p_log s)) /\
            (forall t, In t (starts (p_log s)) -> In t (p_added s)) /\
            (forall t, In t (ends (p_log s)) -> In t (starts (p_log s))).
Proof.
  intros I.
  assert (Hnd : NoDup (whereabouts s)).
  { eapply Permutation_NoDup; [apply (P_cons _ I)|]. apply (nodup_app_l _ _ (P_nodup _ I)). }
  unfold whereabouts in Hnd.
  assert (Hbe : NoDup (busy_tasks (p_ws s) ++ ends (p_log s))).
  { apply nodup_app_r in Hnd. apply nodup_app_r in Hnd. exact Hnd. }
  repeat split.
  - eapply Permutation_NoDup; [symmetry; apply (P_started _ I)|exact Hbe].
  - apply nodup_app_r in Hbe. exact Hbe.
  - intros t Ht. eapply Permutation_in; [symmetry; apply (P_cons _ I)|].
    unfold whereabouts. apply in_or_app. right. apply in_or_app. right.
    eapply Permutation_in; [apply (P_started _ I)|exact Ht].
  - intros t Ht. eapply Permutation_in; [symmetry; apply (P_started _ I)|]. apply in_or_app. now right.
Qed.

(* Wait is a barrier: Wait can return only when the counter is 0, and then every task for which
   Submit has got as far as wg.Add(1) — in any submitter — has finished *)
Lemma barrier_lemma s :
  PInv s -> p_wg s = 0 -> Permutation (p_added s) (ends (p_log s)).
Proof.
  intros I Hw. rewrite (P_wg _ I) in Hw.
  assert (H1 : pending_sends (p_subs s) = []) by (apply length_zero_iff_nil; lia).
  assert (H2 : p_queue s = []) by (apply length_zero_iff_nil; lia).
  assert (H3 : busy_tasks (p_ws s) = []) by (apply length_zero_iff_nil; lia).
  rewrite (P_cons _ I). unfold whereabouts. rewrite H1, H2, H3. apply Permutation_refl.
Qed.

Lemma wait_needs_zero s j x rest s' :
  nth_error (p_subs s) j = Some x -> s_ops x = PWait :: rest -> pstep s (TSub j) = Some s' -> p_wg s = 0.
Proof.
  intros Hj Hops H. cbn [Pool.pstep] in H. rewrite Hj, Hops in H.
  destruct (Nat.eqb (p_wg s) 0) eqn:E; [apply Nat.eqb_eq in E; exact E|discriminate].
Qed.

(* a full queue blocks the send, it does not drop the task *)
Lemma full_queue_blocks s j x tk rest :
  nth_error (p_subs s) j = Some x -> s_ops x = PSubmit tk :: rest -> s_adding x = true ->
  qcap <= length (p_queue s) -> pstep s (TSub j) = None.
Proof.
  intros Hj Hops Ha Hfull. cbn [Pool.pstep]. rewrite Hj, Hops, Ha.
  destruct (Nat.ltb (length (p_queue s)) qcap) eqn:E; [apply Nat.ltb_lt in E; lia|reflexivity].
Qed.

(* Close leaks nothing: once closed, every idle worker can leave, and a worker that has left
   stays away; nothing is left to do when the counter is 0 *)
Lemma closed_idle_can_exit s k :
  p_closed s = true -> nth_error (p_ws s) k = Some PIdle -> pstep s (TWrkExit k) <> None.
Proof. intros Hc Hk. cbn [Pool.pstep]. rewrite Hk, Hc. discriminate. Qed.

End PP.
