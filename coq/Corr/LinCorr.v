(* LinCorr.v — correspondence for C13: the scenario is the concurrent history observed on the
   real SharedStore (operations with invocation / response instants of one atomic clock and
   the answers they got); the observation is the linearization order a search on the Go side
   proposes.  Coq validates the witness with the proved checker; when none is proposed and the
   history is small, Coq searches exhaustively itself. *)
From Flyt Require Import Store Lin.

Definition lscen := history.
Definition lobs := list nat.

Definition spec_C13 (H : lscen) (w : lobs) : bool :=
  check_witness H w
  || (match w with
      | [] => if Nat.leb (length H) 7 then lin_search (S (length H)) [] H else false
      | _ => false
      end).
Definition admits_lin (H : lscen) (w : lobs) : bool := true.

Definition lscen_failing (spec : lscen -> lobs -> bool) (cs : list (nat * lscen * lobs)) :=
  filter (fun r => negb (snd (fst (fst r)) && snd (fst r) && snd r))
         (map (fun c => let '(i, s, ob) := c in (i, true, spec s ob, true)) cs).
Definition accepted_s {Sc Ob : Type} (admits : Sc -> Ob -> bool) (cs : list (nat * Sc * Ob)) : list nat :=
  map (fun c => fst (fst c)) (filter (fun c => let '(_, s, ob) := c in admits s ob) cs).
