(* WaitCorr.v — correspondence for C20.  A scenario is an engine scenario (nodes with a retry
   budget and a wait, outcome scripts, and script entries for the waits: "the context is
   cancelled during the wait before attempt k of this node / item") plus the configured waits
   in nanoseconds (inside the engine scenario a wait is only zero or non-zero).  The
   observation is the engine observation (callback trace and outcome of every run) plus clock
   readings: begin and end of every exec callback in trace order, the instant at which the
   harness cancelled the context, the instant at which flyt.Run returned. *)
From Flyt Require Import Base Script FlowTable Engine BatchConc EngineCorr WaitMon.
From Coq Require Export ZArith.
#[local] Open Scope Z_scope.

Record wscen := { ws_es : escen; ws_waits : list (nid * Z) }.
Record wtimes := { wt_execs : list (Z * Z); wt_cancel : option Z; wt_ret : Z }.
Definition wobs := (eobs * list wtimes)%type.

Fixpoint wait_ns (l : list (nid * Z)) (n : nid) : Z :=
  match l with [] => 0 | (k, z) :: rest => if Nat.eqb n k then z else wait_ns rest n end.

(* the exec events of a trace with their clock readings *)
Fixpoint exec_recs (tr : list event) (ts : list (Z * Z)) : option (list trec) :=
  match tr with
  | [] => match ts with [] => Some [] | _ => None end
  | ev :: rest =>
      if is_exec (ev_call ev) then
        match ts with
        | (a, b) :: ts' =>
            match exec_recs rest ts' with
            | Some l => Some ({| tr_ev := ev; tr_t0 := a; tr_t1 := b |} :: l)
            | None => None
            end
        | [] => None
        end
      else exec_recs rest ts
  end.

Definition rec_key (r : trec) : nid * nat :=
  match ev_call (tr_ev r) with CExec n a => (n, item_key a) | c => (call_node c, 0%nat) end.
Definition key_eqb (a b : nid * nat) : bool := Nat.eqb (fst a) (fst b) && Nat.eqb (snd a) (snd b).
Fixpoint keys_of (l : list trec) (acc : list (nid * nat)) : list (nid * nat) :=
  match l with
  | [] => acc
  | r :: rest => if existsb (key_eqb (rec_key r)) acc then keys_of rest acc else keys_of rest (acc ++ [rec_key r])
  end.

(* per node and item: every attempt that follows a failed attempt begins at least the node's
   wait after that attempt ended *)
Definition gaps_ok (waits : list (nid * Z)) (recs : list trec) : bool :=
  forallb (fun k => gaps_from (wait_ns waits (fst k)) None (filter (fun r => key_eqb (rec_key r) k) recs))
          (keys_of recs []).

Definition max_wait (waits : list (nid * Z)) : Z := fold_right (fun p m => Z.max (snd p) m) 0 waits.
(* a run that was cancelled returns promptly: well before the remainder of the wait is over,
   and in any case within five seconds *)
Definition prompt_bound (waits : list (nid * Z)) : Z := Z.min 5000000000 (max_wait waits / 2).
Definition prompt_ok (waits : list (nid * Z)) (t : wtimes) : bool :=
  match wt_cancel t with
  | Some tc => wt_ret t - tc <=? prompt_bound waits
  | None => true
  end.

(* a single node whose wait was interrupted: the run ends with the context's error and the failed
   attempt before that wait is the last callback (no further attempt, no fallback, no post) *)
(* a batch whose context was cancelled: an item whose attempts all failed, fewer than the budget,
   and for which no fallback ran was cut short by the context (stop mode never interrupts an
   item's retries) - its slot is an error matching the context's error *)
Definition find_bpost (tr : list event) : option (list val * list val) :=
  match find (fun e => match ev_call e with CBPost _ _ _ _ => true | _ => false end) tr with
  | Some e => match ev_call e with CBPost _ _ items results => Some (items, results) | _ => None end
  | None => None
  end.
Definition ctx_slot_b (v : val) : bool :=
  match v with VRes _ (Some e) => eclass_eqb (class_of e) KCtx | _ => false end.
Definition batch_cut_ok (c : ucfg) (tr : list event) : bool :=
  match find_bpost tr with
  | None => true
  | Some (items, results) =>
      forallb (fun i =>
                 let t := item_key (nth i items VNil) in
                 let execs := filter (fun e => match ev_call e with CExec _ a => Nat.eqb (item_key a) t | _ => false end) tr in
                 let fbs := filter (fun e => match ev_call e with CFallback _ a _ => Nat.eqb (item_key a) t | _ => false end) tr in
                 match rev execs with
                 | last :: _ =>
                     if ev_failed last && Nat.ltb (length execs) (fst (retry_of c)) && Nat.eqb (length fbs) 0
                     then ctx_slot_b (nth i results VNil) else true
                 | [] => true
                 end)
              (seq 0 (length items))
  end.

(* a single node whose wait was interrupted: the run ends with the context's error and the failed
   attempt before that wait is the last callback (no further attempt, no fallback, no post) *)
Definition interrupted_node_ok (es : escen) (r : erun) (t : wtimes) : bool :=
  match wt_cancel t with
  | None => true
  | Some _ =>
      let '(tr, oc, _) := r in
      match table_of (es_nodes es) (es_root es) with
      | Some (NUser _) =>
          match snd oc with Some e => eclass_eqb (class_of e) KCtx | None => false end
          && match rev (visible tr) with
             | ev :: _ => is_exec (ev_call ev) && ev_failed ev
             | [] => false
             end
      | Some (NBatch c _ _) => batch_cut_ok c tr
      | _ => true
      end
  end.

Definition run_times_ok (sc : wscen) (r : erun) (t : wtimes) : bool :=
  let '(tr, _, _) := r in
  match exec_recs tr (wt_execs t) with
  | Some recs => gaps_ok (ws_waits sc) recs && prompt_ok (ws_waits sc) t && interrupted_node_ok (ws_es sc) r t
  | None => false
  end.

Fixpoint runs_times_ok (sc : wscen) (rs : eobs) (ts : list wtimes) : bool :=
  match rs, ts with
  | [], [] => true
  | r :: rs', t :: ts' => run_times_ok sc r t && runs_times_ok sc rs' ts'
  | _, _ => false
  end.

Definition spec_C20 (sc : wscen) (ob : wobs) : bool :=
  runs_times_ok sc (fst ob) (snd ob).

Definition admits_wait (sc : wscen) (ob : wobs) : bool := admits_engine (ws_es sc) (fst ob).

(* the model's observation with a logical clock: a callback takes no time, a wait that runs to
   its end takes exactly the configured wait, the context is cancelled at the instant the
   interrupted wait began, the run returns at once *)
Fixpoint walk (waits : list (nid * Z)) (tr : list event) (clk : Z) (execs : list (Z * Z)) (canc : option Z)
  : wtimes :=
  match tr with
  | [] => {| wt_execs := execs; wt_cancel := canc; wt_ret := clk |}
  | ev :: rest =>
      match ev_call ev with
      | CExec _ _ => walk waits rest clk (execs ++ [(clk, clk)]) canc
      | CWait n _ _ =>
          if ev_cancel ev then walk waits rest clk execs (Some clk)
          else walk waits rest (clk + wait_ns waits n) execs canc
      | _ => walk waits rest clk execs canc
      end
  end.

Definition model_wobs (waits : list (nid * Z)) (m : list (option (list event * outcome))) : wobs :=
  let ob := eobs_of_model m in
  (ob, map (fun r : erun => let '(tr, _, _) := r in walk waits tr 0 [] None) ob).

Definition wscen_failing (spec : wscen -> wobs -> bool) (cs : list (nat * wscen * wobs)) :=
  failing4 (fun sc => (ws_waits sc, model_obs (ws_es sc)))
           (fun sc m ob => engine_admits_with (ws_es sc) (snd m) (fst ob))
           (fun m => model_wobs (fst m) (snd m))
           spec cs.

Definition accepted_s {Sc Ob : Type} (admits : Sc -> Ob -> bool) (cs : list (nat * Sc * Ob)) : list nat :=
  map (fun c => fst (fst c)) (filter (fun c => let '(_, s, ob) := c in admits s ob) cs).
