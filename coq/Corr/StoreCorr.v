(* StoreCorr.v — correspondence for the store family (C14): a scenario is an operation sequence,
   an observation the list of answers of the implementation in the same vocabulary. *)
From Flyt Require Import Store.

Definition oeqb (a b : option sval) : bool :=
  match a, b with Some x, Some y => Nat.eqb x y | None, None => true | _, _ => false end.
Fixpoint keys_eqb (a b : list key) : bool :=
  match a, b with
  | [], [] => true
  | x :: s, y :: t => Nat.eqb x y && keys_eqb s t
  | _, _ => false
  end.
Fixpoint amap_eqb (a b : amap) : bool :=
  match a, b with
  | [], [] => true
  | (k, v) :: s, (k', v') :: t => Nat.eqb k k' && Nat.eqb v v' && amap_eqb s t
  | _, _ => false
  end.
Definition sret_eqb (a b : sret) : bool :=
  match a, b with
  | RU, RU => true
  | RVal x, RVal y => oeqb x y
  | RB x, RB y => Bool.eqb x y
  | RN x, RN y => Nat.eqb x y
  | RNewKeys r l, RNewKeys r' l' => Nat.eqb r r' && keys_eqb l l'
  | RNewMap r m, RNewMap r' m' => Nat.eqb r r' && amap_eqb m m'
  | RMapIs m, RMapIs m' => amap_eqb m m'
  | RKeysAre l, RKeysAre l' => keys_eqb l l'
  | RBadRef, RBadRef => true
  | _, _ => false
  end.
Fixpoint srets_eqb (a b : list sret) : bool :=
  match a, b with
  | [], [] => true
  | x :: s, y :: t => sret_eqb (canon x) (canon y) && srets_eqb s t
  | _, _ => false
  end.

Definition sscen := list sop.
Definition sobs := list sret.

(* the implementation's answers are those of the heap machine (the Go code's object structure) *)
Definition admits_store (ops : sscen) (ob : sobs) : bool :=
  wf_ops 1 [] ops && srets_eqb (crun cinit ops) ob.
(* C14: the implementation's answers are those of a plain map with separate snapshot values *)
Definition spec_C14 (ops : sscen) (ob : sobs) : bool :=
  if wf_ops 1 [] ops then srets_eqb (drun dinit ops) ob else true.

Definition failing4s {Sc Ob M : Type} (mobs : Sc -> M) (admits : Sc -> M -> Ob -> bool)
           (toobs : M -> Ob) (spec : Sc -> Ob -> bool)
           (cs : list (nat * Sc * Ob)) : list (nat * bool * bool * bool) :=
  filter (fun r => negb (snd (fst (fst r)) && snd (fst r) && snd r))
         (map (fun c => let '(i, s, ob) := c in
                        let m := mobs s in
                        (i, admits s m ob, spec s ob, spec s (toobs m))) cs).
Definition sscen_failing (spec : sscen -> sobs -> bool) (cs : list (nat * sscen * sobs)) :=
  failing4s (fun ops => crun cinit ops) (fun ops m ob => wf_ops 1 [] ops && srets_eqb m ob)
            (fun m => m) spec cs.
Definition accepted_s {Sc Ob : Type} (admits : Sc -> Ob -> bool) (cs : list (nat * Sc * Ob)) : list nat :=
  map (fun c => fst (fst c)) (filter (fun c => let '(_, s, ob) := c in admits s ob) cs).
