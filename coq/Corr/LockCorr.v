(* LockCorr.v — the lock discipline that Model/StoreConc.v assumes, compared with what a scan of the
   SOURCE of the store reports (harness/lockscan.go): every operation of the model holds the
   write lock (is_write) or the read lock for its whole body, and the store has no state besides
   the mutex and the map.  This ties the hypothesis of C13_linearizable / C13_race_free to the
   code on every run, syntactically; a rewrite of the locking that keeps the property can make
   the comparison fail (then the check reports no-failing-input-found). *)
From Flyt Require Import Store Lin StoreConc.
From Coq Require Export String List Bool.
Export ListNotations.
#[local] Open Scope string_scope.

Inductive disc := DW | DR | DNone | DIrregular.
Definition disc_eqb (a b : disc) : bool :=
  match a, b with DW, DW | DR, DR | DNone, DNone | DIrregular, DIrregular => true | _, _ => false end.

Record lockobs := { lo_fields : list string; lo_methods : list (string * disc); lo_scanned : bool }.

(* the model's operations by the name of the Go method *)
Definition model_ops : list (string * lop) :=
  [("Set", LSet 0 0); ("Get", LGet 0); ("Has", LHas 0); ("Delete", LDelete 0); ("Len", LLen);
   ("Keys", LKeys); ("GetAll", LGetAll); ("Merge", LMerge []); ("Clear", LClear)].
(* what sstep true does for an operation: write lock iff is_write *)
Definition model_disc (op : lop) : disc := if is_write op then DW else DR.

Fixpoint lookup (l : list (string * disc)) (n : string) : option disc :=
  match l with [] => None | (m, d) :: t => if String.eqb m n then Some d else lookup t n end.

Definition is_model_op (n : string) : bool := existsb (fun p => String.eqb (fst p) n) model_ops.

Definition admits_locks (_ : nat) (o : lockobs) : bool :=
  lo_scanned o
  (* no state besides the mutex and the map *)
  && forallb (fun f => String.eqb f "mu" || String.eqb f "data") (lo_fields o)
  && existsb (String.eqb "mu") (lo_fields o) && existsb (String.eqb "data") (lo_fields o)
  (* every operation of the model has the model's discipline in the source *)
  && forallb (fun p => match lookup (lo_methods o) (fst p) with
                       | Some d => disc_eqb d (model_disc (snd p))
                       | None => false
                       end) model_ops
  (* every other method of the store goes through those (touches neither the mutex nor the map) *)
  && forallb (fun p => is_model_op (fst p) || disc_eqb (snd p) DNone) (lo_methods o).

(* the property itself is judged on histories (lin family); this part only ties the model's
   hypothesis to the source *)
Definition spec_locks (_ : nat) (_ : lockobs) : bool := true.

Definition lkscen := nat.
Definition lkscen_failing (spec : lkscen -> lockobs -> bool) (cs : list (nat * lkscen * lockobs)) :=
  filter (fun r => negb (snd (fst (fst r)) && snd (fst r) && snd r))
         (map (fun c => let '(i, s, ob) := c in (i, admits_locks s ob, spec s ob, true)) cs).
Definition accepted_s {Sc Ob : Type} (admits : Sc -> Ob -> bool) (cs : list (nat * Sc * Ob)) : list nat :=
  map (fun c => fst (fst c)) (filter (fun c => let '(_, s, ob) := c in admits s ob) cs).
