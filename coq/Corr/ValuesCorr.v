(* ValuesCorr.v — correspondence for the accessor family (C15): a scenario is a Go value (as a
   term of Model/Values.v); the observation is the list of results of every accessor of
   flyt.Result and of the SharedStore applied to it, in the fixed order below. *)
From Flyt Require Import Values Accessors.
#[local] Open Scope Z_scope.

Inductive vres :=
| VNat (n : nat) | VB (b : bool) | VZ (z : Z) | VUnspec | VPanic
| VSl (isnil : bool) (elems : list gval) | VMp (isnil : bool) (id : nat)
| VOpt (o : option gval) | VPair (r : vres) (ok : bool).

Fixpoint gval_eqb (a b : gval) {struct a} : bool :=
  let fix go (l l' : list gval) {struct l} : bool :=
      match l, l' with
      | [], [] => true
      | x :: xs, y :: ys => gval_eqb x y && go xs ys
      | _, _ => false
      end in
  match a, b with
  | GNil, GNil => true
  | GInt k z, GInt k' z' => ikind_eqb k k' && Z.eqb z z'
  | GF32 x, GF32 y | GF64 x, GF64 y => Z.eqb x y
  | GComplex x, GComplex y | GString x, GString y => Nat.eqb x y
  | GBool x, GBool y => Bool.eqb x y
  | GNamed n u, GNamed n' u' => Nat.eqb n n' && gval_eqb u u'
  | GSlice e n l, GSlice e' n' l' => ety_eqb e e' && Bool.eqb n n' && go l l'
  | GArray l, GArray l' => go l l'
  | GMap s n i, GMap s' n' i' => Bool.eqb s s' && Bool.eqb n n' && Nat.eqb i i'
  | GPtr n i, GPtr n' i' | GFunc n i, GFunc n' i' | GChan n i, GChan n' i' => Bool.eqb n n' && Nat.eqb i i'
  | GStruct i l, GStruct i' l' => Nat.eqb i i' && go l l'
  | GPtrTo n t u, GPtrTo n' t' u' => Bool.eqb n n' && Nat.eqb t t' && gval_eqb u u'
  | _, _ => false
  end.
Fixpoint gvals_eqb (l l' : list gval) : bool :=
  match l, l' with
  | [], [] => true
  | x :: xs, y :: ys => gval_eqb x y && gvals_eqb xs ys
  | _, _ => false
  end.

(* a model result m admits an implementation result i; an unspecified conversion admits anything *)
Fixpoint vres_admits (m i : vres) : bool :=
  match m, i with
  | VUnspec, _ => true
  | VNat a, VNat b => Nat.eqb a b
  | VB a, VB b => Bool.eqb a b
  | VZ a, VZ b => Z.eqb a b
  | VPanic, VPanic => true
  | VSl n l, VSl n' l' => Bool.eqb n n' && gvals_eqb l l'
  | VMp n i1, VMp n' i2 => Bool.eqb n n' && Nat.eqb i1 i2
  | VOpt None, VOpt None => true
  | VOpt (Some a), VOpt (Some b) => gval_eqb a b
  | VPair r ok, VPair r' ok' => Bool.eqb ok ok' && vres_admits r r'
  | _, _ => false
  end.
Fixpoint vress_admit (m i : list vres) : bool :=
  match m, i with
  | [], [] => true
  | x :: xs, y :: ys => vres_admits x y && vress_admit xs ys
  | _, _ => false
  end.

Definition of_conv (c : conv Z) : vres := match c with Specified z => VZ z | Unspecified => VUnspec end.
Definition of_outc {A} (f : A -> vres) (o : outc A) : vres := match o with OVal a => f a | OPanic => VPanic end.
Definition of_sl (s : sl) : vres := VSl (fst s) (snd s).
Definition of_mp (m : mp) : vres := VMp (fst m) (snd m).

(* the defaults handed to the Or variants *)
Definition D_STR : nat := 777%nat.
Definition D_INT : Z := 777.
Definition D_F64 : Z := 4620130267728707584.      (* 7.5 *)
Definition D_SL : sl := (false, [GInt KInt 777]).
Definition D_MP : mp := (false, 999%nat).
Definition AS_TYPES : list gtype :=
  [TInt KInt; TString; TF64; TSlice EAny; TMap true; TNamed 1; TPtr; TStruct 2; TInt KUint8].

Definition result_obs (v : gval) : list vres :=
  [ VPair (VNat (fst (as_string v))) (snd (as_string v));
    VNat (as_string_or D_STR v);
    of_outc VNat (must_string v);
    VPair (of_conv (fst (as_int v))) (snd (as_int v));
    of_conv (as_int_or D_INT v);
    of_outc of_conv (must_int v);
    VPair (VZ (fst (as_float64 v))) (snd (as_float64 v));
    VZ (as_float64_or D_F64 v);
    of_outc VZ (must_float64 v);
    VPair (VB (fst (as_bool v))) (snd (as_bool v));
    VB (as_bool_or true v);
    of_outc VB (must_bool v);
    VPair (of_sl (fst (as_slice v))) (snd (as_slice v));
    of_sl (as_slice_or D_SL v);
    of_outc of_sl (must_slice v);
    VPair (of_mp (fst (as_map v))) (snd (as_map v));
    of_mp (as_map_or D_MP v);
    of_outc of_mp (must_map v) ]
  ++ flat_map (fun T => [VPair (VOpt (fst (as_T T v))) (snd (as_T T v));
                         of_outc (fun x => VOpt (Some x)) (must_as_T T v)]) AS_TYPES.

Definition store_obs (o : option gval) : list vres :=
  [ VNat (get_string o); VNat (get_string_or D_STR o);
    of_conv (get_int o); of_conv (get_int_or D_INT o);
    VZ (get_float64 o); VZ (get_float64_or D_F64 o);
    VB (get_bool o); VB (get_bool_or true o);
    of_sl (get_slice o); of_sl (get_slice_or D_SL o);
    of_mp (get_map o); of_mp (get_map_or D_MP o) ].

Definition model_vobs (v : gval) : list vres :=
  result_obs v ++ store_obs (Some v) ++ store_obs None ++ [VSl false (to_slice v)].

Definition vscen := gval.
Definition vobs := list vres.
Definition admits_values (v : vscen) (ob : vobs) : bool := vress_admit (model_vobs v) ob.

(* ---------------------------------------------------------------- C15 on one observation *)
(* judged on the implementation's own results, without the model's:
   positions as in result_obs / store_obs *)
Definition nthv (ob : vobs) (i : nat) : vres := nth i ob VPanic.
Definition not_panic (r : vres) : bool := match r with VPanic => false | _ => true end.
Definition ok_of (r : vres) : bool := match r with VPair _ ok => ok | _ => false end.
Definition val_of (r : vres) : vres := match r with VPair x _ => x | x => x end.
Definition vres_eq (a b : vres) : bool := vres_admits a b && vres_admits b a.

(* one family at positions p (AsX), p+1 (AsXOr d), p+2 (MustX): d the default as a result *)
Definition family_ok (ob : vobs) (p : nat) (d : vres) : bool :=
  let a := nthv ob p in
  not_panic a && not_panic (nthv ob (p + 1))
  && vres_eq (nthv ob (p + 1)) (if ok_of a then val_of a else d)
  && (if ok_of a then vres_eq (nthv ob (p + 2)) (val_of a)
      else match nthv ob (p + 2) with VPanic => true | _ => false end).

Definition RES_LEN : nat := 18 + 2 * length AS_TYPES.

Definition spec_C15 (v : vscen) (ob : vobs) : bool :=
  (* the three variants of every family agree; the non-Must ones never panic *)
  family_ok ob 0 (VNat D_STR) && family_ok ob 3 (VZ D_INT) && family_ok ob 6 (VZ D_F64)
  && family_ok ob 9 (VB true) && family_ok ob 12 (of_sl D_SL) && family_ok ob 15 (of_mp D_MP)
  (* As[T] / MustAs[T] *)
  && forallb (fun j => let a := nthv ob (18 + 2 * j) in
                       not_panic a &&
                       (if ok_of a then vres_eq (nthv ob (19 + 2 * j)) (val_of a)
                        else match nthv ob (19 + 2 * j) with VPanic => true | _ => false end))
             (seq 0 (length AS_TYPES))
  (* the store getter of a present key agrees with the result accessor on the same value *)
  && forallb (fun pq => vres_eq (nthv ob (RES_LEN + fst pq)) (nthv ob (snd pq)) && not_panic (nthv ob (RES_LEN + fst pq)))
             [(1, 1); (3, 4); (5, 7); (7, 10); (9, 13); (11, 16)]%nat
  && forallb (fun q => not_panic (nthv ob (RES_LEN + q))) (seq 0 24)
  (* conversions succeed exactly for the documented source types *)
  && Bool.eqb (ok_of (nthv ob 3)) (match v with
                                   | GInt KUintptr _ => false
                                   | GInt _ _ | GF32 _ | GF64 _ => true
                                   | _ => false end)
  && Bool.eqb (ok_of (nthv ob 6)) (ok_of (nthv ob 3))
  (* the slice accessor succeeds exactly for slice values, with ToSlice's elements *)
  && Bool.eqb (ok_of (nthv ob 12)) (is_slice_kind v)
  && (if ok_of (nthv ob 12)
      then match val_of (nthv ob 12), nthv ob (RES_LEN + 24) with
           | VSl _ l, VSl _ l' => gvals_eqb l l'
           | _, _ => false
           end
      else true)
  && (match nthv ob (RES_LEN + 24) with
      | VSl false l => match v with
                       | GNil => match l with [] => true | _ => false end
                       | _ => if is_slice_kind v then true else gvals_eqb l [v]
                       end
      | _ => false
      end).

Definition vscen_failing (spec : vscen -> vobs -> bool) (cs : list (nat * vscen * vobs)) :=
  filter (fun r => negb (snd (fst (fst r)) && snd (fst r) && snd r))
         (map (fun c => let '(i, s, ob) := c in
                        let m := model_vobs s in
                        (i, vress_admit m ob, spec s ob, spec s m)) cs).
Definition accepted_s {Sc Ob : Type} (admits : Sc -> Ob -> bool) (cs : list (nat * Sc * Ob)) : list nat :=
  map (fun c => fst (fst c)) (filter (fun c => let '(_, s, ob) := c in admits s ob) cs).
