(* ConfigCorr.v — correspondence for C19.  A scenario: a plain or a batch node built from a
   sequence of settings, each passed as a constructor option or applied as a builder call.
   An observation: the four getters, which tagged user function fired in each phase of a probe
   run, and the callback trace of that probe run (judged by the engine model for the
   configuration the settings denote). *)
From Flyt Require Import Base Script FlowTable Engine BatchConc EngineCorr Config.
From Coq Require Import ZArith.

Record cscen := { cs_batch : bool; cs_settings : list (param * form) }.
Record cobs := {
  co_retries : Z; co_wait : Z; co_conc : Z; co_continue : bool;
  co_tags : list (nat * nat);        (* (phase, tag): 0 prep, 1 exec, 2 fallback, 3 post; sorted *)
  co_probe : eobs
}.

(* the configuration the Go constructors and builder methods produce *)
Definition cfg_built (sc : cscen) : cfg :=
  if cs_batch sc then build_batch (cs_settings sc) else build_node (cs_settings sc).
(* the configuration the settings denote: left to right, last one wins *)
Definition cfg_denoted (sc : cscen) : cfg := apply_all (effective (cs_settings sc)) cinit.

(* the probe run: a user node whose exec always fails and whose fallback recovers; a batch of
   four items of which the second always fails *)
Definition probe_items : list val := [VRes (VTok 1) None; VRes (VTok 2) None; VRes (VTok 3) None; VRes (VTok 4) None].
Definition probe_script (batch : bool) : script :=
  if batch then
    [ {| se_key := (0, PhPrep, 0); se_rs := []; se_dflt := (ROk (VSl true probe_items), false) |};
      {| se_key := (0, PhExec, 2); se_rs := []; se_dflt := (RErr (EUser 1), false) |};
      {| se_key := (0, PhExec, 0); se_rs := []; se_dflt := (ROk (VTok 9), false) |};
      {| se_key := (0, PhFb, 0); se_rs := []; se_dflt := (RErr (EUser 2), false) |};
      {| se_key := (0, PhPost, 0); se_rs := []; se_dflt := (RAct 5, false) |} ]
  else
    [ {| se_key := (0, PhPrep, 0); se_rs := []; se_dflt := (ROk (VTok 1), false) |};
      {| se_key := (0, PhExec, 0); se_rs := []; se_dflt := (RErr (EUser 1), false) |};
      {| se_key := (0, PhFb, 0); se_rs := []; se_dflt := (ROk (VTok 8), false) |};
      {| se_key := (0, PhPost, 0); se_rs := []; se_dflt := (RAct 5, false) |} ].

Definition probe_scen (batch : bool) (c : cfg) : escen :=
  {| es_nodes := [(0, if batch then NBatch (ucfg_of c) (conc_of c) (stop_of c) else NUser (ucfg_of c))];
     es_root := 0; es_precancel := false; es_script := probe_script batch; es_runs := 1; es_release := [] |}.

Definition phase_code (c : call) : option nat :=
  match c with
  | CPrep _ _ => Some 0 | CExec _ _ => Some 1 | CFallback _ _ _ => Some 2
  | CPost _ _ _ _ | CBPost _ _ _ _ => Some 3 | _ => None
  end.
Definition phase_fired (ob : eobs) (ph : nat) : bool :=
  existsb (fun r : erun => existsb (fun e => match phase_code (ev_call e) with Some q => Nat.eqb q ph | None => false end)
                                   (fst (fst r))) ob.
Definition tag_of (c : cfg) (ph : nat) : option nat :=
  match ph with
  | 0 => option_map snd (c_prep c) | 1 => option_map snd (c_exec c)
  | 2 => c_fb c | _ => option_map snd (c_post c)
  end.
(* every phase that fired did so through the function the configuration holds for it *)
Definition tags_ok (c : cfg) (probe : eobs) (tags : list (nat * nat)) : bool :=
  forallb (fun ph => if phase_fired probe ph
                     then match tag_of c ph with
                          | Some t => existsb (fun pt => Nat.eqb (fst pt) ph && Nat.eqb (snd pt) t) tags
                                      && forallb (fun pt => negb (Nat.eqb (fst pt) ph) || Nat.eqb (snd pt) t) tags
                          | None => false
                          end
                     else forallb (fun pt => negb (Nat.eqb (fst pt) ph)) tags)
          [0; 1; 2; 3].

Definition getters_ok (c : cfg) (ob : cobs) : bool :=
  Z.eqb (co_retries ob) (get_max_retries c) && Z.eqb (co_wait ob) (get_wait c)
  && Z.eqb (co_conc ob) (get_conc c) && Bool.eqb (co_continue ob) (get_continue c).

Definition judge (c : cfg) (batch : bool) (ob : cobs) : bool :=
  getters_ok c ob
  && runs_admitted (model_obs (probe_scen batch c)) (co_probe ob)
  && tags_ok c (co_probe ob) (co_tags ob).

(* the implementation behaves as the constructors / builder methods are written ... *)
Definition admits_config (sc : cscen) (ob : cobs) : bool := judge (cfg_built sc) (cs_batch sc) ob.
(* ... and as the settings denote: styles equivalent, last setting wins, others untouched, defaults *)
Definition spec_C19 (sc : cscen) (ob : cobs) : bool := judge (cfg_denoted sc) (cs_batch sc) ob.

(* the model's own observation of a scenario *)
Definition model_tags (c : cfg) (probe : eobs) : list (nat * nat) :=
  flat_map (fun ph => if phase_fired probe ph then match tag_of c ph with Some t => [(ph, t)] | None => [] end else [])
           [0; 1; 2; 3].
Definition model_cobs (sc : cscen) : cobs :=
  let c := cfg_built sc in
  let probe := eobs_of_model (model_obs (probe_scen (cs_batch sc) c)) in
  {| co_retries := get_max_retries c; co_wait := get_wait c; co_conc := get_conc c; co_continue := get_continue c;
     co_tags := model_tags c (map (fun r : erun => (visible (fst (fst r)), snd (fst r), snd r)) probe);
     co_probe := map (fun r : erun => (visible (fst (fst r)), snd (fst r), snd r)) probe |}.

Definition cscen_failing (spec : cscen -> cobs -> bool) (cs : list (nat * cscen * cobs)) :=
  filter (fun r => negb (snd (fst (fst r)) && snd (fst r) && snd r))
         (map (fun c => let '(i, s, ob) := c in
                        (i, admits_config s ob, spec s ob, spec s (model_cobs s))) cs).
Definition accepted_s {Sc Ob : Type} (admits : Sc -> Ob -> bool) (cs : list (nat * Sc * Ob)) : list nat :=
  map (fun c => fst (fst c)) (filter (fun c => let '(_, s, ob) := c in admits s ob) cs).
