(* BindCorr.v — correspondence for C16.  A scenario: the value, whether the key is present, the
   destination, and what the reference encoding/json calls did on a clone (the oracle:
   marshal ok?, unmarshal ok?).  An observation, for each of the two Binds: the class of the
   outcome and how the pointee relates to (a) its old contents, (b) the value, (c) the
   reference decode. *)
From Flyt Require Import Values Accessors Bind.

Record bscen := { bs_val : gval; bs_present : bool; bs_dest : bdest; bs_marshal_ok : bool; bs_unmarshal_ok : bool }.

Record bobs1 := {
  bo_class : bclass;
  bo_unchanged : bool;      (* the pointee equals its old contents *)
  bo_is_value : bool;       (* the pointee is the value itself *)
  bo_is_ref : bool;         (* the pointee equals what the reference json.Unmarshal produced *)
  bo_src_same : bool;       (* the source value is untouched *)
  bo_wraps : bool           (* for marshal / unmarshal errors: the error wraps the reference error *)
}.
Definition bobs := (bobs1 * bobs1)%type.   (* Result.Bind, SharedStore.Bind *)

Definition bclass_eqb (a b : bclass) : bool :=
  match a, b with
  | BOk, BOk | BErrNilValue, BErrNilValue | BErrMissing, BErrMissing | BErrNotPtr, BErrNotPtr
  | BErrMarshal, BErrMarshal | BErrUnmarshal, BErrUnmarshal | BPanic, BPanic => true
  | _, _ => false
  end.

(* the oracle of a scenario: the JSON functions as the reference calls behaved; the decoded
   pointee is the abstract token GString 424242 *)
Definition REF_AFTER : gval := GString 424242.
Definition o_marshal (sc : bscen) : gval -> unit + unit := fun _ => if bs_marshal_ok sc then inl tt else inr tt.
Definition o_unmarshal (sc : bscen) : unit -> gtype -> gval -> gval * option unit :=
  fun _ _ _ => (REF_AFTER, if bs_unmarshal_ok sc then None else Some tt).

Definition model_result (sc : bscen) : bclass * beffect :=
  bind_result unit unit (o_marshal sc) (o_unmarshal sc) (bs_val sc) (bs_dest sc).
Definition model_store (sc : bscen) : bclass * beffect :=
  bind_store unit unit (o_marshal sc) (o_unmarshal sc)
             (if bs_present sc then Some (bs_val sc) else None) (bs_dest sc).

Definition effect_ok (e : beffect) (o : bobs1) : bool :=
  match e with
  | EUnchanged => bo_unchanged o
  | ESetTo _ => bo_is_value o
  | EJson _ => bo_is_ref o
  end.
Definition admits1 (m : bclass * beffect) (o : bobs1) : bool :=
  bclass_eqb (fst m) (bo_class o) && effect_ok (snd m) o && bo_src_same o
  && match fst m with BErrMarshal | BErrUnmarshal => bo_wraps o | _ => true end.
Definition admits_bind (sc : bscen) (ob : bobs) : bool :=
  admits1 (model_result sc) (fst ob) && admits1 (model_store sc) (snd ob).

(* C16 on the implementation's own observation *)
Definition not_bpanic (c : bclass) : bool := match c with BPanic => false | _ => true end.
Definition spec_C16 (sc : bscen) (ob : bobs) : bool :=
  let '(r, s) := ob in
  (* never panics, never modifies the source *)
  not_bpanic (bo_class r) && not_bpanic (bo_class s) && bo_src_same r && bo_src_same s
  (* errors (not panics) for a nil value, a missing key, a nil or non-pointer destination, with
     nothing written *)
  && (match bs_val sc with GNil => bclass_eqb (bo_class r) BErrNilValue && bo_unchanged r | _ => true end)
  && (if bs_present sc then true else bclass_eqb (bo_class s) BErrMissing && bo_unchanged s)
  && (match bs_dest sc with
      | BPtr _ _ => true
      | _ => (match bs_val sc with GNil => true | _ => bclass_eqb (bo_class r) BErrNotPtr && bo_unchanged r end)
             && (if bs_present sc then bclass_eqb (bo_class s) BErrNotPtr && bo_unchanged s else true)
      end)
  (* a usable destination: identity for the value's own type, else exactly the JSON round trip *)
  && (match bs_dest sc, bs_val sc with
      | BPtr T _, GNil => true
      | BPtr T _, v =>
          if gtype_eqb (type_of v) T then bclass_eqb (bo_class r) BOk && bo_is_value r
          else if negb (bs_marshal_ok sc) then bclass_eqb (bo_class r) BErrMarshal && bo_unchanged r && bo_wraps r
          else if bs_unmarshal_ok sc then bclass_eqb (bo_class r) BOk && bo_is_ref r
          else bclass_eqb (bo_class r) BErrUnmarshal && bo_is_ref r && bo_wraps r
      | _, _ => true
      end)
  (* store and result agree on every non-nil value *)
  && (match bs_val sc with
      | GNil => true
      | _ => if bs_present sc
             then bclass_eqb (bo_class r) (bo_class s) && Bool.eqb (bo_unchanged r) (bo_unchanged s)
                  && Bool.eqb (bo_is_value r) (bo_is_value s) && Bool.eqb (bo_is_ref r) (bo_is_ref s)
             else true
      end).

(* the model's own observation, for the guard *)
Definition obs_of_model (m : bclass * beffect) : bobs1 :=
  {| bo_class := fst m;
     bo_unchanged := match snd m with EUnchanged => true | _ => false end;
     bo_is_value := match snd m with ESetTo _ => true | _ => false end;
     bo_is_ref := match snd m with EJson _ => true | _ => false end;
     bo_src_same := true; bo_wraps := true |}.
Definition model_bobs (sc : bscen) : bobs := (obs_of_model (model_result sc), obs_of_model (model_store sc)).

Definition bscen_failing (spec : bscen -> bobs -> bool) (cs : list (nat * bscen * bobs)) :=
  filter (fun r => negb (snd (fst (fst r)) && snd (fst r) && snd r))
         (map (fun c => let '(i, s, ob) := c in
                        (i, admits_bind s ob, spec s ob, spec s (model_bobs s))) cs).
Definition accepted_s {Sc Ob : Type} (admits : Sc -> Ob -> bool) (cs : list (nat * Sc * Ob)) : list nat :=
  map (fun c => fst (fst c)) (filter (fun c => let '(_, s, ob) := c in admits s ob) cs).
