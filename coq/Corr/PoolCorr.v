(* PoolCorr.v — correspondence for C12: gated runs of one submitter on a real WorkerPool (every
   task parks inside its function; at each quiescent point the set of running tasks is noted
   and one is released), and free-running multi-submitter stress runs judged by counters. *)
From Flyt Require Import Pool.

Record pscen := { ps_workers : nat; ps_ops : list pop; ps_rel : list taskid }.
Definition pobs := list pev.

Definition model_plog (sc : pscen) : list pev :=
  let w := pool_workers (ps_workers sc) in
  p_log (pgated (2 * w) (4 + 2 * length (ps_ops sc)) (ps_rel sc) (pinit [ps_ops sc] w)).

Fixpoint nats_eqb (a b : list nat) : bool :=
  match a, b with
  | [], [] => true
  | x :: s, y :: t => Nat.eqb x y && nats_eqb s t
  | _, _ => false
  end.
Definition pev_eqb (a b : pev) : bool :=
  match a, b with
  | EvStart x, EvStart y | EvEnd x, EvEnd y | EvWaitReturn x, EvWaitReturn y => Nat.eqb x y
  | EvPark l, EvPark l' => nats_eqb l l'
  | EvSubmitted x, EvSubmitted y => Nat.eqb x y
  | _, _ => false
  end.
Fixpoint pevs_eqb (a b : list pev) : bool :=
  match a, b with
  | [], [] => true
  | x :: s, y :: t => pev_eqb x y && pevs_eqb s t
  | _, _ => false
  end.

(* gated runs log the end of a task (its release) and not its start separately: starts are the
   tasks seen parked *)
Definition visible_p (l : list pev) : list pev :=
  filter (fun e => match e with EvStart _ => false | _ => true end) l.
Definition admits_pool (sc : pscen) (ob : pobs) : bool := pevs_eqb (visible_p (model_plog sc)) ob.

(* C12 on the implementation's own log *)
Fixpoint nodupb (l : list nat) : bool :=
  match l with [] => true | x :: t => negb (existsb (Nat.eqb x) t) && nodupb t end.
Definition submitted (ops : list pop) : list taskid :=
  flat_map (fun o => match o with PSubmit t => [t] | _ => [] end) ops.
(* the tasks submitted before the k-th Wait of the program *)
Fixpoint before_wait (ops : list pop) (k : nat) (acc : list taskid) : list taskid :=
  match ops with
  | [] => acc
  | PSubmit t :: r => before_wait r k (acc ++ [t])
  | PWait :: r => match k with 0 => acc | S k' => before_wait r k' acc end
  | _ :: r => before_wait r k acc
  end.
(* walk the log: every Wait return finds all tasks submitted before it finished *)
Fixpoint waits_ok (ops : list pop) (l : list pev) (ended : list taskid) (k : nat) : bool :=
  match l with
  | [] => true
  | EvEnd t :: r => waits_ok ops r (t :: ended) k
  | EvWaitReturn _ :: r =>
      forallb (fun t => existsb (Nat.eqb t) ended) (before_wait ops k []) && waits_ok ops r ended (S k)
  | _ :: r => waits_ok ops r ended k
  end.
(* submission blocks when the queue is full: at every quiescent point the tasks whose Submit has
   returned and that have not ended fit into the workers and the queue (2 * workers) *)
Fixpoint blocks_ok (w : nat) (l : list pev) (ended : nat) : bool :=
  match l with
  | [] => true
  | EvEnd _ :: r => blocks_ok w r (S ended)
  | EvSubmitted k :: r => Nat.leb (k - ended) (w + 2 * w) && blocks_ok w r ended
  | _ :: r => blocks_ok w r ended
  end.
Definition spec_C12 (sc : pscen) (ob : pobs) : bool :=
  let w := pool_workers (ps_workers sc) in
  nodupb (ends ob)                                                  (* no task runs twice *)
  && forallb (fun t => existsb (Nat.eqb t) (ends ob)) (submitted (ps_ops sc))   (* none is dropped *)
  && forallb (fun t => existsb (Nat.eqb t) (submitted (ps_ops sc))) (ends ob)
  && waits_ok (ps_ops sc) ob [] 0                                   (* Wait is a barrier *)
  && forallb (fun e => match e with EvPark l => Nat.leb (length l) w | _ => true end) ob
  && blocks_ok w ob 0
  && Nat.eqb (length (filter (fun e => match e with EvWaitReturn _ => true | _ => false end) ob))
             (length (filter (fun o => match o with PWait => true | _ => false end) (ps_ops sc))).

Definition pscen_failing (spec : pscen -> pobs -> bool) (cs : list (nat * pscen * pobs)) :=
  filter (fun r => negb (snd (fst (fst r)) && snd (fst r) && snd r))
         (map (fun c => let '(i, s, ob) := c in
                        let m := visible_p (model_plog s) in
                        (i, pevs_eqb m ob, spec s ob, spec s m)) cs).
Definition accepted_s {Sc Ob : Type} (admits : Sc -> Ob -> bool) (cs : list (nat * Sc * Ob)) : list nat :=
  map (fun c => fst (fst c)) (filter (fun c => let '(_, s, ob) := c in admits s ob) cs).

(* free-running stress: what the Go side counted *)
Record pstress := {
  st_tasks : nat; st_once : bool;           (* every task ran exactly once *)
  st_barrier : bool;                         (* after each Wait every task submitted before it had finished, and its plain writes were visible *)
  st_no_panic : bool; st_no_leak : bool;     (* no panic; after Wait + Close no worker goroutine remains *)
  st_max_running : nat; st_workers : nat     (* never more tasks running than workers *)
}.
Definition xscen := nat.
Definition spec_C12_stress (_ : xscen) (o : pstress) : bool :=
  st_once o && st_barrier o && st_no_panic o && st_no_leak o && Nat.leb (st_max_running o) (st_workers o).
Definition xscen_failing (spec : xscen -> pstress -> bool) (cs : list (nat * xscen * pstress)) :=
  filter (fun r => negb (snd (fst (fst r)) && snd (fst r) && snd r))
         (map (fun c => let '(i, s, ob) := c in (i, spec s ob, spec s ob, true)) cs).
