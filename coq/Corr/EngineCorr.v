(* EngineCorr.v — correspondence for the engine family: scenario and observation types,
   the model's observation of a scenario, and the admits_* comparison used by case files. *)
From Flyt Require Import Base Script FlowTable Engine BatchConc.

Record escen := {
  es_nodes : list (nid * ndef);
  es_root : nid;
  es_precancel : bool;
  es_script : script;
  es_runs : nat;
  es_release : list nat   (* gated concurrent batches: release priority of the parked exec calls *)
}.

Inductive runflag := OkRun | Panicked | TimedOut.
Definition erun := (list event * (act * option err) * runflag)%type.
Definition eobs := list erun.

Fixpoint table_of (l : list (nid * ndef)) : table :=
  fun n =>
    match l with
    | [] => None
    | (k, d) :: rest => if Nat.eqb n k then Some d else table_of rest n
    end.

(* concurrent batch nodes run under the gated schedule of Model/BatchConc.v: every exec call
   parks, the parked call that comes first in es_release is released, the rest of the system
   runs to quiescence *)
Definition scen_ok (sc : escen) : bool := true.

Definition FUEL := 48.

Definition model_run (sc : escen) (s : ms) : option (ms * outcome) :=
  run (oracle_of (es_script sc)) (gated_exec (oracle_of (es_script sc)) (es_release sc))
      (table_of (es_nodes sc)) FUEL s (es_root sc).

Definition visible (l : list event) : list event :=
  filter (fun e => negb (is_wait (ev_call e))) l.

Fixpoint model_runs (sc : escen) (k : nat) (s : ms) : list (option (list event * outcome)) :=
  match k with
  | 0 => []
  | S k' =>
      match model_run sc s with
      | None => [None]
      | Some (s', oc) => Some (skipn (length (log s)) (log s'), oc) :: model_runs sc k' s'
      end
  end.

Definition init_ms (sc : escen) : ms := {| log := []; cancelled := es_precancel sc |}.

Definition model_obs (sc : escen) : list (option (list event * outcome)) :=
  model_runs sc (Nat.max 1 (es_runs sc)) (init_ms sc).

Definition impl_outcome_eqb (m : outcome) (i : act * option err) : bool :=
  match m, i with
  | Done a, (b, None) => Nat.eqb a b
  | Fail e, (b, Some f) => Nat.eqb b A_EMPTY && err_sim e f
  | _, _ => false
  end.

Definition run_admitted (m : option (list event * outcome)) (i : erun) : bool :=
  match m, i with
  | Some (tr, oc), (itr, ioc, OkRun) => list_eqb event_eqb (visible tr) itr && impl_outcome_eqb oc ioc
  | _, _ => false
  end.

Fixpoint runs_admitted (m : list (option (list event * outcome))) (i : eobs) : bool :=
  match m, i with
  | [], [] => true
  | x :: xs, y :: ys => run_admitted x y && runs_admitted xs ys
  | _, _ => false
  end.

Definition admits_engine (sc : escen) (ob : eobs) : bool :=
  scen_ok sc && runs_admitted (model_obs sc) ob.

(* the model's observations in the shape of implementation observations (the runs before the
   first one that ran out of fuel); waits are pseudo-events and stay in the model's traces *)
Definition pair_of_outcome (oc : outcome) : act * option err :=
  match oc with Done a => (a, None) | Fail e => (A_EMPTY, Some e) end.
Fixpoint eobs_of_model (m : list (option (list event * outcome))) : eobs :=
  match m with
  | Some (tr, oc) :: rest => (tr, pair_of_outcome oc, OkRun) :: eobs_of_model rest
  | _ => []
  end.

(* case-file plumbing: keep the indices whose verdict is not (true, true) *)
Definition failing {Sc Ob : Type} (admits spec : Sc -> Ob -> bool) (cs : list (nat * Sc * Ob))
  : list (nat * bool * bool) :=
  filter (fun r => negb (snd (fst r) && snd r))
         (map (fun c => let '(i, s, ob) := c in (i, admits s ob, spec s ob)) cs).
(* the same with the predicate also evaluated on the model's own observation: a predicate that
   is false of the model's observation is a defect of the predicate, not of the code.  The
   model's observation is computed once per case. *)
Definition failing4 {Sc Ob M : Type} (mobs : Sc -> M) (admits : Sc -> M -> Ob -> bool)
           (toobs : M -> Ob) (spec : Sc -> Ob -> bool)
           (cs : list (nat * Sc * Ob)) : list (nat * bool * bool * bool) :=
  filter (fun r => negb (snd (fst (fst r)) && snd (fst r) && snd r))
         (map (fun c => let '(i, s, ob) := c in
                        let m := mobs s in
                        (i, admits s m ob, spec s ob, spec s (toobs m))) cs).
Definition engine_admits_with (sc : escen) (m : list (option (list event * outcome))) (ob : eobs) : bool :=
  scen_ok sc && runs_admitted m ob.
Definition engine_failing (spec : escen -> eobs -> bool) (cs : list (nat * escen * eobs)) :=
  failing4 model_obs engine_admits_with eobs_of_model spec cs.
(* negative controls: corrupted observations that must NOT be admitted *)
Definition accepted {Sc Ob : Type} (admits : Sc -> Ob -> bool) (cs : list (nat * Sc * Ob))
  : list nat :=
  map (fun c => fst (fst c)) (filter (fun c => let '(_, s, ob) := c in admits s ob) cs).
