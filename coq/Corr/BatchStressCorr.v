(* BatchStressCorr.v — free-running (ungated) concurrent batches in stop mode.  The run: workers - 1
   items are held inside their exec callback by the harness; the next worker runs an item that
   fails; the harness lets the held items go a fixed time D later (20..60 ms), while the rest of
   the queue - hundreds of thousands of instant items - takes several times D to drain.
   What every schedule allows (C09_stop_skips, C09_stop_flag_permanent, C07_one_worker_per_item):
   until the failure is recorded only the one free worker receives items, in index order, so
   the executed items are the held ones and a prefix of the others ending with the failing item;
   once the failure is recorded the flag is up for good and every item received later is
   skipped.  So, PROVIDED the failure is recorded before the held items are let go (the worker
   is not suspended for more than D between returning from the item's processing and taking
   the mutex - a timing assumption of this part, stated in DESIGN.md 14.5), no executed item has
   a larger index than a skipped one; the check allows workers - 1 of them.  Indices are Z. *)
From Coq Require Export List ZArith Bool.
Export ListNotations.
#[local] Open Scope Z_scope.

Record bstress := {
  bs_n : Z; bs_workers : Z;
  bs_executed : list Z;          (* items for which the exec callback ran (at most 1000 of those above
                                    the smallest skipped one are listed) *)
  bs_skipped : list Z;           (* the smallest item whose slot is the "batch stopped" error, if any *)
  bs_fake : Z;                   (* items that were not executed and whose slot is not an error *)
  bs_wrong : Z;                  (* executed items whose slot is not what their own exec returned *)
  bs_posts : Z;                  (* times the post callback ran *)
  bs_post_len_ok : bool          (* post saw n items and n results *)
}.

Definition min_list (l : list Z) : option Z :=
  match l with [] => None | x :: t => Some (fold_left Z.min t x) end.

Definition inversions (o : bstress) : Z :=
  match min_list (bs_skipped o) with
  | None => 0
  | Some m => Z.of_nat (length (filter (fun y => m <? y) (bs_executed o)))
  end.

Definition bxscen := nat.
Definition spec_C09_stress (_ : bxscen) (o : bstress) : bool :=
  (inversions o <=? bs_workers o - 1)
  && (bs_fake o =? 0) && (bs_wrong o =? 0) && (bs_posts o =? 1) && bs_post_len_ok o.

Definition bxscen_failing (spec : bxscen -> bstress -> bool) (cs : list (nat * bxscen * bstress)) :=
  filter (fun r => negb (snd (fst (fst r)) && snd (fst r) && snd r))
         (map (fun c => let '(i, s, ob) := c in (i, spec s ob, spec s ob, true)) cs).
Definition accepted_s {Sc Ob : Type} (admits : Sc -> Ob -> bool) (cs : list (nat * Sc * Ob)) : list nat :=
  map (fun c => fst (fst c)) (filter (fun c => let '(_, s, ob) := c in admits s ob) cs).
