(* BatchStressCorr.v — free-running (ungated) concurrent batches in stop mode, judged by what
   follows for EVERY schedule from C09_stop_skips (an item that had not passed its stop-flag
   check when the flag went up is never executed), C09_stop_flag_permanent and
   C07_one_worker_per_item: an item that was skipped (slot "batch stopped") was received after
   the flag went up; every item with a larger index was received later still, so it is executed
   only if one of the other workers had already taken it past the check: at most workers - 1
   executed items have a larger index than any skipped item.  Indices are Z (batches of
   thousands of items). *)
From Coq Require Export List ZArith Bool.
Export ListNotations.
#[local] Open Scope Z_scope.

Record bstress := {
  bs_n : Z; bs_workers : Z;
  bs_executed : list Z;          (* items for which the exec callback ran *)
  bs_skipped : list Z;           (* items whose slot is the "batch stopped" error *)
  bs_fake : Z;                   (* items that were not executed and whose slot is not an error *)
  bs_wrong : Z;                  (* executed items whose slot is not what their own exec returned *)
  bs_posts : Z;                  (* times the post callback ran *)
  bs_post_len_ok : bool          (* post saw n items and n results *)
}.

Definition min_list (l : list Z) : option Z :=
  match l with [] => None | x :: t => Some (fold_left Z.min t x) end.

Definition inversions (o : bstress) : Z :=
  match min_list (bs_skipped o) with
  | None => 0
  | Some m => Z.of_nat (length (filter (fun y => m <? y) (bs_executed o)))
  end.

Definition bxscen := nat.
Definition spec_C09_stress (_ : bxscen) (o : bstress) : bool :=
  (inversions o <=? bs_workers o - 1)
  && (bs_fake o =? 0) && (bs_wrong o =? 0) && (bs_posts o =? 1) && bs_post_len_ok o.

Definition bxscen_failing (spec : bxscen -> bstress -> bool) (cs : list (nat * bxscen * bstress)) :=
  filter (fun r => negb (snd (fst (fst r)) && snd (fst r) && snd r))
         (map (fun c => let '(i, s, ob) := c in (i, spec s ob, spec s ob, true)) cs).
Definition accepted_s {Sc Ob : Type} (admits : Sc -> Ob -> bool) (cs : list (nat * Sc * Ob)) : list nat :=
  map (fun c => fst (fst c)) (filter (fun c => let '(_, s, ob) := c in admits s ob) cs).
