(* BatchStressCorr.v — free-running (ungated) concurrent batches in stop mode with TWO workers.
   The run: item 0 blocks inside its exec callback until the harness lets it go; the other
   worker runs items 1, 2, ... of which exactly one (f in 1..3) fails, all others succeed at
   once; the harness lets item 0 go 20..60 ms after the failing call began, while the rest of
   the queue - hundreds of thousands of items - takes several times longer to drain.
   For EVERY schedule of such a run - two workers A and B, exactly one failing item f, no
   cancellation, FIFO queue with one submitter, the flag raised by the worker that ran f right
   after that call and before it receives anything else, and never lowered
   (C09_stop_flag_permanent), one item per worker at a time (C07_one_worker_per_item) -
        an executed item that has a larger index than some skipped item is at most f.
   Argument: let X be skipped and Y > X executed, B the worker that ran f, t the instant the flag
   went up.  check(Y) < t < check(X), and Y was received after X.  If Y was run by the worker
   that received X, that worker checked X before Y: impossible.  So X's worker sat between
   receiving X and checking it from before Y was received until after t, and Y was run by the
   other worker, before t.  If that other worker is B, then Y <= f, because B runs nothing
   between f and t.  If it is A, then X's worker is B, sitting on X across t: but at t B is
   recording f, not sitting on an unchecked item.  (A worker may well sit between receiving
   an item and checking it while the other one runs 1 .. f: then items up to f are executed
   after a skipped one - this happened on a loaded machine and an earlier, stronger claim of
   this file raised a false alarm on it.)
   The check counts the executed items that are larger than the smallest skipped item AND
   larger than f, and allows one.  With the stop flag falling again, almost all of the queue
   is executed after skipped items.  Indices are Z. *)
From Coq Require Export List ZArith Bool.
Export ListNotations.
#[local] Open Scope Z_scope.

Record bstress := {
  bs_n : Z; bs_workers : Z;
  bs_fail : Z;                   (* the one item whose exec fails *)
  bs_executed : list Z;          (* items for which the exec callback ran (at most 1000 of those above
                                    the smallest skipped one are listed) *)
  bs_skipped : list Z;           (* the smallest item whose slot is the "batch stopped" error, if any *)
  bs_fake : Z;                   (* items that were not executed and whose slot is not an error *)
  bs_wrong : Z;                  (* executed items whose slot is not what their own exec returned *)
  bs_posts : Z;                  (* times the post callback ran *)
  bs_post_len_ok : bool          (* post saw n items and n results *)
}.

Definition min_list (l : list Z) : option Z :=
  match l with [] => None | x :: t => Some (fold_left Z.min t x) end.

Definition inversions (o : bstress) : Z :=
  match min_list (bs_skipped o) with
  | None => 0
  | Some m => Z.of_nat (length (filter (fun y => (m <? y) && (bs_fail o <? y)) (bs_executed o)))
  end.

Definition bxscen := nat.
Definition spec_C09_stress (_ : bxscen) (o : bstress) : bool :=
  (inversions o <=? bs_workers o - 1)
  && (bs_fake o =? 0) && (bs_wrong o =? 0) && (bs_posts o =? 1) && bs_post_len_ok o.

Definition bxscen_failing (spec : bxscen -> bstress -> bool) (cs : list (nat * bxscen * bstress)) :=
  filter (fun r => negb (snd (fst (fst r)) && snd (fst r) && snd r))
         (map (fun c => let '(i, s, ob) := c in (i, spec s ob, spec s ob, true)) cs).
Definition accepted_s {Sc Ob : Type} (admits : Sc -> Ob -> bool) (cs : list (nat * Sc * Ob)) : list nat :=
  map (fun c => fst (fst c)) (filter (fun c => let '(_, s, ob) := c in admits s ob) cs).

(* ------------------------------------------------------------ C08: batches do not share workers *)
(* several batches of concurrency c running at the same time, c items each, every exec call
   waiting for all calls of all batches to be inside exec: each batch has c workers of its own
   (C08_usable holds per batch), so the rendezvous completes *)
Record bprobe := { bp_expected : nat; bp_inside : nat; bp_met : bool; bp_returned : bool }.
Definition bpscen := nat.
Definition spec_C08_probe (_ : bpscen) (o : bprobe) : bool :=
  bp_met o && bp_returned o && Nat.eqb (bp_inside o) (bp_expected o).
Definition bpscen_failing (spec : bpscen -> bprobe -> bool) (cs : list (nat * bpscen * bprobe)) :=
  filter (fun r => negb (snd (fst (fst r)) && snd (fst r) && snd r))
         (map (fun c => let '(i, s, ob) := c in (i, spec s ob, spec s ob, true)) cs).
