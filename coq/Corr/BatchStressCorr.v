(* BatchStressCorr.v — free-running (ungated) concurrent batches in stop mode with TWO workers.
   The run: item 0 is held inside its exec callback by the harness; the other worker runs items
   1, 2, ... of which exactly one (f in 1..3) fails, all others succeed at once; the harness lets
   item 0 go 20..60 ms after the failing call began, while the rest of the queue - hundreds of
   thousands of items - takes several times longer to drain.
   For EVERY schedule of such a run - two workers, exactly one failing item f, no cancellation -
   no executed item has a larger index than a skipped one (C09_stop_flag_permanent: the flag,
   once up, stays up; it is raised by the worker that ran f, right after that call and before
   that worker receives anything else; C07_one_worker_per_item; FIFO queue, one submitter).
   Argument: let X be skipped and Y > X executed; A is the worker that received X, so Y, received
   later while A had not yet checked X, was received by the other worker O; check(Y) precedes the
   raising of the flag, check(X) follows it.  X < f is impossible: a worker that receives an
   item below f either runs it with the flag still down, or it was held by item 0 until f's call
   had begun, when everything up to f had been handed out.  X > f: if A ran f, A raised the
   flag before receiving X, so before Y was received, so before check(Y) - contradiction; if O
   ran f, O raised the flag before receiving Y - contradiction.  No timing is assumed (with three
   or more workers a third worker could run Y while two others are suspended at the right
   places, which is why this part uses two).  The check allows one such item all the same.
   Indices are Z. *)
From Coq Require Export List ZArith Bool.
Export ListNotations.
#[local] Open Scope Z_scope.

Record bstress := {
  bs_n : Z; bs_workers : Z;
  bs_executed : list Z;          (* items for which the exec callback ran (at most 1000 of those above
                                    the smallest skipped one are listed) *)
  bs_skipped : list Z;           (* the smallest item whose slot is the "batch stopped" error, if any *)
  bs_fake : Z;                   (* items that were not executed and whose slot is not an error *)
  bs_wrong : Z;                  (* executed items whose slot is not what their own exec returned *)
  bs_posts : Z;                  (* times the post callback ran *)
  bs_post_len_ok : bool          (* post saw n items and n results *)
}.

Definition min_list (l : list Z) : option Z :=
  match l with [] => None | x :: t => Some (fold_left Z.min t x) end.

Definition inversions (o : bstress) : Z :=
  match min_list (bs_skipped o) with
  | None => 0
  | Some m => Z.of_nat (length (filter (fun y => m <? y) (bs_executed o)))
  end.

Definition bxscen := nat.
Definition spec_C09_stress (_ : bxscen) (o : bstress) : bool :=
  (inversions o <=? bs_workers o - 1)
  && (bs_fake o =? 0) && (bs_wrong o =? 0) && (bs_posts o =? 1) && bs_post_len_ok o.

Definition bxscen_failing (spec : bxscen -> bstress -> bool) (cs : list (nat * bxscen * bstress)) :=
  filter (fun r => negb (snd (fst (fst r)) && snd (fst r) && snd r))
         (map (fun c => let '(i, s, ob) := c in (i, spec s ob, spec s ob, true)) cs).
Definition accepted_s {Sc Ob : Type} (admits : Sc -> Ob -> bool) (cs : list (nat * Sc * Ob)) : list nat :=
  map (fun c => fst (fst c)) (filter (fun c => let '(_, s, ob) := c in admits s ob) cs).
