(* Flatten.v — the flattened state machine of a hierarchy of flows (spec side of C03 and C10).
   A state is a stack of frames (flow, member currently executing in that flow), innermost
   first, plus the leaf about to be visited.  Entering a flow pushes its start node (and
   descends until a leaf is reached); when a leaf finishes with action a, the innermost flow
   is asked for the node most recently connected to (member, a): if there is one it is
   entered, otherwise that flow ends and presents the same action a to its parent, which is
   asked in turn.  The machine reads the visit tokens of a callback trace and needs no
   oracle, no store and no recursion over the hierarchy. *)
From Flyt Require Import Base FlowTable Engine.

Inductive token :=
| TStart (n : nid)                  (* prep of node n: a visit of n starts *)
| TEnd (n : nid) (r : option act).  (* post of node n returned: Some (normalised action) or failure *)

Definition tok_of (e : event) : list token :=
  match ev_call e with
  | CPrep n _ => [TStart n]
  | CPost n _ _ _ | CBPost n _ _ _ =>
      [TEnd n (match ret_act (ev_resp e) with inl a => Some (norm_act a) | inr _ => None end)]
  | _ => []
  end.
Definition tokens (evs : list event) : list token := flat_map tok_of evs.

Definition frame := (nid * nid)%type.       (* (flow, member) *)
Definition stack := list frame.

Inductive astate :=
| AAt (leaf : nid) (stk : stack)    (* leaf is about to be visited *)
| AIn (leaf : nid) (stk : stack)    (* inside the visit of leaf, before its post *)
| AFin (a : act)                    (* the root finished presenting action a *)
| AFail                             (* a post phase failed *)
| ANoStart                          (* a flow without start node (or an unknown node) was reached *)
| AStuck                            (* depth fuel exhausted *)
| AReject.                          (* the trace is not a path of the machine *)

Section Flat.
Variable tbl : table.

(* about to run node n in context stk: descend through start nodes to a leaf *)
Fixpoint enter (d : nat) (n : nid) (stk : stack) : astate :=
  match d with
  | 0 => AStuck
  | S d' =>
      match tbl n with
      | Some (NFlow (Some st) _) => enter d' st ((n, st) :: stk)
      | Some (NFlow None _) => ANoStart
      | Some _ => AAt n stk
      | None => ANoStart
      end
  end.

(* the member on top of stk finished with action a *)
Fixpoint advance (d : nat) (stk : stack) (a : act) : astate :=
  match stk with
  | [] => AFin a
  | (f, n) :: rest =>
      match tbl f with
      | Some (NFlow _ conns) =>
          match last_conn conns n a with
          | Some (Some nxt) => enter d nxt ((f, nxt) :: rest)
          | _ => advance d rest a        (* flow f ends and presents a to its parent *)
          end
      | _ => AReject
      end
  end.

Definition astep (d : nat) (st : astate) (t : token) : astate :=
  match st, t with
  | AAt leaf stk, TStart n => if Nat.eqb n leaf then AIn leaf stk else AReject
  | AIn leaf stk, TEnd n (Some a) => if Nat.eqb n leaf then advance d stk a else AReject
  | AIn leaf stk, TEnd n None => if Nat.eqb n leaf then AFail else AReject
  | _, _ => AReject
  end.

Definition arun (d : nat) (st : astate) (ts : list token) : astate := fold_left (astep d) ts st.

(* does the final state of the machine agree with the outcome of the run? *)
Definition afinal (st : astate) (oc : outcome) : bool :=
  match st, oc with
  | AFin a, Done b => Nat.eqb a b
  | AIn _ _, Fail _ => true              (* the visit failed before its post *)
  | AFail, Fail _ => true
  | ANoStart, Fail e => eclass_eqb (class_of e) KFw
  | _, _ => false
  end.

Definition afailed (st : astate) : Prop :=
  match st with AIn _ _ | AFail => True | _ => False end.

End Flat.

(* leaves whose visits are visible in the callback trace: a prep and a post of their own *)
Definition vis_def (d : ndef) : bool :=
  match d with
  | NUser c => has_prep c && has_post c
  | NBatch c _ _ => has_prep c && match u_post c with FBatch => true | _ => false end
  | NFlow _ _ => true
  end.
