(* Accessors.v — the typed accessors of flyt.Result (result.go:32-279, 381-402) and of the
   SharedStore (flyt.go:163-364), function by function.  The result side and the store side
   are separate definitions because the Go code has two copies of each type switch.
   No proofs in this file. *)
From Flyt Require Import Values.
#[local] Open Scope Z_scope.

Inductive outc (A : Type) := OVal (a : A) | OPanic.
Arguments OVal {A} a.
Arguments OPanic {A}.

(* dynamic types, for the generic As[T] *)
Inductive gtype :=
| TNone | TInt (k : ikind) | TF32 | TF64 | TComplex | TString | TBool | TNamed (name : nat)
| TSlice (e : ety) | TArray (n : nat) | TMap (str_any : bool) | TPtr | TFunc | TChan | TStruct (id : nat)
| TIface
| TPtrTo (tid : nat).                      (* an interface type (only as the element type of a Bind destination) *)

Definition type_of (v : gval) : gtype :=
  match v with
  | GNil => TNone
  | GInt k _ => TInt k
  | GF32 _ => TF32
  | GF64 _ => TF64
  | GComplex _ => TComplex
  | GString _ => TString
  | GBool _ => TBool
  | GNamed n _ => TNamed n
  | GSlice e _ _ => TSlice e
  | GArray l => TArray (length l)
  | GMap b _ _ => TMap b
  | GPtr _ _ => TPtr
  | GPtrTo _ tid _ => TPtrTo tid
  | GFunc _ _ => TFunc
  | GChan _ _ => TChan
  | GStruct id _ => TStruct id
  end.

Definition ikind_eqb (a b : ikind) : bool :=
  match a, b with
  | KInt, KInt | KInt8, KInt8 | KInt16, KInt16 | KInt32, KInt32 | KInt64, KInt64
  | KUint, KUint | KUint8, KUint8 | KUint16, KUint16 | KUint32, KUint32 | KUint64, KUint64
  | KUintptr, KUintptr => true
  | _, _ => false
  end.
Definition ety_eqb (a b : ety) : bool :=
  match a, b with
  | EAny, EAny | EString, EString | EInt, EInt | EFloat64, EFloat64 | EMapStrAny, EMapStrAny => true
  | EOther x, EOther y => Nat.eqb x y
  | _, _ => false
  end.
Definition gtype_eqb (a b : gtype) : bool :=
  match a, b with
  | TNone, TNone | TF32, TF32 | TF64, TF64 | TComplex, TComplex | TString, TString | TBool, TBool
  | TPtr, TPtr | TFunc, TFunc | TChan, TChan | TIface, TIface => true
  | TInt k, TInt k' => ikind_eqb k k'
  | TNamed x, TNamed y => Nat.eqb x y
  | TSlice e, TSlice e' => ety_eqb e e'
  | TArray n, TArray m => Nat.eqb n m
  | TMap b, TMap b' => Bool.eqb b b'
  | TStruct x, TStruct y => Nat.eqb x y
  | TPtrTo x, TPtrTo y => Nat.eqb x y
  | _, _ => false
  end.

(* ================================================================ Result (result.go) *)
(* r.value is the argument; strings are identifiers, 0 = "" *)

(* AsString, result.go:32-39 *)
Definition as_string (v : gval) : nat * bool :=
  match v with GString s => (s, true) | _ => (0%nat, false) end.
Definition as_string_or (d : nat) (v : gval) : nat :=
  let '(s, ok) := as_string v in if ok then s else d.
Definition must_string (v : gval) : outc nat :=
  let '(s, ok) := as_string v in if ok then OVal s else OPanic.

(* AsInt, result.go:65-100: the twelve documented source types *)
Definition as_int (v : gval) : conv Z * bool :=
  match v with
  | GInt KInt z | GInt KInt8 z | GInt KInt16 z | GInt KInt32 z | GInt KInt64 z
  | GInt KUint z | GInt KUint8 z | GInt KUint16 z | GInt KUint32 z | GInt KUint64 z =>
      (Specified (wrap_int64 z), true)
  | GF32 b => (trunc_fl (decode32 b), true)
  | GF64 b => (trunc_fl (decode64 b), true)
  | _ => (Specified 0, false)
  end.
Definition as_int_or (d : Z) (v : gval) : conv Z :=
  let '(i, ok) := as_int v in if ok then i else Specified d.
Definition must_int (v : gval) : outc (conv Z) :=
  let '(i, ok) := as_int v in if ok then OVal i else OPanic.

(* AsFloat64, result.go:121-156 (result as a bit pattern) *)
Definition as_float64 (v : gval) : Z * bool :=
  match v with
  | GF64 b => (b, true)
  | GF32 b => (f64_of_f32 b, true)
  | GInt KInt z | GInt KInt8 z | GInt KInt16 z | GInt KInt32 z | GInt KInt64 z
  | GInt KUint z | GInt KUint8 z | GInt KUint16 z | GInt KUint32 z | GInt KUint64 z =>
      (f64_of_Z z, true)
  | _ => (0, false)
  end.
Definition as_float64_or (d : Z) (v : gval) : Z :=
  let '(f, ok) := as_float64 v in if ok then f else d.
Definition must_float64 (v : gval) : outc Z :=
  let '(f, ok) := as_float64 v in if ok then OVal f else OPanic.

(* AsBool, result.go:177-183 *)
Definition as_bool (v : gval) : bool * bool :=
  match v with GBool b => (b, true) | _ => (false, false) end.
Definition as_bool_or (d : bool) (v : gval) : bool :=
  let '(b, ok) := as_bool v in if ok then b else d.
Definition must_bool (v : gval) : outc bool :=
  let '(b, ok) := as_bool v in if ok then OVal b else OPanic.

(* a []any result: is it the nil slice, and its elements *)
Definition sl := (bool * list gval)%type.
Definition sl_nil : sl := (true, []).

(* AsSlice, result.go:211-225: nil -> no; a []any is returned as it is; otherwise the kind
   decides, and ToSlice converts *)
Definition as_slice (v : gval) : sl * bool :=
  match v with
  | GNil => (sl_nil, false)
  | GSlice EAny isnil elems => ((isnil, elems), true)
  | _ => if is_slice_kind v then ((false, to_slice v), true) else (sl_nil, false)
  end.
Definition as_slice_or (d : sl) (v : gval) : sl :=
  let '(s, ok) := as_slice v in if ok then s else d.
Definition must_slice (v : gval) : outc sl :=
  let '(s, ok) := as_slice v in if ok then OVal s else OPanic.

(* AsMap, result.go:245-251: exactly map[string]any *)
Definition mp := (bool * nat)%type.     (* is it the nil map, and its identity *)
Definition mp_nil : mp := (true, 0%nat).
Definition as_map (v : gval) : mp * bool :=
  match v with GMap true isnil id => ((isnil, id), true) | _ => (mp_nil, false) end.
Definition as_map_or (d : mp) (v : gval) : mp :=
  let '(m, ok) := as_map v in if ok then m else d.
Definition must_map (v : gval) : outc mp :=
  let '(m, ok) := as_map v in if ok then OVal m else OPanic.

(* As[T], result.go:381-388, for a concrete (non-interface) type T *)
Definition as_T (T : gtype) (v : gval) : option gval * bool :=
  match v with
  | GNil => (None, false)
  | _ => if gtype_eqb (type_of v) T then (Some v, true) else (None, false)
  end.
Definition must_as_T (T : gtype) (v : gval) : outc gval :=
  match as_T T v with (Some x, true) => OVal x | _ => OPanic end.

(* ================================================================ SharedStore (flyt.go) *)
(* the argument is what Get(key) returned: None = the key is missing *)

(* GetString, flyt.go:165-172 / GetStringOr, flyt.go:177-187 *)
Definition get_string (o : option gval) : nat :=
  match o with
  | None => 0%nat
  | Some v => match v with GString s => s | _ => 0%nat end
  end.
Definition get_string_or (d : nat) (o : option gval) : nat :=
  match o with
  | None => d
  | Some v => match v with GString s => s | _ => d end
  end.

(* GetIntOr, flyt.go:202-237 *)
Definition get_int_or (d : Z) (o : option gval) : conv Z :=
  match o with
  | None => Specified d
  | Some v =>
      match v with
      | GInt KInt z => Specified (wrap_int64 z)
      | GInt KInt8 z => Specified (wrap_int64 z)
      | GInt KInt16 z => Specified (wrap_int64 z)
      | GInt KInt32 z => Specified (wrap_int64 z)
      | GInt KInt64 z => Specified (wrap_int64 z)
      | GInt KUint z => Specified (wrap_int64 z)
      | GInt KUint8 z => Specified (wrap_int64 z)
      | GInt KUint16 z => Specified (wrap_int64 z)
      | GInt KUint32 z => Specified (wrap_int64 z)
      | GInt KUint64 z => Specified (wrap_int64 z)
      | GF32 b => trunc_fl (decode32 b)
      | GF64 b => trunc_fl (decode64 b)
      | _ => Specified d
      end
  end.
Definition get_int (o : option gval) : conv Z := get_int_or 0 o.

(* GetFloat64Or, flyt.go:251-284 *)
Definition get_float64_or (d : Z) (o : option gval) : Z :=
  match o with
  | None => d
  | Some v =>
      match v with
      | GF64 b => b
      | GF32 b => f64_of_f32 b
      | GInt KInt z => f64_of_Z z
      | GInt KInt8 z => f64_of_Z z
      | GInt KInt16 z => f64_of_Z z
      | GInt KInt32 z => f64_of_Z z
      | GInt KInt64 z => f64_of_Z z
      | GInt KUint z => f64_of_Z z
      | GInt KUint8 z => f64_of_Z z
      | GInt KUint16 z => f64_of_Z z
      | GInt KUint32 z => f64_of_Z z
      | GInt KUint64 z => f64_of_Z z
      | _ => d
      end
  end.
Definition get_float64 (o : option gval) : Z := get_float64_or 0 o.

(* GetBoolOr, flyt.go:296-306 *)
Definition get_bool_or (d : bool) (o : option gval) : bool :=
  match o with
  | None => d
  | Some v => match v with GBool b => b | _ => d end
  end.
Definition get_bool (o : option gval) : bool := get_bool_or false o.

(* GetSliceOr, flyt.go:319-342 *)
Definition get_slice_or (d : sl) (o : option gval) : sl :=
  match o with
  | None => d
  | Some v =>
      match v with
      | GNil => d
      | GSlice EAny isnil elems => (isnil, elems)
      | _ => if is_slice_kind v then (false, to_slice v) else d
      end
  end.
Definition get_slice (o : option gval) : sl := get_slice_or sl_nil o.

(* GetMapOr, flyt.go:353-363 *)
Definition get_map_or (d : mp) (o : option gval) : mp :=
  match o with
  | None => d
  | Some v => match v with GMap true isnil id => (isnil, id) | _ => d end
  end.
Definition get_map (o : option gval) : mp := get_map_or mp_nil o.

(* ================================================================ the pinned slice test *)
(* The pinned tree decided "was it a slice" by comparing ToSlice(v)[0] with v as interface
   values: that panics for non-comparable dynamic types and misfires for NaN.  Kept here as
   the mechanism-sensitivity witness (Proofs/ValuesProofs.v). *)
Fixpoint comparable (v : gval) : bool :=
  match v with
  | GSlice _ _ _ | GMap _ _ _ | GFunc _ _ => false
  | GNamed _ u => comparable u
  | GArray l => forallb comparable l
  | GStruct _ l => forallb comparable l
  | _ => true
  end.
Definition is_nan (v : gval) : bool :=
  match v with
  | GF64 b => match decode64 b with FNaN => true | _ => false end
  | GF32 b => match decode32 b with FNaN => true | _ => false end
  | _ => false
  end.
Definition as_slice_pinned (v : gval) : outc (sl * bool) :=
  match v with
  | GNil => OVal (sl_nil, false)
  | GSlice EAny isnil elems => OVal ((isnil, elems), true)
  | _ =>
      if is_slice_kind v then OVal ((false, to_slice v), true)
      else if negb (comparable v) then OPanic            (* result[0] == r.value panics *)
      else if is_nan v then OVal ((false, [v]), true)      (* NaN != NaN: taken for a slice *)
      else OVal (sl_nil, false)
  end.
