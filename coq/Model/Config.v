(* Config.v — node configuration (flyt.go:494-602, 1187-1384; builder.go:47-140; batch.go:58-153):
   the configuration record, every option function and every builder method as its own setter
   (two separate definitions, as in the Go code), NewNode's partition of its options into base
   and custom ones, NewBatchNode's filter, the getters with their defaults, the pool size.
   No proofs in this file. *)
From Flyt Require Import Base Engine.
From Coq Require Export ZArith.

Inductive param :=
| PMaxRetries (n : Z)
| PWait (d : Z)
| PConc (c : Z)
| PErrH (cont : bool)               (* WithBatchErrorHandling(continueOnError) *)
| PPrep (st : fstyle) (tag : nat)   (* WithPrepFunc / WithPrepFuncAny / batch WithPrepFunc *)
| PExec (st : fstyle) (tag : nat)
| PPost (st : fstyle) (tag : nat)
| PFb (tag : nat).

Inductive form := FOpt | FBld.

Record cfg := {
  c_retries : Z; c_wait : Z; c_conc : Z;
  c_errh : option bool;             (* None: the field is "", Some true: "continue", Some false: "stop" *)
  c_prep : option (fstyle * nat); c_exec : option (fstyle * nat); c_post : option (fstyle * nat);
  c_fb : option nat
}.

(* NewBaseNode(): maxRetries 1, wait 0, no batch settings; no functions *)
Definition cinit : cfg :=
  {| c_retries := 1%Z; c_wait := 0%Z; c_conc := 0%Z; c_errh := None;
     c_prep := None; c_exec := None; c_post := None; c_fb := None |}.

(* the option functions (flyt.go:494-567 on *BaseNode; flyt.go:1237-1384 on *CustomNode) *)
Definition apply_opt (p : param) (c : cfg) : cfg :=
  match p with
  | PMaxRetries n => {| c_retries := n; c_wait := c_wait c; c_conc := c_conc c; c_errh := c_errh c;
                        c_prep := c_prep c; c_exec := c_exec c; c_post := c_post c; c_fb := c_fb c |}
  | PWait d => {| c_retries := c_retries c; c_wait := d; c_conc := c_conc c; c_errh := c_errh c;
                  c_prep := c_prep c; c_exec := c_exec c; c_post := c_post c; c_fb := c_fb c |}
  | PConc k => {| c_retries := c_retries c; c_wait := c_wait c; c_conc := k; c_errh := c_errh c;
                  c_prep := c_prep c; c_exec := c_exec c; c_post := c_post c; c_fb := c_fb c |}
  | PErrH b => {| c_retries := c_retries c; c_wait := c_wait c; c_conc := c_conc c;
                  c_errh := (if b then Some true else Some false);
                  c_prep := c_prep c; c_exec := c_exec c; c_post := c_post c; c_fb := c_fb c |}
  | PPrep st t => {| c_retries := c_retries c; c_wait := c_wait c; c_conc := c_conc c; c_errh := c_errh c;
                     c_prep := Some (st, t); c_exec := c_exec c; c_post := c_post c; c_fb := c_fb c |}
  | PExec st t => {| c_retries := c_retries c; c_wait := c_wait c; c_conc := c_conc c; c_errh := c_errh c;
                     c_prep := c_prep c; c_exec := Some (st, t); c_post := c_post c; c_fb := c_fb c |}
  | PPost st t => {| c_retries := c_retries c; c_wait := c_wait c; c_conc := c_conc c; c_errh := c_errh c;
                     c_prep := c_prep c; c_exec := c_exec c; c_post := Some (st, t); c_fb := c_fb c |}
  | PFb t => {| c_retries := c_retries c; c_wait := c_wait c; c_conc := c_conc c; c_errh := c_errh c;
                c_prep := c_prep c; c_exec := c_exec c; c_post := c_post c; c_fb := Some t |}
  end.

(* the builder methods (builder.go:47-140, batch.go:88-153): WithMaxRetries / WithWait call the
   option function; the batch settings and the function setters write the fields directly *)
Definition apply_bld (p : param) (c : cfg) : cfg :=
  match p with
  | PMaxRetries n => apply_opt (PMaxRetries n) c
  | PWait d => apply_opt (PWait d) c
  | PConc k => {| c_retries := c_retries c; c_wait := c_wait c; c_conc := k; c_errh := c_errh c;
                  c_prep := c_prep c; c_exec := c_exec c; c_post := c_post c; c_fb := c_fb c |}
  | PErrH b => if b
               then {| c_retries := c_retries c; c_wait := c_wait c; c_conc := c_conc c; c_errh := Some true;
                       c_prep := c_prep c; c_exec := c_exec c; c_post := c_post c; c_fb := c_fb c |}
               else {| c_retries := c_retries c; c_wait := c_wait c; c_conc := c_conc c; c_errh := Some false;
                       c_prep := c_prep c; c_exec := c_exec c; c_post := c_post c; c_fb := c_fb c |}
  | PPrep st t => {| c_retries := c_retries c; c_wait := c_wait c; c_conc := c_conc c; c_errh := c_errh c;
                     c_prep := Some (st, t); c_exec := c_exec c; c_post := c_post c; c_fb := c_fb c |}
  | PExec st t => {| c_retries := c_retries c; c_wait := c_wait c; c_conc := c_conc c; c_errh := c_errh c;
                     c_prep := c_prep c; c_exec := Some (st, t); c_post := c_post c; c_fb := c_fb c |}
  | PPost st t => {| c_retries := c_retries c; c_wait := c_wait c; c_conc := c_conc c; c_errh := c_errh c;
                     c_prep := c_prep c; c_exec := c_exec c; c_post := Some (st, t); c_fb := c_fb c |}
  | PFb t => {| c_retries := c_retries c; c_wait := c_wait c; c_conc := c_conc c; c_errh := c_errh c;
                c_prep := c_prep c; c_exec := c_exec c; c_post := c_post c; c_fb := Some t |}
  end.

Definition is_base (p : param) : bool :=
  match p with PMaxRetries _ | PWait _ | PConc _ | PErrH _ => true | _ => false end.

(* NewNode(opts...): all base options are applied first, then all custom options (flyt.go:1187-1220) *)
Definition new_node (opts : list param) : cfg :=
  fold_left (fun c p => apply_opt p c) (filter (fun p => negb (is_base p)) opts)
            (fold_left (fun c p => apply_opt p c) (filter is_base opts) cinit).

(* NewBatchNode(opts...): base options only (batch.go:58-86) *)
Definition new_batch_node (opts : list param) : cfg :=
  fold_left (fun c p => apply_opt p c) (filter is_base opts) cinit.

Definition opts_of (l : list (param * form)) : list param :=
  map fst (filter (fun pf => match snd pf with FOpt => true | FBld => false end) l).
Definition blds_of (l : list (param * form)) : list param :=
  map fst (filter (fun pf => match snd pf with FBld => true | FOpt => false end) l).

(* NewNode(options...).WithX(...).WithY(...) *)
Definition build_node (l : list (param * form)) : cfg :=
  fold_left (fun c p => apply_bld p c) (blds_of l) (new_node (opts_of l)).
Definition build_batch (l : list (param * form)) : cfg :=
  fold_left (fun c p => apply_bld p c) (blds_of l) (new_batch_node (opts_of l)).

(* the settings in the order in which they take effect: constructor options, then builder calls *)
Definition effective (l : list (param * form)) : list param := opts_of l ++ blds_of l.
Definition apply_all (ps : list param) (c : cfg) : cfg := fold_left (fun c p => apply_opt p c) ps c.

(* getters (flyt.go:571-602) *)
Definition get_max_retries (c : cfg) : Z := c_retries c.
Definition get_wait (c : cfg) : Z := c_wait c.
Definition get_conc (c : cfg) : Z := c_conc c.
Definition get_continue (c : cfg) : bool := match c_errh c with Some b => b | None => true end.

(* NewWorkerPool(workers): <= 0 means 1 (flyt.go:950-953) *)
Definition pool_size (w : Z) : Z := if (w <=? 0)%Z then 1%Z else w.

(* what the engine reads of a configuration *)
Definition fb_of (c : cfg) : fbkind := match c_fb c with Some _ => FbUser | None => FbDefault end.
Definition style_of (o : option (fstyle * nat)) : fstyle := match o with Some (st, _) => st | None => FAbsent end.
Definition ucfg_of (c : cfg) : ucfg :=
  {| u_retry := Some (Z.to_nat (c_retries c), Z.to_nat (c_wait c)); u_fb := fb_of c;
     u_prep := style_of (c_prep c); u_exec := style_of (c_exec c); u_post := style_of (c_post c) |}.
Definition conc_of (c : cfg) : nat := Z.to_nat (c_conc c).
Definition stop_of (c : cfg) : bool := negb (get_continue c).
