(* Engine.v — executable model of flyt.Run (flyt.go:681-761), Flow.Prep/Exec/Post
   (flyt.go:856-915), CustomNode/NodeBuilder/BatchNode phase delegation
   (flyt.go:1117-1164, builder.go:17-45, batch.go:34-51), runBatch, runBatchSequential and
   runExecWithRetries (batch.go:156-255, 304-344), written statement by statement after the Go.
   No proofs in this file. *)
From Flyt Require Import Base FlowTable.

(* how a phase of a node reaches user code *)
Inductive fstyle :=
| FAbsent     (* no user function: BaseNode default *)
| FDirect     (* a method of the user's own Node implementation *)
| FRes        (* CustomNode function taking/returning flyt.Result *)
| FAny        (* CustomNode function in Any style (through the adapter closures) *)
| FBatch.     (* BatchNode batchPrepFunc / batchPostFunc *)

Inductive fbkind :=
| FbNone      (* node does not implement FallbackNode *)
| FbDefault   (* BaseNode.ExecFallback: returns (nil, err) *)
| FbUser.     (* user fallback *)

Record ucfg := {
  u_retry : option (nat * nat);   (* Some (GetMaxRetries, GetWait) iff the node is a RetryableNode *)
  u_fb : fbkind;
  u_prep : fstyle;
  u_exec : fstyle;
  u_post : fstyle
}.

Inductive ndef :=
| NUser (c : ucfg)
| NFlow (start : option nid) (conns : list conn)
| NBatch (c : ucfg) (conc : nat) (stop : bool).

Definition table := nid -> option ndef.

Definition F_UNKNOWN_NODE := 9.

(* result of the retry loop of Run: aborted by the context, or (execResult, execErr) *)
Inductive ares := AAbort (e : err) | ARes (r : val + err).

Section Engine.
Variable o : oracle.
(* the concurrent batch executor (runBatchConcurrent), modelled in BatchConc.v:
   cfg, concurrency, stop mode, node, state, items -> state, result slots *)
Variable conc_exec : ucfg -> nat -> bool -> nid -> ms -> list val -> ms * list val.

(* ------------------------------------------------------------ phase delegation *)
Definition ret_val (r : resp) : val + err :=
  match r with ROk v => inl v | RErr e => inr e | RAct a => inl (VAct a) end.
Definition ret_act (r : resp) : act + err :=
  match r with RAct a => inl a | RErr e => inr e | ROk _ => inl A_EMPTY end.
Definition map_inl {A B E} (f : A -> B) (x : A + E) : B + E :=
  match x with inl a => inl (f a) | inr e => inr e end.

(* does the phase reach a user function at all? *)
Definition has_prep (c : ucfg) : bool := match u_prep c with FAbsent => false | _ => true end.
Definition has_exec (c : ucfg) : bool :=
  match u_exec c with FAbsent | FBatch => false | _ => true end.
Definition has_post (c : ucfg) : bool :=
  match u_post c with FAbsent | FBatch => false | _ => true end.

(* the exec Result handed to a CustomNode post function (flyt.go CustomNode.Post) *)
Definition post_exec_view (x : val) : val :=
  if is_res x && res_is_error x then x else new_result x.

(* what the node returns to Run for a value v returned by the user's prep function *)
Definition prep_ret (st : fstyle) (v : val) : val :=
  match st with
  | FRes => value_of (as_res v)          (* CustomNode.Prep: result.Value() *)
  | FAny => value_of (new_result v)      (* adapter: NewResult(val), then .Value() *)
  | _ => v
  end.
(* what the user's exec function receives for the argument Run passes to node.Exec *)
Definition exec_arg (st : fstyle) (arg : val) : val :=
  match st with
  | FRes => as_res arg                   (* flyt.go:1134-1138 *)
  | FAny => value_of (as_res arg)        (* adapter: fn(ctx, prepResult.Value()) *)
  | _ => arg
  end.
(* what node.Exec returns for a value v returned by the user's exec function *)
Definition exec_ret (st : fstyle) (v : val) : val :=
  match st with
  | FRes => let res := as_res v in       (* flyt.go:1142-1145 *)
            if res_is_error res then res else value_of res
  | FAny => value_of (new_result v)
  | _ => v
  end.
(* what the user's post function receives *)
Definition post_p (st : fstyle) (p : val) : val :=
  match st with
  | FRes => new_result p
  | FAny => value_of (new_result p)
  | _ => p
  end.
Definition post_x (st : fstyle) (x : val) : val :=
  match st with
  | FRes => post_exec_view x
  | FAny => value_of (post_exec_view x)
  | _ => x
  end.

(* node.Prep(ctx, shared) *)
Definition node_prep (c : ucfg) (n : nid) (s : ms) : ms * (val + err) :=
  if has_prep c then
    let '(s', r) := emit o s (CPrep n VStore) in (s', map_inl (prep_ret (u_prep c)) (ret_val r))
  else (s, inl VNil).                                  (* BaseNode.Prep *)

(* node.Exec(ctx, arg) *)
Definition node_exec (c : ucfg) (n : nid) (s : ms) (arg : val) : ms * (val + err) :=
  if has_exec c then
    let '(s', r) := emit o s (CExec n (exec_arg (u_exec c) arg)) in
    (s', map_inl (exec_ret (u_exec c)) (ret_val r))
  else (s, inl VNil).                                  (* BaseNode.Exec *)

(* node.Post(ctx, shared, p, x) *)
Definition node_post (c : ucfg) (n : nid) (s : ms) (p x : val) : ms * (act + err) :=
  if has_post c then
    let '(s', r) := emit o s (CPost n VStore (post_p (u_post c) p) (post_x (u_post c) x)) in
    (s', ret_act r)
  else (s, inl A_DEFAULT).                             (* BaseNode.Post *)

(* fallback.ExecFallback(p, e) for a node that is a FallbackNode *)
Definition node_fallback (c : ucfg) (n : nid) (s : ms) (p : val) (e : err) : ms * (val + err) :=
  match u_fb c with
  | FbNone | FbDefault => (s, inr e)                  (* BaseNode.ExecFallback returns (nil, err) *)
  | FbUser => let '(s', r) := emit o s (CFallback n p e) in (s', ret_val r)
  end.

(* the retry settings Run uses: a node that is not a RetryableNode gets one attempt and no wait; a
   budget below one still means one attempt (flyt.go / batch.go: "if maxRetries < 1 { maxRetries = 1 }") *)
Definition retry_of (c : ucfg) : nat * nat :=
  match u_retry c with Some (n, w) => (Nat.max 1 n, w) | None => (1, 0) end.

(* ------------------------------------------------------------ Run, user nodes *)
(* the retry loop, flyt.go:719-738 and its copy batch.go:317-334; k = attempts left,
   i = attempt index.  The two Go copies differ only in the text of the two context errors
   (wrap sites sr, sw); witem names the item in the pseudo-event of the wait. *)
Fixpoint retry_loop (sr sw witem : nat) (c : ucfg) (n : nid) (w : nat) (k i : nat) (s : ms)
         (p : val) (last : val + err) {struct k} : ms * ares :=
  match k with
  | 0 => (s, ARes last)
  | S k' =>
      if cancelled s then (s, AAbort (EWrap sr ECtx)) else
      let '(s1, interrupted) :=
        if Nat.ltb 0 i && Nat.ltb 0 w
        then let '(s', _) := emit o s (CWait n witem i) in
             (s', cancelled s')
        else (s, false) in
      if interrupted then (s1, AAbort (EWrap sw ECtx)) else
      let '(s2, r) := node_exec c n s1 p in
      match r with
      | inl x => (s2, ARes (inl x))
      | inr e => retry_loop sr sw witem c n w k' (S i) s2 p (inr e)
      end
  end.

(* flyt.go:719-738 *)
Definition attempts (c : ucfg) (n : nid) (w : nat) (k i : nat) (s : ms) (p : val)
           (last : val + err) : ms * ares :=
  retry_loop W_CTX_RETRY W_CTX_WAIT 0 c n w k i s p last.

Definition run_user (c : ucfg) (n : nid) (s : ms) : ms * outcome :=
  if cancelled s then (s, Fail (EWrap W_RUN_CTX0 ECtx)) else
  let '(s1, rp) := node_prep c n s in
  match rp with
  | inr e => (s1, Fail (EWrap W_PREP e))
  | inl p =>
      if cancelled s1 then (s1, Fail (EWrap W_CTX_AFTER_PREP ECtx)) else
      let '(N, w) := retry_of c in
      let '(s2, ar) := attempts c n w N 0 s1 p (inl VNil) in
      match ar with
      | AAbort e => (s2, Fail e)
      | ARes r =>
          let '(s3, r') :=
            match r with
            | inl x => (s2, inl x)
            | inr e => match u_fb c with
                       | FbNone => (s2, inr e)
                       | _ => node_fallback c n s2 p e
                       end
            end in
          match r' with
          | inr e => (s3, Fail (EWrap W_EXEC e))
          | inl x =>
              let '(s4, ra) := node_post c n s3 p x in
              match ra with
              | inr e => (s4, Fail (EWrap W_POST e))
              | inl a => (s4, Done (norm_act a))
              end
          end
      end
  end.

(* ------------------------------------------------------------ batches *)
(* batch.go:163-180 *)
Definition normalise (pv : val) : list val :=
  match pv with
  | VSl true l => l
  | VSl false l => map new_result l
  | VNil => []
  | v => [new_result v]
  end.

(* runExecWithRetries, batch.go:304-344 *)
Definition wait_item (item : val) : nat := match item with VRes (VTok t) _ => t | _ => 0 end.
Definition item_attempts (c : ucfg) (n : nid) (w : nat) (k i : nat) (s : ms) (item : val)
           (last : val + err) : ms * ares :=
  retry_loop W_ITEM_CTX_RETRY W_ITEM_CTX_WAIT (wait_item item) c n w k i s item last.

Definition exec_with_retries (c : ucfg) (n : nid) (s : ms) (item : val) : ms * (val + err) :=
  let '(N, w) := retry_of c in
  let '(s1, ar) := item_attempts c n w N 0 s item (inl VNil) in
  match ar with
  | AAbort e => (s1, inr e)
  | ARes (inl x) => (s1, inl x)
  | ARes (inr e) =>
      match u_fb c with
      | FbNone => (s1, inr e)
      | _ => node_fallback c n s1 item e
      end
  end.

Definition slot_of_result (r : val + err) : val :=
  match r with
  | inr e => new_error_result e
  | inl x => as_res x
  end.

Definition ctx_slot : val := new_error_result (EFw F_ITEM_CTX).
Definition stopped_slot : val := new_error_result (EFw F_STOPPED).

(* runBatchSequential, batch.go:231-255 (with the fill-in of unprocessed slots) *)
Fixpoint seq_items (c : ucfg) (stop : bool) (n : nid) (s : ms) (items : list val)
  : ms * list val :=
  match items with
  | [] => (s, [])
  | it :: rest =>
      if cancelled s then
        if stop then (s, ctx_slot :: map (fun _ => stopped_slot) rest)
        else let '(s', rs) := seq_items c stop n s rest in (s', ctx_slot :: rs)
      else
        let '(s1, r) := exec_with_retries c n s it in
        match r with
        | inr e =>
            if stop then (s1, new_error_result e :: map (fun _ => stopped_slot) rest)
            else let '(s', rs) := seq_items c stop n s1 rest in (s', new_error_result e :: rs)
        | inl x =>
            let '(s', rs) := seq_items c stop n s1 rest in (s', as_res x :: rs)
        end
  end.

(* BatchNode.Post, batch.go:44-51 *)
Definition bnode_post (c : ucfg) (n : nid) (s : ms) (items results : list val)
  : ms * (act + err) :=
  match u_post c with
  | FBatch => let '(s', r) := emit o s (CBPost n VStore items results) in (s', ret_act r)
  | _ => (s, inl A_DEFAULT)
  end.

(* runBatch, batch.go:156-229 *)
Definition run_batch (c : ucfg) (conc : nat) (stop : bool) (n : nid) (s : ms) : ms * outcome :=
  let '(s1, rp) := node_prep c n s in
  match rp with
  | inr e => (s1, Fail (EWrap W_PREP e))
  | inl pv =>
      let items := normalise pv in
      match items with
      | [] =>
          let '(s2, ra) := bnode_post c n s1 [] [] in
          match ra with
          | inr e => (s2, Fail (EWrap W_POST e))
          | inl a => (s2, Done (norm_act a))
          end
      | _ =>
          let '(s2, results) :=
            if Nat.ltb 0 conc then conc_exec c conc stop n s1 items
            else seq_items c stop n s1 items in
          let '(s3, ra) := bnode_post c n s2 items results in
          match ra with
          | inr e => (s3, Fail (EWrap W_POST e))
          | inl a => (s3, Done (norm_act a))
          end
      end
  end.

(* ------------------------------------------------------------ flows *)
(* the loop of Flow.Exec, flyt.go:876-902; runf runs one node *)
Fixpoint flow_loop (runf : ms -> nid -> option (ms * outcome)) (tm : tmap)
         (g : nat) (s : ms) (cur : nid) {struct g} : option (ms * (act + err)) :=
  match g with
  | 0 => None
  | S g' =>
      if cancelled s then Some (s, inr (EWrap W_FLOW_CTX ECtx)) else
      match runf s cur with
      | None => None
      | Some (s', Fail e) => Some (s', inr e)
      | Some (s', Done a) =>
          match lookup2 tm cur a with
          | Some (Some nxt) => flow_loop runf tm g' s' nxt
          | _ => Some (s', inl a)
          end
      end
  end.

(* Run applied to a *Flow: Flow.Prep returns the store, the retry loop has budget 1
   (embedded BaseNode), Flow.Exec runs the loop, BaseNode.ExecFallback passes the error
   on, Flow.Post returns the last action *)
Definition run_flow (runf : ms -> nid -> option (ms * outcome)) (g : nat)
           (start : option nid) (conns : list conn) (s : ms) : option (ms * outcome) :=
  if cancelled s then Some (s, Fail (EWrap W_RUN_CTX0 ECtx)) else
  let r := match start with
           | None => Some (s, inr (EFw F_NO_START))
           | Some st => flow_loop runf (build conns) g s st
           end in
  match r with
  | None => None
  | Some (s', inr e) => Some (s', Fail (EWrap W_EXEC e))
  | Some (s', inl a) => Some (s', Done (norm_act a))
  end.

Variable tbl : table.

(* flyt.Run.  fuel bounds both the nesting depth and the number of visits per flow;
   None = out of fuel *)
Fixpoint run (fuel : nat) (s : ms) (n : nid) {struct fuel} : option (ms * outcome) :=
  match fuel with
  | 0 => None
  | S f =>
      match tbl n with
      | None => Some (s, Fail (EFw F_UNKNOWN_NODE))
      | Some (NUser c) => Some (run_user c n s)
      | Some (NBatch c conc stop) => Some (run_batch c conc stop n s)
      | Some (NFlow start conns) => run_flow (run f) f start conns s
      end
  end.

End Engine.
