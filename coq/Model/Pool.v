(* Pool.v — WorkerPool (flyt.go:935-1013) used directly: any number of submitting goroutines, each
   running a list of operations (Submit a task, Wait, Close, and the scenario's own Sync: "wait,
   outside the pool, until everything I submitted has finished"), a FIFO queue of any capacity,
   `workers` worker goroutines.  Submit is two steps (wg.Add(1); then the send, which blocks
   while the queue is full); a task is two steps (it starts when a worker receives it, it ends
   when its function returns and wg.Done() runs).  `pstep s t` is the step of thread t (None =
   not enabled); theorems quantify over all schedules.  No proofs in this file. *)
From Coq Require Export List Arith Bool Lia.
Export ListNotations.

Definition taskid := nat.

Inductive pop := PSubmit (t : taskid) | PWait | PSync | PClose.

Inductive wst := PIdle | PBusy (t : taskid) | PExited.

Inductive pev :=
| EvStart (t : taskid)            (* a worker received the task and called it *)
| EvEnd (t : taskid)              (* the task returned (and wg.Done() ran) *)
| EvWaitReturn (j : nat)          (* Wait() returned in submitter j *)
| EvPark (ts : list taskid)       (* gated runs: quiescent with exactly these tasks inside their function *)
| EvSubmitted (k : nat).          (* gated runs, noted at each quiescent point: Submit has returned k times *)

Record sub := { s_ops : list pop; s_adding : bool }.   (* remaining operations; between Add and send *)

Record pst := {
  p_subs : list sub;
  p_queue : list taskid;
  p_wg : nat;
  p_ws : list wst;
  p_closed : bool;
  p_added : list taskid;           (* ghost: tasks for which wg.Add(1) has run *)
  p_log : list pev
}.

Inductive ptid := TSub (j : nat) | TWrk (k : nat) | TWrkExit (k : nat)
| TObs.   (* the observer notes how many Submit calls have returned and which tasks are running (two
             pseudo-events of the log; always enabled; touches nothing else) *)

Fixpoint set_nth {A} (l : list A) (i : nat) (x : A) : list A :=
  match l, i with
  | [], _ => []
  | _ :: t, 0 => x :: t
  | h :: t, S j => h :: set_nth t j x
  end.

Definition pinit (progs : list (list pop)) (workers : nat) : pst :=
  {| p_subs := map (fun ops => {| s_ops := ops; s_adding := false |}) progs;
     p_queue := []; p_wg := 0; p_ws := repeat PIdle workers; p_closed := false;
     p_added := []; p_log := [] |}.

Definition starts (l : list pev) : list taskid := flat_map (fun e => match e with EvStart t => [t] | _ => [] end) l.
Definition ends (l : list pev) : list taskid := flat_map (fun e => match e with EvEnd t => [t] | _ => [] end) l.
Definition busy_tasks (ws : list wst) : list taskid := flat_map (fun w => match w with PBusy t => [t] | _ => [] end) ws.
Definition pending_sends (subs : list sub) : list taskid :=
  flat_map (fun s => if s_adding s then match s_ops s with PSubmit t :: _ => [t] | _ => [] end else []) subs.

Fixpoint ins_nat (x : nat) (l : list nat) : list nat :=
  match l with [] => [x] | y :: t => if Nat.leb x y then x :: l else y :: ins_nat x t end.
Definition sort_nats (l : list nat) : list nat := fold_right ins_nat [] l.


Section Pool.
Variable qcap : nat.

Definition with_sub (s : pst) (j : nat) (x : sub) : pst :=
  {| p_subs := set_nth (p_subs s) j x; p_queue := p_queue s; p_wg := p_wg s; p_ws := p_ws s;
     p_closed := p_closed s; p_added := p_added s; p_log := p_log s |}.

(* everything submitter-independent that Sync waits for: nothing added is unfinished *)
Definition all_done (s : pst) : bool :=
  match p_queue s, busy_tasks (p_ws s), pending_sends (p_subs s) with
  | [], [], [] => true
  | _, _, _ => false
  end.

Definition pstep (s : pst) (t : ptid) : option pst :=
  match t with
  | TSub j =>
      match nth_error (p_subs s) j with
      | Some x =>
          match s_ops x with
          | [] => None
          | PSubmit tk :: rest =>
              if s_adding x then
                (* p.tasks <- ...: blocks while the buffer is full *)
                if Nat.ltb (length (p_queue s)) qcap
                then Some {| p_subs := set_nth (p_subs s) j {| s_ops := rest; s_adding := false |};
                             p_queue := p_queue s ++ [tk]; p_wg := p_wg s; p_ws := p_ws s;
                             p_closed := p_closed s; p_added := p_added s; p_log := p_log s |}
                else None
              else
                (* p.wg.Add(1) *)
                Some {| p_subs := set_nth (p_subs s) j {| s_ops := s_ops x; s_adding := true |};
                        p_queue := p_queue s; p_wg := S (p_wg s); p_ws := p_ws s;
                        p_closed := p_closed s; p_added := p_added s ++ [tk]; p_log := p_log s |}
          | PWait :: rest =>
              if Nat.eqb (p_wg s) 0
              then Some {| p_subs := set_nth (p_subs s) j {| s_ops := rest; s_adding := false |};
                           p_queue := p_queue s; p_wg := p_wg s; p_ws := p_ws s;
                           p_closed := p_closed s; p_added := p_added s; p_log := p_log s ++ [EvWaitReturn j] |}
              else None
          | PSync :: rest =>
              if all_done s then Some (with_sub s j {| s_ops := rest; s_adding := false |}) else None
          | PClose :: rest =>
              Some {| p_subs := set_nth (p_subs s) j {| s_ops := rest; s_adding := false |};
                      p_queue := p_queue s; p_wg := p_wg s; p_ws := p_ws s;
                      p_closed := true; p_added := p_added s; p_log := p_log s |}
          end
      | None => None
      end
  | TWrk k =>
      match nth_error (p_ws s) k with
      | Some PIdle =>
          match p_queue s with
          | tk :: rest =>
              Some {| p_subs := p_subs s; p_queue := rest; p_wg := p_wg s;
                      p_ws := set_nth (p_ws s) k (PBusy tk); p_closed := p_closed s;
                      p_added := p_added s; p_log := p_log s ++ [EvStart tk] |}
          | [] => None
          end
      | Some (PBusy tk) =>
          Some {| p_subs := p_subs s; p_queue := p_queue s; p_wg := p_wg s - 1;
                  p_ws := set_nth (p_ws s) k PIdle; p_closed := p_closed s;
                  p_added := p_added s; p_log := p_log s ++ [EvEnd tk] |}
      | _ => None
      end
  | TWrkExit k =>
      match nth_error (p_ws s) k with
      | Some PIdle =>
          if p_closed s
          then Some {| p_subs := p_subs s; p_queue := p_queue s; p_wg := p_wg s;
                       p_ws := set_nth (p_ws s) k PExited; p_closed := p_closed s;
                       p_added := p_added s; p_log := p_log s |}
          else None
      | _ => None
      end
  | TObs =>
      Some {| p_subs := p_subs s; p_queue := p_queue s; p_wg := p_wg s; p_ws := p_ws s;
              p_closed := p_closed s; p_added := p_added s;
              p_log := p_log s ++ [EvSubmitted (length (p_added s) - length (pending_sends (p_subs s)));
                                    EvPark (sort_nats (busy_tasks (p_ws s)))] |}
  end.

Fixpoint prun (s : pst) (sched : list ptid) : pst :=
  match sched with
  | [] => s
  | t :: rest => match pstep s t with Some s' => prun s' rest | None => prun s rest end
  end.

(* ------------------------------------------------------------ gated runs *)
(* every task parks inside its function; internal steps are all steps except the return of a
   task; the controller releases the parked task that comes first in `rel` (else the lowest) *)
Definition internal_en (s : pst) (t : ptid) : bool :=
  match t with
  | TWrk k =>
      match nth_error (p_ws s) k with
      | Some (PBusy _) => false
      | _ => match pstep s t with Some _ => true | None => false end
      end
  | TWrkExit k => match p_queue s with [] => (match pstep s t with Some _ => true | None => false end) | _ => false end
  | TSub _ => match pstep s t with Some _ => true | None => false end
  | TObs => false
  end.

Definition all_ptids (s : pst) : list ptid :=
  map TSub (seq 0 (length (p_subs s))) ++ map TWrk (seq 0 (length (p_ws s)))
  ++ map TWrkExit (seq 0 (length (p_ws s))).

Fixpoint pquiesce (fuel : nat) (s : pst) : pst :=
  match fuel with
  | 0 => s
  | S f => match find (internal_en s) (all_ptids s) with
           | Some t => match pstep s t with Some s' => pquiesce f s' | None => s end
           | None => s
           end
  end.

Definition pchoose (rel : list taskid) (busy : list taskid) : option taskid :=
  match find (fun t => existsb (Nat.eqb t) busy) rel with
  | Some t => Some t
  | None => match sort_nats busy with t :: _ => Some t | [] => None end
  end.

Fixpoint worker_of (ws : list wst) (t : taskid) (k : nat) : option nat :=
  match ws with
  | [] => None
  | PBusy t' :: rest => if Nat.eqb t t' then Some k else worker_of rest t (S k)
  | _ :: rest => worker_of rest t (S k)
  end.

Fixpoint pgated (fuel : nat) (rel : list taskid) (s : pst) : pst :=
  match fuel with
  | 0 => s
  | S f =>
      let s0 := pquiesce 4096 s in
      let busy := busy_tasks (p_ws s0) in
      match pchoose rel busy with
      | None => s0
      | Some t =>
          let s1 := {| p_subs := p_subs s0; p_queue := p_queue s0; p_wg := p_wg s0; p_ws := p_ws s0;
                       p_closed := p_closed s0; p_added := p_added s0;
                       p_log := p_log s0 ++ [EvSubmitted (length (p_added s0) - length (pending_sends (p_subs s0)));
                                             EvPark (sort_nats busy)] |} in
          match worker_of (p_ws s1) t 0 with
          | Some k => match pstep s1 (TWrk k) with Some s2 => pgated f rel s2 | None => s1 end
          | None => s1
          end
      end
  end.

End Pool.

(* NewWorkerPool(w): w <= 0 means 1 worker; the queue holds 2 * workers tasks *)
Definition pool_workers (w : nat) : nat := Nat.max 1 w.
