(* Values.v — the part of Go's value universe the typed accessors can meet (C15, C16):
   dynamic types and values as they sit in an `any`, fixed-width integer conversion, IEEE-754
   binary32/64 decoding, float -> int truncation, int -> float64 rounding (nearest even),
   float32 -> float64 widening, and the slice conversion utility ToSlice (flyt.go:1032-1076).
   Floats are carried as bit patterns, so results are compared bit for bit.
   No proofs in this file. *)
From Coq Require Export ZArith List Bool Lia.
Export ListNotations.
#[local] Open Scope Z_scope.

Inductive ikind := KInt | KInt8 | KInt16 | KInt32 | KInt64
                 | KUint | KUint8 | KUint16 | KUint32 | KUint64 | KUintptr.

(* element type of a slice value, as far as ToSlice's type switch distinguishes it *)
Inductive ety := EAny | EString | EInt | EFloat64 | EMapStrAny | EOther (id : nat).

(* a value together with its dynamic type *)
Inductive gval :=
| GNil                                        (* the nil interface value *)
| GInt (k : ikind) (z : Z)
| GF32 (bits : Z)
| GF64 (bits : Z)
| GComplex (id : nat)
| GString (id : nat)
| GBool (b : bool)
| GNamed (name : nat) (under : gval)          (* a value of a defined type (type MyInt int) *)
| GSlice (e : ety) (isnil : bool) (elems : list gval)
| GArray (elems : list gval)
| GMap (str_any : bool) (isnil : bool) (id : nat)   (* str_any: the type is map[string]any *)
| GPtr (isnil : bool) (id : nat)
| GPtrTo (isnil : bool) (tid : nat) (pointee : gval)   (* a pointer to a struct of type tid *)
| GFunc (isnil : bool) (id : nat)
| GChan (isnil : bool) (id : nat)
| GStruct (id : nat) (fields : list gval).

(* reflect.Kind, as far as the accessors look at it *)
Inductive rkind := RkInvalid | RkInt | RkFloat | RkComplex | RkString | RkBool | RkSlice | RkArray
                 | RkMap | RkPtr | RkFunc | RkChan | RkStruct.
Fixpoint kind_of (v : gval) : rkind :=
  match v with
  | GNil => RkInvalid
  | GInt _ _ => RkInt
  | GF32 _ | GF64 _ => RkFloat
  | GComplex _ => RkComplex
  | GString _ => RkString
  | GBool _ => RkBool
  | GNamed _ u => kind_of u
  | GSlice _ _ _ => RkSlice
  | GArray _ => RkArray
  | GMap _ _ _ => RkMap
  | GPtr _ _ => RkPtr
  | GPtrTo _ _ _ => RkPtr
  | GFunc _ _ => RkFunc
  | GChan _ _ => RkChan
  | GStruct _ _ => RkStruct
  end.
Definition is_slice_kind (v : gval) : bool := match kind_of v with RkSlice => true | _ => false end.

(* ---------------------------------------------------------------- integers *)
Definition two (n : Z) : Z := 2 ^ n.
(* wrap into the signed 64-bit range: int(x) for an integer x on a 64-bit platform *)
Definition wrap_int64 (z : Z) : Z :=
  let m := z mod two 64 in if m <? two 63 then m else m - two 64.

(* ---------------------------------------------------------------- floats *)
Inductive fl := FNaN | FInf (neg : bool) | FFin (neg : bool) (m e : Z).   (* (-1)^neg * m * 2^e *)

Definition decode64 (bits : Z) : fl :=
  let s := 1 <=? bits / two 63 in
  let ef := (bits / two 52) mod two 11 in
  let mf := bits mod two 52 in
  if ef =? 2047 then (if mf =? 0 then FInf s else FNaN)
  else if ef =? 0 then FFin s mf (-1074)
  else FFin s (two 52 + mf) (ef - 1075).

Definition decode32 (bits : Z) : fl :=
  let s := 1 <=? bits / two 31 in
  let ef := (bits / two 23) mod two 8 in
  let mf := bits mod two 23 in
  if ef =? 255 then (if mf =? 0 then FInf s else FNaN)
  else if ef =? 0 then FFin s mf (-149)
  else FFin s (two 23 + mf) (ef - 150).

(* the result of a conversion Go's specification leaves to the implementation *)
Inductive conv (A : Type) := Specified (a : A) | Unspecified.
Arguments Specified {A} a.
Arguments Unspecified {A}.

(* int(f): the fraction is discarded (truncation towards zero); out of range, NaN, Inf: unspecified *)
Definition trunc_fl (f : fl) : conv Z :=
  match f with
  | FFin s m e =>
      let a := if 0 <=? e then m * two e else m / two (- e) in
      let z := if s then - a else a in
      if (- two 63 <=? z) && (z <? two 63) then Specified z else Unspecified
  | _ => Unspecified
  end.

Definition sign_bit (s : bool) : Z := if s then two 63 else 0.

(* float64(z) for an integer z: round to nearest, ties to even *)
Definition f64_of_Z (z : Z) : Z :=
  if z =? 0 then 0 else
  let s := z <? 0 in
  let m := Z.abs z in
  let l := Z.log2 m in
  if l <=? 52 then sign_bit s + (l + 1023) * two 52 + (m * two (52 - l) - two 52)
  else
    let sh := l - 52 in
    let q := m / two sh in
    let r := m mod two sh in
    let half := two (sh - 1) in
    let q' := if (half <? r) || ((r =? half) && Z.odd q) then q + 1 else q in
    if q' =? two 53 then sign_bit s + (l + 1 + 1023) * two 52
    else sign_bit s + (l + 1023) * two 52 + (q' - two 52).

(* float64(f) for a float32 f: exact; a NaN keeps its payload and becomes quiet *)
Definition f64_of_f32 (bits : Z) : Z :=
  let s := 1 <=? bits / two 31 in
  match decode32 bits with
  | FNaN => sign_bit s + 2047 * two 52 + Z.lor ((bits mod two 23) * two 29) (two 51)
  | FInf _ => sign_bit s + 2047 * two 52
  | FFin _ m e =>
      if m =? 0 then sign_bit s
      else let l := Z.log2 m in
           sign_bit s + (l + e + 1023) * two 52 + (m * two (52 - l) - two 52)
  end.

(* ---------------------------------------------------------------- ToSlice *)
(* the value under its defined-type names *)
Fixpoint strip (v : gval) : gval := match v with GNamed _ u => strip u | _ => v end.

(* the []any a slice value converts to: its elements, each boxed with its own dynamic type;
   nil gives the empty slice, any other value a one-element slice *)
Definition to_slice (v : gval) : list gval :=
  match v with
  | GNil => []
  | _ => match strip v with GSlice _ _ elems => elems | _ => [v] end
  end.
