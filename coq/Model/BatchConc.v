(* BatchConc.v — runBatchConcurrent (batch.go:257-302) on the WorkerPool (flyt.go:935-1013) as a
   transition system: the submitting goroutine (wg.Add; send on the buffered queue; ...;
   wg.Wait; Close), `workers` worker goroutines (receive / done select, run the task,
   wg.Done), and the per-item task at the granularity of the Go code: the mutex-protected
   stop-flag check, the context check, every head of the retry loop with its context check,
   the wait select, the call of node.Exec, the fallback, the mutex-protected record step.
   `bstep s t` is the step of thread t in state s (None = not enabled); `brun` runs a
   schedule, skipping disabled choices.  Theorems quantify over all schedules.
   No proofs in this file.

   The queue.  The submitter sends items in index order on a FIFO channel, so the queue always
   holds the contiguous range [deq, enq) of item indices and is represented by its two
   counters; its capacity is a parameter (the code uses 2 * workers). *)
From Flyt Require Import Base FlowTable Engine.

Inductive tpc :=
| PStop                              (* mu.Lock(); read shouldStop (batch.go:269-275) *)
| PCtx                               (* ctx.Err() (batch.go:277) *)
| PTop (k : nat) (last : val + err)  (* head of the retry loop after k attempts: ctx check *)
| PWait (k : nat) (last : val + err) (* select { time.After(wait) | ctx.Done() } *)
| PExec (k : nat) (last : val + err) (* inside node.Exec: the step is its return *)
| PFb (e : err)                      (* about to call ExecFallback *)
| PRec (r : val + err)               (* mu.Lock(); write the slot; maybe set shouldStop *)
| PDone.                             (* deferred wg.Done() *)

Inductive wstate := WIdle | WRun (i : nat) (pc : tpc) | WExit.

Inductive mainpc := MLoop | MWait | MClose | MRet.

Record bst := {
  enq : nat;                 (* items sent on the queue so far *)
  adding : bool;             (* the submitter is between wg.Add(1) and the send of item enq *)
  mpc : mainpc;
  deq : nat;                 (* items received by workers so far *)
  ws : list wstate;
  slots : list (option val); (* results[i]; None = not written yet (the zero Result) *)
  stopf : bool;              (* shouldStop *)
  wgc : nat;                 (* the WaitGroup counter *)
  closed : bool;             (* Close() has closed done and tasks *)
  base : ms;                 (* callback log and context *)
  ilog : list (list event)   (* ghost: the callback events of each item *)
}.

Inductive tid :=
| TMain
| TWorker (k : nat)          (* the worker's next step other than leaving *)
| TWorkerExit (k : nat)      (* the worker takes the `done` / closed-queue branch of its select *)
| TCancel                    (* the environment cancels the context *)
| TNote.                     (* the observer notes which exec calls are in flight (a pseudo-event of the
                                callback log; always enabled; touches nothing else) *)

Fixpoint set_nth {A} (l : list A) (i : nat) (x : A) : list A :=
  match l, i with
  | [], _ => []
  | _ :: t, 0 => x :: t
  | h :: t, S j => h :: set_nth t j x
  end.

Definition app_nth {A} (l : list (list A)) (i : nat) (x : list A) : list (list A) :=
  set_nth l i (nth i l [] ++ x).

Section BC.
Variable o : oracle.
Variable c : ucfg.
Variable nd : nid.
Variable items : list val.
Variable stopmode : bool.
Variable nworkers : nat.
Variable qcap : nat.

Definition nitems := length items.
Definition budget : nat := fst (retry_of c).
Definition waitd : nat := snd (retry_of c).
Definition item_at (i : nat) : val := nth i items VNil.

Definition binit (s : ms) : bst :=
  {| enq := 0; adding := false; mpc := MLoop; deq := 0;
     ws := repeat WIdle nworkers; slots := repeat None nitems; stopf := false; wgc := 0;
     closed := false; base := s; ilog := repeat [] nitems |}.

Definition set_w (s : bst) (k : nat) (w : wstate) : bst :=
  {| enq := enq s; adding := adding s; mpc := mpc s; deq := deq s; ws := set_nth (ws s) k w;
     slots := slots s; stopf := stopf s; wgc := wgc s; closed := closed s; base := base s;
     ilog := ilog s |}.

(* the events appended to the callback log by one call made on behalf of item i *)
Definition with_base (s : bst) (i : nat) (b : ms) : bst :=
  {| enq := enq s; adding := adding s; mpc := mpc s; deq := deq s; ws := ws s;
     slots := slots s; stopf := stopf s; wgc := wgc s; closed := closed s; base := b;
     ilog := app_nth (ilog s) i (skipn (length (log (base s))) (log b)) |}.

Definition write_slot (s : bst) (i : nat) (v : val) (stop' : bool) : bst :=
  {| enq := enq s; adding := adding s; mpc := mpc s; deq := deq s; ws := ws s;
     slots := set_nth (slots s) i (Some v); stopf := stop'; wgc := wgc s; closed := closed s;
     base := base s; ilog := ilog s |}.

Definition is_err_result (r : val + err) : bool := match r with inr _ => true | inl _ => false end.

(* one step of the task of item i running on worker k *)
Definition task_step (s : bst) (k i : nat) (pc : tpc) : bst :=
  match pc with
  | PStop =>
      if stopf s && stopmode
      then set_w (write_slot s i stopped_slot (stopf s)) k (WRun i PDone)
      else set_w s k (WRun i PCtx)
  | PCtx =>
      if cancelled (base s)
      then set_w (write_slot s i ctx_slot (stopf s)) k (WRun i PDone)
      else set_w s k (WRun i (PTop 0 (inl VNil)))
  | PTop a last =>
      if Nat.leb budget a then
        (* the loop is over: all attempts failed (or the budget is 0) *)
        match last with
        | inl x => set_w s k (WRun i (PRec (inl x)))
        | inr e => match u_fb c with
                   | FbNone => set_w s k (WRun i (PRec (inr e)))
                   | _ => set_w s k (WRun i (PFb e))
                   end
        end
      else if cancelled (base s) then set_w s k (WRun i (PRec (inr (EWrap W_ITEM_CTX_RETRY ECtx))))
      else if Nat.ltb 0 a && Nat.ltb 0 waitd then set_w s k (WRun i (PWait a last))
      else set_w s k (WRun i (PExec a last))
  | PWait a last =>
      let '(b, _) := emit o (base s) (CWait nd (wait_item (item_at i)) a) in
      let s' := with_base s i b in
      if cancelled b then set_w s' k (WRun i (PRec (inr (EWrap W_ITEM_CTX_WAIT ECtx))))
      else set_w s' k (WRun i (PExec a last))
  | PExec a last =>
      let '(b, r) := node_exec o c nd (base s) (item_at i) in
      let s' := with_base s i b in
      match r with
      | inl x => set_w s' k (WRun i (PRec (inl x)))
      | inr e => set_w s' k (WRun i (PTop (S a) (inr e)))
      end
  | PFb e =>
      let '(b, r) := node_fallback o c nd (base s) (item_at i) e in
      set_w (with_base s i b) k (WRun i (PRec r))
  | PRec r =>
      set_w (write_slot s i (slot_of_result r) (stopf s || (is_err_result r && stopmode))) k (WRun i PDone)
  | PDone =>
      {| enq := enq s; adding := adding s; mpc := mpc s; deq := deq s; ws := set_nth (ws s) k WIdle;
         slots := slots s; stopf := stopf s; wgc := wgc s - 1; closed := closed s; base := base s;
         ilog := ilog s |}
  end.

(* the exec calls in flight: a worker is inside node.Exec (the harness parks every exec call on a gate) *)
Definition parked_call (w : wstate) : option (nat * nat) :=
  match w with
  | WRun i (PExec a _) => if has_exec c then Some (i, a) else None   (* no exec function: no user code to park in *)
  | _ => None
  end.

Definition parked (s : bst) : list (nat * nat) :=
  flat_map (fun w => match parked_call w with Some p => [p] | None => [] end) (ws s).

Definition call_code (p : nat * nat) : nat := 16 * fst p + snd p.
Fixpoint insert_sorted (x : nat) (l : list nat) : list nat :=
  match l with
  | [] => [x]
  | y :: t => if Nat.leb x y then x :: l else y :: insert_sorted x t
  end.
Definition sort_nat (l : list nat) : list nat := fold_right insert_sorted [] l.

(* the quiescent point becomes a pseudo-event of the callback log *)
Definition note_park (s : bst) (ps : list (nat * nat)) : bst :=
  {| enq := enq s; adding := adding s; mpc := mpc s; deq := deq s; ws := ws s;
     slots := slots s; stopf := stopf s; wgc := wgc s; closed := closed s;
     base := {| log := log (base s) ++ [(CPark nd (sort_nat (map call_code ps)), ROk VNil, false)];
                cancelled := cancelled (base s) |};
     ilog := ilog s |}.


Definition bstep (s : bst) (t : tid) : option bst :=
  match t with
  | TMain =>
      match mpc s with
      | MLoop =>
          if adding s then
            (* p.tasks <- ... : blocks while the buffer is full *)
            if Nat.ltb (enq s - deq s) qcap
            then Some {| enq := S (enq s); adding := false; mpc := MLoop; deq := deq s; ws := ws s;
                         slots := slots s; stopf := stopf s; wgc := wgc s; closed := closed s;
                         base := base s; ilog := ilog s |}
            else None
          else if Nat.ltb (enq s) nitems then
            (* p.wg.Add(1) *)
            Some {| enq := enq s; adding := true; mpc := MLoop; deq := deq s; ws := ws s;
                    slots := slots s; stopf := stopf s; wgc := S (wgc s); closed := closed s;
                    base := base s; ilog := ilog s |}
          else Some {| enq := enq s; adding := false; mpc := MWait; deq := deq s; ws := ws s;
                       slots := slots s; stopf := stopf s; wgc := wgc s; closed := closed s;
                       base := base s; ilog := ilog s |}
      | MWait =>
          if Nat.eqb (wgc s) 0
          then Some {| enq := enq s; adding := adding s; mpc := MClose; deq := deq s; ws := ws s;
                       slots := slots s; stopf := stopf s; wgc := wgc s; closed := closed s;
                       base := base s; ilog := ilog s |}
          else None
      | MClose =>
          Some {| enq := enq s; adding := adding s; mpc := MRet; deq := deq s; ws := ws s;
                  slots := slots s; stopf := stopf s; wgc := wgc s; closed := true;
                  base := base s; ilog := ilog s |}
      | MRet => None
      end
  | TWorker k =>
      match nth_error (ws s) k with
      | Some WIdle =>
          if Nat.ltb (deq s) (enq s)
          then Some {| enq := enq s; adding := adding s; mpc := mpc s; deq := S (deq s);
                       ws := set_nth (ws s) k (WRun (deq s) PStop);
                       slots := slots s; stopf := stopf s; wgc := wgc s; closed := closed s;
                       base := base s; ilog := ilog s |}
          else None
      | Some (WRun i pc) => Some (task_step s k i pc)
      | _ => None
      end
  | TWorkerExit k =>
      match nth_error (ws s) k with
      | Some WIdle => if closed s then Some (set_w s k WExit) else None
      | _ => None
      end
  | TCancel =>
      Some {| enq := enq s; adding := adding s; mpc := mpc s; deq := deq s; ws := ws s;
              slots := slots s; stopf := stopf s; wgc := wgc s; closed := closed s;
              base := {| log := log (base s); cancelled := true |}; ilog := ilog s |}
  | TNote => Some (note_park s (parked s))
  end.

Fixpoint brun (s : bst) (sched : list tid) : bst :=
  match sched with
  | [] => s
  | t :: rest => match bstep s t with Some s' => brun s' rest | None => brun s rest end
  end.

(* ------------------------------------------------------------ gated runs *)
(* A worker is parked when it is inside node.Exec (the harness parks every exec call on a
   gate).  Internal steps are all the others.  `quiesce` runs internal steps, lowest thread
   first, until none is enabled; `release` lets one parked call return. *)
Definition internal_enabled (s : bst) (t : tid) : bool :=
  match t with
  | TWorker k =>
      match nth_error (ws s) k with
      | Some (WRun _ (PExec _ _)) => negb (has_exec c)
      | _ => match bstep s t with Some _ => true | None => false end
      end
  | TWorkerExit k =>
      (* a worker leaves only when nothing is left to receive *)
      Nat.eqb (deq s) (enq s) && match bstep s t with Some _ => true | None => false end
  | TMain => match bstep s t with Some _ => true | None => false end
  | TCancel => false
  | TNote => false
  end.

Definition all_tids : list tid :=
  TMain :: map TWorker (seq 0 nworkers) ++ map TWorkerExit (seq 0 nworkers).

Fixpoint quiesce (fuel : nat) (s : bst) : bst :=
  match fuel with
  | 0 => s
  | S f =>
      match find (internal_enabled s) all_tids with
      | Some t => match bstep s t with Some s' => quiesce f s' | None => s end
      | None => s
      end
  end.

(* the worker on which call (i, a) is parked *)
Fixpoint find_parked (l : list wstate) (p : nat * nat) (k : nat) : option nat :=
  match l with
  | [] => None
  | w :: rest =>
      match parked_call w with
      | Some q => if Nat.eqb (fst p) (fst q) && Nat.eqb (snd p) (snd q) then Some k
                  else find_parked rest p (S k)
      | None => find_parked rest p (S k)
      end
  end.

(* release policy: among the parked calls, the one that comes first in the priority list
   `rel` (calls encoded as 16 * item + attempt); calls not listed: lowest item first *)
Definition choose (rel : list nat) (ps : list (nat * nat)) : option (nat * nat) :=
  match find (fun code => existsb (fun p => Nat.eqb (call_code p) code) ps) rel with
  | Some code => find (fun p => Nat.eqb (call_code p) code) ps
  | None =>
      fold_left (fun best p => match best with
                               | None => Some p
                               | Some q => if Nat.ltb (call_code p) (call_code q) then Some p else Some q
                               end) ps None
  end.

(* the observation of a gated run: the parked sets at the quiescent points *)
Fixpoint gated (fuel : nat) (rel : list nat) (s : bst) (acc : list (list (nat * nat)))
  : bst * list (list (nat * nat)) :=
  match fuel with
  | 0 => (s, acc)
  | S f =>
      let s0 := quiesce (64 + 32 * nitems * (2 + budget)) s in
      let ps := parked s0 in
      match choose rel ps with
      | None => (s0, acc)
      | Some p =>
          let s1 := note_park s0 ps in
          match find_parked (ws s1) p 0 with
          | Some k => match bstep s1 (TWorker k) with
                      | Some s2 => gated f rel s2 (acc ++ [ps])
                      | None => (s1, acc)
                      end
          | None => (s1, acc)
          end
      end
  end.

Definition results_of (s : bst) : list val :=
  map (fun x => match x with Some v => v | None => VRes VNil None end) (slots s).

End BC.

(* the concurrent executor handed to Engine.run_batch for a gated scenario *)
Definition gated_exec (o : oracle) (rel : list nat)
           (c : ucfg) (conc : nat) (stop : bool) (n : nid) (s : ms) (items : list val)
  : ms * list val :=
  let workers := Nat.max 1 conc in
  let st := binit items workers s in
  let '(fin, _) := gated o c n items stop workers (2 * workers)
                         (8 + length items * (1 + fst (retry_of c))) rel st [] in
  (base fin, results_of fin).

Definition gated_points (o : oracle) (rel : list nat)
           (c : ucfg) (conc : nat) (stop : bool) (n : nid) (s : ms) (items : list val)
  : list (list (nat * nat)) :=
  let workers := Nat.max 1 conc in
  snd (gated o c n items stop workers (2 * workers)
             (8 + length items * (1 + fst (retry_of c))) rel (binit items workers s) []).
