(* Base.v — identifiers, errors, values, events, oracles.
   Executable definitions only; lemmas about them live in Proofs/. *)
From Coq Require Export List Arith Bool Lia.
Export ListNotations.

Definition nid := nat.
Definition act := nat.           (* 0 = the empty action "", 1 = "default" *)
Definition A_EMPTY : act := 0.
Definition A_DEFAULT : act := 1.

(* ---------------------------------------------------------------- errors *)
(* EUser u : the user's error value number u
   ECtx    : the error reported by the context (ctx.Err())
   EFw f   : an error value created by the framework with no cause inside
   EWrap s e : fmt.Errorf("... %w ...", e) at wrap site s *)
Inductive err :=
| EUser (u : nat)
| ECtx
| EFw (f : nat)
| EWrap (site : nat) (e : err).

(* wrap sites of flyt.go / batch.go *)
Definition W_RUN_CTX0 := 1.      (* flyt.go  "run: context cancelled: %w" *)
Definition W_PREP := 2.          (* "run: prep failed: %w" (also batch.go) *)
Definition W_CTX_AFTER_PREP := 3.
Definition W_CTX_RETRY := 4.
Definition W_CTX_WAIT := 5.
Definition W_EXEC := 6.          (* "run: exec failed after %d retries: %w" *)
Definition W_POST := 7.          (* "run: post failed: %w" (also batch.go, both returns) *)
Definition W_FLOW_CTX := 8.      (* "flow: exec cancelled: %w" *)
Definition W_ITEM_CTX_RETRY := 12. (* batch.go "context cancelled during retry: %w" *)
Definition W_ITEM_CTX_WAIT := 13.  (* batch.go "context cancelled during wait: %w" *)
(* framework errors without a cause *)
Definition F_NO_START := 1.      (* "flow: exec failed: no start node configured" *)
Definition F_BAD_PREP := 2.      (* "flow: exec failed: invalid prepResult type" *)
Definition F_ITEM_CTX := 3.      (* batch.go "context cancelled" (not wrapped) *)
Definition F_STOPPED := 4.       (* batch.go "batch stopped due to error" *)

Fixpoint root (e : err) : err :=
  match e with EWrap _ e' => root e' | _ => e end.

(* error class: what errors.Is / errors.As can tell about an error value *)
Inductive eclass := KUser (u : nat) | KCtx | KFw.
Definition class_of (e : err) : eclass :=
  match root e with EUser u => KUser u | ECtx => KCtx | _ => KFw end.
Definition eclass_eqb (a b : eclass) : bool :=
  match a, b with
  | KUser u, KUser v => Nat.eqb u v
  | KCtx, KCtx => true
  | KFw, KFw => true
  | _, _ => false
  end.
(* matches e t : errors.Is(e, t) for a target t that is a user error value or the
   context's error, following the %w chain *)
Fixpoint matches (e t : err) : bool :=
  match e, t with
  | EUser u, EUser v => Nat.eqb u v
  | ECtx, ECtx => true
  | EWrap _ e', _ => matches e' t
  | _, _ => false
  end.
Definition err_sim (a b : err) : bool := eclass_eqb (class_of a) (class_of b).
Definition oerr_sim (a b : option err) : bool :=
  match a, b with
  | None, None => true
  | Some x, Some y => err_sim x y
  | _, _ => false
  end.

(* ---------------------------------------------------------------- values *)
(* Payloads are compared by identity, never printed: a token is an opaque Go value.
   VRes v e is a flyt.Result{value: v, err: e};  VSl true l is a []flyt.Result,
   VSl false l any other slice value. *)
Inductive val :=
| VNil
| VTok (t : nat)
| VStore                         (* the *SharedStore given to the run *)
| VOther                         (* something the harness could not classify *)
| VAct (a : act)
| VRes (v : val) (e : option err)
| VSl (isres : bool) (l : list val).

Fixpoint val_eqb (a b : val) {struct a} : bool :=
  match a, b with
  | VNil, VNil => true
  | VTok x, VTok y => Nat.eqb x y
  | VStore, VStore => true
  | VOther, VOther => true
  | VAct x, VAct y => Nat.eqb x y
  | VRes v e, VRes w f => val_eqb v w && oerr_sim e f
  | VSl k l, VSl k' l' =>
      Bool.eqb k k' &&
      (fix go (l l' : list val) {struct l} : bool :=
         match l, l' with
         | [], [] => true
         | x :: xs, y :: ys => val_eqb x y && go xs ys
         | _, _ => false
         end) l l'
  | _, _ => false
  end.

Fixpoint list_eqb {A} (eqb : A -> A -> bool) (l l' : list A) : bool :=
  match l, l' with
  | [], [] => true
  | x :: xs, y :: ys => eqb x y && list_eqb eqb xs ys
  | _, _ => false
  end.

(* Result helpers (result.go) *)
Definition new_result (v : val) : val := VRes v None.             (* NewResult *)
Definition new_error_result (e : err) : val := VRes VNil (Some e). (* NewErrorResult *)
Definition is_res (v : val) : bool := match v with VRes _ _ => true | _ => false end.
(* r.Value(): nil for an error result *)
Definition value_of (r : val) : val :=
  match r with
  | VRes v None => v
  | VRes _ (Some _) => VNil
  | v => v          (* not a Result: only reachable through ill-typed scripts *)
  end.
Definition res_is_error (r : val) : bool :=
  match r with VRes _ (Some _) => true | _ => false end.
(* `if r, ok := x.(Result); ok { r } else { NewResult(x) }` *)
Definition as_res (x : val) : val := if is_res x then x else new_result x.

(* ---------------------------------------------------------------- events *)
Inductive call :=
| CPrep (n : nid) (st : val)
| CExec (n : nid) (arg : val)
| CFallback (n : nid) (arg : val) (e : err)
| CPost (n : nid) (st : val) (p x : val)
| CBPost (n : nid) (st : val) (items results : list val)
| CWait (n : nid) (item : nat) (k : nat)    (* pseudo-call: the wait before attempt k *)
| CPark (n : nid) (calls : list nat).       (* pseudo-call of gated concurrent batches: the system is
                                               quiescent with exactly these exec calls in flight
                                               (16 * item index + attempt, ascending) *)

Inductive resp :=
| ROk (v : val)
| RErr (e : err)
| RAct (a : act).

(* the bool: the callback cancelled the context while it ran
   (for CWait: the context was cancelled during the wait) *)
Definition event := (call * resp * bool)%type.
Definition ev_call (e : event) : call := fst (fst e).
Definition ev_resp (e : event) : resp := snd (fst e).
Definition ev_cancel (e : event) : bool := snd e.

Definition oracle := list event -> call -> resp * bool.

Record ms := { log : list event; cancelled : bool }.

Definition emit (o : oracle) (s : ms) (c : call) : ms * resp :=
  let '(r, cn) := o (log s) c in
  ({| log := log s ++ [(c, r, cn)]; cancelled := cancelled s || cn |}, r).

Definition call_node (c : call) : nid :=
  match c with
  | CPrep n _ | CExec n _ | CFallback n _ _ | CPost n _ _ _ | CBPost n _ _ _ | CWait n _ _ | CPark n _ => n
  end.
Definition is_wait (c : call) : bool := match c with CWait _ _ _ => true | _ => false end.

Definition resp_eqb (a b : resp) : bool :=
  match a, b with
  | ROk v, ROk w => val_eqb v w
  | RErr e, RErr f => err_sim e f
  | RAct x, RAct y => Nat.eqb x y
  | _, _ => false
  end.
Definition call_eqb (a b : call) : bool :=
  match a, b with
  | CPrep n s, CPrep m t => Nat.eqb n m && val_eqb s t
  | CExec n x, CExec m y => Nat.eqb n m && val_eqb x y
  | CFallback n x e, CFallback m y f => Nat.eqb n m && val_eqb x y && err_sim e f
  | CPost n s p x, CPost m t q y => Nat.eqb n m && val_eqb s t && val_eqb p q && val_eqb x y
  | CBPost n s i r, CBPost m t j q =>
      Nat.eqb n m && val_eqb s t && list_eqb val_eqb i j && list_eqb val_eqb r q
  | CWait n i k, CWait m j l => Nat.eqb n m && Nat.eqb i j && Nat.eqb k l
  | CPark n l, CPark m l' => Nat.eqb n m && list_eqb Nat.eqb l l'
  | _, _ => false
  end.
Definition event_eqb (a b : event) : bool :=
  call_eqb (ev_call a) (ev_call b) && resp_eqb (ev_resp a) (ev_resp b)
  && Bool.eqb (ev_cancel a) (ev_cancel b).

(* outcome of a run: an action with a nil error, or an error with the empty action *)
Inductive outcome := Done (a : act) | Fail (e : err).
Definition outcome_eqb (a b : outcome) : bool :=
  match a, b with
  | Done x, Done y => Nat.eqb x y
  | Fail e, Fail f => err_sim e f
  | _, _ => false
  end.
Definition norm_act (a : act) : act := if Nat.eqb a A_EMPTY then A_DEFAULT else a.
