(* StoreConc.v — the SharedStore under concurrency (flyt.go:55-161): any number of threads, each
   running any list of operations; sync.RWMutex as {writer, number of readers}; every operation
   is invoke -> acquire (write or read lock) -> body -> release-and-respond.  The bodies have
   the granularity of the Go code, not of the specification: Merge writes one key per step,
   Keys and GetAll read one entry per step; so without the lock a reader could see half of a
   Merge.  `use_lock = false` is the same system with the lock not taken (the mechanism-
   sensitivity witness).  No proofs in this file. *)
From Flyt Require Import Store Lin.

Definition is_write (op : lop) : bool :=
  match op with LSet _ _ | LDelete _ | LMerge _ | LClear => true | _ => false end.

Inductive bacc :=
| BStart                                   (* nothing done yet *)
| BMerge (rest : amap)                     (* Merge: the entries still to be written *)
| BKeys (i : nat) (col : list key)         (* Keys: index of the next entry, keys collected *)
| BAll (i : nat) (col : amap).             (* GetAll: index of the next entry, entries copied *)

Inductive tstate :=
| TIdle
| TWant (op : lop)                         (* invoked; at mu.Lock() / mu.RLock() *)
| TBody (op : lop) (acc : bacc)            (* holds the lock; inside the body *)
| TUnlock (op : lop) (ret : lret).         (* body finished; about to unlock and return ret *)

Record thread := { t_ops : list lop; t_st : tstate }.

Inductive cev := CInv (j : nat) (op : lop) | CRes (j : nat) (op : lop) (ret : lret).

Record sst := {
  s_map : amap;                            (* s.data *)
  s_writer : option nat;
  s_readers : nat;
  s_threads : list thread;
  s_done : list (lop * lret);              (* ghost: completed operations in the order of their responses *)
  s_hist : list cev                        (* the history: invocations and responses *)
}.

Fixpoint set_nth {A} (l : list A) (i : nat) (x : A) : list A :=
  match l, i with
  | [], _ => []
  | _ :: t, 0 => x :: t
  | h :: t, S j => h :: set_nth t j x
  end.

Definition sinit (progs : list (list lop)) : sst :=
  {| s_map := []; s_writer := None; s_readers := 0;
     s_threads := map (fun ops => {| t_ops := ops; t_st := TIdle |}) progs;
     s_done := []; s_hist := [] |}.

Definition init_acc (op : lop) : bacc :=
  match op with
  | LMerge src => BMerge src
  | LKeys => BKeys 0 []
  | LGetAll => BAll 0 []
  | _ => BStart
  end.

Section SC.
Variable use_lock : bool.

Definition upd (s : sst) (j : nat) (th : thread) (m : amap) (w : option nat) (r : nat)
           (d : list (lop * lret)) (h : list cev) : sst :=
  {| s_map := m; s_writer := w; s_readers := r; s_threads := set_nth (s_threads s) j th;
     s_done := d; s_hist := h |}.

(* one body step of thread j holding the lock: the new map and the new state *)
Definition body_step (m : amap) (op : lop) (acc : bacc) : amap * tstate :=
  match op, acc with
  | LSet k v, _ => (aset m k v, TUnlock op LU)
  | LDelete k, _ => (adel m k, TUnlock op LU)
  | LClear, _ => ([], TUnlock op LU)
  | LMerge _, BMerge [] => (m, TUnlock op LU)
  | LMerge _, BMerge ((k, v) :: rest) => (aset m k v, TBody op (BMerge rest))
  | LGet k, _ => (m, TUnlock op (LVal (aget m k)))
  | LHas k, _ => (m, TUnlock op (LB (ahas m k)))
  | LLen, _ => (m, TUnlock op (LN (length m)))
  | LKeys, BKeys i col =>
      match nth_error m i with
      | Some (k, _) => (m, TBody op (BKeys (S i) (col ++ [k])))
      | None => (m, TUnlock op (LKs (sort_keys col)))
      end
  | LGetAll, BAll i col =>
      match nth_error m i with
      | Some kv => (m, TBody op (BAll (S i) (col ++ [kv])))
      | None => (m, TUnlock op (LMap (sort_map col)))
      end
  | _, _ => (m, TUnlock op LU)          (* not reachable: the accumulator always fits the operation *)
  end.

Definition sstep (s : sst) (j : nat) : option sst :=
  match nth_error (s_threads s) j with
  | None => None
  | Some th =>
      match t_st th with
      | TIdle =>
          match t_ops th with
          | [] => None
          | op :: rest =>
              Some (upd s j {| t_ops := rest; t_st := TWant op |} (s_map s) (s_writer s) (s_readers s)
                        (s_done s) (s_hist s ++ [CInv j op]))
          end
      | TWant op =>
          if is_write op then
            (* mu.Lock(): no writer and no reader *)
            if negb use_lock || (match s_writer s with None => Nat.eqb (s_readers s) 0 | Some _ => false end)
            then Some (upd s j {| t_ops := t_ops th; t_st := TBody op (init_acc op) |} (s_map s)
                           (if use_lock then Some j else s_writer s) (s_readers s) (s_done s) (s_hist s))
            else None
          else
            (* mu.RLock(): no writer *)
            if negb use_lock || (match s_writer s with None => true | Some _ => false end)
            then Some (upd s j {| t_ops := t_ops th; t_st := TBody op (init_acc op) |} (s_map s)
                           (s_writer s) (if use_lock then S (s_readers s) else s_readers s) (s_done s) (s_hist s))
            else None
      | TBody op acc =>
          let '(m', st') := body_step (s_map s) op acc in
          Some (upd s j {| t_ops := t_ops th; t_st := st' |} m' (s_writer s) (s_readers s) (s_done s) (s_hist s))
      | TUnlock op ret =>
          Some (upd s j {| t_ops := t_ops th; t_st := TIdle |} (s_map s)
                    (if use_lock then (if is_write op then None else s_writer s) else s_writer s)
                    (if use_lock then (if is_write op then s_readers s else s_readers s - 1) else s_readers s)
                    (s_done s ++ [(op, ret)]) (s_hist s ++ [CRes j op ret]))
      end
  end.

Fixpoint srun (s : sst) (sched : list nat) : sst :=
  match sched with
  | [] => s
  | j :: rest => match sstep s j with Some s' => srun s' rest | None => srun s rest end
  end.

End SC.

(* the completed operations, in response order, as a sequential execution of an ordinary map *)
Fixpoint legal_seq (m : amap) (l : list (lop * lret)) : bool :=
  match l with
  | [] => true
  | (op, ret) :: rest => lret_eqb (snd (lstep m op)) ret && legal_seq (fst (lstep m op)) rest
  end.
Fixpoint replay (m : amap) (l : list (lop * lret)) : amap :=
  match l with [] => m | (op, _) :: rest => replay (fst (lstep m op)) rest end.

(* a thread is inside a critical section *)
Definition in_cs (th : thread) : option lop :=
  match t_st th with TBody op _ | TUnlock op _ => Some op | _ => None end.
(* a data race on the map is possible: two threads are inside their bodies and one of them writes *)
Definition racy (s : sst) : Prop :=
  exists i j thi thj opi opj,
    i <> j /\ nth_error (s_threads s) i = Some thi /\ nth_error (s_threads s) j = Some thj /\
    in_cs thi = Some opi /\ in_cs thj = Some opj /\ (is_write opi = true \/ is_write opj = true).

(* the history as timestamped operations (Spec/Lin.v): instants are positions in the event list;
   an operation is listed when it responds, with the instant of its thread's latest invocation
   (a response with no invocation before it — never produced by sstep — would get the empty
   interval [p, p], the most demanding choice) *)
Record hacc := { ha_pos : nat; ha_pend : list (nat * nat); ha_out : history }.
Fixpoint pend_find (l : list (nat * nat)) (j : nat) : option nat :=
  match l with [] => None | (i, q) :: t => if Nat.eqb i j then Some q else pend_find t j end.
Definition hist_step (a : hacc) (e : cev) : hacc :=
  match e with
  | CInv j _ => {| ha_pos := S (ha_pos a); ha_pend := (j, ha_pos a) :: ha_pend a; ha_out := ha_out a |}
  | CRes j op ret =>
      let q := match pend_find (ha_pend a) j with Some q => q | None => ha_pos a end in
      {| ha_pos := S (ha_pos a); ha_pend := ha_pend a;
         ha_out := ha_out a ++ [{| h_id := length (ha_out a); h_inv := q; h_res := ha_pos a;
                                   h_op := op; h_ret := ret |}] |}
  end.
Definition hacc0 : hacc := {| ha_pos := 0; ha_pend := []; ha_out := [] |}.
Definition hist_of (h : list cev) : history := ha_out (fold_left hist_step h hacc0).
