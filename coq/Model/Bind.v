(* Bind.v — Result.Bind (result.go:294-324) and SharedStore.Bind (flyt.go:380-411): the pointer
   checks through reflect (whose partial operations are explicit), the same-type fast path,
   and the JSON round trip.  encoding/json is not modelled: marshal and unmarshal are
   parameters (any functions), so every theorem holds whatever JSON does.
   No proofs in this file. *)
From Flyt Require Import Values Accessors.

(* what reflect.ValueOf(dest) is *)
Inductive bdest :=
| BNilIface                         (* dest == nil: the zero reflect.Value, Kind() = Invalid *)
| BNonPtr (nilable : bool)          (* not a pointer; nilable: IsNil() is defined for its kind
                                       (map, slice, func, chan), else IsNil() panics *)
| BPtrNil (T : gtype)               (* a nil *T *)
| BPtr (T : gtype) (cur : gval).    (* a *T pointing to cur *)

Inductive bclass :=
| BOk
| BErrNilValue                      (* "cannot bind nil Result value" *)
| BErrMissing                       (* "key ... not found in shared store" *)
| BErrNotPtr                        (* "destination must be a non-nil pointer" *)
| BErrMarshal                       (* wraps json.Marshal's error *)
| BErrUnmarshal                     (* wraps json.Unmarshal's error *)
| BPanic.

(* what became of the pointee *)
Inductive beffect :=
| EUnchanged                        (* nothing was written *)
| ESetTo (v : gval)                 (* *dest = the value itself *)
| EJson (after : gval).             (* whatever json.Unmarshal left in *dest *)

Section Bind.
Variable bytes jerr : Type.
Variable marshal : gval -> bytes + jerr.
(* unmarshal b T cur: the pointee after json.Unmarshal(b, dest) and its error *)
Variable unmarshal : bytes -> gtype -> gval -> gval * option jerr.

(* rv.Kind() != reflect.Ptr || rv.IsNil(), evaluated left to right *)
Definition kind_is_ptr (d : bdest) : bool :=
  match d with BPtrNil _ | BPtr _ _ => true | _ => false end.
(* reflect.Value.IsNil: None = it panics (zero Value, or a kind without nil) *)
Definition refl_is_nil (d : bdest) : option bool :=
  match d with
  | BNilIface => None
  | BNonPtr nilable => if nilable then Some false else None
  | BPtrNil _ => Some true
  | BPtr _ _ => Some false
  end.

Definition bind_value (v : gval) (d : bdest) : bclass * beffect :=
  if negb (kind_is_ptr d) then (BErrNotPtr, EUnchanged) else
  match refl_is_nil d with
  | None => (BPanic, EUnchanged)
  | Some true => (BErrNotPtr, EUnchanged)
  | Some false =>
      match d with
      | BPtr T cur =>
          if gtype_eqb (type_of v) T then (BOk, ESetTo v)       (* rv.Elem().Set(reflect.ValueOf(val)) *)
          else match marshal v with
               | inr _ => (BErrMarshal, EUnchanged)
               | inl b => match unmarshal b T cur with
                          | (after, None) => (BOk, EJson after)
                          | (after, Some _) => (BErrUnmarshal, EJson after)
                          end
               end
      | _ => (BPanic, EUnchanged)
      end
  end.

(* Result.Bind: a nil value is refused first *)
Definition bind_result (v : gval) (d : bdest) : bclass * beffect :=
  match v with
  | GNil => (BErrNilValue, EUnchanged)
  | _ => bind_value v d
  end.

(* SharedStore.Bind: a missing key is refused first; a stored nil takes the JSON path ("null") *)
Definition bind_store (o : option gval) (d : bdest) : bclass * beffect :=
  match o with
  | None => (BErrMissing, EUnchanged)
  | Some v => bind_value v d
  end.

(* the variant with the two reflect tests in the other order (mechanism-sensitivity witness) *)
Definition bind_value_isnil_first (v : gval) (d : bdest) : bclass * beffect :=
  match refl_is_nil d with
  | None => (BPanic, EUnchanged)
  | Some true => (BErrNotPtr, EUnchanged)
  | Some false => if negb (kind_is_ptr d) then (BErrNotPtr, EUnchanged) else bind_value v d
  end.

End Bind.
