(* Store.v — SharedStore (flyt.go:55-161) without the lock (the lock discipline is C13).
   Two machines:
     cstep: the store as the Go code has it — a heap of map / slice objects, the store holding
            a REFERENCE to its current map object; Set / Delete / Merge update that object in
            place, Clear allocates a new one (s.data = make(...)), GetAll allocates a map object
            and copies into it, Keys allocates a slice object.  Aliasing is expressible here:
            scenario operations also mutate the objects handed out and merge them back.
     dstep: the specification — the store is a map VALUE; snapshots are separate values.
   Keys and values are identifiers (value 0 is a stored nil).  No proofs in this file. *)
From Coq Require Export List Arith Bool Lia.
Export ListNotations.

Definition key := nat.
Definition sval := nat.
Definition amap := list (key * sval).

Fixpoint aget (m : amap) (k : key) : option sval :=
  match m with
  | [] => None
  | (k', v) :: t => if Nat.eqb k k' then Some v else aget t k
  end.
(* m[k] = v *)
Fixpoint aset (m : amap) (k : key) (v : sval) : amap :=
  match m with
  | [] => [(k, v)]
  | (k', v') :: t => if Nat.eqb k k' then (k', v) :: t else (k', v') :: aset t k v
  end.
(* delete(m, k) *)
Fixpoint adel (m : amap) (k : key) : amap :=
  match m with
  | [] => []
  | (k', v') :: t => if Nat.eqb k k' then t else (k', v') :: adel t k
  end.
(* for k, v := range src { m[k] = v } *)
Definition amerge (m src : amap) : amap := fold_left (fun acc kv => aset acc (fst kv) (snd kv)) src m.
Definition akeys (m : amap) : list key := map fst m.
Definition ahas (m : amap) (k : key) : bool := match aget m k with Some _ => true | None => false end.

(* Go's map iteration order is unspecified.  The scenario sorts a Keys() slice in place as soon
   as it gets it (a mutation of the user's own copy), so its contents are canonical. *)
Fixpoint ins_key (k : key) (l : list key) : list key :=
  match l with [] => [k] | h :: t => if Nat.leb k h then k :: l else h :: ins_key k t end.
Definition sort_keys (l : list key) : list key := fold_right ins_key [] l.

Inductive obj := OM (m : amap) | OK (l : list key).

Inductive sop :=
| OSet (k : key) (v : sval)
| OGet (k : key)
| OHas (k : key)
| ODelete (k : key)
| OLen
| OKeys
| OGetAll
| OMergeNil                      (* Merge(nil) *)
| OMergeLit (m : amap)           (* Merge(map literal) *)
| OMergeSnap (r : nat)           (* Merge(a map earlier returned by GetAll, as it is now) *)
| OClear
| OSnapSet (r : nat) (k : key) (v : sval)   (* the user writes into a map returned by GetAll *)
| OSnapDel (r : nat) (k : key)
| OKeysSet (r : nat) (i : nat) (k : key)    (* the user overwrites an element of a Keys() slice *)
| OKeysTrunc (r : nat) (n : nat)
| OReadSnap (r : nat)
| OReadKeys (r : nat).

Inductive sret :=
| RU
| RVal (o : option sval)
| RB (b : bool)
| RN (n : nat)
| RNewKeys (r : nat) (l : list key)
| RNewMap (r : nat) (m : amap)
| RMapIs (m : amap)
| RKeysAre (l : list key)
| RBadRef.

(* ---------------------------------------------------------------- heap machine *)
Definition heap := list (nat * obj).
Fixpoint hget (h : heap) (r : nat) : option obj :=
  match h with
  | [] => None
  | (r', o) :: t => if Nat.eqb r r' then Some o else hget t r
  end.
Fixpoint hset (h : heap) (r : nat) (o : obj) : heap :=
  match h with
  | [] => [(r, o)]
  | (r', o') :: t => if Nat.eqb r r' then (r', o) :: t else (r', o') :: hset t r o
  end.

Record cst := { c_heap : heap; c_cur : nat; c_next : nat }.
Definition cinit : cst := {| c_heap := [(0, OM [])]; c_cur := 0; c_next := 1 |}.

Definition cur_map (s : cst) : amap :=
  match hget (c_heap s) (c_cur s) with Some (OM m) => m | _ => [] end.
Definition with_cur (s : cst) (m : amap) : cst :=
  {| c_heap := hset (c_heap s) (c_cur s) (OM m); c_cur := c_cur s; c_next := c_next s |}.
Definition alloc (s : cst) (o : obj) : cst :=
  {| c_heap := c_heap s ++ [(c_next s, o)]; c_cur := c_cur s; c_next := S (c_next s) |}.
Definition with_obj (s : cst) (r : nat) (o : obj) : cst :=
  {| c_heap := hset (c_heap s) r o; c_cur := c_cur s; c_next := c_next s |}.

Fixpoint list_set {A} (l : list A) (i : nat) (x : A) : list A :=
  match l, i with
  | [], _ => []
  | _ :: t, 0 => x :: t
  | h :: t, S j => h :: list_set t j x
  end.

Definition cstep (s : cst) (op : sop) : cst * sret :=
  match op with
  | OSet k v => (with_cur s (aset (cur_map s) k v), RU)
  | OGet k => (s, RVal (aget (cur_map s) k))
  | OHas k => (s, RB (ahas (cur_map s) k))
  | ODelete k => (with_cur s (adel (cur_map s) k), RU)
  | OLen => (s, RN (length (cur_map s)))
  | OKeys => (alloc s (OK (sort_keys (akeys (cur_map s)))), RNewKeys (c_next s) (sort_keys (akeys (cur_map s))))
  | OGetAll => (alloc s (OM (cur_map s)), RNewMap (c_next s) (cur_map s))
  | OMergeNil => (s, RU)
  | OMergeLit m => (with_cur s (amerge (cur_map s) m), RU)
  | OMergeSnap r =>
      match hget (c_heap s) r with
      | Some (OM m) => (with_cur s (amerge (cur_map s) m), RU)
      | _ => (s, RBadRef)
      end
  | OClear =>
      (* s.data = make(map[string]any): the store points to a NEW object *)
      ({| c_heap := c_heap s ++ [(c_next s, OM [])]; c_cur := c_next s; c_next := S (c_next s) |}, RU)
  | OSnapSet r k v =>
      match hget (c_heap s) r with
      | Some (OM m) => (with_obj s r (OM (aset m k v)), RU)
      | _ => (s, RBadRef)
      end
  | OSnapDel r k =>
      match hget (c_heap s) r with
      | Some (OM m) => (with_obj s r (OM (adel m k)), RU)
      | _ => (s, RBadRef)
      end
  | OKeysSet r i k =>
      match hget (c_heap s) r with
      | Some (OK l) => (with_obj s r (OK (list_set l i k)), RU)
      | _ => (s, RBadRef)
      end
  | OKeysTrunc r n =>
      match hget (c_heap s) r with
      | Some (OK l) => (with_obj s r (OK (firstn n l)), RU)
      | _ => (s, RBadRef)
      end
  | OReadSnap r =>
      match hget (c_heap s) r with
      | Some (OM m) => (s, RMapIs m)
      | _ => (s, RBadRef)
      end
  | OReadKeys r =>
      match hget (c_heap s) r with
      | Some (OK l) => (s, RKeysAre l)
      | _ => (s, RBadRef)
      end
  end.

Fixpoint crun (s : cst) (ops : list sop) : list sret :=
  match ops with
  | [] => []
  | op :: rest => let '(s', r) := cstep s op in r :: crun s' rest
  end.

(* ---------------------------------------------------------------- specification machine *)
Record dst := { d_map : amap; d_objs : list (nat * obj); d_next : nat }.
Definition dinit : dst := {| d_map := []; d_objs := []; d_next := 1 |}.

Definition dstep (s : dst) (op : sop) : dst * sret :=
  let upd m := {| d_map := m; d_objs := d_objs s; d_next := d_next s |} in
  let newobj o := {| d_map := d_map s; d_objs := d_objs s ++ [(d_next s, o)]; d_next := S (d_next s) |} in
  let setobj r o := {| d_map := d_map s; d_objs := hset (d_objs s) r o; d_next := d_next s |} in
  match op with
  | OSet k v => (upd (aset (d_map s) k v), RU)
  | OGet k => (s, RVal (aget (d_map s) k))
  | OHas k => (s, RB (ahas (d_map s) k))
  | ODelete k => (upd (adel (d_map s) k), RU)
  | OLen => (s, RN (length (d_map s)))
  | OKeys => (newobj (OK (sort_keys (akeys (d_map s)))), RNewKeys (d_next s) (sort_keys (akeys (d_map s))))
  | OGetAll => (newobj (OM (d_map s)), RNewMap (d_next s) (d_map s))
  | OMergeNil => (s, RU)
  | OMergeLit m => (upd (amerge (d_map s) m), RU)
  | OMergeSnap r =>
      match hget (d_objs s) r with
      | Some (OM m) => (upd (amerge (d_map s) m), RU)
      | _ => (s, RBadRef)
      end
  | OClear => ({| d_map := []; d_objs := d_objs s; d_next := S (d_next s) |}, RU)
  | OSnapSet r k v =>
      match hget (d_objs s) r with
      | Some (OM m) => (setobj r (OM (aset m k v)), RU)
      | _ => (s, RBadRef)
      end
  | OSnapDel r k =>
      match hget (d_objs s) r with
      | Some (OM m) => (setobj r (OM (adel m k)), RU)
      | _ => (s, RBadRef)
      end
  | OKeysSet r i k =>
      match hget (d_objs s) r with
      | Some (OK l) => (setobj r (OK (list_set l i k)), RU)
      | _ => (s, RBadRef)
      end
  | OKeysTrunc r n =>
      match hget (d_objs s) r with
      | Some (OK l) => (setobj r (OK (firstn n l)), RU)
      | _ => (s, RBadRef)
      end
  | OReadSnap r =>
      match hget (d_objs s) r with
      | Some (OM m) => (s, RMapIs m)
      | _ => (s, RBadRef)
      end
  | OReadKeys r =>
      match hget (d_objs s) r with
      | Some (OK l) => (s, RKeysAre l)
      | _ => (s, RBadRef)
      end
  end.

Fixpoint drun (s : dst) (ops : list sop) : list sret :=
  match ops with
  | [] => []
  | op :: rest => let '(s', r) := dstep s op in r :: drun s' rest
  end.

(* the user can only name objects that were handed out: references are the allocation numbers
   of earlier Keys / GetAll operations *)
Definition op_ref (op : sop) : option nat :=
  match op with
  | OMergeSnap r | OSnapSet r _ _ | OSnapDel r _ | OKeysSet r _ _ | OKeysTrunc r _
  | OReadSnap r | OReadKeys r => Some r
  | _ => None
  end.
Definition allocates (op : sop) : bool :=
  match op with OKeys | OGetAll | OClear => true | _ => false end.
Definition hands_out (op : sop) : bool :=
  match op with OKeys | OGetAll => true | _ => false end.

Fixpoint wf_ops (next : nat) (handed : list nat) (ops : list sop) : bool :=
  match ops with
  | [] => true
  | op :: rest =>
      match op_ref op with
      | Some r => existsb (Nat.eqb r) handed
      | None => true
      end &&
      wf_ops (if allocates op then S next else next)
             (if hands_out op then next :: handed else handed) rest
  end.

(* ---------------------------------------------------------------- canonical forms for comparison *)
(* maps returned by GetAll are compared as sets of bindings *)
Fixpoint ins_kv (kv : key * sval) (l : amap) : amap :=
  match l with [] => [kv] | h :: t => if Nat.leb (fst kv) (fst h) then kv :: l else h :: ins_kv kv t end.
Definition sort_map (m : amap) : amap := fold_right ins_kv [] m.

Definition canon (r : sret) : sret :=
  match r with
  | RNewMap x m => RNewMap x (sort_map m)
  | RMapIs m => RMapIs (sort_map m)
  | r => r
  end.
