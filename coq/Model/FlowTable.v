(* FlowTable.v — Flow.transitions: map[Node]map[Action]Node built by Connect
   (flyt.go:830-836) and read by Flow.Exec (flyt.go:891-901). *)
From Flyt Require Import Base.

Definition row := list (act * option nid).          (* inner map: action -> successor (nil allowed) *)
Definition tmap := list (nid * row).                (* outer map: node -> inner map *)
Definition conn := (nid * act * option nid)%type.   (* one Connect(from, action, to) call *)

Fixpoint row_get (r : row) (a : act) : option (option nid) :=
  match r with
  | [] => None
  | (b, t) :: r' => if Nat.eqb a b then Some t else row_get r' a
  end.
(* m[a] = t : overwrite in place or add *)
Fixpoint row_set (r : row) (a : act) (t : option nid) : row :=
  match r with
  | [] => [(a, t)]
  | (b, u) :: r' => if Nat.eqb a b then (b, t) :: r' else (b, u) :: row_set r' a t
  end.
Fixpoint tmap_get (m : tmap) (n : nid) : option row :=
  match m with
  | [] => None
  | (k, r) :: m' => if Nat.eqb n k then Some r else tmap_get m' n
  end.
Fixpoint tmap_set (m : tmap) (n : nid) (r : row) : tmap :=
  match m with
  | [] => [(n, r)]
  | (k, r0) :: m' => if Nat.eqb n k then (k, r) :: m' else (k, r0) :: tmap_set m' n r
  end.

(* Connect: create the inner map on demand, then overwrite the (from, action) entry *)
Definition connect (m : tmap) (c : conn) : tmap :=
  let '(from, a, to) := c in
  let r := match tmap_get m from with Some r => r | None => [] end in
  tmap_set m from (row_set r a to).

Definition build (cs : list conn) : tmap := fold_left connect cs [].

(* the two-level lookup of Flow.Exec: None = no row or no column (flow ends),
   Some None = connected to nil (loop condition ends the flow), Some (Some n) = go on *)
Definition lookup2 (m : tmap) (n : nid) (a : act) : option (option nid) :=
  match tmap_get m n with
  | None => None
  | Some r => row_get r a
  end.

(* the abstract reading of a Connect list: the last operation on the pair wins *)
Fixpoint last_conn (cs : list conn) (n : nid) (a : act) : option (option nid) :=
  match cs with
  | [] => None
  | (from, b, to) :: rest =>
      match last_conn rest n a with
      | Some t => Some t
      | None => if Nat.eqb n from && Nat.eqb a b then Some to else None
      end
  end.
