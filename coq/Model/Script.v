(* Script.v — the scripted oracle used by the correspondence check.
   A script is a finite response table; the Go scripted node implements the same lookup. *)
From Flyt Require Import Base.

Inductive phase := PhPrep | PhExec | PhFb | PhPost | PhWait | PhPark.
Definition phase_eqb (a b : phase) : bool :=
  match a, b with
  | PhPrep, PhPrep | PhExec, PhExec | PhFb, PhFb | PhPost, PhPost | PhWait, PhWait | PhPark, PhPark => true
  | _, _ => false
  end.

(* item key of an argument: the token inside (0 = none) *)
Definition item_key (v : val) : nat :=
  match v with
  | VTok t => t
  | VRes (VTok t) _ => t
  | _ => 0
  end.

Definition skey := (nid * phase * nat)%type.

Definition call_key (c : call) : skey :=
  match c with
  | CPrep n _ => (n, PhPrep, 0)
  | CExec n a => (n, PhExec, item_key a)
  | CFallback n a _ => (n, PhFb, item_key a)
  | CPost n _ _ _ => (n, PhPost, 0)
  | CBPost n _ _ _ => (n, PhPost, 0)
  | CWait n i _ => (n, PhWait, i)
  | CPark n _ => (n, PhPark, 0)
  end.

(* an entry with item 0 matches every argument *)
Definition key_matches (k c : skey) : bool :=
  let '(n, p, i) := k in
  let '(m, q, j) := c in
  Nat.eqb n m && phase_eqb p q && (Nat.eqb i 0 || Nat.eqb i j).

Record sentry := { se_key : skey; se_rs : list (resp * bool); se_dflt : resp * bool }.
Definition script := list sentry.

Definition global_default (p : phase) : resp * bool :=
  match p with
  | PhPost => (RAct 99, false)
  | _ => (ROk VNil, false)
  end.

Definition count_matching (k : skey) (l : list event) : nat :=
  length (filter (fun e => key_matches k (call_key (ev_call e))) l).

Fixpoint find_entry (sc : script) (c : skey) : option sentry :=
  match sc with
  | [] => None
  | e :: rest => if key_matches (se_key e) c then Some e else find_entry rest c
  end.

Definition oracle_of (sc : script) : oracle :=
  fun hist c =>
    let k := call_key c in
    match find_entry sc k with
    | None => global_default (snd (fst k))
    | Some e => nth (count_matching (se_key e) hist) (se_rs e) (se_dflt e)
    end.
