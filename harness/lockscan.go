package main

// Lockscan family (C13): reads the SOURCE of the shared store (flyt.go in the module the harness
// is built against) and reports, for every method of *SharedStore, its lock discipline:
//   W / R     the first statement that mentions the mutex is mu.Lock() / mu.RLock(), the next one is
//             the matching deferred unlock, nothing before them touches s.data, the mutex is not
//             mentioned anywhere else in the method, and the method starts no goroutine
//   none      the method mentions neither the mutex nor s.data (it goes through other methods)
//   irregular anything else
// plus the fields of the struct.  The model of C13 (Model/StoreConc.v) assumes exactly the
// discipline W for Set/Delete/Merge/Clear and R for Get/Has/Len/Keys/GetAll, and nothing but
// {mu, data} as state; Corr/LockCorr.v compares.  A harmless rewrite of the locking can make
// this comparison fail (reported as no-failing-input-found, as the brief prescribes).

import (
	"fmt"
	"go/ast"
	"go/parser"
	"go/token"
	"os"
	"path/filepath"
	"sort"
	"strings"
)

type LockObs struct {
	Fields  []string          `json:"fields"`
	Methods map[string]string `json:"methods"`
	Err     string            `json:"err,omitempty"`
}

func flytDir() string {
	if d := os.Getenv("FLYT_SRC"); d != "" {
		return d
	}
	// the harness module replaces github.com/mark3labs/flyt by a local directory: read it from go.mod
	for _, gm := range []string{"go.mod", "harness/go.mod", "/verif/harness/go.mod"} {
		b, err := os.ReadFile(gm)
		if err != nil {
			continue
		}
		for _, ln := range strings.Split(string(b), "\n") {
			if strings.Contains(ln, "github.com/mark3labs/flyt") && strings.Contains(ln, "=>") {
				return strings.TrimSpace(ln[strings.Index(ln, "=>")+2:])
			}
		}
	}
	return "/repo"
}

func selIs(e ast.Expr, recv, field string) bool {
	s, ok := e.(*ast.SelectorExpr)
	if !ok || s.Sel.Name != field {
		return false
	}
	id, ok := s.X.(*ast.Ident)
	return ok && id.Name == recv
}

// muCall: stmt is  [defer] recv.mu.<name>()
func muCall(st ast.Stmt, recv string) (name string, deferred bool, ok bool) {
	var call *ast.CallExpr
	switch s := st.(type) {
	case *ast.ExprStmt:
		call, _ = s.X.(*ast.CallExpr)
	case *ast.DeferStmt:
		call = s.Call
		deferred = true
	}
	if call == nil || len(call.Args) != 0 {
		return "", false, false
	}
	sel, ok2 := call.Fun.(*ast.SelectorExpr)
	if !ok2 || !selIs(sel.X, recv, "mu") {
		return "", false, false
	}
	return sel.Sel.Name, deferred, true
}

func mentions(n ast.Node, recv, field string) int {
	c := 0
	ast.Inspect(n, func(x ast.Node) bool {
		if e, ok := x.(ast.Expr); ok && selIs(e, recv, field) {
			c++
		}
		return true
	})
	return c
}

func hasGo(n ast.Node) bool {
	found := false
	ast.Inspect(n, func(x ast.Node) bool {
		switch x.(type) {
		case *ast.GoStmt, *ast.FuncLit:
			found = true
		}
		return true
	})
	return found
}

func discipline(fd *ast.FuncDecl, recv string) string {
	body := fd.Body
	if body == nil {
		return "irregular"
	}
	muTotal := mentions(body, recv, "mu")
	dataTotal := mentions(body, recv, "data")
	if muTotal == 0 && dataTotal == 0 {
		return "none"
	}
	if hasGo(body) {
		return "irregular"
	}
	for i, st := range body.List {
		if mentions(st, recv, "mu") == 0 {
			if mentions(st, recv, "data") > 0 {
				return "irregular" // the map is touched before the lock is taken
			}
			continue
		}
		name, deferred, ok := muCall(st, recv)
		if !ok || deferred || (name != "Lock" && name != "RLock") {
			return "irregular"
		}
		if i+1 >= len(body.List) {
			return "irregular"
		}
		uname, udef, uok := muCall(body.List[i+1], recv)
		want := map[string]string{"Lock": "Unlock", "RLock": "RUnlock"}[name]
		if !uok || !udef || uname != want {
			return "irregular"
		}
		if muTotal != 2 {
			return "irregular" // the mutex is used somewhere else in the method too
		}
		if name == "Lock" {
			return "W"
		}
		return "R"
	}
	return "irregular"
}

func scanLocks() LockObs {
	o := LockObs{Methods: map[string]string{}}
	dir := flytDir()
	fset := token.NewFileSet()
	files, err := filepath.Glob(filepath.Join(dir, "*.go"))
	if err != nil || len(files) == 0 {
		o.Err = fmt.Sprintf("no Go files in %s", dir)
		return o
	}
	for _, f := range files {
		if strings.HasSuffix(f, "_test.go") {
			continue
		}
		af, err := parser.ParseFile(fset, f, nil, 0)
		if err != nil {
			o.Err = err.Error()
			return o
		}
		for _, d := range af.Decls {
			switch x := d.(type) {
			case *ast.GenDecl:
				for _, sp := range x.Specs {
					ts, ok := sp.(*ast.TypeSpec)
					if !ok || ts.Name.Name != "SharedStore" {
						continue
					}
					if st, ok := ts.Type.(*ast.StructType); ok {
						for _, fl := range st.Fields.List {
							if len(fl.Names) == 0 {
								o.Fields = append(o.Fields, "(embedded)")
							}
							for _, n := range fl.Names {
								o.Fields = append(o.Fields, n.Name)
							}
						}
					}
				}
			case *ast.FuncDecl:
				if x.Recv == nil || len(x.Recv.List) != 1 {
					continue
				}
				star, ok := x.Recv.List[0].Type.(*ast.StarExpr)
				var tn string
				if ok {
					if id, ok := star.X.(*ast.Ident); ok {
						tn = id.Name
					}
				} else if id, ok := x.Recv.List[0].Type.(*ast.Ident); ok {
					tn = id.Name
				}
				if tn != "SharedStore" {
					continue
				}
				recv := "_"
				if len(x.Recv.List[0].Names) == 1 {
					recv = x.Recv.List[0].Names[0].Name
				}
				o.Methods[x.Name.Name] = discipline(x, recv)
			}
		}
	}
	sort.Strings(o.Fields)
	return o
}

func (o LockObs) Coq() string {
	fs := make([]string, len(o.Fields))
	for i, f := range o.Fields {
		fs[i] = fmt.Sprintf("%q", f)
	}
	names := make([]string, 0, len(o.Methods))
	for n := range o.Methods {
		names = append(names, n)
	}
	sort.Strings(names)
	ms := make([]string, len(names))
	for i, n := range names {
		d := map[string]string{"W": "DW", "R": "DR", "none": "DNone"}[o.Methods[n]]
		if d == "" {
			d = "DIrregular"
		}
		ms[i] = fmt.Sprintf("(%q, %s)", n, d)
	}
	return fmt.Sprintf("{| lo_fields := [%s]; lo_methods := [%s]; lo_scanned := %v |}%%string",
		strings.Join(fs, "; "), strings.Join(ms, "; "), o.Err == "")
}

func lockscanMain(prop, tier string, seed uint64, out, replay string) error {
	st := newStats()
	o := scanLocks()
	cases := []coqCase{{id: 0, scen: "0", obs: o.Coq()}}
	st.Evaluations = 1
	st.DistinctNontrivial = 1
	st.Exhaustive = true
	st.Scope = "every method of *SharedStore and the fields of the struct, read from the source of the module the harness is built against (" + flytDir() + ")"
	st.Rule = "one case: the lock discipline table of the source"
	st.Samples = append(st.Samples, o)
	for n, d := range o.Methods {
		st.count("discipline=" + d)
		_ = n
	}
	// negative controls: a table with one method's discipline changed must not be accepted
	var controls []coqCase
	id := 0
	for _, m := range []string{"Clear", "Len", "Merge"} {
		c := LockObs{Fields: o.Fields, Methods: map[string]string{}}
		for k, v := range o.Methods {
			c.Methods[k] = v
		}
		c.Methods[m] = map[string]string{"Clear": "none", "Len": "irregular", "Merge": "R"}[m]
		controls = append(controls, coqCase{id: id, scen: "0", obs: c.Coq()})
		id++
	}
	cf := LockObs{Fields: append(append([]string{}, o.Fields...), "size"), Methods: o.Methods}
	controls = append(controls, coqCase{id: id, scen: "0", obs: cf.Coq()})
	st.Controls = len(controls)
	n, err := writeShards(out, prop, "LockCorr", "lkscen", "lockobs", "admits_locks", "spec_locks", cases, controls)
	if err != nil {
		return err
	}
	st.Shards = n
	if err := writeJSONL(filepath.Join(out, "cases.jsonl"), []any{map[string]any{"id": 0, "scen": 0, "obs": o}}); err != nil {
		return err
	}
	return writeStats(out, st)
}
