package main

// Engine family: scenarios made of user nodes, flows and batch nodes driven by scripted
// callbacks; the observation is the trace of callbacks and the outcome of flyt.Run.

import (
	"context"
	"encoding/json"
	"fmt"
	"runtime/debug"
	"strings"
	"sync"
	"sync/atomic"
	"time"

	"github.com/mark3labs/flyt"
)

// ---------------------------------------------------------------- scenario

type NodeDef struct {
	ID   int    `json:"id"`
	Kind string `json:"kind"` // user | flow | batch
	// how the node is built in Go: k1 k1fb k1exec k1none k2 k3 k4 opt bld mix
	Impl  string  `json:"impl,omitempty"`
	Retry *[2]int `json:"retry,omitempty"` // budget, wait (ms); nil = not a RetryableNode
	Fb    string  `json:"fb,omitempty"`    // none | default | user
	Prep  string  `json:"prep,omitempty"`  // absent | direct | res | any | batch
	Exec  string  `json:"exec,omitempty"`
	Post  string  `json:"post,omitempty"`
	// flows
	Start *int    `json:"start,omitempty"`
	Conns [][]int `json:"conns,omitempty"` // [from, action, to]  (to = -1: nil)
	// batches
	Conc int  `json:"conc,omitempty"`
	Stop bool `json:"stop,omitempty"`
	// batches: set the configuration explicitly even when it is the default
	ExplicitCfg bool `json:"explicit_cfg,omitempty"`
}

type SEntry struct {
	N    int    `json:"n"`
	Ph   string `json:"ph"` // prep exec fb post
	Item int    `json:"item,omitempty"`
	Rs   []Resp `json:"rs"`
	Dflt Resp   `json:"dflt"`
}

type EScen struct {
	Nodes     []NodeDef `json:"nodes"`
	Root      int       `json:"root"`
	PreCancel bool      `json:"precancel,omitempty"`
	Deadline  bool      `json:"deadline,omitempty"` // context kind: deadline-style instead of cancel
	Script    []SEntry  `json:"script"`
	Runs      int       `json:"runs"`
	Note      string    `json:"note,omitempty"`
	// concurrent batch nodes run gated: every exec call parks; at each quiescent point the
	// parked call that comes first in Release (16*item index + attempt) is let go
	Release []int `json:"release,omitempty"`
	// wait family: every exec callback sleeps this long before it returns (microseconds)
	ExecDelayUs int `json:"exec_delay_us,omitempty"`
	// gated runs: the controller sits on quiescent point number HoldPoint for HoldMs before releasing
	HoldPoint int `json:"hold_point,omitempty"`
	HoldMs    int `json:"hold_ms,omitempty"`
	// Warmup > 0: only the first Warmup connections of every flow are made, the root is run once
	// on a store of its own and that run is thrown away (script state reset); then the remaining
	// connections are made and the scenario proper begins.  The model sees the full table only:
	// Connect calls made after a flow has already run count like all others.
	Warmup int `json:"warmup,omitempty"`
}

type EOutcome struct {
	Action int  `json:"action"`
	Err    *Err `json:"err,omitempty"`
}

type ERun struct {
	Trace   []Event  `json:"trace"`
	Outcome EOutcome `json:"outcome"`
	Panic   string   `json:"panic,omitempty"`
	Timeout bool     `json:"timeout,omitempty"`
	// clock readings (ns since the scenario began): when the harness cancelled the context
	// because a wait was scripted to be interrupted (0: it did not), when flyt.Run returned
	CancelAt int64 `json:"cancel_at,omitempty"`
	RetAt    int64 `json:"ret_at,omitempty"`
}

type EObs struct {
	Runs []ERun `json:"runs"`
}

func styleCoq(s string) string {
	switch s {
	case "direct":
		return "FDirect"
	case "res":
		return "FRes"
	case "any":
		return "FAny"
	case "batch":
		return "FBatch"
	}
	return "FAbsent"
}
func fbCoq(s string) string {
	switch s {
	case "default":
		return "FbDefault"
	case "user":
		return "FbUser"
	}
	return "FbNone"
}

func (n NodeDef) cfgCoq() string {
	retry := "None"
	if n.Retry != nil {
		b := n.Retry[0]
		if b < 0 {
			b = 0
		}
		retry = fmt.Sprintf("(Some (%d, %d))", b, n.Retry[1])
	}
	return fmt.Sprintf("{| u_retry := %s; u_fb := %s; u_prep := %s; u_exec := %s; u_post := %s |}",
		retry, fbCoq(n.Fb), styleCoq(n.Prep), styleCoq(n.Exec), styleCoq(n.Post))
}

func (n NodeDef) Coq() string {
	switch n.Kind {
	case "user":
		return fmt.Sprintf("(%d, NUser %s)", n.ID, n.cfgCoq())
	case "batch":
		c := n.Conc
		if c < 0 {
			c = 0
		}
		return fmt.Sprintf("(%d, NBatch %s %d %v)", n.ID, n.cfgCoq(), c, n.Stop)
	default:
		start := "None"
		if n.Start != nil {
			start = fmt.Sprintf("(Some %d)", *n.Start)
		}
		cs := make([]string, len(n.Conns))
		for i, c := range n.Conns {
			to := "None"
			if c[2] >= 0 {
				to = fmt.Sprintf("(Some %d)", c[2])
			}
			cs[i] = fmt.Sprintf("(%d, %d, %s)", c[0], c[1], to)
		}
		return fmt.Sprintf("(%d, NFlow %s [%s])", n.ID, start, strings.Join(cs, "; "))
	}
}

func phaseCoq(p string) string {
	switch p {
	case "prep":
		return "PhPrep"
	case "exec":
		return "PhExec"
	case "fb":
		return "PhFb"
	case "post":
		return "PhPost"
	}
	return "PhWait"
}

func (e SEntry) Coq() string {
	rs := make([]string, len(e.Rs))
	for i, r := range e.Rs {
		rs[i] = r.Coq()
	}
	return fmt.Sprintf("{| se_key := (%d, %s, %d); se_rs := [%s]; se_dflt := %s |}",
		e.N, phaseCoq(e.Ph), e.Item, strings.Join(rs, "; "), e.Dflt.Coq())
}

func (s EScen) Coq() string {
	ns := make([]string, len(s.Nodes))
	for i, n := range s.Nodes {
		ns[i] = n.Coq()
	}
	es := make([]string, len(s.Script))
	for i, e := range s.Script {
		es[i] = e.Coq()
	}
	rel := make([]string, len(s.Release))
	for i, x := range s.Release {
		rel[i] = fmt.Sprint(x)
	}
	return fmt.Sprintf("{| es_nodes := [%s];\n     es_root := %d; es_precancel := %v;\n     es_script := [%s];\n     es_runs := %d; es_release := [%s] |}",
		strings.Join(ns, ";\n       "), s.Root, s.PreCancel, strings.Join(es, ";\n       "), s.Runs, strings.Join(rel, "; "))
}

func (o EOutcome) Coq() string { return fmt.Sprintf("(%d, %s)", o.Action, o.Err.Coq()) }

func (o EObs) Coq() string {
	rs := make([]string, len(o.Runs))
	for i, r := range o.Runs {
		flag := "OkRun"
		if r.Panic != "" {
			flag = "Panicked"
		} else if r.Timeout {
			flag = "TimedOut"
		}
		rs[i] = fmt.Sprintf("(%s,\n      %s, %s)", coqEvents(r.Trace), r.Outcome.Coq(), flag)
	}
	return "[" + strings.Join(rs, ";\n     ") + "]"
}

// ---------------------------------------------------------------- script runtime

type scriptRT struct {
	gate    *gateCtl
	mu      sync.Mutex
	entries []SEntry
	counts  []int
	trace   []Event
	w       *world
	cancel  func()
	// wait family
	began     time.Time
	delay     time.Duration
	cancelAt  int64
	waitCount map[[2]int]int // (node, item) -> failed exec attempts so far = waits scripted so far
	kept      []retained
}

// retain keeps the very slices a batch post was handed, with what they held then: the engine must
// not write into them afterwards (a later run of the node has lists of its own)
type retained struct {
	items, results []flyt.Result
	was            string
}

func (s *scriptRT) retain(items, results []flyt.Result) {
	b, _ := json.Marshal([2][]Val{s.w.encodeList(items), s.w.encodeList(results)})
	s.mu.Lock()
	s.kept = append(s.kept, retained{items: items, results: results, was: string(b)})
	s.mu.Unlock()
}

// changedLists: has any list handed to an earlier post call been changed since?
func (s *scriptRT) changedLists() bool {
	s.mu.Lock()
	kept := append([]retained{}, s.kept...)
	s.mu.Unlock()
	for _, k := range kept {
		b, _ := json.Marshal([2][]Val{s.w.encodeList(k.items), s.w.encodeList(k.results)})
		if string(b) != k.was {
			return true
		}
	}
	return false
}

func (s *scriptRT) now() int64 {
	if s.began.IsZero() {
		return 0
	}
	return int64(time.Since(s.began))
}

// afterFailedAttempt: the engine is about to wait before the next attempt of (node, item) - if the
// scenario says that this wait is interrupted, cancel the context a little later, from outside
// every callback.  Until the cancellation has happened no gated call is released.
func (s *scriptRT) afterFailedAttempt(node, item int) {
	s.mu.Lock()
	if s.waitCount == nil {
		s.waitCount = map[[2]int]int{}
	}
	k := s.waitCount[[2]int{node, item}]
	s.waitCount[[2]int{node, item}] = k + 1
	interrupt := false
	for _, e := range s.entries {
		if e.Ph == "wait" && e.N == node && (e.Item == 0 || e.Item == item) {
			r := e.Dflt
			if k < len(e.Rs) {
				r = e.Rs[k]
			}
			interrupt = r.Cancel
			break
		}
	}
	s.mu.Unlock()
	if !interrupt {
		return
	}
	atomic.AddInt32(&gateHold, 1)
	time.AfterFunc(30*time.Millisecond, func() {
		s.mu.Lock()
		if s.cancelAt == 0 {
			s.cancelAt = s.now()
		}
		s.mu.Unlock()
		s.cancel()
		atomic.AddInt32(&gateHold, -1)
	})
}

func keyMatches(e SEntry, n int, ph string, item int) bool {
	return e.N == n && e.Ph == ph && (e.Item == 0 || e.Item == item)
}

func globalDefault(ph string) Resp {
	if ph == "post" {
		return rAct(99)
	}
	return rOk(vNil())
}

// respond mirrors Script.oracle_of: first matching entry, indexed by the number of earlier
// calls that matched that entry. The event is appended when the callback returns.
func (s *scriptRT) respond(c Call, ph string, item int) Resp {
	r, _ := s.respondAt(c, ph, item, 0)
	return r
}

// respondAt also notes the instant t0 at which the callback was entered and returns the index of
// the event in the trace
func (s *scriptRT) respondAt(c Call, ph string, item int, t0 int64) (Resp, int) {
	s.mu.Lock()
	defer s.mu.Unlock()
	r := globalDefault(ph)
	for i, e := range s.entries {
		if keyMatches(e, c.N, ph, item) {
			k := s.counts[i]
			if k < len(e.Rs) {
				r = e.Rs[k]
			} else {
				r = e.Dflt
			}
			break
		}
	}
	// every entry counts the calls matching its own key (as count_matching does)
	for i, e := range s.entries {
		if keyMatches(e, c.N, ph, item) {
			s.counts[i]++
		}
	}
	if r.Cancel && s.cancel != nil {
		s.cancel()
	}
	s.trace = append(s.trace, Event{Call: c, Resp: r, T0: t0})
	if len(s.trace) == runawayEvents && s.cancel != nil {
		// no scenario makes this many callbacks (the model's fuel allows a few hundred): the run
		// has gone astray (e.g. a flow that never ends); stop it through the context
		s.cancel()
	}
	return r, len(s.trace) - 1
}

// a run with more callbacks than this is reported as not terminating, with its trace cut
const runawayEvents = 4000

func (s *scriptRT) setEnd(idx int, t1 int64) {
	s.mu.Lock()
	if idx < len(s.trace) {
		s.trace[idx].T1 = t1
	}
	s.mu.Unlock()
}

func (s *scriptRT) takeTrace() []Event {
	s.mu.Lock()
	defer s.mu.Unlock()
	t := s.trace
	s.trace = nil
	if t == nil {
		t = []Event{}
	}
	return t
}

// ---------------------------------------------------------------- scripted callbacks

type hnode struct {
	id int
	rt *scriptRT
	// gated concurrent batch nodes
	gated    bool
	mu       sync.Mutex
	itemIdx  map[int]int // item token -> index in the batch
	attempts map[int]int // item token -> exec calls so far in this run of the node
	// retry settings of the node, so that a gated run knows when an item is in its retry wait: the
	// controller must not take "everything is blocked" for a quiescent point while a timer of
	// the library is about to wake an item up
	retryN, waitMs int
	waitHolds      map[int]*sync.Once // item token -> release of the hold taken after its failed attempt
	tries          map[int]int        // item token -> exec calls so far (kept for every node)
}

// enterExec: the item's next attempt has begun - its retry wait (if the harness was holding the
// controller for it) is over
func (h *hnode) enterExec(key int) int {
	h.mu.Lock()
	defer h.mu.Unlock()
	if h.tries == nil {
		h.tries = map[int]int{}
	}
	att := h.tries[key]
	h.tries[key] = att + 1
	if o := h.waitHolds[key]; o != nil {
		o.Do(func() { atomic.AddInt32(&gateHold, -1) })
		delete(h.waitHolds, key)
	}
	return att
}

// leaveExecFailed: attempt number att of the item failed; if the library is going to wait and retry,
// hold the gating controller until the next attempt begins (or, in case it never does, for the
// length of the wait and a second)
func (h *hnode) leaveExecFailed(key, att int) {
	if h.rt.gate == nil || h.waitMs <= 0 || att+1 >= h.retryN || h.rt.w.ctx.Err() != nil {
		return
	}
	h.mu.Lock()
	defer h.mu.Unlock()
	if h.waitHolds == nil {
		h.waitHolds = map[int]*sync.Once{}
	}
	if h.waitHolds[key] != nil {
		return
	}
	o := &sync.Once{}
	h.waitHolds[key] = o
	atomic.AddInt32(&gateHold, 1)
	release := func() { o.Do(func() { atomic.AddInt32(&gateHold, -1) }) }
	time.AfterFunc(time.Duration(h.waitMs)*time.Millisecond+time.Second, release)
	// a cancelled context ends the wait without a further attempt
	context.AfterFunc(h.rt.w.ctx, release)
}

// noteItems records the item order of a batch from the value its prep returns.
func (h *hnode) noteItems(v *Val) {
	h.mu.Lock()
	defer h.mu.Unlock()
	h.itemIdx = map[int]int{}
	h.attempts = map[int]int{}
	if v == nil {
		return
	}
	x := *v
	if x.T == "res" && x.V != nil && x.V.T == "sl" { // a Result holding a slice
		x = *x.V
	}
	if x.T == "sl" {
		for i, it := range x.L {
			h.itemIdx[itemKey(it)] = i
		}
		return
	}
	h.itemIdx[itemKey(x)] = 0
}

func (h *hnode) prep(shared *flyt.SharedStore) Resp {
	h.mu.Lock()
	h.tries = nil // a new visit of the node
	h.mu.Unlock()
	st := h.rt.w.encode(shared)
	if shared == h.rt.w.store {
		h.rt.w.noteCallback(shared)
	}
	r := h.rt.respond(Call{K: "prep", N: h.id, St: &st}, "prep", 0)
	if h.gated {
		if r.K == "ok" {
			h.noteItems(r.V)
		} else {
			h.noteItems(nil)
		}
	}
	return r
}
func (h *hnode) exec(arg any) Resp {
	t0 := h.rt.now()
	a := h.rt.w.encode(arg)
	try := h.enterExec(itemKey(a))
	if h.gated && h.rt.gate != nil {
		key := itemKey(a)
		h.mu.Lock()
		idx, ok := h.itemIdx[key]
		if !ok {
			idx = 15 // an item the prep value did not announce
		}
		att := h.attempts[key]
		h.attempts[key] = att + 1
		h.mu.Unlock()
		h.rt.gate.park(h.id, idx, att)
	}
	r, idx := h.rt.respondAt(Call{K: "exec", N: h.id, Arg: &a}, "exec", itemKey(a), t0)
	if h.rt.delay > 0 {
		time.Sleep(h.rt.delay)
	}
	if r.K == "err" {
		h.rt.afterFailedAttempt(h.id, itemKey(a))
		h.leaveExecFailed(itemKey(a), try)
	}
	h.rt.setEnd(idx, h.rt.now())
	return r
}
func (h *hnode) fallback(arg any, err error) Resp {
	a := h.rt.w.encode(arg)
	return h.rt.respond(Call{K: "fb", N: h.id, Arg: &a, E: classify(err, h.rt.w.ctx)}, "fb", itemKey(a))
}
func (h *hnode) post(shared *flyt.SharedStore, p, x any) Resp {
	st := h.rt.w.encode(shared)
	if shared == h.rt.w.store {
		h.rt.w.noteCallback(shared)
	}
	pv := h.rt.w.encode(p)
	xv := h.rt.w.encode(x)
	return h.rt.respond(Call{K: "post", N: h.id, St: &st, P: &pv, X: &xv}, "post", 0)
}
func (h *hnode) bpost(shared *flyt.SharedStore, items, results []flyt.Result) Resp {
	h.rt.retain(items, results)
	st := h.rt.w.encode(shared)
	if shared == h.rt.w.store {
		h.rt.w.noteCallback(shared)
	}
	return h.rt.respond(Call{K: "bpost", N: h.id, St: &st,
		Items: h.rt.w.encodeList(items), Results: h.rt.w.encodeList(results)}, "post", 0)
}

// staleValue: what a failing callback returns NEXT TO its error (Go allows both); the engine must
// ignore it
func (h *hnode) staleValue() any { return h.rt.w.tok(7777) }

func (h *hnode) anyRet(r Resp) (any, error) {
	switch r.K {
	case "err":
		return h.staleValue(), realiseErr(r.U)
	case "act":
		return actName(r.A), nil
	}
	if r.V == nil {
		return nil, nil
	}
	return h.rt.w.realise(*r.V), nil
}
func (h *hnode) resRet(r Resp) (flyt.Result, error) {
	switch r.K {
	case "err":
		return flyt.NewResult(h.staleValue()), realiseErr(r.U)
	case "act":
		return flyt.NewResult(actName(r.A)), nil
	}
	if r.V == nil {
		return flyt.NewResult(nil), nil
	}
	return h.rt.w.realiseRes(*r.V), nil
}
func (h *hnode) actRet(r Resp) (flyt.Action, error) {
	switch r.K {
	case "err":
		return "", realiseErr(r.U)
	case "act":
		return actName(r.A), nil
	}
	return "", nil
}

// K1: embeds *flyt.BaseNode
type k1all struct {
	*flyt.BaseNode
	h *hnode
}

func (n *k1all) Prep(ctx context.Context, s *flyt.SharedStore) (any, error) {
	return n.h.anyRet(n.h.prep(s))
}
func (n *k1all) Exec(ctx context.Context, p any) (any, error) { return n.h.anyRet(n.h.exec(p)) }
func (n *k1all) Post(ctx context.Context, s *flyt.SharedStore, p, x any) (flyt.Action, error) {
	return n.h.actRet(n.h.post(s, p, x))
}

type k1fb struct{ k1all }

func (n *k1fb) ExecFallback(p any, err error) (any, error) { return n.h.anyRet(n.h.fallback(p, err)) }

type k1exec struct {
	*flyt.BaseNode
	h *hnode
}

func (n *k1exec) Exec(ctx context.Context, p any) (any, error) { return n.h.anyRet(n.h.exec(p)) }

type k1none struct{ *flyt.BaseNode }

// K2: only the Node interface
type k2 struct{ h *hnode }

func (n *k2) Prep(ctx context.Context, s *flyt.SharedStore) (any, error) {
	return n.h.anyRet(n.h.prep(s))
}
func (n *k2) Exec(ctx context.Context, p any) (any, error) { return n.h.anyRet(n.h.exec(p)) }
func (n *k2) Post(ctx context.Context, s *flyt.SharedStore, p, x any) (flyt.Action, error) {
	return n.h.actRet(n.h.post(s, p, x))
}

// K3: Node + retry settings, no fallback
type k3 struct {
	k2
	n int
	w time.Duration
}

func (n *k3) GetMaxRetries() int     { return n.n }
func (n *k3) GetWait() time.Duration { return n.w }

// K4: Node + fallback only
type k4 struct{ k2 }

func (n *k4) ExecFallback(p any, err error) (any, error) { return n.h.anyRet(n.h.fallback(p, err)) }

func waitDur(ms int) time.Duration { return time.Duration(ms) * time.Millisecond }

// baseFor: the embedded base of a K1 node.  With the default settings (one attempt, no wait) every
// other node (by node number and size of the script) embeds a zero-value BaseNode literal instead of one made by NewBaseNode: both must
// behave alike (a budget below one means one attempt).
func baseFor(d NodeDef, opts []flyt.NodeOption, rt *scriptRT) *flyt.BaseNode {
	if d.Retry != nil && d.Retry[0] == 1 && d.Retry[1] == 0 && (d.ID+len(rt.entries))%2 == 1 {
		return &flyt.BaseNode{}
	}
	return flyt.NewBaseNode(opts...)
}

// buildNode constructs the flyt node for a definition. Flows are connected afterwards.
func buildNode(d NodeDef, rt *scriptRT) (flyt.Node, error) {
	h := &hnode{id: d.ID, rt: rt, gated: d.Kind == "batch" && d.Conc > 0}
	var baseOpts []flyt.NodeOption
	if d.Retry != nil {
		h.retryN, h.waitMs = d.Retry[0], d.Retry[1]
		baseOpts = append(baseOpts, flyt.WithMaxRetries(d.Retry[0]), flyt.WithWait(waitDur(d.Retry[1])))
	}
	switch d.Kind {
	case "flow":
		return nil, nil
	case "user":
		switch d.Impl {
		case "k1":
			return &k1all{BaseNode: baseFor(d, baseOpts, rt), h: h}, nil
		case "k1fb":
			return &k1fb{k1all{BaseNode: baseFor(d, baseOpts, rt), h: h}}, nil
		case "k1exec":
			return &k1exec{BaseNode: baseFor(d, baseOpts, rt), h: h}, nil
		case "k1none":
			return &k1none{BaseNode: baseFor(d, baseOpts, rt)}, nil
		case "k2":
			return &k2{h: h}, nil
		case "k3":
			return &k3{k2: k2{h: h}, n: d.Retry[0], w: waitDur(d.Retry[1])}, nil
		case "k4":
			return &k4{k2{h: h}}, nil
		case "opt", "bld", "mix":
			return buildCustom(d, h), nil
		}
	case "batch":
		return buildBatch(d, h), nil
	}
	return nil, fmt.Errorf("unknown node kind/impl %q/%q", d.Kind, d.Impl)
}

// buildCustom: NewNode in option style, builder style, or alternating.
func buildCustom(d NodeDef, h *hnode) flyt.Node {
	type setting struct {
		opt any
		bld func(b *flyt.NodeBuilder)
	}
	var ss []setting
	if d.Retry != nil {
		n, w := d.Retry[0], waitDur(d.Retry[1])
		ss = append(ss, setting{flyt.WithMaxRetries(n), func(b *flyt.NodeBuilder) { b.WithMaxRetries(n) }})
		ss = append(ss, setting{flyt.WithWait(w), func(b *flyt.NodeBuilder) { b.WithWait(w) }})
	}
	switch d.Prep {
	case "res":
		f := func(ctx context.Context, s *flyt.SharedStore) (flyt.Result, error) { return h.resRet(h.prep(s)) }
		ss = append(ss, setting{flyt.WithPrepFunc(f), func(b *flyt.NodeBuilder) { b.WithPrepFunc(f) }})
	case "any":
		f := func(ctx context.Context, s *flyt.SharedStore) (any, error) { return h.anyRet(h.prep(s)) }
		ss = append(ss, setting{flyt.WithPrepFuncAny(f), func(b *flyt.NodeBuilder) { b.WithPrepFuncAny(f) }})
	}
	switch d.Exec {
	case "res":
		f := func(ctx context.Context, p flyt.Result) (flyt.Result, error) { return h.resRet(h.exec(p)) }
		ss = append(ss, setting{flyt.WithExecFunc(f), func(b *flyt.NodeBuilder) { b.WithExecFunc(f) }})
	case "any":
		f := func(ctx context.Context, p any) (any, error) { return h.anyRet(h.exec(p)) }
		ss = append(ss, setting{flyt.WithExecFuncAny(f), func(b *flyt.NodeBuilder) { b.WithExecFuncAny(f) }})
	}
	switch d.Post {
	case "res":
		f := func(ctx context.Context, s *flyt.SharedStore, p, x flyt.Result) (flyt.Action, error) {
			return h.actRet(h.post(s, p, x))
		}
		ss = append(ss, setting{flyt.WithPostFunc(f), func(b *flyt.NodeBuilder) { b.WithPostFunc(f) }})
	case "any":
		f := func(ctx context.Context, s *flyt.SharedStore, p, x any) (flyt.Action, error) {
			return h.actRet(h.post(s, p, x))
		}
		ss = append(ss, setting{flyt.WithPostFuncAny(f), func(b *flyt.NodeBuilder) { b.WithPostFuncAny(f) }})
	}
	if d.Fb == "user" {
		f := func(p any, err error) (any, error) { return h.anyRet(h.fallback(p, err)) }
		ss = append(ss, setting{flyt.WithExecFallbackFunc(f), func(b *flyt.NodeBuilder) { b.WithExecFallbackFunc(f) }})
	}
	var opts []any
	var later []func(b *flyt.NodeBuilder)
	for i, s := range ss {
		useOpt := d.Impl == "opt" || (d.Impl == "mix" && i%2 == 0)
		if useOpt {
			opts = append(opts, s.opt)
		} else {
			later = append(later, s.bld)
		}
	}
	b := flyt.NewNode(opts...)
	for _, f := range later {
		f(b)
	}
	return b
}

// buildBatch: NewBatchNode with base options and/or builder methods. A CustomNode-level
// prep function or a user fallback cannot be expressed through the batch builder; they are
// reached through the exported embedded field BatchNode.CustomNode.
func buildBatch(d NodeDef, h *hnode) flyt.Node {
	type setting struct {
		opt flyt.NodeOption
		bld func(b *flyt.BatchNodeBuilder)
	}
	var ss []setting
	if d.Retry != nil {
		n, w := d.Retry[0], waitDur(d.Retry[1])
		ss = append(ss, setting{flyt.WithMaxRetries(n), func(b *flyt.BatchNodeBuilder) { b.WithMaxRetries(n) }})
		ss = append(ss, setting{flyt.WithWait(w), func(b *flyt.BatchNodeBuilder) { b.WithWait(w) }})
	}
	if d.Conc != 0 || d.ExplicitCfg {
		c := d.Conc
		ss = append(ss, setting{flyt.WithBatchConcurrency(c), func(b *flyt.BatchNodeBuilder) { b.WithBatchConcurrency(c) }})
	}
	if d.Stop || d.ExplicitCfg {
		cont := !d.Stop
		ss = append(ss, setting{flyt.WithBatchErrorHandling(cont), func(b *flyt.BatchNodeBuilder) { b.WithBatchErrorHandling(cont) }})
	}
	useOpt := func(i int) bool { return d.Impl == "opt" || (d.Impl == "mix" && i%2 == 0) }
	needSwap := d.Prep == "res" || d.Prep == "any" || d.Fb == "user"
	var b *flyt.BatchNodeBuilder
	if !needSwap {
		var opts []any
		var later []func(b *flyt.BatchNodeBuilder)
		for i, s := range ss {
			if useOpt(i) {
				opts = append(opts, s.opt)
			} else {
				later = append(later, s.bld)
			}
		}
		b = flyt.NewBatchNode(opts...)
		for _, f := range later {
			f(b)
		}
	} else {
		var copts []any
		switch d.Prep {
		case "res":
			copts = append(copts, flyt.WithPrepFunc(func(ctx context.Context, s *flyt.SharedStore) (flyt.Result, error) {
				return h.resRet(h.prep(s))
			}))
		case "any":
			copts = append(copts, flyt.WithPrepFuncAny(func(ctx context.Context, s *flyt.SharedStore) (any, error) {
				return h.anyRet(h.prep(s))
			}))
		}
		if d.Fb == "user" {
			copts = append(copts, flyt.WithExecFallbackFunc(func(p any, err error) (any, error) {
				return h.anyRet(h.fallback(p, err))
			}))
		}
		b = flyt.NewBatchNode()
		b.BatchNode.CustomNode = flyt.NewNode(copts...).CustomNode
		for i, s := range ss {
			if useOpt(i) {
				s.opt(b.BaseNode)
			} else {
				s.bld(b)
			}
		}
	}
	if d.Prep == "batch" {
		b.WithPrepFunc(func(ctx context.Context, s *flyt.SharedStore) ([]flyt.Result, error) {
			r := h.prep(s)
			if r.K == "err" {
				return nil, realiseErr(r.U)
			}
			if r.V == nil || r.V.T == "nil" {
				return nil, nil
			}
			if r.V.T == "sl" {
				out := make([]flyt.Result, len(r.V.L))
				for i, x := range r.V.L {
					out[i] = h.rt.w.realiseRes(x)
				}
				return out, nil
			}
			return []flyt.Result{h.rt.w.realiseRes(*r.V)}, nil
		})
	}
	switch d.Exec {
	case "res":
		b.WithExecFunc(func(ctx context.Context, p flyt.Result) (flyt.Result, error) { return h.resRet(h.exec(p)) })
	case "any":
		b.WithExecFuncAny(func(ctx context.Context, p any) (any, error) { return h.anyRet(h.exec(p)) })
	}
	if d.Post == "batch" {
		b.WithPostFunc(func(ctx context.Context, s *flyt.SharedStore, items, results []flyt.Result) (flyt.Action, error) {
			return h.actRet(h.bpost(s, items, results))
		})
	}
	return b
}

// ---------------------------------------------------------------- running

type deadlineCtx struct {
	context.Context
}

func (d deadlineCtx) Err() error {
	if d.Context.Err() != nil {
		return context.DeadlineExceeded
	}
	return nil
}

func runEngine(sc EScen) (obs EObs) {
	w := newWorld()
	w.store = flyt.NewSharedStore()
	base, cancel := context.WithCancel(context.Background())
	defer cancel()
	var ctx context.Context = base
	if sc.Deadline {
		ctx = deadlineCtx{base}
	}
	w.ctx = ctx
	rt := &scriptRT{entries: sc.Script, counts: make([]int, len(sc.Script)), w: w, cancel: cancel,
		began: time.Now(), delay: time.Duration(sc.ExecDelayUs) * time.Microsecond}

	nodes := map[int]flyt.Node{}
	flows := map[int]*flyt.Flow{}
	for _, d := range sc.Nodes {
		if d.Kind == "flow" {
			continue
		}
		n, err := buildNode(d, rt)
		if err != nil {
			panic(err)
		}
		nodes[d.ID] = n
	}
	// flows may refer to each other: create in dependency order of start nodes
	pending := 0
	for _, d := range sc.Nodes {
		if d.Kind == "flow" {
			pending++
		}
	}
	for pending > 0 {
		progress := false
		for _, d := range sc.Nodes {
			if d.Kind != "flow" || flows[d.ID] != nil {
				continue
			}
			var f *flyt.Flow
			if d.Start == nil {
				f = flyt.NewFlow(nil)
			} else if st, ok := nodes[*d.Start]; ok {
				f = flyt.NewFlow(st)
			} else {
				continue
			}
			flows[d.ID] = f
			nodes[d.ID] = f
			pending--
			progress = true
		}
		if !progress {
			panic("flow start nodes form a cycle")
		}
	}
	connectRange := func(from, to int) {
		for _, d := range sc.Nodes {
			if d.Kind != "flow" {
				continue
			}
			for i, c := range d.Conns {
				if i < from || i >= to {
					continue
				}
				var dst flyt.Node
				if c[2] >= 0 {
					dst = nodes[c[2]]
				}
				flows[d.ID].Connect(nodes[c[0]], actName(c[1]), dst)
			}
		}
	}
	if sc.Warmup > 0 {
		connectRange(0, sc.Warmup)
		real := w.store
		w.store = flyt.NewSharedStore()
		func() {
			defer func() { recover() }()
			done := make(chan struct{})
			go func() {
				defer close(done)
				defer func() { recover() }()
				flyt.Run(ctx, nodes[sc.Root], w.store)
			}()
			select {
			case <-done:
			case <-time.After(10 * time.Second):
			}
		}()
		// forget the warm-up run
		w.store = real
		w.wmu.Lock()
		w.writes = 0
		w.wmu.Unlock()
		rt.mu.Lock()
		rt.trace = nil
		for i := range rt.counts {
			rt.counts[i] = 0
		}
		rt.waitCount = nil
		rt.mu.Unlock()
		connectRange(sc.Warmup, 1<<30)
	} else {
		connectRange(0, 1<<30)
	}
	if sc.PreCancel {
		cancel()
	}
	for _, d := range sc.Nodes {
		if d.Kind == "batch" && d.Conc > 0 {
			rt.gate = newGateCtl(rt, sc.Release)
			rt.gate.holdAt = sc.HoldPoint
			rt.gate.holdFor = time.Duration(sc.HoldMs) * time.Millisecond
			go rt.gate.loop()
			defer rt.gate.stop()
			break
		}
	}
	runs := sc.Runs
	if runs <= 0 {
		runs = 1
	}
	for i := 0; i < runs; i++ {
		r := ERun{}
		done := make(chan struct{})
		go func() {
			defer close(done)
			defer func() {
				if p := recover(); p != nil {
					r.Panic = fmt.Sprintf("%v\n%s", p, firstLines(string(debug.Stack()), 12))
				}
			}()
			a, err := flyt.Run(ctx, nodes[sc.Root], w.store)
			r.RetAt = rt.now()
			r.Outcome = EOutcome{Action: actID(a), Err: classify(err, ctx)}
		}()
		select {
		case <-done:
		case <-time.After(10 * time.Second):
			r.Timeout = true
		}
		r.Trace = rt.takeTrace()
		if r.Panic == "" && rt.changedLists() {
			r.Panic = "a list of items / results handed to an earlier post call was changed afterwards"
		}
		if len(r.Trace) >= runawayEvents {
			r.Trace = r.Trace[:runawayEvents]
			r.Timeout = true
		}
		rt.mu.Lock()
		r.CancelAt = rt.cancelAt
		rt.mu.Unlock()
		obs.Runs = append(obs.Runs, r)
		if r.Timeout {
			break
		}
	}
	return obs
}

func firstLines(s string, n int) string {
	lines := strings.Split(s, "\n")
	if len(lines) > n {
		lines = lines[:n]
	}
	return strings.Join(lines, "\n")
}
