package main

// Lin family (C13): concurrent histories on a real SharedStore, a linearization search, and
// race-detector stress.

import (
	"crypto/sha256"
	"encoding/hex"
	"encoding/json"
	"fmt"
	"os"
	"path/filepath"
	"runtime"
	"sort"
	"strings"
	"sync"
	"sync/atomic"
	"time"

	"github.com/mark3labs/flyt"
)

type LOp struct {
	K   string   `json:"k"` // set get has del len keys getall merge clear gint
	Key int      `json:"key,omitempty"`
	Val int      `json:"val,omitempty"`
	Lit [][2]int `json:"lit,omitempty"`
}
type LRet struct {
	K    string   `json:"k"` // u val b n keys map
	Some bool     `json:"some,omitempty"`
	N    int      `json:"n,omitempty"`
	B    bool     `json:"b,omitempty"`
	Keys []int    `json:"keys,omitempty"`
	Map  [][2]int `json:"map,omitempty"`
}
type HOp struct {
	ID  int  `json:"id"`
	G   int  `json:"g"`
	Inv int  `json:"inv"`
	Res int  `json:"res"`
	Op  LOp  `json:"op"`
	Ret LRet `json:"ret"`
}

func lkey(id int) string { return fmt.Sprintf("k%d", id) }
func lkeyID(s string) int {
	var n int
	fmt.Sscanf(s, "k%d", &n)
	return n
}

func (o LOp) Coq() string {
	switch o.K {
	case "set":
		return fmt.Sprintf("LSet %d %d", o.Key, o.Val)
	case "get", "gint":
		return fmt.Sprintf("LGet %d", o.Key)
	case "has":
		return fmt.Sprintf("LHas %d", o.Key)
	case "del":
		return fmt.Sprintf("LDelete %d", o.Key)
	case "len":
		return "LLen"
	case "keys":
		return "LKeys"
	case "getall":
		return "LGetAll"
	case "merge":
		return "LMerge " + coqPairs(o.Lit)
	}
	return "LClear"
}
func (r LRet) Coq() string {
	switch r.K {
	case "val":
		if r.Some {
			return fmt.Sprintf("LVal (Some %d)", r.N)
		}
		return "LVal None"
	case "b":
		return fmt.Sprintf("LB %v", r.B)
	case "n":
		return fmt.Sprintf("LN %d", r.N)
	case "keys":
		return "LKs " + coqInts(r.Keys)
	case "map":
		return "LMap " + coqPairs(r.Map)
	}
	return "LU"
}
func coqHistory(h []HOp) string {
	s := make([]string, len(h))
	for i, o := range h {
		s[i] = fmt.Sprintf("{| h_id := %d; h_inv := %d; h_res := %d; h_op := %s; h_ret := %s |}", o.ID, o.Inv, o.Res, o.Op.Coq(), o.Ret.Coq())
	}
	return "[" + strings.Join(s, ";\n    ") + "]"
}

func applyLOp(st *flyt.SharedStore, op LOp) LRet {
	switch op.K {
	case "set":
		st.Set(lkey(op.Key), op.Val)
		return LRet{K: "u"}
	case "get":
		v, ok := st.Get(lkey(op.Key))
		if !ok {
			return LRet{K: "val"}
		}
		return LRet{K: "val", Some: true, N: v.(int)}
	case "gint": // a typed getter: Get plus a pure conversion
		if !st.Has(lkey(op.Key)) {
			// GetIntOr cannot tell a missing key from a stored default; use the two-step form only when present
		}
		v := st.GetIntOr(lkey(op.Key), -1)
		if v == -1 {
			return LRet{K: "val"}
		}
		return LRet{K: "val", Some: true, N: v}
	case "has":
		return LRet{K: "b", B: st.Has(lkey(op.Key))}
	case "del":
		st.Delete(lkey(op.Key))
		return LRet{K: "u"}
	case "len":
		return LRet{K: "n", N: st.Len()}
	case "keys":
		ks := st.Keys()
		ids := make([]int, len(ks))
		for i, k := range ks {
			ids[i] = lkeyID(k)
		}
		sort.Ints(ids)
		return LRet{K: "keys", Keys: ids}
	case "getall":
		m := st.GetAll()
		out := make([][2]int, 0, len(m))
		for k, v := range m {
			out = append(out, [2]int{lkeyID(k), v.(int)})
		}
		sort.Slice(out, func(i, j int) bool { return out[i][0] < out[j][0] })
		return LRet{K: "map", Map: out}
	case "merge":
		m := map[string]any{}
		for _, kv := range op.Lit {
			m[lkey(kv[0])] = kv[1]
		}
		st.Merge(m)
		return LRet{K: "u"}
	}
	st.Clear()
	return LRet{K: "u"}
}

// runHistory executes the per-goroutine programs concurrently and stamps every operation.
func runHistory(progs [][]LOp, pre []LOp) []HOp {
	st := flyt.NewSharedStore()
	var clock int64
	var hist []HOp
	id := 0
	for _, op := range pre { // a sequential prefix that fills the store
		inv := int(atomic.AddInt64(&clock, 1))
		ret := applyLOp(st, op)
		res := int(atomic.AddInt64(&clock, 1))
		hist = append(hist, HOp{ID: id, G: -1, Inv: inv, Res: res, Op: op, Ret: ret})
		id++
	}
	per := make([][]HOp, len(progs))
	var wg sync.WaitGroup
	start := make(chan struct{})
	var arrived int32
	base := id
	for g, prog := range progs {
		g, prog := g, prog
		off := base
		for i := 0; i < g; i++ {
			off += len(progs[i])
		}
		wg.Add(1)
		go func() {
			defer wg.Done()
			<-start
			// leave the blocks together
			atomic.AddInt32(&arrived, 1)
			for spin := 0; atomic.LoadInt32(&arrived) < int32(len(progs)) && spin < 200000; spin++ {
			}
			for i, op := range prog {
				inv := int(atomic.AddInt64(&clock, 1))
				ret := applyLOp(st, op)
				res := int(atomic.AddInt64(&clock, 1))
				per[g] = append(per[g], HOp{ID: off + i, G: g, Inv: inv, Res: res, Op: op, Ret: ret})
				if i%3 == 2 {
					runtime.Gosched()
				}
			}
		}()
	}
	close(start)
	wg.Wait()
	for _, p := range per {
		hist = append(hist, p...)
	}
	return hist
}

// ---------------------------------------------------------------- sequential spec and search

type lmap map[int]int

func (m lmap) clone() lmap {
	c := lmap{}
	for k, v := range m {
		c[k] = v
	}
	return c
}
func (m lmap) key() string {
	ks := make([]int, 0, len(m))
	for k := range m {
		ks = append(ks, k)
	}
	sort.Ints(ks)
	var sb strings.Builder
	for _, k := range ks {
		fmt.Fprintf(&sb, "%d=%d,", k, m[k])
	}
	return sb.String()
}

func retEq(a, b LRet) bool {
	if a.K != b.K {
		return false
	}
	switch a.K {
	case "val":
		return a.Some == b.Some && (!a.Some || a.N == b.N)
	case "b":
		return a.B == b.B
	case "n":
		return a.N == b.N
	case "keys":
		if len(a.Keys) != len(b.Keys) {
			return false
		}
		for i := range a.Keys {
			if a.Keys[i] != b.Keys[i] {
				return false
			}
		}
		return true
	case "map":
		if len(a.Map) != len(b.Map) {
			return false
		}
		for i := range a.Map {
			if a.Map[i] != b.Map[i] {
				return false
			}
		}
		return true
	}
	return true
}

func specStep(m lmap, op LOp) (lmap, LRet) {
	switch op.K {
	case "set":
		c := m.clone()
		c[op.Key] = op.Val
		return c, LRet{K: "u"}
	case "get", "gint":
		v, ok := m[op.Key]
		if !ok {
			return m, LRet{K: "val"}
		}
		return m, LRet{K: "val", Some: true, N: v}
	case "has":
		_, ok := m[op.Key]
		return m, LRet{K: "b", B: ok}
	case "del":
		c := m.clone()
		delete(c, op.Key)
		return c, LRet{K: "u"}
	case "len":
		return m, LRet{K: "n", N: len(m)}
	case "keys":
		ks := make([]int, 0, len(m))
		for k := range m {
			ks = append(ks, k)
		}
		sort.Ints(ks)
		return m, LRet{K: "keys", Keys: ks}
	case "getall":
		out := make([][2]int, 0, len(m))
		for k, v := range m {
			out = append(out, [2]int{k, v})
		}
		sort.Slice(out, func(i, j int) bool { return out[i][0] < out[j][0] })
		return m, LRet{K: "map", Map: out}
	case "merge":
		c := m.clone()
		for _, kv := range op.Lit {
			c[kv[0]] = kv[1]
		}
		return c, LRet{K: "u"}
	}
	return lmap{}, LRet{K: "u"}
}

// linearize: a total order of the operations that is a legal sequential execution and keeps
// the real-time order, or nil.  Depth-first with memoisation on (set of linearized ops, state).
func linearize(h []HOp) []int {
	n := len(h)
	if n > 62 {
		return nil
	}
	seen := map[string]bool{}
	order := make([]int, 0, n)
	var rec func(done uint64, m lmap) bool
	rec = func(done uint64, m lmap) bool {
		if len(order) == n {
			return true
		}
		key := fmt.Sprintf("%x|%s", done, m.key())
		if seen[key] {
			return false
		}
		seen[key] = true
		// the earliest response among the operations not yet linearized bounds the candidates
		minRes := int(^uint(0) >> 1)
		for i := 0; i < n; i++ {
			if done&(1<<uint(i)) == 0 && h[i].Res < minRes {
				minRes = h[i].Res
			}
		}
		for i := 0; i < n; i++ {
			if done&(1<<uint(i)) != 0 || h[i].Inv > minRes {
				continue
			}
			m2, r := specStep(m, h[i].Op)
			if !retEq(r, h[i].Ret) {
				continue
			}
			order = append(order, h[i].ID)
			if rec(done|1<<uint(i), m2) {
				return true
			}
			order = order[:len(order)-1]
		}
		return false
	}
	if rec(0, lmap{}) {
		return order
	}
	return nil
}

// ---------------------------------------------------------------- generation

type linGen struct {
	r     *rng
	nextV int
	nextK int
}

func (g *linGen) val() int { g.nextV++; return g.nextV }

func (g *linGen) randomProg(nkeys, L int) []LOp {
	var out []LOp
	for i := 0; i < L; i++ {
		k := g.r.intn(nkeys)
		switch p := g.r.intn(100); {
		case p < 25:
			out = append(out, LOp{K: "set", Key: k, Val: g.val()})
		case p < 40:
			out = append(out, LOp{K: "get", Key: k})
		case p < 45:
			out = append(out, LOp{K: "gint", Key: k})
		case p < 53:
			out = append(out, LOp{K: "has", Key: k})
		case p < 61:
			out = append(out, LOp{K: "del", Key: k})
		case p < 71:
			out = append(out, LOp{K: "len"})
		case p < 78:
			out = append(out, LOp{K: "keys"})
		case p < 85:
			out = append(out, LOp{K: "getall"})
		case p < 94:
			out = append(out, g.merge(2+g.r.intn(4)))
		default:
			out = append(out, LOp{K: "clear"})
		}
	}
	return out
}

// a Merge of n keys nobody else touches, so that a partial merge is visible to Len / Keys
func (g *linGen) merge(n int) LOp {
	var lit [][2]int
	for i := 0; i < n; i++ {
		g.nextK++
		lit = append(lit, [2]int{100 + g.nextK, g.val()})
	}
	return LOp{K: "merge", Lit: lit}
}

func genHistories(r *rng, tier string) (out [][]HOp, tags [][]string) {
	n := 1500
	if tier == "thorough" {
		n = 30000
	}
	g := &linGen{r: r}
	nbig := 0
	for i := 0; i < n; i++ {
		g.nextK = 0
		g.nextV = 0
		var progs [][]LOp
		var pre []LOp
		tag := "random"
		sel := i % 5
		if i%50 == 49 && nbig < 120 { // at most 120 of them: each costs about a second to check
			sel = 5
			nbig++
		}
		switch sel {
		case 5: // a Merge of a LARGE map against single writers of keys it does not contain
			tag = "big_merge_vs_writers"
			progs = append(progs, []LOp{g.merge(128 + r.intn(33))})
			for j := 0; j < 2; j++ {
				var p []LOp
				for k := 0; k < 6; k++ {
					switch r.intn(3) {
					case 0:
						p = append(p, LOp{K: "set", Key: j, Val: g.val()}, LOp{K: "get", Key: j})
					case 1:
						p = append(p, LOp{K: "set", Key: j, Val: g.val()}, LOp{K: "del", Key: j}, LOp{K: "has", Key: j})
					default:
						p = append(p, LOp{K: "set", Key: j, Val: g.val()}, LOp{K: "gint", Key: j})
					}
				}
				progs = append(progs, p)
			}
		case 0, 1: // random mixes over a small key space
			G := 2 + r.intn(5)
			nkeys := 1 + r.intn(4)
			for j := 0; j < G; j++ {
				progs = append(progs, g.randomProg(nkeys, 4+r.intn(6)))
			}
		case 2: // a large Merge against observers
			tag = "merge_vs_observers"
			progs = append(progs, []LOp{g.merge(20 + r.intn(21))})
			for j := 0; j < 1+r.intn(3); j++ {
				var p []LOp
				for k := 0; k < 4+r.intn(5); k++ {
					p = append(p, LOp{K: pick(r, []string{"len", "len", "keys", "getall"})})
				}
				progs = append(progs, p)
			}
		case 3: // Clear of a filled store against observers and writers
			tag = "clear_vs_observers"
			pre = []LOp{g.merge(20 + r.intn(30))}
			progs = append(progs, []LOp{{K: "clear"}})
			for j := 0; j < 1+r.intn(3); j++ {
				var p []LOp
				for k := 0; k < 4+r.intn(5); k++ {
					p = append(p, LOp{K: pick(r, []string{"len", "len", "keys", "has"}), Key: 101})
				}
				progs = append(progs, p)
			}
			if r.chance(50) {
				progs = append(progs, []LOp{{K: "set", Key: 1, Val: g.val()}, {K: "len"}})
			}
		default: // writers against Keys / GetAll
			tag = "snapshots_vs_writers"
			pre = []LOp{g.merge(6)}
			for j := 0; j < 2; j++ {
				var p []LOp
				for k := 0; k < 5; k++ {
					p = append(p, LOp{K: pick(r, []string{"set", "del", "set"}), Key: 101 + r.intn(6), Val: g.val()})
				}
				progs = append(progs, p)
			}
			progs = append(progs, []LOp{{K: "getall"}, {K: "keys"}, {K: "getall"}, {K: "len"}})
		}
		// the programs about to run, in case the race detector (or a fatal error of the runtime) ends
		// the process inside them
		noteProgressAny(linProgressDir, i, map[string]any{"programs": progs, "setup": pre}, []string{"pattern=" + tag, "process ended while these programs ran concurrently"})
		h := runHistory(progs, pre)
		if sel == 5 {
			// the window in which a large Merge can lose a concurrent write is a few microseconds:
			// run the same programs again (fresh store each time) until a run is not linearizable
			// (a pre-filter only: the verdict on the recorded history is Coq's) or 40 runs are done
			for t := 0; t < 40 && linearize(h) != nil; t++ {
				h = runHistory(progs, pre)
			}
		}
		out = append(out, h)
		tags = append(tags, []string{"pattern=" + tag, fmt.Sprintf("goroutines=%d", len(progs)), fmt.Sprintf("ops=%d", bucket(len(h)/4)*4)})
	}
	return
}

var linProgressDir string

// hammerStore: concurrent operations on keys that already exist (an overwrite is a write too)
func hammerStore(ms int) {
	s := flyt.NewSharedStore()
	s.Set("a", 0)
	s.Set("b", 0)
	stop := make(chan struct{})
	var wg sync.WaitGroup
	for g := 0; g < 8; g++ {
		g := g
		wg.Add(1)
		go func() {
			defer wg.Done()
			for i := 0; ; i++ {
				select {
				case <-stop:
					return
				default:
				}
				switch (i + g) % 6 {
				case 0:
					s.Set("a", i)
				case 1:
					s.Get("a")
				case 2:
					s.Set("b", i)
				case 3:
					_ = s.Keys()
				case 4:
					_ = s.Len()
				default:
					s.Merge(map[string]any{"a": i, "b": i})
				}
			}
		}()
	}
	time.Sleep(time.Duration(ms) * time.Millisecond)
	close(stop)
	wg.Wait()
}

func linMain(prop, tier string, seed uint64, out, replay string) error {
	type lCase struct {
		ID   int      `json:"id"`
		Scen []HOp    `json:"scen"`
		Obs  []int    `json:"obs"`
		Tags []string `json:"tags,omitempty"`
	}
	var hs [][]HOp
	var tags [][]string
	if replay != "" {
		b, err := os.ReadFile(replay)
		if err != nil {
			return err
		}
		var w struct {
			Scenario []HOp `json:"scenario"`
			Scen     []HOp `json:"scen"`
		}
		if err := json.Unmarshal(b, &w); err != nil {
			return err
		}
		h := w.Scenario
		if h == nil {
			h = w.Scen
		}
		hs, tags = [][]HOp{h}, [][]string{nil}
	} else {
		linProgressDir = out
		hs, tags = genHistories(newRng(seed), tier)
		// after the recorded histories: unrecorded writers and readers hammering two EXISTING keys;
		// this binary is built with the race detector (GORACE=halt_on_error=1), so a write that is
		// not exclusive ends the process here, attributed to this step
		noteProgressAny(out, -1, "hammer: 8 goroutines, Set / Get / Keys / Len / Merge on two existing keys", []string{"hammer"})
		hammerStore(300)
	}
	st := newStats()
	var cases []coqCase
	var jl []any
	seen := map[string]bool{}
	overlapped := 0
	for i, h := range hs {
		w := linearize(h)
		if w == nil {
			w = []int{}
		}
		c := lCase{ID: i, Scen: h, Obs: w, Tags: tags[i]}
		jl = append(jl, c)
		cases = append(cases, coqCase{id: i, scen: coqHistory(h), obs: coqInts(w)})
		for _, t := range tags[i] {
			st.count(t)
		}
		// non-trivial: some pair of operations of different goroutines overlaps in time
		ov := false
		for a := range h {
			for b := range h {
				if h[a].G != h[b].G && h[a].Inv < h[b].Res && h[b].Inv < h[a].Res {
					ov = true
				}
			}
		}
		if ov {
			overlapped++
			bb, _ := json.Marshal(h)
			hh := sha256.Sum256(bb)
			k := hex.EncodeToString(hh[:8])
			if !seen[k] {
				seen[k] = true
				st.DistinctNontrivial++
			}
			if len(st.Samples) < 1 && len(h) < 14 {
				st.Samples = append(st.Samples, c)
			}
		}
	}
	st.Evaluations = len(cases)
	st.Extra["histories_with_overlap"] = overlapped
	st.Scope = "2..6 goroutines x 4..9 operations over 1..4 keys (unique value per Set), Merge maps of 2..40 fresh keys, and four contention patterns: a Merge of 128..160 fresh keys against two single writers of other keys (set / get / delete / has in program order), a large Merge against Len / Keys / GetAll observers, Clear of a filled store against observers and writers, writers against snapshots; every operation stamped at invocation and response by one atomic clock; built with the race detector"
	st.Rule = "seeded programs, schedules by the Go runtime (GOMAXPROCS 16); non-trivial when operations of different goroutines overlap in time; distinct by history hash"
	n, err := writeShards(out, prop, "Store Lin LinCorr", "lscen", "lobs", "admits_lin", "spec_C13", cases, nil)
	if err != nil {
		return err
	}
	st.Shards = n
	if err := writeJSONL(filepath.Join(out, "cases.jsonl"), jl); err != nil {
		return err
	}
	return writeStats(out, st)
}
