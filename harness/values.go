package main

// Values family (C15): a value DSL shared with Model/Values.v; every accessor of flyt.Result and
// of the SharedStore is applied to the real Go value under recover.

import (
	"crypto/sha256"
	"encoding/hex"
	"encoding/json"
	"errors"
	"fmt"
	"math"
	"math/big"
	"os"
	"path/filepath"
	"reflect"
	"strings"

	"github.com/mark3labs/flyt"
)

type GV struct {
	T      string `json:"t"` // nil int f32 f64 complex string bool named slice array map ptr func chan struct
	K      string `json:"k,omitempty"`
	Z      string `json:"z,omitempty"`
	Bits   uint64 `json:"bits,omitempty"`
	ID     int    `json:"id,omitempty"`
	B      bool   `json:"b,omitempty"`
	Nil    bool   `json:"nil,omitempty"`
	E      string `json:"e,omitempty"`
	EID    int    `json:"eid,omitempty"`
	StrAny bool   `json:"str_any,omitempty"`
	Name   int    `json:"name,omitempty"`
	Under  *GV    `json:"under,omitempty"`
	Elems  []GV   `json:"elems,omitempty"`
}

// defined types
type MyInt int
type MyStr string
type MyFloat float64
type MySlice []int
type MyAnySlice []any
type MyBool bool
type MyMap map[string]any
type MySlice2 MySlice

type st1 struct {
	A int
	B []int
}
type st2 struct {
	A int
	B string
}
type st3 struct{ F float64 }

var ikinds = []string{"KInt", "KInt8", "KInt16", "KInt32", "KInt64", "KUint", "KUint8", "KUint16", "KUint32", "KUint64", "KUintptr"}

func zOf(s string) *big.Int { z, _ := new(big.Int).SetString(s, 10); return z }

func buildInt(k string, z *big.Int) any {
	switch k {
	case "KInt":
		return int(z.Int64())
	case "KInt8":
		return int8(z.Int64())
	case "KInt16":
		return int16(z.Int64())
	case "KInt32":
		return int32(z.Int64())
	case "KInt64":
		return z.Int64()
	case "KUint":
		return uint(z.Uint64())
	case "KUint8":
		return uint8(z.Uint64())
	case "KUint16":
		return uint16(z.Uint64())
	case "KUint32":
		return uint32(z.Uint64())
	case "KUint64":
		return z.Uint64()
	}
	return uintptr(z.Uint64())
}

func strOf(id int) string {
	if id == 0 {
		return ""
	}
	return fmt.Sprintf("s%d", id)
}
func strID(s string) int {
	if s == "" {
		return 0
	}
	var n int
	fmt.Sscanf(s, "s%d", &n)
	return n
}

func (g GV) build() any {
	switch g.T {
	case "nil":
		return nil
	case "int":
		return buildInt(g.K, zOf(g.Z))
	case "f32":
		return math.Float32frombits(uint32(g.Bits))
	case "f64":
		return math.Float64frombits(g.Bits)
	case "complex":
		return complex(float64(g.ID), 1)
	case "string":
		return strOf(g.ID)
	case "bool":
		return g.B
	case "named":
		u := g.Under.build()
		switch g.Name {
		case 1:
			return MyInt(u.(int))
		case 2:
			return MyStr(u.(string))
		case 3:
			return MyFloat(u.(float64))
		case 4:
			return MySlice(u.([]int))
		case 5:
			return MyAnySlice(u.([]any))
		case 6:
			return MyBool(u.(bool))
		case 7:
			return MyMap(u.(map[string]any))
		case 8:
			return MySlice2(u.(MySlice))
		}
	case "slice":
		switch g.E {
		case "EAny":
			if g.Nil {
				return []any(nil)
			}
			out := make([]any, len(g.Elems))
			for i, e := range g.Elems {
				out[i] = e.build()
			}
			return out
		case "EString":
			if g.Nil {
				return []string(nil)
			}
			out := make([]string, len(g.Elems))
			for i, e := range g.Elems {
				out[i] = e.build().(string)
			}
			return out
		case "EInt":
			if g.Nil {
				return []int(nil)
			}
			out := make([]int, len(g.Elems))
			for i, e := range g.Elems {
				out[i] = e.build().(int)
			}
			return out
		case "EFloat64":
			if g.Nil {
				return []float64(nil)
			}
			out := make([]float64, len(g.Elems))
			for i, e := range g.Elems {
				out[i] = e.build().(float64)
			}
			return out
		case "EMapStrAny":
			if g.Nil {
				return []map[string]any(nil)
			}
			out := make([]map[string]any, len(g.Elems))
			for i, e := range g.Elems {
				out[i] = e.build().(map[string]any)
			}
			return out
		default:
			switch g.EID {
			case 1:
				if g.Nil {
					return []uint8(nil)
				}
				out := make([]uint8, len(g.Elems))
				for i, e := range g.Elems {
					out[i] = e.build().(uint8)
				}
				return out
			case 2:
				if g.Nil {
					return []*Tok(nil)
				}
				out := make([]*Tok, len(g.Elems))
				for i, e := range g.Elems {
					out[i] = e.build().(*Tok)
				}
				return out
			default:
				if g.Nil {
					return [][]int(nil)
				}
				out := make([][]int, len(g.Elems))
				for i, e := range g.Elems {
					out[i] = e.build().([]int)
				}
				return out
			}
		}
	case "array":
		if len(g.Elems) == 0 {
			return [0]int{}
		}
		first := g.Elems[0].build()
		at := reflect.ArrayOf(len(g.Elems), reflect.TypeOf(first))
		a := reflect.New(at).Elem()
		for i, e := range g.Elems {
			a.Index(i).Set(reflect.ValueOf(e.build()))
		}
		return a.Interface()
	case "map":
		if g.StrAny {
			if g.Nil {
				return map[string]any(nil)
			}
			return map[string]any{"id": g.ID}
		}
		if g.Nil {
			return map[string]int(nil)
		}
		return map[string]int{"id": g.ID}
	case "ptr":
		if g.Nil {
			return (*Tok)(nil)
		}
		return valueToks[g.ID%len(valueToks)]
	case "ptrto":
		switch g.Name {
		case 2:
			if g.Nil {
				return (*st2)(nil)
			}
			v := g.Under.build().(st2)
			return &v
		default:
			if g.Nil {
				return (*tagged)(nil)
			}
			v := g.Under.build().(tagged)
			return &v
		}
	case "func":
		if g.Nil {
			return (func() int)(nil)
		}
		id := g.ID
		return func() int { return id }
	case "chan":
		if g.Nil {
			return (chan int)(nil)
		}
		return valueChans[g.ID%len(valueChans)]
	case "struct":
		switch g.ID {
		case 1:
			return st1{A: g.Elems[0].build().(int), B: g.Elems[1].build().([]int)}
		case 2:
			return st2{A: g.Elems[0].build().(int), B: g.Elems[1].build().(string)}
		case 10:
			return tagged{Name: "n", Age: 3, skip: 1}
		case 11:
			return withChan{A: 1, C: valueChans[0]}
		case 12:
			// a flyt.Result held AS the value (a struct with unexported fields: JSON sees {});
			// the one field of the term says whether it is an error Result
			if len(g.Elems) == 1 && g.Elems[0].B {
				return flyt.NewErrorResult(errHeld)
			}
			return flyt.NewResult(41)
		default:
			return st3{F: g.Elems[0].build().(float64)}
		}
	}
	return nil
}

var valueToks = []*Tok{{ID: 0}, {ID: 1}, {ID: 2}, {ID: 3}}
var valueChans = []chan int{make(chan int), make(chan int), make(chan int), make(chan int)}

func gInt(k string, z string) GV { return GV{T: "int", K: k, Z: z} }
func gF64(bits uint64) GV        { return GV{T: "f64", Bits: bits} }
func gF32(bits uint32) GV        { return GV{T: "f32", Bits: uint64(bits)} }
func gStr(id int) GV             { return GV{T: "string", ID: id} }
func gSlice(e string, elems ...GV) GV {
	if elems == nil {
		elems = []GV{}
	}
	return GV{T: "slice", E: e, Elems: elems}
}

// encode: the DSL term of a Go value the accessors handed back
func encodeGV(x any) GV {
	switch t := x.(type) {
	case nil:
		return GV{T: "nil"}
	case int:
		return gInt("KInt", fmt.Sprint(t))
	case int8:
		return gInt("KInt8", fmt.Sprint(t))
	case int16:
		return gInt("KInt16", fmt.Sprint(t))
	case int32:
		return gInt("KInt32", fmt.Sprint(t))
	case int64:
		return gInt("KInt64", fmt.Sprint(t))
	case uint:
		return gInt("KUint", fmt.Sprint(t))
	case uint8:
		return gInt("KUint8", fmt.Sprint(t))
	case uint16:
		return gInt("KUint16", fmt.Sprint(t))
	case uint32:
		return gInt("KUint32", fmt.Sprint(t))
	case uint64:
		return gInt("KUint64", fmt.Sprint(t))
	case uintptr:
		return gInt("KUintptr", fmt.Sprint(t))
	case float32:
		return gF32(math.Float32bits(t))
	case float64:
		return gF64(math.Float64bits(t))
	case complex128:
		return GV{T: "complex", ID: int(real(t))}
	case string:
		return gStr(strID(t))
	case bool:
		return GV{T: "bool", B: t}
	case MyInt:
		u := encodeGV(int(t))
		return GV{T: "named", Name: 1, Under: &u}
	case MyStr:
		u := encodeGV(string(t))
		return GV{T: "named", Name: 2, Under: &u}
	case MyFloat:
		u := encodeGV(float64(t))
		return GV{T: "named", Name: 3, Under: &u}
	case MySlice:
		u := encodeGV([]int(t))
		return GV{T: "named", Name: 4, Under: &u}
	case MyAnySlice:
		u := encodeGV([]any(t))
		return GV{T: "named", Name: 5, Under: &u}
	case MyBool:
		u := encodeGV(bool(t))
		return GV{T: "named", Name: 6, Under: &u}
	case MyMap:
		u := encodeGV(map[string]any(t))
		return GV{T: "named", Name: 7, Under: &u}
	case MySlice2:
		u := encodeGV(MySlice(t))
		return GV{T: "named", Name: 8, Under: &u}
	case map[string]any:
		if t == nil {
			return GV{T: "map", StrAny: true, Nil: true}
		}
		id, _ := t["id"].(int)
		return GV{T: "map", StrAny: true, ID: id}
	case map[string]int:
		if t == nil {
			return GV{T: "map", Nil: true}
		}
		return GV{T: "map", ID: t["id"]}
	case *Tok:
		if t == nil {
			return GV{T: "ptr", Nil: true}
		}
		return GV{T: "ptr", ID: t.ID}
	case func() int:
		if t == nil {
			return GV{T: "func", Nil: true}
		}
		return GV{T: "func", ID: t()}
	case chan int:
		if t == nil {
			return GV{T: "chan", Nil: true}
		}
		for i, c := range valueChans {
			if c == t {
				return GV{T: "chan", ID: i}
			}
		}
		return GV{T: "chan", ID: 99}
	case *st2:
		if t == nil {
			u := GV{T: "struct", ID: 2, Elems: []GV{gInt("KInt", "0"), gStr(0)}}
			return GV{T: "ptrto", Name: 2, Nil: true, Under: &u}
		}
		u := encodeGV(*t)
		return GV{T: "ptrto", Name: 2, Under: &u}
	case *tagged:
		u := GV{T: "struct", ID: 10}
		return GV{T: "ptrto", Name: 10, Nil: t == nil, Under: &u}
	case st1:
		return GV{T: "struct", ID: 1, Elems: []GV{encodeGV(t.A), encodeGV(t.B)}}
	case st2:
		return GV{T: "struct", ID: 2, Elems: []GV{encodeGV(t.A), encodeGV(t.B)}}
	case st3:
		return GV{T: "struct", ID: 3, Elems: []GV{encodeGV(t.F)}}
	case tagged:
		return GV{T: "struct", ID: 10}
	case withChan:
		return GV{T: "struct", ID: 11}
	case flyt.Result:
		return GV{T: "struct", ID: 12, Elems: []GV{{T: "bool", B: t.IsError()}}}
	}
	rv := reflect.ValueOf(x)
	switch rv.Kind() {
	case reflect.Slice:
		e, eid := "EOther", 3
		switch x.(type) {
		case []any:
			e, eid = "EAny", 0
		case []string:
			e, eid = "EString", 0
		case []int:
			e, eid = "EInt", 0
		case []float64:
			e, eid = "EFloat64", 0
		case []map[string]any:
			e, eid = "EMapStrAny", 0
		case []uint8:
			eid = 1
		case []*Tok:
			eid = 2
		}
		g := GV{T: "slice", E: e, EID: eid, Nil: rv.IsNil(), Elems: []GV{}}
		for i := 0; i < rv.Len(); i++ {
			g.Elems = append(g.Elems, encodeGV(rv.Index(i).Interface()))
		}
		return g
	case reflect.Array:
		g := GV{T: "array", Elems: []GV{}}
		for i := 0; i < rv.Len(); i++ {
			g.Elems = append(g.Elems, encodeGV(rv.Index(i).Interface()))
		}
		return g
	}
	return GV{T: "struct", ID: 99}
}

func coqGVs(l []GV) string {
	s := make([]string, len(l))
	for i, e := range l {
		s[i] = e.Coq()
	}
	return "[" + strings.Join(s, "; ") + "]"
}

func (g GV) Coq() string {
	switch g.T {
	case "nil":
		return "GNil"
	case "int":
		return fmt.Sprintf("(GInt %s (%s))", g.K, g.Z)
	case "f32":
		return fmt.Sprintf("(GF32 %d)", g.Bits)
	case "f64":
		return fmt.Sprintf("(GF64 %d)", g.Bits)
	case "complex":
		return fmt.Sprintf("(GComplex %d)", g.ID)
	case "string":
		return fmt.Sprintf("(GString %d)", g.ID)
	case "bool":
		return fmt.Sprintf("(GBool %v)", g.B)
	case "named":
		return fmt.Sprintf("(GNamed %d %s)", g.Name, g.Under.Coq())
	case "slice":
		e := g.E
		if e == "EOther" || e == "" {
			e = fmt.Sprintf("(EOther %d)", g.EID)
		}
		return fmt.Sprintf("(GSlice %s %v %s)", e, g.Nil, coqGVs(g.Elems))
	case "array":
		return fmt.Sprintf("(GArray %s)", coqGVs(g.Elems))
	case "map":
		return fmt.Sprintf("(GMap %v %v %d)", g.StrAny, g.Nil, g.ID)
	case "ptr":
		return fmt.Sprintf("(GPtr %v %d)", g.Nil, g.ID)
	case "ptrto":
		return fmt.Sprintf("(GPtrTo %v %d %s)", g.Nil, g.Name, g.Under.Coq())
	case "func":
		return fmt.Sprintf("(GFunc %v %d)", g.Nil, g.ID)
	case "chan":
		return fmt.Sprintf("(GChan %v %d)", g.Nil, g.ID)
	case "struct":
		return fmt.Sprintf("(GStruct %d %s)", g.ID, coqGVs(g.Elems))
	}
	return "GNil"
}

var errHeld = errors.New("held error")

// ---------------------------------------------------------------- results

type VRes struct {
	K    string `json:"k"` // nat b z panic sl mp opt pair
	N    int    `json:"n,omitempty"`
	B    bool   `json:"b,omitempty"`
	Z    string `json:"z,omitempty"`
	Nil  bool   `json:"nil,omitempty"`
	L    []GV   `json:"l,omitempty"`
	Some *GV    `json:"some,omitempty"`
	R    *VRes  `json:"r,omitempty"`
	OK   bool   `json:"ok,omitempty"`
	Msg  string `json:"msg,omitempty"`
}

func (r VRes) Coq() string {
	switch r.K {
	case "nat":
		return fmt.Sprintf("VNat %d", r.N)
	case "b":
		return fmt.Sprintf("VB %v", r.B)
	case "z":
		return fmt.Sprintf("VZ (%s)", r.Z)
	case "panic":
		return "VPanic"
	case "sl":
		return fmt.Sprintf("VSl %v %s", r.Nil, coqGVs(r.L))
	case "mp":
		return fmt.Sprintf("VMp %v %d", r.Nil, r.N)
	case "opt":
		if r.Some == nil {
			return "VOpt None"
		}
		return "VOpt (Some " + r.Some.Coq() + ")"
	case "pair":
		return fmt.Sprintf("VPair (%s) %v", r.R.Coq(), r.OK)
	}
	return "VPanic"
}

func vNat(n int) VRes       { return VRes{K: "nat", N: n} }
func vB(b bool) VRes        { return VRes{K: "b", B: b} }
func vZint(i int) VRes      { return VRes{K: "z", Z: fmt.Sprint(i)} }
func vZbits(f float64) VRes { return VRes{K: "z", Z: fmt.Sprint(math.Float64bits(f))} }
func vSlr(s []any) VRes {
	l := make([]GV, len(s))
	for i, x := range s {
		l[i] = encodeGV(x)
	}
	return VRes{K: "sl", Nil: s == nil, L: l}
}
func vMp(m map[string]any) VRes {
	if m == nil {
		return VRes{K: "mp", Nil: true}
	}
	id, _ := m["id"].(int)
	return VRes{K: "mp", N: id}
}
func vPair(r VRes, ok bool) VRes { return VRes{K: "pair", R: &r, OK: ok} }

func guard(f func() VRes) (r VRes) {
	defer func() {
		if p := recover(); p != nil {
			r = VRes{K: "panic", Msg: fmt.Sprint(p)}
		}
	}()
	return f()
}

func asT[T any](r flyt.Result) []VRes {
	a := guard(func() VRes {
		x, ok := flyt.As[T](r)
		if !ok {
			return vPair(VRes{K: "opt"}, false)
		}
		g := encodeGV(any(x))
		return vPair(VRes{K: "opt", Some: &g}, true)
	})
	m := guard(func() VRes {
		x := flyt.MustAs[T](r)
		g := encodeGV(any(x))
		return VRes{K: "opt", Some: &g}
	})
	return []VRes{a, m}
}

const dStr = "s777"

var dSl = []any{777}
var dMp = map[string]any{"id": 999}

func observeValue(g GV) []VRes {
	v := g.build()
	r := flyt.NewResult(v)
	var out []VRes
	add := func(f func() VRes) { out = append(out, guard(f)) }
	add(func() VRes { s, ok := r.AsString(); return vPair(vNat(strID(s)), ok) })
	add(func() VRes { return vNat(strID(r.AsStringOr(dStr))) })
	add(func() VRes { return vNat(strID(r.MustString())) })
	add(func() VRes { i, ok := r.AsInt(); return vPair(vZint(i), ok) })
	add(func() VRes { return vZint(r.AsIntOr(777)) })
	add(func() VRes { return vZint(r.MustInt()) })
	add(func() VRes { f, ok := r.AsFloat64(); return vPair(vZbits(f), ok) })
	add(func() VRes { return vZbits(r.AsFloat64Or(7.5)) })
	add(func() VRes { return vZbits(r.MustFloat64()) })
	add(func() VRes { b, ok := r.AsBool(); return vPair(vB(b), ok) })
	add(func() VRes { return vB(r.AsBoolOr(true)) })
	add(func() VRes { return vB(r.MustBool()) })
	add(func() VRes { s, ok := r.AsSlice(); return vPair(vSlr(s), ok) })
	add(func() VRes { return vSlr(r.AsSliceOr(dSl)) })
	add(func() VRes { return vSlr(r.MustSlice()) })
	add(func() VRes { m, ok := r.AsMap(); return vPair(vMp(m), ok) })
	add(func() VRes { return vMp(r.AsMapOr(dMp)) })
	add(func() VRes { return vMp(r.MustMap()) })
	out = append(out, asT[int](r)...)
	out = append(out, asT[string](r)...)
	out = append(out, asT[float64](r)...)
	out = append(out, asT[[]any](r)...)
	out = append(out, asT[map[string]any](r)...)
	out = append(out, asT[MyInt](r)...)
	out = append(out, asT[*Tok](r)...)
	out = append(out, asT[st2](r)...)
	out = append(out, asT[uint8](r)...)
	for _, present := range []bool{true, false} {
		st := flyt.NewSharedStore()
		if present {
			st.Set("k", v)
		}
		add(func() VRes { return vNat(strID(st.GetString("k"))) })
		add(func() VRes { return vNat(strID(st.GetStringOr("k", dStr))) })
		add(func() VRes { return vZint(st.GetInt("k")) })
		add(func() VRes { return vZint(st.GetIntOr("k", 777)) })
		add(func() VRes { return vZbits(st.GetFloat64("k")) })
		add(func() VRes { return vZbits(st.GetFloat64Or("k", 7.5)) })
		add(func() VRes { return vB(st.GetBool("k")) })
		add(func() VRes { return vB(st.GetBoolOr("k", true)) })
		add(func() VRes { return vSlr(st.GetSlice("k")) })
		add(func() VRes { return vSlr(st.GetSliceOr("k", dSl)) })
		add(func() VRes { return vMp(st.GetMap("k")) })
		add(func() VRes { return vMp(st.GetMapOr("k", dMp)) })
	}
	add(func() VRes { s := flyt.ToSlice(v); r := vSlr(s); r.Nil = false; return r })
	return out
}

func coqVRess(l []VRes) string {
	s := make([]string, len(l))
	for i, r := range l {
		s[i] = r.Coq()
	}
	return "[" + strings.Join(s, ";\n    ") + "]"
}

// ---------------------------------------------------------------- generation

func boundaryInts(k string) []string {
	type rg struct{ lo, hi string }
	r := map[string]rg{
		"KInt": {"-9223372036854775808", "9223372036854775807"}, "KInt64": {"-9223372036854775808", "9223372036854775807"},
		"KInt8": {"-128", "127"}, "KInt16": {"-32768", "32767"}, "KInt32": {"-2147483648", "2147483647"},
		"KUint": {"0", "18446744073709551615"}, "KUint64": {"0", "18446744073709551615"}, "KUintptr": {"0", "18446744073709551615"},
		"KUint8": {"0", "255"}, "KUint16": {"0", "65535"}, "KUint32": {"0", "4294967295"},
	}[k]
	out := []string{"0", "1", r.lo, r.hi}
	if !strings.HasPrefix(k, "KUint") {
		out = append(out, "-1")
	}
	big64 := k == "KInt" || k == "KInt64" || k == "KUint" || k == "KUint64"
	if big64 {
		out = append(out, "9007199254740991", "9007199254740992", "9007199254740993", "9007199254740995", "4611686018427387905", "9223372036854775295")
		if k == "KInt" || k == "KInt64" {
			out = append(out, "-9007199254740993", "-9223372036854775807")
		} else {
			out = append(out, "9223372036854775808", "9223372036854775809", "18446744073709549568", "18446744073709551614", "13835058055282163713")
		}
	}
	return out
}

var f64Specials = []uint64{
	0x0000000000000000, 0x8000000000000000, 0x3ff0000000000000, 0xbff0000000000000, 0x3fe0000000000000,
	0x4008000000000000, 0xc00c000000000000, 0x7ff0000000000000, 0xfff0000000000000, 0x7ff8000000000000,
	0x7ff8000000000001, 0xfff8000000000000, 0x0000000000000001, 0x000fffffffffffff, 0x0010000000000000,
	0x7fefffffffffffff, 0x43e0000000000000, 0xc3e0000000000000, 0x43dfffffffffffff, 0xc3e0000000000001,
	0x4340000000000000, 0x433fffffffffffff, 0x41dfffffffc00000, 0x3fffffffffffffff, 0x43f0000000000000,
}
var f32Specials = []uint32{
	0x00000000, 0x80000000, 0x3f800000, 0xbf800000, 0x3f000000, 0x40490fdb, 0x7f800000, 0xff800000, 0x7fc00000,
	0x00000001, 0x007fffff, 0x00800000, 0x7f7fffff, 0x5f000000, 0xdf000000, 0x5effffff, 0x4b800000, 0x4effffff,
}

func genValues(r *rng, tier string) (vals []GV, tags [][]string) {
	add := func(g GV, tg ...string) { vals = append(vals, g); tags = append(tags, tg) }
	add(GV{T: "nil"}, "kind=nil")
	for _, k := range ikinds {
		for _, z := range boundaryInts(k) {
			add(gInt(k, z), "kind=int", "ikind="+k)
		}
	}
	for _, b := range f64Specials {
		add(gF64(b), "kind=f64")
	}
	for _, b := range f32Specials {
		add(gF32(b), "kind=f32")
	}
	add(GV{T: "complex", ID: 3}, "kind=complex")
	for _, id := range []int{0, 1, 777} {
		add(gStr(id), "kind=string")
	}
	add(GV{T: "bool", B: true}, "kind=bool")
	add(GV{T: "bool", B: false}, "kind=bool")
	named := func(n int, u GV) GV { return GV{T: "named", Name: n, Under: &u} }
	add(named(1, gInt("KInt", "5")), "kind=named")
	add(named(2, gStr(1)), "kind=named")
	add(named(3, gF64(0x3ff0000000000000)), "kind=named")
	add(named(4, gSlice("EInt", gInt("KInt", "1"), gInt("KInt", "2"))), "kind=named-slice")
	add(named(5, gSlice("EAny", gInt("KInt", "1"), GV{T: "nil"})), "kind=named-slice")
	add(named(6, GV{T: "bool", B: true}), "kind=named")
	add(named(7, GV{T: "map", StrAny: true, ID: 4}), "kind=named")
	add(named(8, named(4, gSlice("EInt", gInt("KInt", "7")))), "kind=named-slice")
	nan := gF64(0x7ff8000000000000)
	add(gSlice("EAny"), "kind=slice")
	add(GV{T: "slice", E: "EAny", Nil: true, Elems: []GV{}}, "kind=slice", "typed_nil")
	add(gSlice("EAny", gInt("KInt", "1")), "kind=slice", "one_element")
	add(gSlice("EAny", nan), "kind=slice", "one_element")
	add(gSlice("EAny", gStr(1), GV{T: "nil"}, gSlice("EInt", gInt("KInt", "3")), GV{T: "map", StrAny: true, ID: 2}), "kind=slice")
	add(gSlice("EString", gStr(1), gStr(0)), "kind=slice")
	add(GV{T: "slice", E: "EString", Nil: true, Elems: []GV{}}, "kind=slice", "typed_nil")
	add(gSlice("EInt", gInt("KInt", "4")), "kind=slice", "one_element")
	add(gSlice("EInt", gInt("KInt", "4"), gInt("KInt", "-5"), gInt("KInt", "0")), "kind=slice")
	add(gSlice("EFloat64", nan, gF64(0x3ff0000000000000)), "kind=slice")
	add(gSlice("EMapStrAny", GV{T: "map", StrAny: true, ID: 1}, GV{T: "map", StrAny: true, Nil: true}), "kind=slice")
	add(GV{T: "slice", E: "EOther", EID: 1, Elems: []GV{gInt("KUint8", "200"), gInt("KUint8", "0")}}, "kind=slice")
	add(GV{T: "slice", E: "EOther", EID: 2, Elems: []GV{{T: "ptr", ID: 1}, {T: "ptr", Nil: true}}}, "kind=slice")
	add(GV{T: "slice", E: "EOther", EID: 3, Elems: []GV{gSlice("EInt", gInt("KInt", "1")), {T: "slice", E: "EInt", Nil: true, Elems: []GV{}}}}, "kind=slice", "nested")
	add(GV{T: "slice", E: "EOther", EID: 3, Nil: true, Elems: []GV{}}, "kind=slice", "typed_nil")
	add(GV{T: "array", Elems: []GV{gInt("KInt", "1"), gInt("KInt", "2")}}, "kind=array")
	add(GV{T: "array", Elems: []GV{nan}}, "kind=array", "nan")
	add(GV{T: "array", Elems: []GV{gSlice("EInt", gInt("KInt", "1"))}}, "kind=array", "non_comparable")
	for _, sa := range []bool{true, false} {
		add(GV{T: "map", StrAny: sa, ID: 5}, "kind=map")
		add(GV{T: "map", StrAny: sa, Nil: true}, "kind=map", "typed_nil")
	}
	for _, t := range []string{"ptr", "func", "chan"} {
		add(GV{T: t, ID: 2}, "kind="+t)
		add(GV{T: t, Nil: true}, "kind="+t, "typed_nil")
	}
	pst2 := GV{T: "struct", ID: 2, Elems: []GV{gInt("KInt", "1"), gStr(3)}}
	add(GV{T: "ptrto", Name: 2, Under: &pst2}, "kind=ptr")
	add(GV{T: "ptrto", Name: 2, Nil: true, Under: &GV{T: "struct", ID: 2, Elems: []GV{gInt("KInt", "0"), gStr(0)}}}, "kind=ptr", "typed_nil")
	add(GV{T: "struct", ID: 1, Elems: []GV{gInt("KInt", "1"), gSlice("EInt", gInt("KInt", "2"))}}, "kind=struct", "non_comparable")
	add(GV{T: "struct", ID: 2, Elems: []GV{gInt("KInt", "1"), gStr(3)}}, "kind=struct")
	add(GV{T: "struct", ID: 3, Elems: []GV{nan}}, "kind=struct", "nan")
	// a flyt.Result held AS the value (in a Result, or stored in the store): a struct like any other
	add(GV{T: "struct", ID: 12, Elems: []GV{{T: "bool", B: false}}}, "kind=struct", "value_is_a_Result")
	add(GV{T: "struct", ID: 12, Elems: []GV{{T: "bool", B: true}}}, "kind=struct", "value_is_a_Result")
	// random values
	n := 1500
	if tier == "thorough" {
		n = 40000
	}
	for i := 0; i < n; i++ {
		switch r.intn(6) {
		case 0, 1:
			k := pick(r, ikinds)
			bs := boundaryInts(k)
			lo, hi := zOf(bs[2]), zOf(bs[3])
			span := new(big.Int).Sub(hi, lo)
			span.Add(span, big.NewInt(1))
			z := new(big.Int).SetUint64(r.next())
			if r.chance(50) { // near a power of two
				sh := uint(r.intn(64))
				z = new(big.Int).Lsh(big.NewInt(1), sh)
				z.Add(z, big.NewInt(int64(r.intn(5))-2))
			}
			z.Mod(z, span)
			z.Add(z, lo)
			add(gInt(k, z.String()), "kind=int", "random")
		case 2:
			b := r.next()
			if r.chance(50) { // exponents around the integer range
				e := uint64(1023 + r.intn(70))
				b = (r.next() & 0x800fffffffffffff) | (e << 52)
			}
			add(gF64(b), "kind=f64", "random")
		case 3:
			add(gF32(uint32(r.next())), "kind=f32", "random")
		default:
			m := r.intn(4)
			var elems []GV
			for j := 0; j < m; j++ {
				elems = append(elems, vals[r.intn(len(vals))])
			}
			if elems == nil {
				elems = []GV{}
			}
			add(GV{T: "slice", E: "EAny", Elems: elems}, "kind=slice", "random")
		}
	}
	return
}

func valuesMain(prop, tier string, seed uint64, out, replay string) error {
	type vCase struct {
		ID   int      `json:"id"`
		Scen GV       `json:"scen"`
		Obs  []VRes   `json:"obs"`
		Tags []string `json:"tags,omitempty"`
	}
	var vals []GV
	var tags [][]string
	if replay != "" {
		b, err := os.ReadFile(replay)
		if err != nil {
			return err
		}
		var w struct {
			Scenario *GV `json:"scenario"`
			Scen     *GV `json:"scen"`
		}
		if err := json.Unmarshal(b, &w); err != nil {
			return err
		}
		g := w.Scenario
		if g == nil {
			g = w.Scen
		}
		vals, tags = []GV{*g}, [][]string{nil}
	} else {
		vals, tags = genValues(newRng(seed), tier)
	}
	st := newStats()
	var cases []coqCase
	var jl []any
	seen := map[string]bool{}
	for i, g := range vals {
		obs := observeValue(g)
		c := vCase{ID: i, Scen: g, Obs: obs, Tags: tags[i]}
		jl = append(jl, c)
		cases = append(cases, coqCase{id: i, scen: g.Coq(), obs: coqVRess(obs)})
		for _, t := range tags[i] {
			st.count(t)
		}
		b, _ := json.Marshal(g)
		h := sha256.Sum256(b)
		k := hex.EncodeToString(h[:8])
		if !seen[k] && g.T != "string" && g.T != "bool" {
			seen[k] = true
			st.DistinctNontrivial++
		}
		if len(st.Samples) < 2 && g.T == "struct" {
			st.Samples = append(st.Samples, c)
		}
	}
	st.Evaluations = len(cases)
	var controls []coqCase
	if replay == "" {
		// corrupted observations: an Or variant returning the default although the plain one succeeded
		for i, g := range vals {
			if len(controls) >= 4 {
				break
			}
			if g.T == "int" && g.K == "KInt" {
				obs := observeValue(g)
				obs[4] = vZint(777)
				if g.Z != "777" {
					controls = append(controls, coqCase{id: len(controls), scen: g.Coq(), obs: coqVRess(obs)})
				}
			}
			_ = i
		}
	}
	st.Controls = len(controls)
	st.Exhaustive = true
	st.Scope = "every integer kind x boundary values (0, +-1, min, max, 2^53+-1, 2^63, 2^64-1 ...), float64 / float32 specials by bit pattern (+-0, NaN payloads, +-Inf, subnormals, integer-range edges), strings, bools, nil, typed nils of every nillable kind, values of defined types (incl. defined slice types, two levels), slices of every element type ToSlice distinguishes, nested / one-element / NaN-holding slices, arrays (with NaN, with slices), maps, pointers, funcs, chans, structs (comparable, with slice, with NaN); plus seeded random integers, floats and nested []any"
	st.Rule = "enumeration + seeded random values; every accessor of Result and SharedStore (plain / Or / Must / As[T] / store getters / ToSlice: 61 calls) under recover; non-trivial: everything but plain strings and bools; distinct by value term"
	n, err := writeShards(out, prop, "Values Accessors ValuesCorr", "vscen", "vobs", "admits_values", "spec_C15", cases, controls)
	if err != nil {
		return err
	}
	st.Shards = n
	if err := writeJSONL(filepath.Join(out, "cases.jsonl"), jl); err != nil {
		return err
	}
	return writeStats(out, st)
}
