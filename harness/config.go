package main

// Config family (C19): a node is built from a sequence of settings, each passed as a constructor
// option or applied as a builder call; getters, a probe run and the tags of the user functions
// that fired are observed.

import (
	"context"
	"crypto/sha256"
	"encoding/hex"
	"encoding/json"
	"fmt"
	"os"
	"path/filepath"
	"sort"
	"strings"
	"sync"
	"time"

	"github.com/mark3labs/flyt"
)

type CSetting struct {
	P     string `json:"p"` // retries wait conc errh prep exec post fb
	N     int    `json:"n,omitempty"`
	B     bool   `json:"b,omitempty"`
	Style string `json:"style,omitempty"` // res any batch
	Tag   int    `json:"tag,omitempty"`
	Form  string `json:"form"` // opt bld
}

type CScen struct {
	Batch    bool       `json:"batch"`
	Settings []CSetting `json:"settings"`
}

type CObs struct {
	Retries  int      `json:"retries"`
	WaitMS   int      `json:"wait_ms"`
	Conc     int      `json:"conc"`
	Continue bool     `json:"continue"`
	Tags     [][2]int `json:"tags"`
	Probe    EObs     `json:"probe"`
}

func (s CSetting) coqParam() string {
	switch s.P {
	case "retries":
		return fmt.Sprintf("PMaxRetries (%d)", s.N)
	case "wait":
		return fmt.Sprintf("PWait (%d)", s.N)
	case "conc":
		return fmt.Sprintf("PConc (%d)", s.N)
	case "errh":
		return fmt.Sprintf("PErrH %v", s.B)
	case "prep":
		return fmt.Sprintf("PPrep %s %d", styleCoq(s.Style), s.Tag)
	case "exec":
		return fmt.Sprintf("PExec %s %d", styleCoq(s.Style), s.Tag)
	case "post":
		return fmt.Sprintf("PPost %s %d", styleCoq(s.Style), s.Tag)
	}
	return fmt.Sprintf("PFb %d", s.Tag)
}

func (s CScen) Coq() string {
	ps := make([]string, len(s.Settings))
	for i, x := range s.Settings {
		f := "FOpt"
		if x.Form == "bld" {
			f = "FBld"
		}
		ps[i] = fmt.Sprintf("(%s, %s)", x.coqParam(), f)
	}
	return fmt.Sprintf("{| cs_batch := %v; cs_settings := [%s] |}", s.Batch, strings.Join(ps, "; "))
}

func (o CObs) Coq() string {
	ts := make([]string, len(o.Tags))
	for i, t := range o.Tags {
		ts[i] = fmt.Sprintf("(%d, %d)", t[0], t[1])
	}
	return fmt.Sprintf("{| co_retries := (%d); co_wait := (%d); co_conc := (%d); co_continue := %v;\n     co_tags := [%s];\n     co_probe := %s |}",
		o.Retries, o.WaitMS, o.Conc, o.Continue, strings.Join(ts, "; "), o.Probe.Coq())
}

type tagLog struct {
	mu   sync.Mutex
	seen map[[2]int]bool
}

func (t *tagLog) hit(phase, tag int) {
	t.mu.Lock()
	t.seen[[2]int{phase, tag}] = true
	t.mu.Unlock()
}

func probeScript(batch bool) []SEntry {
	if batch {
		items := []Val{vRes(vTok(1)), vRes(vTok(2)), vRes(vTok(3)), vRes(vTok(4))}
		return []SEntry{
			{N: 0, Ph: "prep", Rs: []Resp{}, Dflt: rOk(vSl(true, "", items))},
			{N: 0, Ph: "exec", Item: 2, Rs: []Resp{}, Dflt: rErr(1)},
			{N: 0, Ph: "exec", Rs: []Resp{}, Dflt: rOk(vTok(9))},
			{N: 0, Ph: "fb", Rs: []Resp{}, Dflt: rErr(2)},
			{N: 0, Ph: "post", Rs: []Resp{}, Dflt: rAct(5)},
		}
	}
	return []SEntry{
		{N: 0, Ph: "prep", Rs: []Resp{}, Dflt: rOk(vTok(1))},
		{N: 0, Ph: "exec", Rs: []Resp{}, Dflt: rErr(1)},
		{N: 0, Ph: "fb", Rs: []Resp{}, Dflt: rOk(vTok(8))},
		{N: 0, Ph: "post", Rs: []Resp{}, Dflt: rAct(5)},
	}
}

// buildFromSettings: options to the constructor in the listed order, builder calls afterwards in
// the listed order.
var rawOptCount int

func buildFromSettings(sc CScen, h *hnode, tl *tagLog) flyt.Node {
	ms := func(n int) time.Duration { return time.Duration(n) * time.Millisecond }
	if !sc.Batch {
		var opts []any
		var later []func(b *flyt.NodeBuilder)
		for _, s := range sc.Settings {
			s := s
			var opt any
			var bld func(b *flyt.NodeBuilder)
			switch s.P {
			case "retries":
				opt, bld = flyt.WithMaxRetries(s.N), func(b *flyt.NodeBuilder) { b.WithMaxRetries(s.N) }
			case "wait":
				opt, bld = flyt.WithWait(ms(s.N)), func(b *flyt.NodeBuilder) { b.WithWait(ms(s.N)) }
			case "conc":
				opt, bld = flyt.WithBatchConcurrency(s.N), func(b *flyt.NodeBuilder) { b.WithBatchConcurrency(s.N) }
			case "errh":
				opt, bld = flyt.WithBatchErrorHandling(s.B), func(b *flyt.NodeBuilder) { b.WithBatchErrorHandling(s.B) }
			case "prep":
				if s.Style == "res" {
					f := func(ctx context.Context, st *flyt.SharedStore) (flyt.Result, error) {
						tl.hit(0, s.Tag)
						return h.resRet(h.prep(st))
					}
					opt, bld = flyt.WithPrepFunc(f), func(b *flyt.NodeBuilder) { b.WithPrepFunc(f) }
				} else {
					f := func(ctx context.Context, st *flyt.SharedStore) (any, error) {
						tl.hit(0, s.Tag)
						return h.anyRet(h.prep(st))
					}
					opt, bld = flyt.WithPrepFuncAny(f), func(b *flyt.NodeBuilder) { b.WithPrepFuncAny(f) }
				}
			case "exec":
				if s.Style == "res" {
					f := func(ctx context.Context, p flyt.Result) (flyt.Result, error) {
						tl.hit(1, s.Tag)
						return h.resRet(h.exec(p))
					}
					opt, bld = flyt.WithExecFunc(f), func(b *flyt.NodeBuilder) { b.WithExecFunc(f) }
				} else {
					f := func(ctx context.Context, p any) (any, error) {
						tl.hit(1, s.Tag)
						return h.anyRet(h.exec(p))
					}
					opt, bld = flyt.WithExecFuncAny(f), func(b *flyt.NodeBuilder) { b.WithExecFuncAny(f) }
				}
			case "post":
				if s.Style == "res" {
					f := func(ctx context.Context, st *flyt.SharedStore, p, x flyt.Result) (flyt.Action, error) {
						tl.hit(3, s.Tag)
						return h.actRet(h.post(st, p, x))
					}
					opt, bld = flyt.WithPostFunc(f), func(b *flyt.NodeBuilder) { b.WithPostFunc(f) }
				} else {
					f := func(ctx context.Context, st *flyt.SharedStore, p, x any) (flyt.Action, error) {
						tl.hit(3, s.Tag)
						return h.actRet(h.post(st, p, x))
					}
					opt, bld = flyt.WithPostFuncAny(f), func(b *flyt.NodeBuilder) { b.WithPostFuncAny(f) }
				}
			default:
				f := func(p any, err error) (any, error) {
					tl.hit(2, s.Tag)
					return h.anyRet(h.fallback(p, err))
				}
				opt, bld = flyt.WithExecFallbackFunc(f), func(b *flyt.NodeBuilder) { b.WithExecFallbackFunc(f) }
			}
			if s.Form == "opt" {
				// a base option may be spelt as a NodeOption or as a plain func(*BaseNode): every other one
				if no, ok := opt.(flyt.NodeOption); ok {
					rawOptCount++
					if rawOptCount%2 == 1 {
						opt = (func(*flyt.BaseNode))(no)
					}
				}
				opts = append(opts, opt)
			} else {
				later = append(later, bld)
			}
		}
		b := flyt.NewNode(opts...)
		for _, f := range later {
			f(b)
		}
		return b
	}
	var opts []any
	var later []func(b *flyt.BatchNodeBuilder)
	for _, s := range sc.Settings {
		s := s
		var opt any
		var bld func(b *flyt.BatchNodeBuilder)
		switch s.P {
		case "retries":
			opt, bld = flyt.WithMaxRetries(s.N), func(b *flyt.BatchNodeBuilder) { b.WithMaxRetries(s.N) }
		case "wait":
			opt, bld = flyt.WithWait(ms(s.N)), func(b *flyt.BatchNodeBuilder) { b.WithWait(ms(s.N)) }
		case "conc":
			opt, bld = flyt.WithBatchConcurrency(s.N), func(b *flyt.BatchNodeBuilder) { b.WithBatchConcurrency(s.N) }
		case "errh":
			opt, bld = flyt.WithBatchErrorHandling(s.B), func(b *flyt.BatchNodeBuilder) { b.WithBatchErrorHandling(s.B) }
		case "prep":
			bld = func(b *flyt.BatchNodeBuilder) {
				b.WithPrepFunc(func(ctx context.Context, st *flyt.SharedStore) ([]flyt.Result, error) {
					tl.hit(0, s.Tag)
					r := h.prep(st)
					if r.K == "err" {
						return nil, realiseErr(r.U)
					}
					out := []flyt.Result{}
					if r.V != nil && r.V.T == "sl" {
						for _, x := range r.V.L {
							out = append(out, h.rt.w.realiseRes(x))
						}
					}
					return out, nil
				})
			}
		case "exec":
			if s.Style == "res" {
				bld = func(b *flyt.BatchNodeBuilder) {
					b.WithExecFunc(func(ctx context.Context, p flyt.Result) (flyt.Result, error) {
						tl.hit(1, s.Tag)
						return h.resRet(h.exec(p))
					})
				}
			} else {
				bld = func(b *flyt.BatchNodeBuilder) {
					b.WithExecFuncAny(func(ctx context.Context, p any) (any, error) {
						tl.hit(1, s.Tag)
						return h.anyRet(h.exec(p))
					})
				}
			}
		case "post":
			bld = func(b *flyt.BatchNodeBuilder) {
				b.WithPostFunc(func(ctx context.Context, st *flyt.SharedStore, items, results []flyt.Result) (flyt.Action, error) {
					tl.hit(3, s.Tag)
					return h.actRet(h.bpost(st, items, results))
				})
			}
		}
		if s.Form == "opt" && opt != nil {
			opts = append(opts, opt)
		} else {
			later = append(later, bld)
		}
	}
	b := flyt.NewBatchNode(opts...)
	for _, f := range later {
		f(b)
	}
	return b
}

type getters interface {
	GetMaxRetries() int
	GetWait() time.Duration
	GetBatchConcurrency() int
	GetBatchErrorHandling() string
}

func observeConfig(sc CScen) CObs {
	w := newWorld()
	w.store = flyt.NewSharedStore()
	ctx, cancel := context.WithCancel(context.Background())
	defer cancel()
	w.ctx = ctx
	script := probeScript(sc.Batch)
	rt := &scriptRT{entries: script, counts: make([]int, len(script)), w: w, cancel: cancel}
	h := &hnode{id: 0, rt: rt}
	tl := &tagLog{seen: map[[2]int]bool{}}
	node := buildFromSettings(sc, h, tl)
	g := node.(getters)
	o := CObs{Retries: g.GetMaxRetries(), WaitMS: int(g.GetWait() / time.Millisecond), Conc: g.GetBatchConcurrency(),
		Continue: g.GetBatchErrorHandling() == "continue"}
	h.retryN, h.waitMs = o.Retries, o.WaitMS
	if sc.Batch && o.Conc > 0 {
		h.gated = true
		rt.gate = newGateCtl(rt, nil)
		go rt.gate.loop()
		defer rt.gate.stop()
	} else if sc.Batch {
		h.gated = false
	}
	r := ERun{}
	done := make(chan struct{})
	go func() {
		defer close(done)
		defer func() {
			if p := recover(); p != nil {
				r.Panic = fmt.Sprint(p)
			}
		}()
		a, err := flyt.Run(ctx, node, w.store)
		r.Outcome = EOutcome{Action: actID(a), Err: classify(err, ctx)}
	}()
	select {
	case <-done:
	case <-time.After(10 * time.Second):
		r.Timeout = true
	}
	r.Trace = rt.takeTrace()
	o.Probe = EObs{Runs: []ERun{r}}
	for k := range tl.seen {
		o.Tags = append(o.Tags, k)
	}
	sort.Slice(o.Tags, func(i, j int) bool {
		if o.Tags[i][0] != o.Tags[j][0] {
			return o.Tags[i][0] < o.Tags[j][0]
		}
		return o.Tags[i][1] < o.Tags[j][1]
	})
	if o.Tags == nil {
		o.Tags = [][2]int{}
	}
	return o
}

// ---------------------------------------------------------------- generation

func settingPool(batch bool) []CSetting {
	ps := []CSetting{
		{P: "retries", N: 1}, {P: "retries", N: 2}, {P: "retries", N: 3}, {P: "retries", N: 0},
		{P: "wait", N: 0}, {P: "wait", N: 1},
		{P: "conc", N: 0}, {P: "conc", N: 1}, {P: "conc", N: 2}, {P: "conc", N: 3}, {P: "conc", N: -1},
		{P: "errh", B: true}, {P: "errh", B: false},
	}
	if batch {
		ps = append(ps, CSetting{P: "prep", Style: "batch"}, CSetting{P: "exec", Style: "res"}, CSetting{P: "exec", Style: "any"},
			CSetting{P: "post", Style: "batch"})
	} else {
		for _, st := range []string{"res", "any"} {
			ps = append(ps, CSetting{P: "prep", Style: st}, CSetting{P: "exec", Style: st}, CSetting{P: "post", Style: st})
		}
		ps = append(ps, CSetting{P: "fb"})
	}
	return ps
}

func isFuncSetting(s CSetting) bool {
	return s.P == "prep" || s.P == "exec" || s.P == "post" || s.P == "fb"
}

func genConfig(r *rng, tier string) (scens []CScen, tags [][]string) {
	add := func(sc CScen, tg ...string) {
		for i := range sc.Settings {
			sc.Settings[i].Tag = i + 1
		}
		scens = append(scens, sc)
		tags = append(tags, tg)
	}
	forms := []string{"opt", "bld"}
	for _, batch := range []bool{false, true} {
		pool := settingPool(batch)
		add(CScen{Batch: batch, Settings: []CSetting{}}, "len=0", fmt.Sprintf("batch=%v", batch))
		// a base set of functions so that the probe run has something to call
		base := []CSetting{{P: "prep", Style: "res", Form: "bld"}, {P: "exec", Style: "res", Form: "bld"}, {P: "post", Style: "res", Form: "bld"}}
		if batch {
			base = []CSetting{{P: "prep", Style: "batch", Form: "bld"}, {P: "exec", Style: "res", Form: "bld"}, {P: "post", Style: "batch", Form: "bld"}}
		}
		withBase := func(ss []CSetting, front bool) []CSetting {
			if front {
				return append(append([]CSetting{}, base...), ss...)
			}
			return append(append([]CSetting{}, ss...), base...)
		}
		// every sequence of length 1 and 2 (quick), 3 on the numeric settings (thorough: all)
		for i, a := range pool {
			for _, fa := range forms {
				if batch && isFuncSetting(a) && fa == "opt" {
					continue
				}
				a1 := a
				a1.Form = fa
				add(CScen{Batch: batch, Settings: withBase([]CSetting{a1}, i%2 == 0)}, "len=1", fmt.Sprintf("batch=%v", batch))
				for j, b := range pool {
					for _, fb := range forms {
						if batch && isFuncSetting(b) && fb == "opt" {
							continue
						}
						if tier != "thorough" && (i*31+j*7)%3 != 0 && a.P != b.P {
							continue
						}
						b1 := b
						b1.Form = fb
						add(CScen{Batch: batch, Settings: withBase([]CSetting{a1, b1}, (i+j)%2 == 0)}, "len=2", fmt.Sprintf("batch=%v", batch))
					}
				}
			}
		}
	}
	n := 700
	if tier == "thorough" {
		n = 20000
	}
	for i := 0; i < n; i++ {
		batch := r.chance(50)
		pool := settingPool(batch)
		L := 3 + r.intn(4)
		var ss []CSetting
		for k := 0; k < L; k++ {
			s := pick(r, pool)
			s.Form = pick(r, forms)
			if batch && isFuncSetting(s) {
				s.Form = "bld"
			}
			ss = append(ss, s)
		}
		add(CScen{Batch: batch, Settings: ss}, fmt.Sprintf("len=%d", L), fmt.Sprintf("batch=%v", batch), "random")
	}
	return
}

func configMain(prop, tier string, seed uint64, out, replay string) error {
	type cCase struct {
		ID   int      `json:"id"`
		Scen CScen    `json:"scen"`
		Obs  CObs     `json:"obs"`
		Tags []string `json:"tags,omitempty"`
	}
	var scens []CScen
	var tags [][]string
	if replay != "" {
		b, err := os.ReadFile(replay)
		if err != nil {
			return err
		}
		var w struct {
			Scenario *CScen `json:"scenario"`
			Scen     *CScen `json:"scen"`
		}
		if err := json.Unmarshal(b, &w); err != nil {
			return err
		}
		s := w.Scenario
		if s == nil {
			s = w.Scen
		}
		scens, tags = []CScen{*s}, [][]string{nil}
	} else {
		scens, tags = genConfig(newRng(seed), tier)
	}
	st := newStats()
	var cases []coqCase
	var jl []any
	seen := map[string]bool{}
	for i, sc := range scens {
		if i%64 == 63 {
			runtimeGC()
		}
		noteProgressAny(out, i, sc, tags[i])
		obs := observeConfig(sc)
		c := cCase{ID: i, Scen: sc, Obs: obs, Tags: tags[i]}
		jl = append(jl, c)
		cases = append(cases, coqCase{id: i, scen: sc.Coq(), obs: obs.Coq()})
		for _, t := range tags[i] {
			st.count(t)
		}
		mixed := false
		for _, s := range sc.Settings {
			st.count("setting=" + s.P + "/" + s.Form)
			if s.Form == "opt" {
				mixed = true
			}
		}
		b, _ := json.Marshal(sc)
		hsh := sha256.Sum256(b)
		k := hex.EncodeToString(hsh[:8])
		if !seen[k] && len(sc.Settings) >= 2 {
			seen[k] = true
			st.DistinctNontrivial++
		}
		if len(st.Samples) < 2 && mixed && len(sc.Settings) > 3 {
			st.Samples = append(st.Samples, c)
		}
	}
	st.Evaluations = len(cases)
	var controls []coqCase
	if replay == "" {
		for _, sc := range scens {
			if len(controls) >= 4 {
				break
			}
			if len(sc.Settings) >= 2 {
				obs := observeConfig(sc)
				obs.Retries += 1
				controls = append(controls, coqCase{id: len(controls), scen: sc.Coq(), obs: obs.Coq()})
			}
		}
	}
	st.Controls = len(controls)
	st.Scope = "settings {max retries 0..3, wait 0/1ms, batch concurrency -1..3, error handling, prep/exec/post functions in Result and Any style, fallback} x option / builder form, for plain and batch builders: every sequence of length 1, sequences of length 2 (quick: all same-parameter pairs and a third of the others), random sequences of length 3..6; getters, tags of the functions that fire, and a probe run (always-failing exec with recovering fallback; 4-item batch whose second item fails, gated when concurrent)"
	st.Rule = "enumeration + seeded random; non-trivial when at least two settings; distinct by scenario hash"
	n, err := writeShards(out, prop, "Base Script FlowTable Engine EngineCorr Config ConfigCorr", "cscen", "cobs", "admits_config", "spec_C19", cases, controls)
	if err != nil {
		return err
	}
	st.Shards = n
	if err := writeJSONL(filepath.Join(out, "cases.jsonl"), jl); err != nil {
		return err
	}
	return writeStats(out, st)
}
