package main

// harness <family> -prop Cxx -tier quick|thorough -seed N -out DIR
// harness <family> -prop Cxx -replay FILE
//
// Generates the scenarios of a property, runs each on the real flyt (built from /repo's
// working tree through the replace directive), and writes
//   DIR/cases.jsonl       one JSON object per case (scenario + observation)
//   DIR/cases_<k>.v       Coq case files evaluating admits_* / spec_* on the observations
//   DIR/stats.json        measured input distribution

import (
	"encoding/json"
	"flag"
	"fmt"
	"os"
	"path/filepath"
	"runtime"
	"runtime/debug"
	"sort"
	"strings"
)

type stats struct {
	Evaluations        int            `json:"evaluations"`
	DistinctNontrivial int            `json:"distinct_nontrivial"`
	Rule               string         `json:"rule"`
	Dist               map[string]int `json:"distribution"`
	Samples            []any          `json:"samples"`
	Exhaustive         bool           `json:"exhaustive"`
	Scope              string         `json:"scope"`
	Shards             int            `json:"shards"`
	Controls           int            `json:"controls"`
	Extra              map[string]any `json:"extra,omitempty"`
}

func newStats() *stats { return &stats{Dist: map[string]int{}, Extra: map[string]any{}} }

func (s *stats) count(k string) { s.Dist[k]++ }

// shards are evaluated by 14 coqc processes in parallel; a shard holds at most 160 cases and at most
// about 1 MB of terms (memory of one coqc grows with the size of its case file)
func shardSizeFor(n int) int {
	sz := (n + 13) / 14
	if sz < 20 {
		sz = 20
	}
	if sz > 160 {
		sz = 160
	}
	return sz
}

const shardBytes = 1 << 20

type coqCase struct {
	id   int
	scen string
	obs  string
}

// writeShards writes Coq case files. imports: module list; admits/spec: function names.
func writeShards(dir, prop string, imports string, scenTy, obsTy, admits, spec string, cases, controls []coqCase) (int, error) {

	nsh := 0
	shardSize := shardSizeFor(len(cases))
	for start := 0; start < len(cases) || (start == 0 && nsh == 0); {
		end := start
		bytes := 0
		for end < len(cases) && end-start < shardSize && (bytes < shardBytes || end == start) {
			bytes += len(cases[end].scen) + len(cases[end].obs)
			end++
		}
		var sb strings.Builder
		fmt.Fprintf(&sb, "From Flyt Require Import %s.\n", imports)
		fmt.Fprintf(&sb, "Definition cases : list (nat * %s * %s) := [\n", scenTy, obsTy)
		for i, c := range cases[start:end] {
			if i > 0 {
				sb.WriteString(";\n")
			}
			fmt.Fprintf(&sb, "  (%d,\n   %s,\n   %s)", c.id, c.scen, c.obs)
		}
		sb.WriteString("\n].\n")
		if scenTy == "escen" {
			fmt.Fprintf(&sb, "Definition bad := Eval vm_compute in engine_failing %s cases.\nPrint bad.\n", spec)
		} else {
			fmt.Fprintf(&sb, "Definition bad := Eval vm_compute in %s_failing %s cases.\nPrint bad.\n", scenTy, spec)
		}
		if nsh == 0 {
			fmt.Fprintf(&sb, "Definition controls : list (nat * %s * %s) := [\n", scenTy, obsTy)
			for i, c := range controls {
				if i > 0 {
					sb.WriteString(";\n")
				}
				fmt.Fprintf(&sb, "  (%d,\n   %s,\n   %s)", c.id, c.scen, c.obs)
			}
			sb.WriteString("\n].\n")
			acc := "accepted"
			if scenTy != "escen" {
				acc = "accepted_s"
			}
			fmt.Fprintf(&sb, "Definition ctl := Eval vm_compute in %s (fun s o => andb (%s s o) (%s s o)) controls.\nPrint ctl.\n", acc, admits, spec)
		}
		name := filepath.Join(dir, fmt.Sprintf("cases_%s_%d.v", prop, nsh))
		if err := os.WriteFile(name, []byte(sb.String()), 0o644); err != nil {
			return nsh, err
		}
		nsh++
		start = end
		if end >= len(cases) {
			break
		}
	}
	return nsh, nil
}

func writeJSONL(path string, items []any) error {
	f, err := os.Create(path)
	if err != nil {
		return err
	}
	defer f.Close()
	enc := json.NewEncoder(f)
	for _, it := range items {
		if err := enc.Encode(it); err != nil {
			return err
		}
	}
	return nil
}

func writeStats(dir string, st *stats) error {
	b, err := json.MarshalIndent(st, "", " ")
	if err != nil {
		return err
	}
	return os.WriteFile(filepath.Join(dir, "stats.json"), b, 0o644)
}

func sortedKeys(m map[string]int) []string {
	ks := make([]string, 0, len(m))
	for k := range m {
		ks = append(ks, k)
	}
	sort.Strings(ks)
	return ks
}

func main() {
	if len(os.Args) < 2 {
		fmt.Fprintln(os.Stderr, "usage: harness <family> [flags]")
		os.Exit(2)
	}
	family := os.Args[1]
	fs := flag.NewFlagSet(family, flag.ExitOnError)
	prop := fs.String("prop", "", "property id")
	tier := fs.String("tier", "quick", "quick|thorough")
	seed := fs.Uint64("seed", 1, "PRNG seed")
	out := fs.String("out", "", "output directory")
	replay := fs.String("replay", "", "replay file (a case or scenario JSON)")
	fs.Parse(os.Args[2:])
	if *out != "" {
		if err := os.MkdirAll(*out, 0o755); err != nil {
			fmt.Fprintln(os.Stderr, err)
			os.Exit(2)
		}
	}
	var err error
	switch family {
	case "engine":
		err = engineMain(*prop, *tier, *seed, *out, *replay)
	case "store":
		err = storeMain(*prop, *tier, *seed, *out, *replay)
	case "values":
		err = valuesMain(*prop, *tier, *seed, *out, *replay)
	case "bind":
		err = bindMain(*prop, *tier, *seed, *out, *replay)
	case "lockscan":
		err = lockscanMain(*prop, *tier, *seed, *out, *replay)
	case "batchprobe":
		err = batchProbeMain(*prop, *tier, *seed, *out, *replay)
	case "batchstress":
		err = batchStressMain(*prop, *tier, *seed, *out, *replay)
	case "wait":
		err = waitMain(*prop, *tier, *seed, *out, *replay)
	case "lin":
		err = linMain(*prop, *tier, *seed, *out, *replay)
	case "pool":
		debug.SetGCPercent(-1)
		err = poolMain(*prop, *tier, *seed, *out, *replay)
	case "poolstress":
		err = poolStressMain(*prop, *tier, *seed, *out, *replay)
	case "config":
		debug.SetGCPercent(-1)
		err = configMain(*prop, *tier, *seed, *out, *replay)
	default:
		err = fmt.Errorf("unknown family %q", family)
	}
	if err != nil {
		fmt.Fprintln(os.Stderr, "harness error:", err)
		os.Exit(2)
	}
}

func runtimeGC() { runtime.GC() }

func noteProgressAny(out string, i int, sc any, tags []string) {
	if out == "" {
		return
	}
	b, _ := json.Marshal(map[string]any{"id": i, "scen": sc, "tags": tags})
	os.WriteFile(filepath.Join(out, "progress.json"), b, 0o644)
}
