package main

// Pool family (C12): flyt.WorkerPool used directly.
//   gated runs: one submitter runs a list of operations (Submit / Wait / Sync / Close); every
//     task parks inside its function; at each quiescent point the running tasks are noted and
//     one is released; the log must equal the model's.
//   stress runs: several submitters, hundreds of tasks, random durations; counters are judged.

import (
	"crypto/sha256"
	"encoding/hex"
	"encoding/json"
	"fmt"
	"os"
	"path/filepath"
	"runtime"
	"sort"
	"strings"
	"sync"
	"sync/atomic"
	"time"

	"github.com/mark3labs/flyt"
)

type POp struct {
	K string `json:"k"` // submit wait sync close
	T int    `json:"t,omitempty"`
}
type PScen struct {
	Workers int   `json:"workers"`
	Ops     []POp `json:"ops"`
	Rel     []int `json:"rel,omitempty"`
}
type PEv struct {
	K  string `json:"k"` // end wait park panic timeout
	T  int    `json:"t,omitempty"`
	Ts []int  `json:"ts,omitempty"`
	S  int    `json:"s,omitempty"` // submitted: how many times Submit has returned
	M  string `json:"m,omitempty"`
}

func (s PScen) Coq() string {
	ops := make([]string, len(s.Ops))
	for i, o := range s.Ops {
		switch o.K {
		case "submit":
			ops[i] = fmt.Sprintf("PSubmit %d", o.T)
		case "wait":
			ops[i] = "PWait"
		case "sync":
			ops[i] = "PSync"
		default:
			ops[i] = "PClose"
		}
	}
	w := s.Workers
	if w < 0 {
		w = 0
	}
	return fmt.Sprintf("{| ps_workers := %d; ps_ops := [%s]; ps_rel := %s |}", w, strings.Join(ops, "; "), coqInts(s.Rel))
}
func coqPEvs(l []PEv) string {
	s := make([]string, len(l))
	for i, e := range l {
		switch e.K {
		case "end":
			s[i] = fmt.Sprintf("EvEnd %d", e.T)
		case "wait":
			s[i] = "EvWaitReturn 0"
		case "park":
			s[i] = "EvPark " + coqInts(e.Ts)
		case "submitted":
			s[i] = fmt.Sprintf("EvSubmitted %d", e.S)
		default:
			s[i] = "EvStart 99999" // a panic or a hang: no event of the model
		}
	}
	return "[" + strings.Join(s, "; ") + "]"
}

func runPoolGated(sc PScen) []PEv {
	var mu sync.Mutex
	var log []PEv
	add := func(e PEv) { mu.Lock(); log = append(log, e); mu.Unlock() }
	rel := make([]int, len(sc.Rel))
	for i, t := range sc.Rel {
		rel[i] = 16 * t
	}
	var returned int32
	g := newGateCtl(nil, rel)
	g.onPark = func(_ int, codes []int) {
		ts := make([]int, len(codes))
		for i, c := range codes {
			ts[i] = c / 16
		}
		add(PEv{K: "submitted", S: int(atomic.LoadInt32(&returned))})
		add(PEv{K: "park", Ts: ts})
	}
	syncCh := make(chan chan struct{}, 1)
	g.onIdle = func() bool {
		select {
		case ch := <-syncCh:
			close(ch)
			return true
		default:
			return false
		}
	}
	go g.loop()
	defer g.stop()
	done := make(chan struct{})
	go func() {
		defer close(done)
		defer func() {
			if p := recover(); p != nil {
				add(PEv{K: "panic", M: fmt.Sprint(p)})
			}
		}()
		pool := flyt.NewWorkerPool(sc.Workers)
		for _, op := range sc.Ops {
			switch op.K {
			case "submit":
				t := op.T
				pool.Submit(func() {
					g.park(0, t, 0)
					add(PEv{K: "end", T: t})
				})
				atomic.AddInt32(&returned, 1)
			case "wait":
				pool.Wait()
				add(PEv{K: "wait"})
			case "sync":
				ch := make(chan struct{})
				syncCh <- ch
				gateWait(ch)
			case "close":
				pool.Close()
			}
		}
	}()
	select {
	case <-done:
	case <-time.After(10 * time.Second):
		add(PEv{K: "timeout"})
	}
	// tasks submitted but never waited for: let the controller drain them
	deadline := time.Now().Add(5 * time.Second)
	for time.Now().Before(deadline) {
		mu.Lock()
		n := 0
		for _, e := range log {
			if e.K == "end" {
				n++
			}
		}
		mu.Unlock()
		want := 0
		for _, op := range sc.Ops {
			if op.K == "submit" {
				want++
			}
		}
		if n >= want {
			break
		}
		bad := false
		mu.Lock()
		for _, e := range log {
			if e.K == "panic" || e.K == "timeout" {
				bad = true
			}
		}
		mu.Unlock()
		if bad {
			break // the scenario has already gone wrong: nothing to wait for
		}
		time.Sleep(200 * time.Microsecond)
	}
	mu.Lock()
	defer mu.Unlock()
	return append([]PEv{}, log...)
}

// ---------------------------------------------------------------- stress

type PStress struct {
	Tasks      int  `json:"tasks"`
	Once       bool `json:"once"`
	Barrier    bool `json:"barrier"`
	NoPanic    bool `json:"no_panic"`
	NoLeak     bool `json:"no_leak"`
	MaxRunning int  `json:"max_running"`
	Workers    int  `json:"workers"`
	Size       int  `json:"size"`
	Submitters int  `json:"submitters"`
	Rounds     int  `json:"rounds"`
}

func (o PStress) Coq() string {
	return fmt.Sprintf("{| st_tasks := %d; st_once := %v; st_barrier := %v; st_no_panic := %v; st_no_leak := %v; st_max_running := %d; st_workers := %d |}",
		o.Tasks, o.Once, o.Barrier, o.NoPanic, o.NoLeak, o.MaxRunning, o.Workers)
}

func workerGoroutines() int {
	buf := make([]byte, 1<<20)
	n := runtime.Stack(buf, true)
	return strings.Count(string(buf[:n]), "flyt.(*WorkerPool).worker(")
}

func runPoolStress(r *rng, size, nsub, rounds, perRound int) PStress {
	o := PStress{Size: size, Submitters: nsub, Rounds: rounds, Once: true, Barrier: true, NoPanic: true, NoLeak: true}
	o.Workers = size
	if size <= 0 {
		o.Workers = 1
	}
	before := workerGoroutines()
	func() {
		defer func() {
			if p := recover(); p != nil {
				o.NoPanic = false
			}
		}()
		pool := flyt.NewWorkerPool(size)
		total := nsub * rounds * perRound
		o.Tasks = total
		counts := make([]int32, total)
		plain := make([]int, total) // written without synchronisation by the task, read after Wait
		var running, maxRunning int32
		delays := make([]int, total)
		for i := range delays {
			delays[i] = r.intn(40)
		}
		for round := 0; round < rounds; round++ {
			var subs sync.WaitGroup
			for s := 0; s < nsub; s++ {
				s := s
				subs.Add(1)
				go func() {
					defer subs.Done()
					for k := 0; k < perRound; k++ {
						id := (round*nsub+s)*perRound + k
						pool.Submit(func() {
							cur := atomic.AddInt32(&running, 1)
							for {
								m := atomic.LoadInt32(&maxRunning)
								if cur <= m || atomic.CompareAndSwapInt32(&maxRunning, m, cur) {
									break
								}
							}
							if d := delays[id]; d > 0 {
								time.Sleep(time.Duration(d) * time.Microsecond)
							}
							plain[id] = id + 1
							atomic.AddInt32(&counts[id], 1)
							atomic.AddInt32(&running, -1)
						})
					}
				}()
			}
			subs.Wait() // every Submit of this round has returned
			waited := make(chan struct{})
			go func() { pool.Wait(); close(waited) }()
			select {
			case <-waited:
			case <-time.After(20 * time.Second):
				o.Barrier = false // Wait never returned
				return
			}
			// barrier: everything submitted so far has finished, with its plain writes visible
			for id := 0; id < (round+1)*nsub*perRound; id++ {
				if atomic.LoadInt32(&counts[id]) != 1 || plain[id] != id+1 {
					o.Barrier = false
				}
			}
		}
		pool.Close()
		for id := range counts {
			if atomic.LoadInt32(&counts[id]) != 1 {
				o.Once = false
			}
		}
		o.MaxRunning = int(maxRunning)
	}()
	// after Wait + Close the pool's goroutines terminate
	deadline := time.Now().Add(2 * time.Second)
	for workerGoroutines() > before && time.Now().Before(deadline) {
		time.Sleep(200 * time.Microsecond)
	}
	if workerGoroutines() > before {
		o.NoLeak = false
	}
	return o
}

// runBarrierProbe: Wait running while ANOTHER goroutine keeps submitting.  One task is held inside
// its function by the harness; Wait is called; then k short tasks are submitted from a second
// goroutine and complete.  Wait must not return while the held task is unfinished - whatever the
// timing, a return observed before the harness lets the task go is a violation (the pause only
// gives a wrong Wait the time to return).
func runBarrierProbe(size, k int) PStress {
	o := PStress{Size: size, Submitters: 2, Rounds: 1, Once: true, Barrier: true, NoPanic: true, NoLeak: true, Tasks: k + 1}
	o.Workers = size
	if size <= 0 {
		o.Workers = 1
	}
	before := workerGoroutines()
	func() {
		defer func() {
			if p := recover(); p != nil {
				o.NoPanic = false
			}
		}()
		pool := flyt.NewWorkerPool(size)
		gate := make(chan struct{})
		var heldDone, released int32
		counts := make([]int32, k+1)
		pool.Submit(func() {
			<-gate
			atomic.StoreInt32(&heldDone, 1)
			atomic.AddInt32(&counts[0], 1)
		})
		waitRet := make(chan struct{})
		go func() {
			pool.Wait()
			// Wait has returned: the held task must have finished (it can only finish after release)
			if atomic.LoadInt32(&released) == 0 || atomic.LoadInt32(&heldDone) == 0 {
				o.Barrier = false
			}
			close(waitRet)
		}()
		time.Sleep(3 * time.Millisecond) // let Wait begin
		var shorts sync.WaitGroup
		sub := make(chan struct{})
		go func() {
			defer close(sub)
			for i := 1; i <= k; i++ {
				i := i
				shorts.Add(1)
				pool.Submit(func() { atomic.AddInt32(&counts[i], 1); shorts.Done() })
			}
		}()
		// every Submit of the second goroutine has returned (the queue holds them all)
		<-sub
		// with one worker the short tasks queue up behind the held one: do not wait for them then
		if o.Workers > 1 {
			shorts.Wait()
		}
		select {
		case <-waitRet:
		case <-time.After(30 * time.Millisecond):
		}
		atomic.StoreInt32(&released, 1)
		close(gate)
		select {
		case <-waitRet:
		case <-time.After(10 * time.Second):
			o.Barrier = false // Wait never returned
		}
		<-sub
		pool.Wait()
		pool.Close()
		for i := range counts {
			if atomic.LoadInt32(&counts[i]) != 1 {
				o.Once = false
			}
		}
		o.MaxRunning = 0
	}()
	deadline := time.Now().Add(2 * time.Second)
	for workerGoroutines() > before && time.Now().Before(deadline) {
		time.Sleep(200 * time.Microsecond)
	}
	if workerGoroutines() > before {
		o.NoLeak = false
	}
	return o
}

// ---------------------------------------------------------------- generation

func genPool(r *rng, tier string) (scens []PScen, tags [][]string) {
	add := func(sc PScen, tg ...string) { scens = append(scens, sc); tags = append(tags, tg) }
	sub := func(ts ...int) []POp {
		var o []POp
		for _, t := range ts {
			o = append(o, POp{K: "submit", T: t})
		}
		return o
	}
	w := POp{K: "wait"}
	sy := POp{K: "sync"}
	cl := POp{K: "close"}
	cat := func(parts ...[]POp) []POp {
		var o []POp
		for _, p := range parts {
			o = append(o, p...)
		}
		return o
	}
	rng := func(a, b int) []int {
		var o []int
		for i := a; i <= b; i++ {
			o = append(o, i)
		}
		return o
	}
	for _, size := range []int{-1, 0, 1, 2, 3, 4, 8, 16} {
		workers := size
		if workers <= 0 {
			workers = 1
		}
		for _, n := range []int{0, 1, workers, 2*workers + 1, 3*workers + 2, 4*workers + 8} {
			// one round
			add(PScen{Workers: size, Ops: cat(sub(rng(1, n)...), []POp{w, cl})}, fmt.Sprintf("size=%d", size), "rounds=1")
			if n > 1 {
				rev := rng(1, n)
				for i, j := 0, len(rev)-1; i < j; i, j = i+1, j-1 {
					rev[i], rev[j] = rev[j], rev[i]
				}
				add(PScen{Workers: size, Ops: cat(sub(rng(1, n)...), []POp{w, cl}), Rel: rev}, fmt.Sprintf("size=%d", size), "rounds=1", "reverse")
			}
			// repeated Submit / Wait rounds on one pool
			add(PScen{Workers: size, Ops: cat(sub(rng(1, n)...), []POp{w}, sub(rng(n+1, 2*n)...), []POp{w, w}, sub(2*n+1), []POp{w, cl})},
				fmt.Sprintf("size=%d", size), "rounds=3")
		}
		// Wait on an idle pool, work finishing with nobody waiting, then Wait while tasks are in flight
		add(PScen{Workers: size, Ops: cat([]POp{w}, sub(1), []POp{sy}, sub(2, 3), []POp{w, cl})}, fmt.Sprintf("size=%d", size), "idle_wait")
		add(PScen{Workers: size, Ops: cat([]POp{w, w}, sub(1, 2), []POp{sy, sy}, sub(3), []POp{w}, sub(4), []POp{sy, w, cl})}, fmt.Sprintf("size=%d", size), "idle_wait")
		add(PScen{Workers: size, Ops: cat(sub(1), []POp{sy, w}, sub(2), []POp{sy}, sub(3, 4, 5), []POp{w, cl})}, fmt.Sprintf("size=%d", size), "idle_wait")
	}
	n := 150
	if tier == "thorough" {
		n = 3000
	}
	for i := 0; i < n; i++ {
		size := r.intn(7) - 1
		var ops []POp
		next := 1
		L := 3 + r.intn(14)
		pendingWait := false
		for k := 0; k < L; k++ {
			switch p := r.intn(100); {
			case p < 60:
				ops = append(ops, POp{K: "submit", T: next})
				next++
				pendingWait = true
			case p < 80:
				ops = append(ops, w)
				pendingWait = false
			default:
				ops = append(ops, sy)
				pendingWait = false
			}
		}
		if pendingWait || r.chance(50) {
			ops = append(ops, w)
		}
		ops = append(ops, cl)
		var rel []int
		for _, t := range randOrder(r, next) {
			rel = append(rel, t)
		}
		add(PScen{Workers: size, Ops: ops, Rel: rel}, fmt.Sprintf("size=%d", size), "random")
	}
	return
}

func poolMain(prop, tier string, seed uint64, out, replay string) error {
	type pCase struct {
		ID   int      `json:"id"`
		Scen PScen    `json:"scen"`
		Obs  []PEv    `json:"obs"`
		Tags []string `json:"tags,omitempty"`
	}
	var scens []PScen
	var tags [][]string
	if replay != "" {
		b, err := os.ReadFile(replay)
		if err != nil {
			return err
		}
		var w struct {
			Scenario *PScen `json:"scenario"`
			Scen     *PScen `json:"scen"`
		}
		if err := json.Unmarshal(b, &w); err != nil {
			return err
		}
		s := w.Scenario
		if s == nil {
			s = w.Scen
		}
		scens, tags = []PScen{*s}, [][]string{nil}
	} else {
		scens, tags = genPool(newRng(seed), tier)
		if prop == "C19" {
			// C19 claims only "a pool size <= 0 means one worker": keep the scenarios of those sizes
			var s2 []PScen
			var t2 [][]string
			for i, sc := range scens {
				if sc.Workers <= 0 {
					s2 = append(s2, sc)
					t2 = append(t2, tags[i])
				}
			}
			scens, tags = s2, t2
		}
	}
	st := newStats()
	var cases []coqCase
	var jl []any
	seen := map[string]bool{}
	for i, sc := range scens {
		if i%64 == 63 {
			runtime.GC()
		}
		noteProgressAny(out, i, sc, tags[i])
		obs := runPoolGated(sc)
		hung := false
		for _, e := range obs {
			if e.K == "timeout" {
				hung = true
			}
		}
		c := pCase{ID: i, Scen: sc, Obs: obs, Tags: tags[i]}
		jl = append(jl, c)
		cases = append(cases, coqCase{id: i, scen: sc.Coq(), obs: coqPEvs(obs)})
		for _, t := range tags[i] {
			st.count(t)
		}
		b, _ := json.Marshal(sc)
		h := sha256.Sum256(b)
		k := hex.EncodeToString(h[:8])
		if !seen[k] && len(sc.Ops) > 3 {
			seen[k] = true
			st.DistinctNontrivial++
		}
		if len(st.Samples) < 2 && len(sc.Ops) > 8 {
			st.Samples = append(st.Samples, c)
		}
		if hung {
			st.Extra["aborted_after_timeout_at"] = i
			break
		}
	}
	st.Evaluations = len(cases)
	st.Extra["forced_releases"] = forcedReleases
	var controls []coqCase
	if replay == "" {
		for _, sc := range scens {
			if len(controls) >= 3 {
				break
			}
			obs := runPoolGated(sc)
			if len(obs) > 2 {
				obs = obs[:len(obs)-1]
				controls = append(controls, coqCase{id: len(controls), scen: sc.Coq(), obs: coqPEvs(obs)})
			}
		}
	}
	st.Controls = len(controls)
	st.Scope = "pool sizes -1, 0, 1, 2, 3, 4, 8, 16 x task counts 0 .. 4*workers+8 (beyond the 2*workers queue) x one or three Submit/Wait rounds, release in submission and in reverse order; Wait on an idle pool / work finishing with nobody waiting / Wait with tasks in flight; seeded random operation lists with release priorities"
	st.Rule = "enumeration + seeded random; gated (quiescence-driven) runs of one submitter; non-trivial when more than 3 operations; distinct by scenario hash"
	n, err := writeShards(out, prop, "Pool PoolCorr", "pscen", "pobs", "admits_pool", "spec_C12", cases, controls)
	if err != nil {
		return err
	}
	st.Shards = n
	if err := writeJSONL(filepath.Join(out, "cases.jsonl"), jl); err != nil {
		return err
	}
	return writeStats(out, st)
}

func poolStressMain(prop, tier string, seed uint64, out, replay string) error {
	r := newRng(seed)
	st := newStats()
	var cases []coqCase
	var jl []any
	sizes := []int{-1, 0, 1, 2, 3, 5, 8, 16}
	reps := 2
	if tier == "thorough" {
		reps = 25
	}
	id := 0
	for rep := 0; rep < reps; rep++ {
		for _, size := range sizes {
			for _, nsub := range []int{1, 2, 4} {
				rounds := 1 + r.intn(3)
				per := 1 + r.intn(500/(nsub*rounds))
				o := runPoolStress(r, size, nsub, rounds, per)
				jl = append(jl, map[string]any{"id": id, "scen": id, "obs": o, "tags": []string{fmt.Sprintf("size=%d", size), fmt.Sprintf("submitters=%d", nsub)}})
				cases = append(cases, coqCase{id: id, scen: fmt.Sprint(id), obs: o.Coq()})
				st.count(fmt.Sprintf("size=%d", size))
				st.count(fmt.Sprintf("submitters=%d", nsub))
				st.count(fmt.Sprintf("tasks<=%d", bucket(o.Tasks/8)*8))
				if o.Tasks > 2*o.Workers {
					st.DistinctNontrivial++
				}
				if len(st.Samples) < 2 {
					st.Samples = append(st.Samples, o)
				}
				id++
			}
		}
	}
	// Wait concurrent with submissions from another goroutine
	for rep := 0; rep < reps; rep++ {
		for _, size := range []int{1, 2, 3, 4, 8} {
			// at most as many short tasks as the queue holds (2 x workers): every Submit of the second
			// goroutine returns while the held task keeps the counter above zero.  (A Submit that
			// takes the counter up from zero while another goroutine's Wait has not returned is a
			// misuse of sync.WaitGroup the pool does not protect against and the property does not
			// ask for; the race detector reports it.)
			w := size
			if w < 1 {
				w = 1
			}
			k := 1 + r.intn(2*w)
			o := runBarrierProbe(size, k)
			jl = append(jl, map[string]any{"id": id, "scen": id, "obs": o, "tags": []string{fmt.Sprintf("size=%d", size), "wait_while_others_submit"}})
			cases = append(cases, coqCase{id: id, scen: fmt.Sprint(id), obs: o.Coq()})
			st.count("wait_while_others_submit")
			st.DistinctNontrivial++
			id++
		}
	}
	st.Evaluations = len(cases)
	st.Scope = "pool sizes -1..16 x 1, 2, 4 submitting goroutines x 1..3 Submit/Wait rounds x up to 500 tasks with random durations, built with the race detector; per-task execution counters, plain writes read after Wait, running-task gauge, worker goroutines after Close; plus Wait called while a task is held in flight and a second goroutine submits and completes further tasks (Wait must not return before the held task is let go)"
	st.Rule = "seeded stress runs; non-trivial when there are more tasks than the queue holds"
	n, err := writeShards(out, prop, "Pool PoolCorr", "xscen", "pstress", "spec_C12_stress", "spec_C12_stress", cases, nil)
	if err != nil {
		return err
	}
	st.Shards = n
	_ = sort.Ints
	if err := writeJSONL(filepath.Join(out, "cases.jsonl"), jl); err != nil {
		return err
	}
	return writeStats(out, st)
}
