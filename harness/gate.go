package main

// Gated execution of concurrent batches: every exec call parks on its own gate; a controller
// waits until the whole process is quiescent (every goroutine parked at a known point), notes
// the set of calls in flight as a pseudo-event of the trace, and releases one of them.

import (
	"bytes"
	"runtime"
	"sort"
	"strings"
	"sync"
	"sync/atomic"
	"time"
)

type parkedCall struct {
	node, idx, att int
	ch             chan struct{}
}

func (p *parkedCall) code() int { return 16*p.idx + p.att }

type gateCtl struct {
	mu      sync.Mutex
	parked  []*parkedCall
	rel     []int
	rt      *scriptRT
	onPark  func(node int, codes []int) // how a quiescent point is logged (default: into rt.trace)
	onIdle  func() bool                 // quiescent with nothing parked: may wake a scenario-level waiter
	quit    chan struct{}
	stopped chan struct{}
	points  int
	polls   int
	// scenarios may ask the controller to sit on one quiescent point for a while before it
	// releases anything (a pool whose queue stays full for that long must simply stay blocked)
	holdAt  int
	holdFor time.Duration
	held    bool
}

func newGateCtl(rt *scriptRT, rel []int) *gateCtl {
	return &gateCtl{rt: rt, rel: rel, quit: make(chan struct{}), stopped: make(chan struct{})}
}

// park blocks the calling exec callback until the controller releases it.
func (g *gateCtl) park(node, idx, att int) {
	p := &parkedCall{node: node, idx: idx, att: att, ch: make(chan struct{})}
	g.mu.Lock()
	g.parked = append(g.parked, p)
	g.mu.Unlock()
	gateWait(p.ch)
}

//go:noinline
func gateWait(ch chan struct{}) { <-ch }

func (g *gateCtl) stop() {
	close(g.quit)
	<-g.stopped
	// let anything still parked go (a run that timed out)
	g.mu.Lock()
	for _, p := range g.parked {
		close(p.ch)
	}
	g.parked = nil
	g.mu.Unlock()
}

func (g *gateCtl) snapshot() []int {
	g.mu.Lock()
	defer g.mu.Unlock()
	cs := make([]int, len(g.parked))
	for i, p := range g.parked {
		cs[i] = p.code()
	}
	sort.Ints(cs)
	return cs
}

func sameInts(a, b []int) bool {
	if len(a) != len(b) {
		return false
	}
	for i := range a {
		if a[i] != b[i] {
			return false
		}
	}
	return true
}

func (g *gateCtl) loop() {
	defer close(g.stopped)
	buf := make([]byte, 1<<20)
	for {
		select {
		case <-g.quit:
			return
		default:
		}
		g.polls++
		if atomic.LoadInt32(&gateHold) > 0 {
			// a scripted interruption of a wait is on its way: not a quiescent point yet
			time.Sleep(200 * time.Microsecond)
			continue
		}
		a := g.snapshot()
		if len(a) == 0 {
			if g.onIdle != nil {
				if strict, _ := quiescent(buf); strict {
					if strict2, _ := quiescent(buf); strict2 && len(g.snapshot()) == 0 && g.onIdle() {
						continue
					}
				}
			}
			time.Sleep(20 * time.Microsecond)
			continue
		}
		strict, sig1 := quiescent(buf)
		if strict {
			// a second look: still quiescent with the same calls in flight
			b := g.snapshot()
			if strict2, _ := quiescent(buf); strict2 && sameInts(a, b) && atomic.LoadInt32(&gateHold) == 0 {
				if g.holdFor > 0 && !g.held && g.points == g.holdAt {
					g.held = true
					time.Sleep(g.holdFor)
					continue // look again: nothing may have moved
				}
				g.release(b)
			}
			continue
		}
		if sig1 == "" {
			time.Sleep(20 * time.Microsecond)
			continue
		}
		// every goroutine is blocked, but somewhere this harness does not know (the code under
		// test waits differently from the pinned version): accept the point if nothing at all
		// moves for 25 ms
		time.Sleep(stabilityWindow)
		b := g.snapshot()
		if _, sig2 := quiescent(buf); sig2 == sig1 && sameInts(a, b) && atomic.LoadInt32(&gateHold) == 0 {
			if g.holdFor > 0 && !g.held && g.points == g.holdAt {
				g.held = true
				time.Sleep(g.holdFor)
				continue
			}
			forcedReleases++
			g.release(b)
		}
	}
}

// release notes the quiescent point and lets the chosen call return.
func (g *gateCtl) release(codes []int) {
	g.mu.Lock()
	var pick *parkedCall
	for _, want := range g.rel {
		for _, p := range g.parked {
			if p.code() == want {
				pick = p
				break
			}
		}
		if pick != nil {
			break
		}
	}
	if pick == nil {
		for _, p := range g.parked {
			if pick == nil || p.code() < pick.code() {
				pick = p
			}
		}
	}
	rest := g.parked[:0]
	for _, p := range g.parked {
		if p != pick {
			rest = append(rest, p)
		}
	}
	g.parked = rest
	g.points++
	g.mu.Unlock()
	if g.onPark != nil {
		g.onPark(pick.node, codes)
	} else {
		g.rt.mu.Lock()
		g.rt.trace = append(g.rt.trace, Event{Call: Call{K: "park", N: pick.node, Codes: codes}, Resp: rOk(vNil())})
		g.rt.mu.Unlock()
	}
	close(pick.ch)
}

var forcedReleases int

// how long nothing at all must move before an all-blocked state the harness does not know is taken
// for a quiescent point
const stabilityWindow = 100 * time.Millisecond

// gateHold > 0: the harness itself is about to act on the system (cancel the context)
var gateHold int32

// quiescent: every goroutine other than the caller is parked at a point from which only the
// controller (or the end of the run) can wake it, recognised by wait state AND frame.  The
// second result is a signature of all goroutines when every one of them is at least blocked
// (on a channel, a select or a semaphore) - "" if one is running, runnable or sleeping.
func quiescent(buf []byte) (bool, string) {
	n := runtime.Stack(buf, true)
	blocks := bytes.Split(buf[:n], []byte("\n\n"))
	strict := true
	var sig strings.Builder
	for i, blk := range blocks {
		if i == 0 {
			continue // the controller itself
		}
		s := string(blk)
		nl := strings.IndexByte(s, '\n')
		if nl < 0 {
			continue
		}
		head, body := s[:nl], s[nl:]
		lb := strings.IndexByte(head, '[')
		rb := strings.LastIndexByte(head, ']')
		if lb < 0 || rb < lb {
			return false, ""
		}
		state := head[lb+1 : rb]
		if c := strings.IndexByte(state, ','); c >= 0 {
			state = state[:c]
		}
		ok := false
		switch state {
		case "chan receive":
			ok = strings.Contains(body, "main.gateWait(") || strings.Contains(body, "main.(*gateCtl).stop(") || strings.Contains(body, "main.runPoolGated(")
		case "select":
			// the innermost frame decides: a select further up the stack of a worker (the retry wait
			// of an item) is not a parking place
			top := topFrame(body)
			ok = strings.HasPrefix(top, "github.com/mark3labs/flyt.(*WorkerPool).worker(") || strings.HasPrefix(top, "main.runEngine(") ||
				strings.HasPrefix(top, "main.runPoolGated(") || strings.HasPrefix(top, "main.observeConfig(")
		case "chan send":
			ok = strings.Contains(body, "flyt.(*WorkerPool).Submit(")
		case "semacquire", "sync.WaitGroup.Wait":
			ok = strings.Contains(body, "sync.(*WaitGroup).Wait(") && strings.Contains(body, "flyt.(*WorkerPool).Wait(")
		}
		switch state {
		case "chan receive", "chan send", "select", "semacquire", "sync.WaitGroup.Wait", "sync.Mutex.Lock", "sync.Cond.Wait", "chan receive (nil chan)":
			sig.WriteString(head[:lb])
			sig.WriteString(state)
			sig.WriteByte(';')
		default:
			return false, ""
		}
		if !ok {
			strict = false
		}
	}
	return strict, sig.String()
}

// topFrame: the first function line of a goroutine's stack
func topFrame(body string) string {
	for _, ln := range strings.Split(body, "\n") {
		ln = strings.TrimSpace(ln)
		if ln != "" {
			return ln
		}
	}
	return ""
}
