package main

// Generators of the engine family: C01 (lifecycle), C02 (retry budget), C04 (fault injection
// on every callback of the fault-free path), C05 (cancellation from inside every callback),
// C03/C10 (routing, nesting).

import (
	"encoding/json"
	"fmt"
)

func cloneScen(s EScen) EScen {
	b, _ := json.Marshal(s)
	var c EScen
	json.Unmarshal(b, &c)
	if c.Script == nil {
		c.Script = []SEntry{}
	}
	return c
}

// lifecycleScript installs the script of one user node: prep ok/err, exec failing k-1 times
// then succeeding (k = 0: never), fallback ok/err, post action or error.
type lcPlan struct {
	prepErr bool
	k       int // first succeeding attempt (1-based); 0 = never
	extra   int // number of failing responses when k == 0
	fbOK    bool
	postAct int  // >= 0 action, -1 error
	pay     int  // payload kind of the values prep / exec / fallback return (see payload)
	sameErr bool // every failing attempt returns the SAME error value
	execPay int  // > 0: payload kind of what exec / the fallback return, when it differs from prep's (pay)
}

// payload kinds: 0 opaque token, 1 nil, 2 a non-error Result holding a token, 3 a Result
// holding a Result, 4 typed nil pointer, 5 typed nil map, 6 slice of tokens, 7 int, 8 error Result,
// 9 a data value of a type that implements error, 10 / 11 a map[string]any / []any with an identity
// of its own (a copy of it is something else)
const nPayloads = 12

func (b *sb) payload(kind int) Val {
	switch kind {
	case 1:
		return vNil()
	case 2:
		return vRes(b.tok())
	case 3:
		return vRes(vRes(b.tok()))
	case 4:
		return vOther("nilptr")
	case 5:
		return vOther("nilmap")
	case 6:
		return vSl(false, "toks", []Val{b.tok(), b.tok()})
	case 7:
		t := b.tok()
		t.Shape = "int"
		return t
	case 8:
		return vErrRes(b.errID())
	case 9:
		return vOther("errval")
	case 10, 11:
		t := b.tok()
		if (t.N%2 == 0) != (kind == 10) {
			t = b.tok() // even ids are maps, odd ids slices
		}
		t.Shape = "cont"
		return t
	}
	return b.tok()
}

func (p lcPlan) xpay() int {
	if p.execPay > 0 {
		return p.execPay
	}
	return p.pay
}

func (b *sb) lifecycle(x int, d NodeDef, p lcPlan) {
	if d.Prep != "absent" {
		if p.prepErr {
			b.script(x, "prep", 0, []Resp{rErr(b.errID())}, rErr(b.errID()))
		} else {
			// (an error Result as prep value, payload 8, is a value like any other: with a nil error
			// the run goes on; a Result-style node passes on its Value(), which is nil)
			b.script(x, "prep", 0, []Resp{rOk(b.payload(p.pay))}, rOk(b.tok()))
		}
	}
	if d.Exec != "absent" {
		var rs []Resp
		if p.sameErr {
			// one error value for all failing attempts
			e := b.errID()
			n := p.extra
			if p.k > 0 {
				n = p.k - 1
			}
			for i := 0; i < n; i++ {
				rs = append(rs, rErr(e))
			}
			if p.k > 0 {
				rs = append(rs, rOk(b.payload(p.xpay())))
				b.script(x, "exec", 0, rs, rOk(b.tok()))
			} else {
				b.script(x, "exec", 0, rs, rErr(e))
			}
		} else if p.k > 0 {
			for i := 1; i < p.k; i++ {
				rs = append(rs, rErr(b.errID()))
			}
			rs = append(rs, rOk(b.payload(p.xpay())))
			b.script(x, "exec", 0, rs, rOk(b.tok()))
		} else {
			for i := 0; i < p.extra; i++ {
				rs = append(rs, rErr(b.errID()))
			}
			b.script(x, "exec", 0, rs, rErr(b.errID()))
		}
	}
	if d.Fb == "user" {
		if p.fbOK {
			b.script(x, "fb", 0, []Resp{rOk(b.payload(p.xpay()))}, rOk(b.tok()))
		} else {
			b.script(x, "fb", 0, []Resp{rErr(b.errID())}, rErr(b.errID()))
		}
	}
	if d.Post != "absent" {
		if p.postAct >= 0 {
			b.script(x, "post", 0, []Resp{rAct(p.postAct)}, rAct(p.postAct))
		} else {
			b.script(x, "post", 0, []Resp{rErr(b.errID())}, rErr(b.errID()))
		}
	}
}

func (b *sb) marker() int {
	id := b.add(NodeDef{Kind: "user", Impl: "k2", Fb: "none", Prep: "direct", Exec: "direct", Post: "direct"})
	b.script(id, "prep", 0, []Resp{rOk(b.tok())}, rOk(vNil()))
	b.script(id, "post", 0, []Resp{rAct(7)}, rAct(7))
	return id
}

func hasRetry(d NodeDef) bool { return d.Retry != nil }

// ---------------------------------------------------------------- C01

func genC01(r *rng, tier string, st *stats) []taggedScen {
	var out []taggedScen
	maxN := 3
	if tier == "thorough" {
		maxN = 6
	}
	posts := []int{5, 1, 0, -1}
	for N := 1; N <= maxN; N++ {
		for _, k := range userKinds(N, 0, tier == "thorough") {
			if !hasRetry(k) && N > 1 {
				continue
			}
			budget := 1
			if hasRetry(k) {
				budget = N
			}
			var plans []lcPlan
			plans = append(plans, lcPlan{prepErr: true, k: 1, postAct: 5})
			for kk := 1; kk <= budget; kk++ {
				for _, pa := range posts {
					plans = append(plans, lcPlan{k: kk, postAct: pa})
				}
			}
			if k.Fb == "user" {
				for _, pa := range posts {
					plans = append(plans, lcPlan{k: 0, extra: budget + 1, fbOK: true, postAct: pa})
				}
				plans = append(plans, lcPlan{k: 0, extra: budget + 1, fbOK: false, postAct: 5})
			} else {
				plans = append(plans, lcPlan{k: 0, extra: budget + 1, postAct: 5})
			}
			// payload kinds on the success path and on the fallback path
			for pay := 1; pay < nPayloads; pay++ {
				plans = append(plans, lcPlan{k: 1, postAct: 5, pay: pay})
				if k.Fb == "user" {
					plans = append(plans, lcPlan{k: 0, extra: budget + 1, fbOK: true, postAct: 5, pay: pay})
				}
			}
			for _, p := range plans {
				if k.Exec == "absent" && (p.k != 1) {
					continue
				}
				if k.Prep == "absent" && p.prepErr {
					continue
				}
				if k.Post == "absent" && p.postAct != 5 {
					continue
				}
				for _, inFlow := range []bool{false, true} {
					b := newSB()
					x := b.add(k)
					b.lifecycle(x, k, p)
					tags := []string{"kind=" + k.Impl, fmt.Sprintf("N=%d", budget), fmt.Sprintf("first_ok=%d", p.k), fmt.Sprintf("payload=%d", p.pay)}
					if p.prepErr {
						tags = append(tags, "prep_err")
					}
					if inFlow {
						y := b.marker()
						z := b.marker()
						b.sc.Root = b.flow(x, [][]int{{x, 1, y}, {x, 5, z}})
						tags = append(tags, "in_flow")
					} else {
						b.sc.Root = x
					}
					out = append(out, taggedScen{sc: b.sc, tags: tags, nontrivial: p.k != 1 || p.prepErr || p.postAct != 5})
				}
			}
		}
	}
	// budgets below one: still one attempt
	for _, N := range []int{0, -1} {
		for _, k := range userKinds(N, 0, false) {
			if !hasRetry(k) || k.Exec == "absent" {
				continue
			}
			for _, pl := range []lcPlan{{k: 1, postAct: 5}, {k: 0, extra: 2, fbOK: true, postAct: 1}, {k: 0, extra: 2, fbOK: false, postAct: 5}} {
				b := newSB()
				x := b.add(k)
				b.lifecycle(x, k, pl)
				b.sc.Root = x
				out = append(out, taggedScen{sc: b.sc, tags: []string{"kind=" + k.Impl, fmt.Sprintf("N=%d", N), "budget_below_one"}, nontrivial: true})
			}
		}
	}
	if tier == "thorough" {
		for i := 0; i < 4000; i++ {
			out = append(out, randFlowScen(r, 3, "C01", false))
		}
	}
	out = append(out, commonPool(r, tier, "C01")...)
	st.Exhaustive = true
	st.Scope = fmt.Sprintf("all node kinds x N in 1..%d x prep {ok,err} x first success at attempt 1..N or never x fallback {none,default,user ok,user err} x post {custom,default,empty,err}; alone and as first step of a flow", maxN)
	st.Rule = "enumeration; non-trivial when a retry, a prep error, a fallback or a non-custom post result is involved; distinct by scenario hash"
	return out
}

// ---------------------------------------------------------------- C02

func genC02(r *rng, tier string, st *stats) []taggedScen {
	var out []taggedScen
	maxN := 5
	if tier == "thorough" {
		maxN = 8
	}
	type kd struct {
		d   NodeDef
		fbs []string // "-" not applicable, "ok", "err"
	}
	for N := -1; N <= maxN; N++ {
		kinds := []kd{
			{NodeDef{Kind: "user", Impl: "k1", Retry: retry(N, 0), Fb: "default", Prep: "direct", Exec: "direct", Post: "direct"}, []string{"-"}},
			{NodeDef{Kind: "user", Impl: "k1fb", Retry: retry(N, 0), Fb: "user", Prep: "direct", Exec: "direct", Post: "direct"}, []string{"ok", "err", "nil"}},
			{NodeDef{Kind: "user", Impl: "k3", Retry: retry(N, 0), Fb: "none", Prep: "direct", Exec: "direct", Post: "direct"}, []string{"-"}},
			{NodeDef{Kind: "user", Impl: "opt", Retry: retry(N, 0), Fb: "default", Prep: "res", Exec: "res", Post: "res"}, []string{"-"}},
			{NodeDef{Kind: "user", Impl: "bld", Retry: retry(N, 0), Fb: "user", Prep: "any", Exec: "any", Post: "any"}, []string{"ok", "err"}},
			{NodeDef{Kind: "user", Impl: "mix", Retry: retry(N, 0), Fb: "user", Prep: "res", Exec: "any", Post: "res"}, []string{"ok"}},
		}
		if N == 1 {
			kinds = append(kinds,
				kd{NodeDef{Kind: "user", Impl: "k2", Fb: "none", Prep: "direct", Exec: "direct", Post: "direct"}, []string{"-"}},
				kd{NodeDef{Kind: "user", Impl: "k4", Fb: "user", Prep: "direct", Exec: "direct", Post: "direct"}, []string{"ok", "err", "nil"}})
		}
		for _, k := range kinds {
			// every outcome vector in {ok,fail}^(N+1); the node without retry settings gets vectors
			// of length 3 so that a second attempt would be seen
			L := N + 1
			if N < 1 {
				L = 2 // a budget below one means one attempt
			}
			if !hasRetry(k.d) {
				L = 3
			}
			for vec := 0; vec < 1<<L; vec++ {
				for _, fb := range k.fbs {
					b := newSB()
					x := b.add(k.d)
					b.script(x, "prep", 0, []Resp{rOk(b.tok())}, rOk(b.tok()))
					var rs []Resp
					firstOK := 0
					// every third vector: all failing attempts return one and the same error value
					same := 0
					if vec%3 == 1 {
						same = b.errID()
					}
					for i := 0; i < L; i++ {
						if vec&(1<<i) != 0 {
							rs = append(rs, rOk(b.tok()))
							if firstOK == 0 {
								firstOK = i + 1
							}
						} else if same != 0 {
							rs = append(rs, rErr(same))
						} else {
							rs = append(rs, rErr(b.errID()))
						}
					}
					b.script(x, "exec", 0, rs, rErr(b.errID()))
					if k.d.Fb == "user" {
						if fb == "ok" {
							b.script(x, "fb", 0, []Resp{rOk(b.tok())}, rOk(b.tok()))
						} else if fb == "nil" {
							// the fallback swallows the error and returns (nil, nil)
							b.script(x, "fb", 0, []Resp{rOk(vNil())}, rOk(vNil()))
						} else {
							b.script(x, "fb", 0, []Resp{rErr(b.errID())}, rErr(b.errID()))
						}
					}
					b.script(x, "post", 0, []Resp{rAct(5)}, rAct(5))
					b.sc.Root = x
					tags := []string{"kind=" + k.d.Impl, fmt.Sprintf("N=%d", N), fmt.Sprintf("first_ok=%d", firstOK), "fb=" + k.d.Fb + "/" + fb}
					out = append(out, taggedScen{sc: b.sc, tags: tags, nontrivial: firstOK != 1})
				}
			}
		}
	}
	out = append(out, commonPool(r, tier, "C02")...)
	st.Exhaustive = true
	st.Scope = fmt.Sprintf("N in 1..%d x every exec outcome vector in {ok,fail}^(N+1) x fallback {none,default,user ok,user err} x 8 node kinds (struct, retry-only, fallback-only, function style in 3 mixes)", maxN)
	st.Rule = "enumeration; non-trivial when the first attempt does not succeed; distinct by scenario hash"
	return out
}

// ---------------------------------------------------------------- random nested flows

var flowActs = []int{1, 2, 5, 6, 55} // 2 is spelled "error", 6 "cancel" (actName)

// fullKinds: node kinds whose three phases are user-visible (the lifecycle monitor applies)
func fullKind(r *rng, N int) NodeDef {
	styles := []string{"res", "any"}
	switch r.intn(8) {
	case 0:
		return NodeDef{Kind: "user", Impl: "k1", Retry: retry(N, 0), Fb: "default", Prep: "direct", Exec: "direct", Post: "direct"}
	case 1:
		return NodeDef{Kind: "user", Impl: "k1fb", Retry: retry(N, 0), Fb: "user", Prep: "direct", Exec: "direct", Post: "direct"}
	case 2:
		return NodeDef{Kind: "user", Impl: "k2", Fb: "none", Prep: "direct", Exec: "direct", Post: "direct"}
	case 3:
		return NodeDef{Kind: "user", Impl: "k3", Retry: retry(N, 0), Fb: "none", Prep: "direct", Exec: "direct", Post: "direct"}
	case 4:
		return NodeDef{Kind: "user", Impl: "k4", Fb: "user", Prep: "direct", Exec: "direct", Post: "direct"}
	default:
		fb := "default"
		if r.chance(40) {
			fb = "user"
		}
		return NodeDef{Kind: "user", Impl: pick(r, []string{"opt", "bld", "mix"}), Retry: retry(N, 0), Fb: fb,
			Prep: pick(r, styles), Exec: pick(r, styles), Post: pick(r, styles)}
	}
}

func partialKind(r *rng, N int) NodeDef {
	switch r.intn(4) {
	case 0:
		return NodeDef{Kind: "user", Impl: "k1exec", Retry: retry(N, 0), Fb: "default", Prep: "absent", Exec: "direct", Post: "absent"}
	case 1:
		return NodeDef{Kind: "user", Impl: "k1none", Retry: retry(N, 0), Fb: "default", Prep: "absent", Exec: "absent", Post: "absent"}
	default:
		styles := []string{"res", "any", "absent"}
		return NodeDef{Kind: "user", Impl: pick(r, []string{"opt", "bld", "mix"}), Retry: retry(N, 0), Fb: "default",
			Prep: pick(r, styles), Exec: pick(r, styles), Post: pick(r, styles)}
	}
}

// randFlowScen builds a random hierarchy of flows. onlyFull: only full user nodes (so that
// the lifecycle monitor and the path walker apply); otherwise partial nodes and sequential
// batch nodes are mixed in.
func randFlowScen(r *rng, maxDepth int, tag string, onlyFull bool) taggedScen {
	b := newSB()
	depthSeen := 0
	var reusable []int      // inner flows that may be reused at several places
	risky := map[int]bool{} // nodes that may return the default action for ever (no post script)
	var genFlow func(depth int) int
	genLeaf := func() int {
		N := 1 + r.intn(3)
		var d NodeDef
		switch {
		case onlyFull || r.chance(70):
			d = fullKind(r, N)
		case r.chance(50):
			d = partialKind(r, N)
		default:
			// sequential batch node with 0..3 items
			d = NodeDef{Kind: "batch", Impl: pick(r, []string{"opt", "bld", "mix"}), Retry: retry(N, 0), Fb: "default",
				Prep: "batch", Exec: pick(r, []string{"res", "any"}), Post: "batch", Stop: r.chance(30)}
			x := b.add(d)
			n := r.intn(4)
			l := []Val{}
			for i := 0; i < n; i++ {
				l = append(l, vRes(b.tok()))
			}
			b.script(x, "prep", 0, []Resp{rOk(vSl(true, "", l))}, rOk(vSl(true, "", l)))
			b.script(x, "exec", 0, []Resp{}, rOk(b.tok()))
			var ps []Resp
			for i := 0; i < 1+r.intn(2); i++ {
				ps = append(ps, rAct(pick(r, flowActs)))
			}
			b.script(x, "post", 0, ps, rAct(99))
			return x
		}
		x := b.add(d)
		if d.Post == "absent" {
			risky[x] = true
		}
		if d.Prep != "absent" {
			b.script(x, "prep", 0, []Resp{}, rOk(b.tok()))
		}
		if d.Exec != "absent" {
			var rs []Resp
			budget := 1
			if d.Retry != nil {
				budget = d.Retry[0]
			}
			// sometimes fail a few attempts first
			if r.chance(25) {
				f := r.intn(budget + 1)
				for i := 0; i < f; i++ {
					rs = append(rs, rErr(b.errID()))
				}
			}
			b.script(x, "exec", 0, rs, rOk(b.tok()))
		}
		if d.Fb == "user" {
			b.script(x, "fb", 0, []Resp{}, rOk(b.tok()))
		}
		if d.Post != "absent" {
			var ps []Resp
			for i := 0; i < 1+r.intn(3); i++ {
				a := pick(r, flowActs)
				if r.chance(10) {
					a = 0
				}
				ps = append(ps, rAct(a))
			}
			b.script(x, "post", 0, ps, rAct(99))
		}
		return x
	}
	genFlow = func(depth int) int {
		if depth > depthSeen {
			depthSeen = depth
		}
		m := 1 + r.intn(4)
		var members []int
		for i := 0; i < m; i++ {
			switch {
			case depth < maxDepth && r.chance(30):
				members = append(members, genFlow(depth+1))
			case len(reusable) > 0 && r.chance(15):
				members = append(members, pick(r, reusable))
			default:
				members = append(members, genLeaf())
			}
		}
		var conns [][]int
		nconn := r.intn(2*m + 2)
		for i := 0; i < nconn; i++ {
			from := pick(r, members)
			a := pick(r, flowActs)
			to := pick(r, members)
			if r.chance(10) {
				to = -1
			}
			if risky[from] && a == 1 {
				continue
			}
			conns = append(conns, []int{from, a, to})
		}
		// a chain on the default action so that paths are usually longer than one node
		for i := 0; i+1 < len(members); i++ {
			if a := pick(r, flowActs); r.chance(70) && !(risky[members[i]] && a == 1) {
				conns = append(conns, []int{members[i], a, members[i+1]})
			}
		}
		start := members[0]
		if r.chance(3) {
			start = -1
		}
		f := b.flow(start, conns)
		for _, m := range members {
			if risky[m] {
				risky[f] = true
			}
		}
		if depth > 0 && r.chance(50) {
			reusable = append(reusable, f)
		}
		return f
	}
	root := genFlow(0)
	b.sc.Root = root
	if r.chance(20) {
		b.sc.Runs = 2 + r.intn(2)
	}
	tags := []string{"family=" + tag, fmt.Sprintf("depth=%d", depthSeen), fmt.Sprintf("nodes=%d", bucket(len(b.sc.Nodes)))}
	if b.sc.Runs > 1 {
		tags = append(tags, "repeated_runs")
	}
	return taggedScen{sc: b.sc, tags: tags, nontrivial: len(b.sc.Nodes) > 2}
}

// occurrence finds, for event i of a trace, the script entry and index that produced it.
func occurrence(sc EScen, trace []Event, i int) (entry int, occ int) {
	ph := map[string]string{"prep": "prep", "exec": "exec", "fb": "fb", "post": "post", "bpost": "post"}[trace[i].Call.K]
	item := func(e Event) int {
		if e.Call.Arg != nil && (e.Call.K == "exec" || e.Call.K == "fb") {
			return itemKey(*e.Call.Arg)
		}
		return 0
	}
	entry = -1
	for j, e := range sc.Script {
		if keyMatches(e, trace[i].Call.N, ph, item(trace[i])) {
			entry = j
			break
		}
	}
	if entry < 0 {
		return -1, 0
	}
	for j := 0; j < i; j++ {
		p2 := map[string]string{"prep": "prep", "exec": "exec", "fb": "fb", "post": "post", "bpost": "post"}[trace[j].Call.K]
		if keyMatches(sc.Script[entry], trace[j].Call.N, p2, item(trace[j])) {
			occ++
		}
	}
	return entry, occ
}

// withResponse returns a copy of sc in which the occ-th response of entry is replaced by f(old).
func withResponse(sc EScen, entry, occ int, f func(Resp) Resp) EScen {
	c := cloneScen(sc)
	e := &c.Script[entry]
	for len(e.Rs) <= occ {
		e.Rs = append(e.Rs, e.Dflt)
	}
	e.Rs[occ] = f(e.Rs[occ])
	return c
}

// ---------------------------------------------------------------- C04 / C05

// injectAll: for a base scenario, run it fault-free, then derive one scenario per callback on
// the executed path with mut applied to that callback's response.
func injectAll(base taggedScen, mut func(Resp, *sb) Resp, what string, maxPer int, r *rng) []taggedScen {
	obs := runEngine(base.sc)
	var out []taggedScen
	if len(obs.Runs) == 0 {
		return out
	}
	var all []Event
	for _, run := range obs.Runs {
		all = append(all, run.Trace...)
	}
	idx := make([]int, len(all))
	for i := range idx {
		idx[i] = i
	}
	if maxPer > 0 && len(idx) > maxPer {
		// sample positions, keep order
		for i := len(idx) - 1; i > 0; i-- {
			j := r.intn(i + 1)
			idx[i], idx[j] = idx[j], idx[i]
		}
		idx = idx[:maxPer]
	}
	for _, i := range idx {
		entry, occ := occurrence(base.sc, all, i)
		if entry < 0 {
			continue
		}
		helper := &sb{nextErr: 500 + i, nextTok: 900}
		sc := withResponse(base.sc, entry, occ, func(old Resp) Resp { return mut(old, helper) })
		sc.Note = fmt.Sprintf("%s at callback %d (%s of node %d)", what, i, all[i].Call.K, all[i].Call.N)
		tags := append(append([]string{}, base.tags...), what+"@"+all[i].Call.K)
		out = append(out, taggedScen{sc: sc, tags: tags, nontrivial: true})
	}
	return out
}

func genC04(r *rng, tier string, st *stats) []taggedScen {
	var out []taggedScen
	nflows := 60
	if tier == "thorough" {
		nflows = 1200
	}
	inj := func(old Resp, h *sb) Resp { return rErr(h.errID()) }
	for i := 0; i < nflows; i++ {
		base := randFlowScen(r, 3, "C04", i%4 != 0)
		base.sc.Runs = 1
		out = append(out, base)
		out = append(out, injectAll(base, inj, "fail", 40, r)...)
	}
	// single nodes of every kind, failure at every phase
	for _, k := range userKinds(2, 0, false) {
		b := newSB()
		x := b.add(k)
		b.lifecycle(x, k, lcPlan{k: 1, postAct: 5})
		b.sc.Root = x
		base := taggedScen{sc: b.sc, tags: []string{"kind=" + k.Impl, "single"}}
		out = append(out, injectAll(base, inj, "fail", 0, r)...)
	}
	out = append(out, commonPool(r, tier, "C04")...)
	st.Scope = fmt.Sprintf("%d random flows (depth <= 3, nested, cyclic, with batch and partial nodes) + every node kind alone; one failure injected at every callback of the fault-free path", nflows)
	st.Rule = "fault-free run first, then one scenario per callback position with that callback returning a user error (8 flavours by position: plain, %w-wrapped, custom type, wrapping context.DeadlineExceeded, wrapping context.Canceled, non-comparable slice-backed, errors.Join, outer type with a foreign cause); all injected scenarios are non-trivial; distinct by scenario hash"
	st.Extra["nontrivial_floor"] = nflows
	return out
}

func genC05(r *rng, tier string, st *stats) []taggedScen {
	var out []taggedScen
	nflows := 50
	if tier == "thorough" {
		nflows = 1000
	}
	inj := func(old Resp, h *sb) Resp { old.Cancel = true; return old }
	for i := 0; i < nflows; i++ {
		base := randFlowScen(r, 3, "C05", i%4 != 0)
		base.sc.Deadline = i%3 == 0
		out = append(out, injectAll(base, inj, "cancel", 40, r)...)
		pre := cloneScen(base.sc)
		pre.PreCancel = true
		out = append(out, taggedScen{sc: pre, tags: append(append([]string{}, base.tags...), "precancel"), nontrivial: true})
	}
	// single nodes: cancel inside each attempt (failing and succeeding), fallback, post
	for N := 1; N <= 3; N++ {
		for _, k := range userKinds(N, 0, false) {
			for _, plan := range []lcPlan{{k: 1, postAct: 5}, {k: N, postAct: 5}, {k: 0, extra: N + 1, fbOK: true, postAct: 5}} {
				if !hasRetry(k) && N > 1 {
					continue
				}
				if k.Exec == "absent" && plan.k != 1 {
					continue
				}
				b := newSB()
				x := b.add(k)
				b.lifecycle(x, k, plan)
				b.sc.Root = x
				b.sc.Deadline = N == 2
				base := taggedScen{sc: b.sc, tags: []string{"kind=" + k.Impl, "single", fmt.Sprintf("N=%d", N)}}
				out = append(out, injectAll(base, inj, "cancel", 0, r)...)
				pre := cloneScen(b.sc)
				pre.PreCancel = true
				out = append(out, taggedScen{sc: pre, tags: []string{"kind=" + k.Impl, "single", "precancel"}, nontrivial: true})
			}
		}
	}
	out = append(out, commonPool(r, tier, "C05")...)
	st.Scope = fmt.Sprintf("%d random flows + every node kind alone (N in 1..3, first/last/no attempt succeeding); cancellation before the run and from inside every callback of the fault-free path; cancel and deadline contexts", nflows)
	st.Rule = "fault-free run first, then one scenario per callback position with that callback cancelling the context; all are non-trivial; distinct by scenario hash"
	st.Extra["nontrivial_floor"] = nflows
	return out
}

// ---------------------------------------------------------------- the common pool

// commonPool: scenarios every engine-family check runs besides its own enumeration, so that a
// change which needs two dimensions at once (a payload kind on the fallback path, a cancel
// inside a succeeding attempt, an empty action after a recovered failure ...) meets each
// property's predicate.  Every spec_Cxx is proved of the model for every scenario, so sharing
// scenarios between properties cannot raise a false alarm.
func commonPool(r *rng, tier, tag string) []taggedScen {
	var out []taggedScen
	nsingle, nflows := 1, 25
	if tier == "thorough" {
		nsingle, nflows = 3, 300
	}
	posts := []int{5, 1, 0, -1}
	for rep := 0; rep < nsingle; rep++ {
		for N := 1; N <= 3; N++ {
			for _, k := range userKinds(N, 0, false) {
				if !hasRetry(k) && N > 1 {
					continue
				}
				budget := 1
				if hasRetry(k) {
					budget = N
				}
				// one random plan per kind and budget
				p := lcPlan{k: 1 + r.intn(budget), postAct: pick(r, posts), pay: r.intn(nPayloads)}
				if r.chance(35) {
					p.k, p.extra, p.fbOK = 0, budget+1, r.chance(70)
				}
				if k.Exec == "absent" {
					p.k = 1
				}
				if k.Post == "absent" {
					p.postAct = 5
				}
				b := newSB()
				x := b.add(k)
				b.lifecycle(x, k, p)
				b.sc.Root = x
				if r.chance(40) {
					y := b.marker()
					z := b.marker()
					b.sc.Root = b.flow(x, [][]int{{x, 1, y}, {x, 5, z}})
				}
				base := taggedScen{sc: b.sc, tags: []string{"pool", "kind=" + k.Impl}, nontrivial: true}
				out = append(out, base)
				// the same scenario with the context cancelled from inside one of its callbacks,
				// and with one of its callbacks failing
				canc := injectAll(base, func(old Resp, h *sb) Resp { old.Cancel = true; return old }, "cancel", 2, r)
				fail := injectAll(base, func(old Resp, h *sb) Resp { return rErr(h.errID()) }, "fail", 2, r)
				out = append(out, canc...)
				out = append(out, fail...)
			}
		}
	}
	out = append(out, batchPool(r, tier)...)
	for i := 0; i < nflows; i++ {
		base := randFlowScen(r, 3, tag, i%3 != 0)
		base.tags = append(base.tags, "pool")
		out = append(out, base)
		out = append(out, injectAll(base, func(old Resp, h *sb) Resp { old.Cancel = true; return old }, "cancel", 3, r)...)
		out = append(out, injectAll(base, func(old Resp, h *sb) Resp { return rErr(h.errID()) }, "fail", 3, r)...)
	}
	return out
}

// ---------------------------------------------------------------- C03 / C10

// leafWithScript adds a visible leaf whose post returns the given cyclic action script and then
// the never-connected action 99 for ever (so every path is finite).
func (b *sb) leafWithScript(kind NodeDef, acts []int) int {
	x := b.add(kind)
	b.script(x, "prep", 0, []Resp{}, rOk(b.tok()))
	b.script(x, "exec", 0, []Resp{}, rOk(b.tok()))
	var ps []Resp
	for _, a := range acts {
		ps = append(ps, rAct(a))
	}
	b.script(x, "post", 0, ps, rAct(99))
	return x
}

var k2kind = NodeDef{Kind: "user", Impl: "k2", Fb: "none", Prep: "direct", Exec: "direct", Post: "direct"}

func genC03(r *rng, tier string, st *stats) []taggedScen {
	var out []taggedScen
	acts := []int{5, 55} // "a5" is a prefix of "a55"
	scripts := [][]int{{5}, {55}, {5, 55}, {55, 5}, {5, 5}, {55, 55}}
	kinds := []NodeDef{k2kind,
		{Kind: "user", Impl: "k1", Retry: retry(1, 0), Fb: "default", Prep: "direct", Exec: "direct", Post: "direct"},
		{Kind: "user", Impl: "opt", Retry: retry(1, 0), Fb: "default", Prep: "res", Exec: "any", Post: "res"}}
	// exhaustive: 2 nodes x 2 actions, every table in {unconnected, nil, n0, n1}^4, every pair of scripts
	targets := []int{-2, -1, 0, 1} // -2 unconnected, -1 nil
	idx := 0
	for t := 0; t < 256; t++ {
		cell := [4]int{targets[t&3], targets[(t>>2)&3], targets[(t>>4)&3], targets[(t>>6)&3]}
		for s0 := range scripts {
			for s1 := range scripts {
				idx++
				if tier != "thorough" && (s0+s1+t)%3 != 0 {
					continue // quick: a third of the script pairs for every table
				}
				b := newSB()
				n0 := b.leafWithScript(kinds[idx%3], scripts[s0])
				n1 := b.leafWithScript(kinds[(idx/3)%3], scripts[s1])
				ns := []int{n0, n1}
				var conns [][]int
				for c := 0; c < 4; c++ {
					from, a := ns[c/2], acts[c%2]
					if cell[c] == -2 {
						continue
					}
					to := -1
					if cell[c] >= 0 {
						to = ns[cell[c]]
					}
					// sometimes connect the pair to the wrong target first, then overwrite
					if (idx+c)%4 == 0 {
						wrong := ns[(c+idx)%2]
						if (idx/4)%2 == 0 {
							wrong = -1
						}
						conns = append(conns, []int{from, a, wrong})
					}
					conns = append(conns, []int{from, a, to})
				}
				if idx%2 == 0 { // a different Connect order
					for i, j := 0, len(conns)-1; i < j; i, j = i+1, j-1 {
						// reversing must not reorder the two calls on one pair
						if !(conns[i][0] == conns[j][0] && conns[i][1] == conns[j][1]) {
							conns[i], conns[j] = conns[j], conns[i]
						}
					}
					// keep "last call on a pair wins" as intended: re-append the final target of every cell
					for c := 0; c < 4; c++ {
						if cell[c] == -2 {
							continue
						}
						to := -1
						if cell[c] >= 0 {
							to = ns[cell[c]]
						}
						conns = append(conns, []int{ns[c/2], acts[c%2], to})
					}
				}
				b.sc.Root = b.flow(n0, conns)
				if idx%5 == 0 {
					b.sc.Runs = 2
				}
				out = append(out, taggedScen{sc: b.sc, tags: []string{"family=exhaustive2x2", fmt.Sprintf("conns=%d", bucket(len(conns)))},
					nontrivial: true})
				// the same table, but part of the Connect calls are made after the flow has already run once
				if idx%7 == 0 && len(conns) >= 2 {
					late := cloneScen(b.sc)
					late.Warmup = 1 + idx%(len(conns)-1)
					late.Runs = 1
					out = append(out, taggedScen{sc: late, tags: []string{"family=exhaustive2x2", "connect_after_first_run"}, nontrivial: true})
				}
			}
		}
	}
	nrand := 300
	if tier == "thorough" {
		nrand = 6000
	}
	for i := 0; i < nrand; i++ {
		sc := randFlowScen(r, 3, "C03", true)
		sc.sc.Runs = 3
		sc.tags = append(sc.tags, "repeated_runs")
		out = append(out, sc)
	}
	out = append(out, nestChains()...)
	out = append(out, commonPool(r, tier, "C03")...)
	st.Exhaustive = true
	st.Scope = "2 nodes x 2 actions (one a prefix of the other) x every table in {unconnected, nil, n0, n1}^4 x per-node cyclic action scripts of length <= 2 (quick: a third of the script pairs) with overwritten and re-ordered Connect lists; random graphs up to 12 nodes, nesting depth 3, run three times; nested chains"
	st.Rule = "enumeration + seeded random graphs; all are non-trivial (at least one routing decision); distinct by scenario hash"
	return out
}

// nestChains: a leaf returning action x inside D nested flows; level j routes (child, x) to a
// marker node, the levels below leave x unconnected or connect it to nil; the other levels have
// an edge on the default action to a decoy.
func nestChains() []taggedScen {
	var out []taggedScen
	for D := 1; D <= 4; D++ {
		for j := 1; j <= D; j++ {
			for mode := 0; mode < 3; mode++ { // how the levels below j end: 0 unconnected, 1 nil, 2 alternating
				for _, x := range []int{5, 1, 0} {
					b := newSB()
					leaf := b.leafWithScript(k2kind, []int{x})
					cur := leaf
					for lvl := 1; lvl <= D; lvl++ {
						var conns [][]int
						decoy := b.marker()
						xr := x
						if xr == 0 {
							xr = 1
						}
						if lvl == j {
							hit := b.marker()
							conns = append(conns, []int{cur, xr, hit})
							if xr != 1 {
								conns = append(conns, []int{cur, 1, decoy})
							}
						} else {
							if lvl < j && (mode == 1 || (mode == 2 && lvl%2 == 0)) {
								conns = append(conns, []int{cur, xr, -1})
							}
							if xr != 1 {
								conns = append(conns, []int{cur, 1, decoy})
							}
						}
						cur = b.flow(cur, conns)
					}
					b.sc.Root = cur
					out = append(out, taggedScen{sc: b.sc, tags: []string{"family=nestchain", fmt.Sprintf("depth=%d", D), fmt.Sprintf("routed_at=%d", j)}, nontrivial: true})
				}
			}
		}
	}
	return out
}

func genC10(r *rng, tier string, st *stats) []taggedScen {
	var out []taggedScen
	out = append(out, nestChains()...)
	n := 500
	if tier == "thorough" {
		n = 8000
	}
	inj := func(old Resp, h *sb) Resp { return rErr(h.errID()) }
	for i := 0; i < n; i++ {
		base := randFlowScen(r, 4, "C10", true)
		out = append(out, base)
		if i%3 == 0 { // inner flows ending by error
			out = append(out, injectAll(base, inj, "fail", 2, r)...)
		}
	}
	out = append(out, commonPool(r, tier, "C10")...)
	st.Scope = fmt.Sprintf("nested chains (depth 1..4 x level that routes the inner action x inner flows ending unconnected / on nil / alternating x action custom, default, empty) + %d random hierarchies up to depth 4 with reused inner flows, cycles, nil edges, failures inside inner flows", n)
	st.Rule = "enumeration of nested chains + seeded random hierarchies; non-trivial when more than 2 nodes; distinct by scenario hash"
	st.Extra["nontrivial_floor"] = n / 2
	return out
}

// ---------------------------------------------------------------- C17

func genC17(r *rng, tier string, st *stats) []taggedScen {
	var out []taggedScen
	styles := []string{"res", "any"}
	impls := []string{"opt", "bld", "mix"}
	N := 2
	for _, sp := range styles {
		for _, se := range styles {
			for _, sq := range styles {
				for ii, impl := range impls {
					for _, fb := range []string{"default", "user"} {
						k := NodeDef{Kind: "user", Impl: impl, Retry: retry(N, 0), Fb: fb, Prep: sp, Exec: se, Post: sq}
						for pay := 0; pay < nPayloads; pay++ {
							plans := []lcPlan{{k: 1, postAct: 5, pay: pay}, {k: 2, postAct: 5, pay: pay}}
							if fb == "user" {
								plans = append(plans, lcPlan{k: 0, extra: 3, fbOK: true, postAct: 5, pay: pay})
							}
							if pay != 1 {
								// prep hands over a value, exec (or the fallback) returns nil: post must see nil, not prep's value
								plans = append(plans, lcPlan{k: 1, postAct: 5, pay: pay, execPay: 1})
								if fb == "user" {
									plans = append(plans, lcPlan{k: 0, extra: 3, fbOK: true, postAct: 5, pay: pay, execPay: 1})
								}
							}
							for pi, p := range plans {
								inFlow := (pay+pi+ii)%2 == 0
								b := newSB()
								x := b.add(k)
								b.lifecycle(x, k, p)
								b.sc.Root = x
								tags := []string{"styles=" + sp + "/" + se + "/" + sq, "impl=" + impl, fmt.Sprintf("payload=%d", pay), fmt.Sprintf("path=%d", pi)}
								if inFlow {
									y := b.marker()
									b.sc.Root = b.flow(x, [][]int{{x, 5, y}})
									tags = append(tags, "in_flow")
								}
								out = append(out, taggedScen{sc: b.sc, tags: tags, nontrivial: true})
							}
						}
					}
				}
			}
		}
	}
	// sequential batches: prep shapes x exec style x what exec returns
	type shape struct {
		name, style string
		mk          func(b *sb, n int) Val
	}
	toks := func(b *sb, n int, sh string) []Val {
		l := []Val{}
		for i := 0; i < n; i++ {
			t := b.tok()
			t.Shape = sh
			l = append(l, t)
		}
		return l
	}
	shapes := []shape{
		{"results", "batch", func(b *sb, n int) Val {
			l := []Val{}
			for i := 0; i < n; i++ {
				l = append(l, vRes(b.tok()))
			}
			return vSl(true, "", l)
		}},
		{"any-slice", "any", func(b *sb, n int) Val { return vSl(false, "any", toks(b, n, "")) }},
		{"tok-slice-in-result", "res", func(b *sb, n int) Val { return vRes(vSl(false, "toks", toks(b, n, ""))) }},
		{"ints", "any", func(b *sb, n int) Val { return vSl(false, "ints", toks(b, n, "int")) }},
		{"strs", "res", func(b *sb, n int) Val { return vSl(false, "strs", toks(b, n, "str")) }},
		{"named-slice", "any", func(b *sb, n int) Val { return vSl(false, "named", toks(b, n, "")) }},
		{"single", "any", func(b *sb, n int) Val { return b.tok() }},
	}
	for _, sh := range shapes {
		for _, se := range styles {
			for pay := 0; pay < nPayloads; pay++ {
				for _, n := range []int{1, 3} {
					for _, impl := range impls {
						b := newSB()
						x := b.add(NodeDef{Kind: "batch", Impl: impl, Retry: retry(2, 0), Fb: "default", Prep: sh.style, Exec: se, Post: "batch"})
						b.script(x, "prep", 0, []Resp{rOk(sh.mk(b, n))}, rOk(vNil()))
						// second item fails once first
						b.script(x, "exec", 0, []Resp{rOk(b.payload(pay)), rErr(b.errID())}, rOk(b.payload(pay)))
						b.script(x, "post", 0, []Resp{rAct(5)}, rAct(5))
						b.sc.Root = x
						out = append(out, taggedScen{sc: b.sc, tags: []string{"kind=batch/" + impl, "prep=" + sh.name, "exec=" + se, fmt.Sprintf("payload=%d", pay), fmt.Sprintf("items=%d", n)}, nontrivial: true})
					}
				}
			}
		}
	}
	out = append(out, commonPool(r, tier, "C17")...)
	st.Exhaustive = true
	st.Scope = "8 style combinations x option/builder/mixed construction x fallback default/user x 9 payload kinds (token, nil, Result, Result of Result, typed nil pointer, typed nil map, slice, int, error Result) x {first attempt succeeds, success after a retry, recovered by fallback} x {single, in flow}; sequential batches: 7 prep shapes x 2 exec styles x 9 payload kinds x 1 or 3 items"
	st.Rule = "enumeration; every case is non-trivial (a payload crosses at least two adapters); distinct by scenario hash"
	return out
}
