package main

// Batchprobe family (C08): two batches with the same concurrency c run at the same time, each
// with c items; every exec call waits until all 2c calls of both batches are inside exec
// (a rendezvous with a generous time limit).  Each batch has c workers of its own, so all 2c calls
// do run at the same time (C08_usable: c executions that all block run simultaneously - per
// batch); a pool shared between batches lets only c of them in and the rendezvous never completes.

import (
	"context"
	"fmt"
	"path/filepath"
	"sync"
	"sync/atomic"
	"time"

	"github.com/mark3labs/flyt"
)

type BProbe struct {
	Conc     int  `json:"conc"`
	Batches  int  `json:"batches"`
	Expected int  `json:"expected"`
	Inside   int  `json:"max_inside"`
	Met      bool `json:"met"`
	Returned bool `json:"returned"`
}

func (o BProbe) Coq() string {
	return fmt.Sprintf("{| bp_expected := %d; bp_inside := %d; bp_met := %v; bp_returned := %v |}", o.Expected, o.Inside, o.Met, o.Returned)
}

func runBatchProbe(c, batches int, viaOptions bool) BProbe {
	o := BProbe{Conc: c, Batches: batches, Expected: c * batches}
	var inside, maxInside int32
	all := make(chan struct{})
	var once sync.Once
	exec := func(ctx context.Context, it flyt.Result) (flyt.Result, error) {
		n := atomic.AddInt32(&inside, 1)
		for {
			m := atomic.LoadInt32(&maxInside)
			if n <= m || atomic.CompareAndSwapInt32(&maxInside, m, n) {
				break
			}
		}
		if int(n) == o.Expected {
			once.Do(func() { close(all) })
		}
		select {
		case <-all:
		case <-time.After(8 * time.Second):
		}
		atomic.AddInt32(&inside, -1)
		return flyt.NewResult(it.Value()), nil
	}
	mk := func() flyt.Node {
		var b *flyt.BatchNodeBuilder
		if viaOptions {
			b = flyt.NewBatchNode(flyt.WithBatchConcurrency(c))
		} else {
			b = flyt.NewBatchNode().WithBatchConcurrency(c)
		}
		b.WithPrepFunc(func(ctx context.Context, s *flyt.SharedStore) ([]flyt.Result, error) {
			items := make([]flyt.Result, c)
			for i := range items {
				items[i] = flyt.NewResult(i)
			}
			return items, nil
		})
		b.WithExecFunc(exec)
		return b
	}
	var wg sync.WaitGroup
	for i := 0; i < batches; i++ {
		wg.Add(1)
		n := mk()
		go func() {
			defer wg.Done()
			flyt.Run(context.Background(), n, flyt.NewSharedStore())
		}()
	}
	done := make(chan struct{})
	go func() { wg.Wait(); close(done) }()
	select {
	case <-done:
		o.Returned = true
	case <-time.After(30 * time.Second):
	}
	select {
	case <-all:
		o.Met = true
	default:
	}
	o.Inside = int(atomic.LoadInt32(&maxInside))
	return o
}

func batchProbeMain(prop, tier string, seed uint64, out, replay string) error {
	st := newStats()
	var cases []coqCase
	var jl []any
	reps := 1
	if tier == "thorough" {
		reps = 5
	}
	id := 0
	for rep := 0; rep < reps; rep++ {
		for _, c := range []int{1, 2, 3, 4} {
			for _, batches := range []int{2, 3} {
				o := runBatchProbe(c, batches, (rep+c)%2 == 0)
				jl = append(jl, map[string]any{"id": id, "scen": id, "obs": o, "tags": []string{fmt.Sprintf("conc=%d", c), fmt.Sprintf("batches=%d", batches)}})
				cases = append(cases, coqCase{id: id, scen: fmt.Sprint(id), obs: o.Coq()})
				st.count(fmt.Sprintf("conc=%d", c))
				st.DistinctNontrivial++
				if len(st.Samples) < 2 {
					st.Samples = append(st.Samples, o)
				}
				id++
			}
		}
	}
	st.Evaluations = len(cases)
	st.Scope = "2 and 3 batches of concurrency 1..4 running at the same time, c items each, every exec call waiting for all the others of all batches"
	st.Rule = "one run per (concurrency, number of batches); all are non-trivial"
	n, err := writeShards(out, prop, "BatchStressCorr", "bpscen", "bprobe", "spec_C08_probe", "spec_C08_probe", cases, nil)
	if err != nil {
		return err
	}
	st.Shards = n
	if err := writeJSONL(filepath.Join(out, "cases.jsonl"), jl); err != nil {
		return err
	}
	return writeStats(out, st)
}
