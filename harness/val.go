package main

// Values, errors, events: the shared vocabulary of scenarios and observations.
// Every type here has a JSON form (for replay files) and a Coq form (for case files).

import (
	"context"
	"errors"
	"fmt"
	"reflect"
	"strings"
	"sync"

	"github.com/mark3labs/flyt"
)

// ---------------------------------------------------------------- errors

type Err struct {
	K string `json:"k"` // user | ctx | fw
	U int    `json:"u,omitempty"`
}

func (e *Err) Coq() string {
	if e == nil {
		return "None"
	}
	return "(Some " + e.coq1() + ")"
}
func (e *Err) coq1() string {
	switch e.K {
	case "user":
		return fmt.Sprintf("(EUser %d)", e.U)
	case "ctx":
		return "ECtx"
	default:
		return "(EFw 0)"
	}
}

// UErr is the user's error type; three flavours of user error are produced from it.
type UErr struct{ ID int }

func (e *UErr) Error() string { return fmt.Sprintf("user error %d", e.ID) }

type customErr struct {
	inner *UErr
	note  string
}

func (c customErr) Error() string { return c.note + ": " + c.inner.Error() }
func (c customErr) Unwrap() error { return c.inner }

// sliceErr: an error whose dynamic type is not comparable (== on it panics)
type sliceErr struct {
	parts []string
	inner *UErr
}

func (s sliceErr) Error() string { return strings.Join(s.parts, " ") + ": " + s.inner.Error() }
func (s sliceErr) Unwrap() error { return s.inner }

// outerErr: the user's error is the OUTER one and wraps a cause of its own
type outerErr struct {
	ID    int
	cause error
}

func (o *outerErr) Error() string { return fmt.Sprintf("user error %d: %v", o.ID, o.cause) }
func (o *outerErr) Unwrap() error { return o.cause }

var errForeignCause = errors.New("some lower-level cause")

// realiseErr builds the Go error for user error id u; the flavour depends on u only.
func realiseErr(u int) error {
	base := &UErr{ID: u}
	switch u % 8 {
	case 5:
		return sliceErr{parts: []string{"not", "comparable"}, inner: base}
	case 6:
		return errors.Join(errors.New("joined with another error"), base)
	case 7:
		return &outerErr{ID: u, cause: errForeignCause}
	case 0:
		return base
	case 1:
		return fmt.Errorf("wrapped by user: %w", base)
	case 2:
		return customErr{inner: base, note: "custom"}
	case 3:
		// the usual shape of a per-attempt downstream timeout: wraps a context error although
		// the run's own context is alive
		return fmt.Errorf("downstream call: %w (%w)", base, context.DeadlineExceeded)
	default:
		return fmt.Errorf("downstream call: %w (%w)", base, context.Canceled)
	}
}

// classify maps a Go error to its class: which user error it matches (errors.As),
// whether it matches the context's error (errors.Is), or neither.
func classify(err error, ctx context.Context) *Err {
	if err == nil {
		return nil
	}
	var ue *UErr
	if errors.As(err, &ue) {
		return &Err{K: "user", U: ue.ID}
	}
	var oe *outerErr
	if errors.As(err, &oe) {
		return &Err{K: "user", U: oe.ID}
	}
	// "matches the context's error": errors.Is against the error this very context reports,
	// not against some context error
	if ctx != nil && ctx.Err() != nil && errors.Is(err, ctx.Err()) {
		return &Err{K: "ctx"}
	}
	return &Err{K: "fw"}
}

// ---------------------------------------------------------------- values

type Val struct {
	T     string `json:"t"` // nil tok store other act res sl
	N     int    `json:"n,omitempty"`
	V     *Val   `json:"v,omitempty"`
	E     *Err   `json:"e,omitempty"`
	R     bool   `json:"r,omitempty"`
	L     []Val  `json:"l,omitempty"`
	Shape string `json:"shape,omitempty"`
}

func vNil() Val               { return Val{T: "nil"} }
func vOther(shape string) Val { return Val{T: "other", Shape: shape} }
func vTok(n int) Val          { return Val{T: "tok", N: n} }
func vAct(a int) Val          { return Val{T: "act", N: a} }
func vRes(v Val) Val          { return Val{T: "res", V: &v} }
func vErrRes(u int) Val       { return Val{T: "res", V: &Val{T: "nil"}, E: &Err{K: "user", U: u}} }
func vSl(isres bool, shape string, l []Val) Val {
	if l == nil {
		l = []Val{}
	}
	return Val{T: "sl", R: isres, L: l, Shape: shape}
}

func (v Val) Coq() string {
	switch v.T {
	case "nil":
		return "VNil"
	case "tok":
		return fmt.Sprintf("(VTok %d)", v.N)
	case "store":
		return "VStore"
	case "act":
		return fmt.Sprintf("(VAct %d)", v.N)
	case "res":
		inner := "VNil"
		if v.V != nil {
			inner = v.V.Coq()
		}
		return fmt.Sprintf("(VRes %s %s)", inner, v.E.Coq())
	case "sl":
		return fmt.Sprintf("(VSl %v %s)", v.R, coqVals(v.L))
	default:
		return "VOther"
	}
}

func coqVals(l []Val) string {
	parts := make([]string, len(l))
	for i, x := range l {
		parts[i] = x.Coq()
	}
	return "[" + strings.Join(parts, "; ") + "]"
}

// Tok is an opaque payload; pointer identity is what is compared.
type Tok struct{ ID int }
type TokInt int
type AnyList []any

// world holds per-scenario identity: token pointers and the run's store.
type world struct {
	toks   map[int]*Tok
	store  *flyt.SharedStore
	conts  map[int]any
	wmu    sync.Mutex
	writes int
	ctx    context.Context
}

func newWorld() *world { return &world{toks: map[int]*Tok{}, conts: map[int]any{}} }

// cont: the container (a map[string]any for even ids, a []any for odd ones) standing for token id;
// one object per id: a callback that is handed a COPY of it sees something else
func (w *world) cont(id int) any {
	if c, ok := w.conts[id]; ok {
		return c
	}
	var c any
	if id%2 == 0 {
		c = map[string]any{"id": id}
	} else {
		c = []any{id, "payload"}
	}
	w.conts[id] = c
	return c
}

func (w *world) contID(x any) (int, bool) {
	rv := reflect.ValueOf(x)
	for id, c := range w.conts {
		if reflect.ValueOf(c).Pointer() == rv.Pointer() && reflect.ValueOf(c).Kind() == rv.Kind() {
			return id, true
		}
	}
	return 0, false
}

func (w *world) tok(id int) *Tok {
	if t, ok := w.toks[id]; ok {
		return t
	}
	t := &Tok{ID: id}
	w.toks[id] = t
	return t
}

func actName(a int) flyt.Action {
	switch a {
	case 0:
		return ""
	case 1:
		return flyt.DefaultAction
	case 8:
		return " " // an action that is not empty, only looks it
	case 9:
		return "\t\n"
	case 2, 3, 4, 6, 7:
		// ordinary words a library might be tempted to give a meaning of its own ("a5" stays: it is
		// a prefix of "a55")
		return flyt.Action(magicActions[a])
	default:
		return flyt.Action(fmt.Sprintf("a%d", a))
	}
}

var magicActions = map[int]string{2: "error", 3: "retry", 4: "fail", 6: "cancel", 7: "success"}

func actID(a flyt.Action) int {
	for i, m := range magicActions {
		if string(a) == m {
			return i
		}
	}
	switch a {
	case "":
		return 0
	case flyt.DefaultAction:
		return 1
	case " ":
		return 8
	case "\t\n":
		return 9
	}
	var n int
	if _, err := fmt.Sscanf(string(a), "a%d", &n); err == nil && string(a) == fmt.Sprintf("a%d", n) {
		return n
	}
	return 98
}

// realise builds the Go value for v.
func (w *world) realise(v Val) any {
	switch v.T {
	case "nil":
		return nil
	case "tok":
		switch v.Shape {
		case "int":
			return v.N
		case "str":
			return fmt.Sprintf("t%d", v.N)
		case "named":
			return TokInt(v.N)
		case "cont":
			return w.cont(v.N)
		default:
			return w.tok(v.N)
		}
	case "store":
		return w.store
	case "act":
		return actName(v.N)
	case "res":
		return w.realiseRes(v)
	case "sl":
		if v.R {
			out := make([]flyt.Result, len(v.L))
			for i, x := range v.L {
				out[i] = w.realiseRes(x)
			}
			return out
		}
		switch v.Shape {
		case "ints":
			out := make([]int, len(v.L))
			for i, x := range v.L {
				out[i] = x.N
			}
			return out
		case "strs":
			out := make([]string, len(v.L))
			for i, x := range v.L {
				out[i] = fmt.Sprintf("t%d", x.N)
			}
			return out
		case "toks":
			out := make([]*Tok, len(v.L))
			for i, x := range v.L {
				out[i] = w.tok(x.N)
			}
			return out
		case "named":
			out := make(AnyList, len(v.L))
			for i, x := range v.L {
				out[i] = w.realise(x)
			}
			return out
		default:
			out := make([]any, len(v.L))
			for i, x := range v.L {
				out[i] = w.realise(x)
			}
			return out
		}
	}
	if v.T == "other" {
		switch v.Shape {
		case "nilptr":
			return (*Tok)(nil)
		case "nilmap":
			return map[string]int(nil)
		case "nilfunc":
			return (func())(nil)
		case "errval":
			// a DATA value whose type happens to implement error
			return &UErr{ID: 424242}
		}
	}
	return struct{ unknown bool }{true}
}

// realiseRes builds a flyt.Result: a res term as written, anything else wrapped by NewResult.
func (w *world) realiseRes(v Val) flyt.Result {
	if v.T == "res" {
		if v.E != nil {
			return flyt.NewErrorResult(realiseErr(v.E.U))
		}
		if v.V == nil {
			return flyt.NewResult(nil)
		}
		return flyt.NewResult(w.realise(*v.V))
	}
	return flyt.NewResult(w.realise(v))
}

// encode maps a Go value observed by a callback back to a term.
func (w *world) encode(x any) Val {
	switch t := x.(type) {
	case nil:
		return vNil()
	case *Tok:
		if t != nil && w.toks[t.ID] == t {
			return vTok(t.ID)
		}
		return Val{T: "other"}
	case int:
		return vTok(t)
	case TokInt:
		return vTok(int(t))
	case string:
		var n int
		if _, err := fmt.Sscanf(t, "t%d", &n); err == nil {
			return vTok(n)
		}
		return Val{T: "other"}
	case *flyt.SharedStore:
		// the store of the run, holding exactly what the callbacks of the scenario have written
		// so far (every prep / post callback writes one key of its own): the engine itself never
		// writes to the store, removes from it or swaps it
		if t == w.store && w.storeIntact() {
			return Val{T: "store"}
		}
		return Val{T: "other"}
	case flyt.Action:
		return vAct(actID(t))
	case flyt.Result:
		return w.encodeRes(t)
	case []flyt.Result:
		l := make([]Val, len(t))
		for i, r := range t {
			l[i] = w.encodeRes(r)
		}
		return vSl(true, "", l)
	}
	switch x.(type) {
	case map[string]any, []any:
		if id, ok := w.contID(x); ok {
			return Val{T: "tok", N: id, Shape: "cont"}
		}
		if _, isMap := x.(map[string]any); isMap {
			return Val{T: "other"}
		}
	}
	rv := reflect.ValueOf(x)
	if rv.Kind() == reflect.Slice {
		l := make([]Val, rv.Len())
		for i := range l {
			l[i] = w.encode(rv.Index(i).Interface())
		}
		return vSl(false, "", l)
	}
	return Val{T: "other"}
}

func (w *world) encodeRes(r flyt.Result) Val {
	if r.IsError() {
		return Val{T: "res", V: &Val{T: "nil"}, E: classify(r.Error(), w.ctx)}
	}
	v := w.encode(r.Value())
	return Val{T: "res", V: &v}
}

func (w *world) encodeList(rs []flyt.Result) []Val {
	l := make([]Val, len(rs))
	for i, r := range rs {
		l[i] = w.encodeRes(r)
	}
	return l
}

// storeIntact: the store holds exactly the keys written by the scenario's callbacks so far
func (w *world) storeIntact() bool {
	w.wmu.Lock()
	n := w.writes
	w.wmu.Unlock()
	if w.store.Len() != n {
		return false
	}
	if n > 0 && !w.store.Has(fmt.Sprintf("cb%d", n-1)) {
		return false
	}
	return true
}

// noteCallback: a prep / post callback leaves its mark in the store
func (w *world) noteCallback(s *flyt.SharedStore) {
	if s == nil {
		return
	}
	w.wmu.Lock()
	k := w.writes
	w.writes++
	w.wmu.Unlock()
	s.Set(fmt.Sprintf("cb%d", k), k)
}

// itemKey mirrors Script.item_key.
func itemKey(v Val) int {
	switch v.T {
	case "tok":
		return v.N
	case "res":
		if v.V != nil && v.V.T == "tok" {
			return v.V.N
		}
	}
	return 0
}

// ---------------------------------------------------------------- events

type Resp struct {
	K      string `json:"k"` // ok | err | act
	V      *Val   `json:"v,omitempty"`
	U      int    `json:"u,omitempty"`
	A      int    `json:"a,omitempty"`
	Cancel bool   `json:"cancel,omitempty"`
}

func rOk(v Val) Resp   { return Resp{K: "ok", V: &v} }
func rErr(u int) Resp  { return Resp{K: "err", U: u} }
func rAct(a int) Resp  { return Resp{K: "act", A: a} }
func (r Resp) c() Resp { r.Cancel = true; return r }

func (r Resp) CoqResp() string {
	switch r.K {
	case "ok":
		if r.V == nil {
			return "(ROk VNil)"
		}
		return "(ROk " + r.V.Coq() + ")"
	case "err":
		return fmt.Sprintf("(RErr (EUser %d))", r.U)
	default:
		return fmt.Sprintf("(RAct %d)", r.A)
	}
}
func (r Resp) Coq() string { return fmt.Sprintf("(%s, %v)", r.CoqResp(), r.Cancel) }

type Call struct {
	K       string `json:"k"` // prep exec fb post bpost
	N       int    `json:"n"`
	St      *Val   `json:"st,omitempty"`
	Arg     *Val   `json:"arg,omitempty"`
	P       *Val   `json:"p,omitempty"`
	X       *Val   `json:"x,omitempty"`
	E       *Err   `json:"e,omitempty"`
	Items   []Val  `json:"items,omitempty"`
	Results []Val  `json:"results,omitempty"`
	Codes   []int  `json:"codes,omitempty"` // park: 16*item index + attempt of every exec call in flight
}

func (c Call) Coq() string {
	switch c.K {
	case "prep":
		return fmt.Sprintf("(CPrep %d %s)", c.N, c.St.Coq())
	case "exec":
		return fmt.Sprintf("(CExec %d %s)", c.N, c.Arg.Coq())
	case "fb":
		return fmt.Sprintf("(CFallback %d %s %s)", c.N, c.Arg.Coq(), c.E.coq1())
	case "post":
		return fmt.Sprintf("(CPost %d %s %s %s)", c.N, c.St.Coq(), c.P.Coq(), c.X.Coq())
	case "bpost":
		return fmt.Sprintf("(CBPost %d %s %s %s)", c.N, c.St.Coq(), coqVals(c.Items), coqVals(c.Results))
	}
	if c.K == "park" {
		cs := make([]string, len(c.Codes))
		for i, x := range c.Codes {
			cs[i] = fmt.Sprint(x)
		}
		return fmt.Sprintf("(CPark %d [%s])", c.N, strings.Join(cs, "; "))
	}
	return "(CWait 0 0 0)"
}

type Event struct {
	Call Call `json:"call"`
	Resp Resp `json:"resp"`
	// exec callbacks: monotonic clock (ns since the scenario began) at entry and just before return
	T0 int64 `json:"t0,omitempty"`
	T1 int64 `json:"t1,omitempty"`
}

func (e Event) Coq() string {
	return fmt.Sprintf("(%s, %s, %v)", e.Call.Coq(), e.Resp.CoqResp(), e.Resp.Cancel)
}

func coqEvents(l []Event) string {
	parts := make([]string, len(l))
	for i, e := range l {
		parts[i] = e.Coq()
	}
	return "[" + strings.Join(parts, ";\n      ") + "]"
}
