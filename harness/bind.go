package main

// Bind family (C16): value x destination pairs; Result.Bind and SharedStore.Bind against a
// reference json.Marshal / json.Unmarshal on a clone of the destination.

import (
	"crypto/sha256"
	"encoding/hex"
	"encoding/json"
	"errors"
	"fmt"
	"os"
	"path/filepath"
	"reflect"
	"strings"

	"github.com/mark3labs/flyt"
)

type tagged struct {
	Name string `json:"name"`
	Age  int    `json:"age,omitempty"`
	skip int
}
type withChan struct {
	A int
	C chan int
}

type bdestKind struct {
	name string
	coq  string     // the bdest term
	mk   func() any // a fresh destination with its initial contents
}

func ptrTo[T any](v T) func() any { return func() any { p := new(T); *p = v; return p } }

var bindDests = []bdestKind{
	{"*int", "BPtr (TInt KInt) GNil", ptrTo(42)},
	{"*string", "BPtr TString GNil", ptrTo("old")},
	{"*float64", "BPtr TF64 GNil", ptrTo(1.5)},
	{"*bool", "BPtr TBool GNil", ptrTo(true)},
	{"*uint8", "BPtr (TInt KUint8) GNil", ptrTo(uint8(7))},
	{"*[]any", "BPtr (TSlice EAny) GNil", ptrTo([]any{"old"})},
	{"*[]int", "BPtr (TSlice EInt) GNil", ptrTo([]int{9, 9, 9})},
	{"*map[string]any", "BPtr (TMap true) GNil", ptrTo(map[string]any{"old": 1.0})},
	{"*map[string]int", "BPtr (TMap false) GNil", ptrTo(map[string]int{"old": 1})},
	{"*MyInt", "BPtr (TNamed 1) GNil", ptrTo(MyInt(3))},
	{"*st2", "BPtr (TStruct 2) GNil", ptrTo(st2{A: 9, B: "old"})},
	{"*st1", "BPtr (TStruct 1) GNil", ptrTo(st1{A: 9, B: []int{1}})},
	{"*tagged", "BPtr (TStruct 10) GNil", ptrTo(tagged{Name: "old", Age: 9, skip: 5})},
	{"*any", "BPtr TIface GNil", ptrTo[any]("old")},
	{"*flyt.Result", "BPtr (TStruct 12) GNil", ptrTo(flyt.NewResult("old"))},
	{"**Tok", "BPtr TPtr GNil", ptrTo(&Tok{ID: 77})},
	{"(*int)(nil)", "BPtrNil (TInt KInt)", func() any { return (*int)(nil) }},
	{"(*st2)(nil)", "BPtrNil (TStruct 2)", func() any { return (*st2)(nil) }},
	{"(*any)(nil)", "BPtrNil TIface", func() any { return (*any)(nil) }},
	{"nil", "BNilIface", func() any { return nil }},
	{"int", "BNonPtr false", func() any { return 5 }},
	{"string", "BNonPtr false", func() any { return "x" }},
	{"st2", "BNonPtr false", func() any { return st2{A: 1} }},
	{"map[string]any", "BNonPtr true", func() any { return map[string]any{"a": 1} }},
	{"[]int", "BNonPtr true", func() any { return []int{1} }},
	{"func", "BNonPtr true", func() any { return func() {} }},
	{"chan", "BNonPtr true", func() any { return make(chan int) }},
	{"nil map", "BNonPtr true", func() any { return map[string]any(nil) }},
}

type BObs1 struct {
	Class     string `json:"class"`
	Unchanged bool   `json:"unchanged"`
	IsValue   bool   `json:"is_value"`
	IsRef     bool   `json:"is_ref"`
	SrcSame   bool   `json:"src_same"`
	Wraps     bool   `json:"wraps"`
	Err       string `json:"err,omitempty"`
}

func (o BObs1) Coq() string {
	return fmt.Sprintf("{| bo_class := %s; bo_unchanged := %v; bo_is_value := %v; bo_is_ref := %v; bo_src_same := %v; bo_wraps := %v |}",
		o.Class, o.Unchanged, o.IsValue, o.IsRef, o.SrcSame, o.Wraps)
}

func classOf(err error, panicked bool) string {
	switch {
	case panicked:
		return "BPanic"
	case err == nil:
		return "BOk"
	}
	m := err.Error()
	switch {
	case strings.HasPrefix(m, "cannot bind nil"):
		return "BErrNilValue"
	case strings.Contains(m, "not found in shared store"):
		return "BErrMissing"
	case strings.HasPrefix(m, "destination must be"):
		return "BErrNotPtr"
	case strings.HasPrefix(m, "failed to marshal"):
		return "BErrMarshal"
	case strings.HasPrefix(m, "failed to unmarshal"):
		return "BErrUnmarshal"
	}
	return "BPanic"
}

func elemOf(d any) (any, bool) {
	rv := reflect.ValueOf(d)
	if !rv.IsValid() || rv.Kind() != reflect.Ptr || rv.IsNil() {
		return nil, false
	}
	return rv.Elem().Interface(), true
}

func deepEq(a, b any) bool {
	defer func() { recover() }()
	ra, rb := reflect.ValueOf(a), reflect.ValueOf(b)
	if ra.IsValid() && rb.IsValid() && ra.Kind() == reflect.Func && rb.Kind() == reflect.Func {
		return ra.IsNil() == rb.IsNil()
	}
	return eqNaN(ra, rb)
}

// eqNaN: reflect.DeepEqual, except that floating-point numbers are compared by what they are
// (a NaN equals a NaN): the observation asks "is this the same value as before", not "does ==
// hold"
func eqNaN(a, b reflect.Value) bool {
	if !a.IsValid() || !b.IsValid() {
		return a.IsValid() == b.IsValid()
	}
	if a.Type() != b.Type() {
		return false
	}
	switch a.Kind() {
	case reflect.Float32, reflect.Float64:
		x, y := a.Float(), b.Float()
		return x == y || (x != x && y != y)
	case reflect.Complex64, reflect.Complex128:
		x, y := a.Complex(), b.Complex()
		re := real(x) == real(y) || (real(x) != real(x) && real(y) != real(y))
		im := imag(x) == imag(y) || (imag(x) != imag(x) && imag(y) != imag(y))
		return re && im
	case reflect.Interface, reflect.Ptr:
		if a.IsNil() || b.IsNil() {
			return a.IsNil() == b.IsNil()
		}
		if a.Kind() == reflect.Ptr && a.Pointer() == b.Pointer() {
			return true
		}
		return eqNaN(a.Elem(), b.Elem())
	case reflect.Slice:
		if a.IsNil() != b.IsNil() || a.Len() != b.Len() {
			return false
		}
		for i := 0; i < a.Len(); i++ {
			if !eqNaN(a.Index(i), b.Index(i)) {
				return false
			}
		}
		return true
	case reflect.Array:
		for i := 0; i < a.Len(); i++ {
			if !eqNaN(a.Index(i), b.Index(i)) {
				return false
			}
		}
		return true
	case reflect.Struct:
		for i := 0; i < a.NumField(); i++ {
			if !eqNaN(a.Field(i), b.Field(i)) {
				return false
			}
		}
		return true
	case reflect.Map:
		if a.IsNil() != b.IsNil() || a.Len() != b.Len() {
			return false
		}
		for _, k := range a.MapKeys() {
			bv := b.MapIndex(k)
			if !bv.IsValid() || !eqNaN(a.MapIndex(k), bv) {
				return false
			}
		}
		return true
	}
	switch a.Kind() {
	case reflect.Bool:
		return a.Bool() == b.Bool()
	case reflect.Int, reflect.Int8, reflect.Int16, reflect.Int32, reflect.Int64:
		return a.Int() == b.Int()
	case reflect.Uint, reflect.Uint8, reflect.Uint16, reflect.Uint32, reflect.Uint64, reflect.Uintptr:
		return a.Uint() == b.Uint()
	case reflect.String:
		return a.String() == b.String()
	case reflect.Chan, reflect.UnsafePointer:
		return a.Pointer() == b.Pointer()
	case reflect.Func:
		return a.IsNil() == b.IsNil() // functions cannot be compared: nil against nil, non-nil against non-nil
	}
	if a.CanInterface() && b.CanInterface() {
		return reflect.DeepEqual(a.Interface(), b.Interface())
	}
	return false
}

type BScen struct {
	Val     GV     `json:"val"`
	Present bool   `json:"present"`
	Dest    int    `json:"dest"`
	DestN   string `json:"dest_name"`
	MarshOK bool   `json:"marshal_ok"`
	UnmOK   bool   `json:"unmarshal_ok"`
}

func (s BScen) Coq() string {
	return fmt.Sprintf("{| bs_val := %s; bs_present := %v; bs_dest := %s; bs_marshal_ok := %v; bs_unmarshal_ok := %v |}",
		s.Val.Coq(), s.Present, bindDests[s.Dest].coq, s.MarshOK, s.UnmOK)
}

func observeBind(g GV, di int, present bool) (BScen, [2]BObs1) {
	dk := bindDests[di]
	val := g.build()
	// the reference round trip on a clone of the destination
	ref := dk.mk()
	b, merr := json.Marshal(val)
	var uerr error
	if merr == nil {
		if _, ok := elemOf(ref); ok {
			uerr = json.Unmarshal(b, ref)
		}
	}
	sc := BScen{Val: g, Present: present, Dest: di, DestN: dk.name, MarshOK: merr == nil, UnmOK: uerr == nil}
	one := func(bind func(dest any) error, src any) BObs1 {
		dest := dk.mk()
		init := dk.mk()
		var err error
		panicked := false
		func() {
			defer func() {
				if p := recover(); p != nil {
					panicked = true
					err = fmt.Errorf("panic: %v", p)
				}
			}()
			err = bind(dest)
		}()
		o := BObs1{Class: classOf(err, panicked)}
		if err != nil {
			o.Err = err.Error()
		}
		de, okd := elemOf(dest)
		ie, _ := elemOf(init)
		re, _ := elemOf(ref)
		if okd {
			o.Unchanged = deepEq(de, ie)
			o.IsValue = deepEq(de, val)
			o.IsRef = deepEq(de, re)
		} else {
			o.Unchanged = deepEq(dest, init)
			if k := reflect.ValueOf(dest).Kind(); k == reflect.Chan {
				o.Unchanged = true // a channel passed by value: nothing of it can be rewritten
			}
		}
		o.SrcSame = deepEq(src, g.build())
		var refErr error
		if merr != nil {
			refErr = merr
		} else {
			refErr = uerr
		}
		if refErr != nil && err != nil {
			u := errors.Unwrap(err)
			o.Wraps = u != nil && u.Error() == refErr.Error()
		}
		return o
	}
	r1 := one(func(dest any) error { return flyt.NewResult(val).Bind(dest) }, val)
	st := flyt.NewSharedStore()
	if present {
		st.Set("k", val)
	}
	r2 := one(func(dest any) error { return st.Bind("k", dest) }, func() any {
		if !present {
			return g.build()
		}
		v, _ := st.Get("k")
		return v
	}())
	return sc, [2]BObs1{r1, r2}
}

func bindValues() []GV {
	named := func(n int, u GV) GV { return GV{T: "named", Name: n, Under: &u} }
	return []GV{
		{T: "nil"},
		gInt("KInt", "5"), gInt("KInt", "-3"), gInt("KUint8", "200"), gInt("KInt64", "9007199254740993"), gInt("KUint64", "18446744073709551615"),
		gF64(0x3ff8000000000000), gF64(0x4008000000000000), gF32(0x3f800000),
		gStr(1), gStr(0), {T: "bool", B: true},
		named(1, gInt("KInt", "8")), named(2, gStr(2)),
		gSlice("EAny", gInt("KInt", "1"), gStr(2)), gSlice("EAny"), {T: "slice", E: "EAny", Nil: true, Elems: []GV{}},
		gSlice("EInt", gInt("KInt", "1"), gInt("KInt", "2")), gSlice("EString", gStr(1)),
		{T: "map", StrAny: true, ID: 5}, {T: "map", StrAny: true, Nil: true}, {T: "map", ID: 6},
		{T: "struct", ID: 2, Elems: []GV{gInt("KInt", "1"), gStr(3)}},
		{T: "struct", ID: 1, Elems: []GV{gInt("KInt", "1"), gSlice("EInt", gInt("KInt", "2"))}},
		{T: "struct", ID: 10}, {T: "struct", ID: 11}, {T: "struct", ID: 12, Elems: []GV{{T: "bool", B: false}}}, {T: "struct", ID: 12, Elems: []GV{{T: "bool", B: true}}},
		{T: "ptr", ID: 1}, {T: "ptr", Nil: true},
		{T: "ptrto", Name: 2, Under: &GV{T: "struct", ID: 2, Elems: []GV{gInt("KInt", "4"), gStr(5)}}},
		{T: "ptrto", Name: 2, Nil: true, Under: &GV{T: "struct", ID: 2, Elems: []GV{gInt("KInt", "0"), gStr(0)}}},
		{T: "ptrto", Name: 10, Under: &GV{T: "struct", ID: 10}},
		{T: "ptrto", Name: 10, Nil: true, Under: &GV{T: "struct", ID: 10}},
		{T: "func", ID: 1}, {T: "chan", ID: 1}, {T: "complex", ID: 2},
		{T: "array", Elems: []GV{gInt("KInt", "1"), gInt("KInt", "2")}},
	}
}

func bindMain(prop, tier string, seed uint64, out, replay string) error {
	type bCase struct {
		ID   int      `json:"id"`
		Scen BScen    `json:"scen"`
		Obs  [2]BObs1 `json:"obs"`
		Tags []string `json:"tags,omitempty"`
	}
	type pair struct {
		g       GV
		d       int
		present bool
	}
	var pairs []pair
	if replay != "" {
		b, err := os.ReadFile(replay)
		if err != nil {
			return err
		}
		var w struct {
			Scenario *BScen `json:"scenario"`
			Scen     *BScen `json:"scen"`
		}
		if err := json.Unmarshal(b, &w); err != nil {
			return err
		}
		s := w.Scenario
		if s == nil {
			s = w.Scen
		}
		pairs = append(pairs, pair{s.Val, s.Dest, s.Present})
	} else {
		vals := bindValues()
		if tier == "thorough" {
			more, _ := genValues(newRng(seed), "quick")
			for _, g := range more {
				if g.T == "f64" || g.T == "f32" {
					continue // NaN / Inf are not comparable by deep equality
				}
				vals = append(vals, g)
			}
		}
		for _, g := range vals {
			for d := range bindDests {
				pairs = append(pairs, pair{g, d, true})
				if d%5 == 0 {
					pairs = append(pairs, pair{g, d, false})
				}
			}
		}
	}
	st := newStats()
	var cases []coqCase
	var jl []any
	seen := map[string]bool{}
	for i, p := range pairs {
		sc, obs := observeBind(p.g, p.d, p.present)
		c := bCase{ID: i, Scen: sc, Obs: obs, Tags: []string{"dest=" + sc.DestN, "val=" + p.g.T, "result=" + obs[0].Class}}
		jl = append(jl, c)
		cases = append(cases, coqCase{id: i, scen: sc.Coq(), obs: fmt.Sprintf("(%s,\n    %s)", obs[0].Coq(), obs[1].Coq())})
		for _, t := range c.Tags {
			st.count(t)
		}
		b, _ := json.Marshal(sc)
		h := sha256.Sum256(b)
		k := hex.EncodeToString(h[:8])
		if !seen[k] {
			seen[k] = true
			st.DistinctNontrivial++
		}
		if len(st.Samples) < 2 && obs[0].Class == "BErrUnmarshal" {
			st.Samples = append(st.Samples, c)
		}
	}
	st.Evaluations = len(cases)
	var controls []coqCase
	if replay == "" {
		for _, p := range pairs {
			if len(controls) >= 4 {
				break
			}
			sc, obs := observeBind(p.g, p.d, p.present)
			if obs[0].Class == "BOk" {
				obs[0].Class = "BErrNotPtr"
				controls = append(controls, coqCase{id: len(controls), scen: sc.Coq(), obs: fmt.Sprintf("(%s,\n    %s)", obs[0].Coq(), obs[1].Coq())})
			}
		}
	}
	st.Controls = len(controls)
	st.Exhaustive = true
	st.Scope = fmt.Sprintf("%d values (nil, scalars, defined types, slices, maps, structs with and without tags / unexported fields, pointers, typed nils, non-marshalable funcs, chans, complex, struct with a chan) x %d destinations (pointers to the same type, to compatible and incompatible types, to an interface, to a pointer; nil pointers; untyped nil; non-pointers of kinds with and without IsNil), pre-populated destinations, key present / missing", len(bindValues()), len(bindDests))
	st.Rule = "full product; Result.Bind and SharedStore.Bind under recover against encoding/json on a clone; every pair is non-trivial; distinct by scenario hash"
	n, err := writeShards(out, prop, "Values Accessors Bind BindCorr", "bscen", "bobs", "admits_bind", "spec_C16", cases, controls)
	if err != nil {
		return err
	}
	st.Shards = n
	if err := writeJSONL(filepath.Join(out, "cases.jsonl"), jl); err != nil {
		return err
	}
	return writeStats(out, st)
}
