package main

// Store family (C14): operation sequences on a real flyt.SharedStore, interleaved with mutations
// of the maps / slices it hands out; every answer is recorded in the vocabulary of Model/Store.v.

import (
	"crypto/sha256"
	"encoding/hex"
	"encoding/json"
	"fmt"
	"os"
	"path/filepath"
	"reflect"
	"sort"
	"strings"

	"github.com/mark3labs/flyt"
)

type SOp struct {
	K   string   `json:"k"` // set get has del len keys getall mergenil mergelit mergesnap clear snapset snapdel keysset keystrunc readsnap readkeys
	Key int      `json:"key,omitempty"`
	Val int      `json:"val,omitempty"`
	Ref int      `json:"ref,omitempty"`
	Idx int      `json:"idx,omitempty"`
	Lit [][2]int `json:"lit,omitempty"`
}

type SRet struct {
	K    string   `json:"k"` // u val b n newkeys newmap mapis keysare badref panic
	Some bool     `json:"some,omitempty"`
	N    int      `json:"n,omitempty"`
	B    bool     `json:"b,omitempty"`
	Ref  int      `json:"ref,omitempty"`
	Keys []int    `json:"keys,omitempty"`
	Map  [][2]int `json:"map,omitempty"`
	Msg  string   `json:"msg,omitempty"`
}

var storeKeys = []string{"", "a", "ключ", "a b", "k4", "ab", "日本", "k7"}

func keyName(id int) string {
	if id < len(storeKeys) {
		return storeKeys[id]
	}
	return fmt.Sprintf("k%d", id)
}
func keyID(s string) int {
	for i, k := range storeKeys {
		if k == s {
			return i
		}
	}
	var n int
	if _, err := fmt.Sscanf(s, "k%d", &n); err == nil {
		return n
	}
	return 999
}

type sStruct struct {
	ID int
	L  []int
}

// storeVal: the Go value standing for value id v: every kind, nil included (id 0)
// Values of the reference kinds (slice, map, pointer) come in twins: v and v+10 (v/10 even) have
// the same CONTENT (reflect.DeepEqual) but are different objects and different values of the
// model; which object the store hands back is told by identity (valRegistry), not by content.
var valRegistry = map[uintptr]int{}

func contentID(v int) int {
	if (v/10)%2 == 1 {
		return v - 10
	}
	return v
}

func register(x any, v int) any {
	rv := reflect.ValueOf(x)
	switch rv.Kind() {
	case reflect.Ptr, reflect.Slice, reflect.Map:
		valRegistry[rv.Pointer()] = v
	}
	return x
}

func storeVal(v int) any {
	if v == 0 {
		return nil
	}
	switch v % 10 {
	case 4:
		return register([]int{contentID(v)}, v)
	case 5:
		// a map[string]any: merging a map VALUE into the store replaces the old one, it is not merged into it
		return register(map[string]any{"id": contentID(v), fmt.Sprintf("own%d", v): true}, v)
	case 6:
		return register(&Tok{ID: contentID(v)}, v)
	}
	switch v % 10 {
	case 1:
		return v
	case 2:
		return fmt.Sprintf("v%d", v)
	case 3:
		return float64(v) + 0.5
	case 4:
		return []int{v}
	case 5:
		return map[string]int{"id": v}
	case 6:
		return &Tok{ID: v}
	case 7:
		return sStruct{ID: v, L: []int{1}}
	case 8:
		id := v
		return func() int { return id }
	case 9:
		return int64(v)
	default:
		return []any{v, nil}
	}
}
func storeValID(x any) int {
	if x != nil {
		rv := reflect.ValueOf(x)
		switch rv.Kind() {
		case reflect.Ptr, reflect.Slice, reflect.Map:
			if v, ok := valRegistry[rv.Pointer()]; ok {
				return v
			}
		}
	}
	switch t := x.(type) {
	case nil:
		return 0
	case int:
		return t
	case string:
		var n int
		fmt.Sscanf(t, "v%d", &n)
		return n
	case float64:
		return int(t)
	case []int:
		if len(t) == 1 {
			return t[0]
		}
	case map[string]int:
		return t["id"]
	case map[string]any:
		// an object the harness did not make (or a merged one): told by its content
		if len(t) == 2 {
			if n, ok := t["id"].(int); ok {
				if _, own := t[fmt.Sprintf("own%d", n)]; own {
					return n
				}
			}
		}
		return 9998
	case *Tok:
		if t != nil {
			return t.ID
		}
	case sStruct:
		return t.ID
	case func() int:
		return t()
	case int64:
		return int(t)
	case []any:
		if len(t) == 2 {
			if n, ok := t[0].(int); ok {
				return n
			}
		}
	}
	return 9999
}

func encMap(m map[string]any) [][2]int {
	out := make([][2]int, 0, len(m))
	for k, v := range m {
		out = append(out, [2]int{keyID(k), storeValID(v)})
	}
	sort.Slice(out, func(i, j int) bool { return out[i][0] < out[j][0] })
	return out
}

func runStore(ops []SOp) (rets []SRet) {
	valRegistry = map[uintptr]int{}
	st := flyt.NewSharedStore()
	maps := map[int]map[string]any{}
	keyss := map[int][]string{}
	next := 1
	for _, op := range ops {
		var r SRet
		func() {
			defer func() {
				if p := recover(); p != nil {
					r = SRet{K: "panic", Msg: fmt.Sprint(p)}
				}
			}()
			switch op.K {
			case "set":
				st.Set(keyName(op.Key), storeVal(op.Val))
				r = SRet{K: "u"}
			case "get":
				v, ok := st.Get(keyName(op.Key))
				r = SRet{K: "val", Some: ok, N: storeValID(v)}
				if !ok {
					r.N = 0
				}
			case "has":
				r = SRet{K: "b", B: st.Has(keyName(op.Key))}
			case "del":
				st.Delete(keyName(op.Key))
				r = SRet{K: "u"}
			case "len":
				r = SRet{K: "n", N: st.Len()}
			case "keys":
				ks := st.Keys()
				// the scenario sorts its own copy at once (by key number)
				sort.Slice(ks, func(i, j int) bool { return keyID(ks[i]) < keyID(ks[j]) })
				keyss[next] = ks
				ids := make([]int, len(ks))
				for i, k := range ks {
					ids[i] = keyID(k)
				}
				r = SRet{K: "newkeys", Ref: next, Keys: ids}
				next++
			case "getall":
				m := st.GetAll()
				maps[next] = m
				r = SRet{K: "newmap", Ref: next, Map: encMap(m)}
				next++
			case "mergenil":
				st.Merge(nil)
				r = SRet{K: "u"}
			case "mergelit":
				// built in the listed order: a later binding of the same key overwrites
				m := map[string]any{}
				for _, kv := range op.Lit {
					m[keyName(kv[0])] = storeVal(kv[1])
				}
				st.Merge(m)
				r = SRet{K: "u"}
			case "mergesnap":
				if m, ok := maps[op.Ref]; ok {
					st.Merge(m)
					r = SRet{K: "u"}
				} else {
					r = SRet{K: "badref"}
				}
			case "clear":
				st.Clear()
				next++
				r = SRet{K: "u"}
			case "snapset":
				if m, ok := maps[op.Ref]; ok {
					m[keyName(op.Key)] = storeVal(op.Val)
					r = SRet{K: "u"}
				} else {
					r = SRet{K: "badref"}
				}
			case "snapdel":
				if m, ok := maps[op.Ref]; ok {
					delete(m, keyName(op.Key))
					r = SRet{K: "u"}
				} else {
					r = SRet{K: "badref"}
				}
			case "keysset":
				if ks, ok := keyss[op.Ref]; ok {
					if op.Idx < len(ks) {
						ks[op.Idx] = keyName(op.Key)
					}
					r = SRet{K: "u"}
				} else {
					r = SRet{K: "badref"}
				}
			case "keystrunc":
				if ks, ok := keyss[op.Ref]; ok {
					if op.Idx < len(ks) {
						keyss[op.Ref] = ks[:op.Idx]
					}
					r = SRet{K: "u"}
				} else {
					r = SRet{K: "badref"}
				}
			case "readsnap":
				if m, ok := maps[op.Ref]; ok {
					r = SRet{K: "mapis", Map: encMap(m)}
				} else {
					r = SRet{K: "badref"}
				}
			case "readkeys":
				if ks, ok := keyss[op.Ref]; ok {
					ids := make([]int, len(ks))
					for i, k := range ks {
						ids[i] = keyID(k)
					}
					r = SRet{K: "keysare", Keys: ids}
				} else {
					r = SRet{K: "badref"}
				}
			}
		}()
		rets = append(rets, r)
	}
	return rets
}

func coqInts(l []int) string {
	s := make([]string, len(l))
	for i, x := range l {
		s[i] = fmt.Sprint(x)
	}
	return "[" + strings.Join(s, "; ") + "]"
}
func coqPairs(l [][2]int) string {
	s := make([]string, len(l))
	for i, x := range l {
		s[i] = fmt.Sprintf("(%d, %d)", x[0], x[1])
	}
	return "[" + strings.Join(s, "; ") + "]"
}

func (o SOp) Coq() string {
	switch o.K {
	case "set":
		return fmt.Sprintf("OSet %d %d", o.Key, o.Val)
	case "get":
		return fmt.Sprintf("OGet %d", o.Key)
	case "has":
		return fmt.Sprintf("OHas %d", o.Key)
	case "del":
		return fmt.Sprintf("ODelete %d", o.Key)
	case "len":
		return "OLen"
	case "keys":
		return "OKeys"
	case "getall":
		return "OGetAll"
	case "mergenil":
		return "OMergeNil"
	case "mergelit":
		return "OMergeLit " + coqPairs(o.Lit)
	case "mergesnap":
		return fmt.Sprintf("OMergeSnap %d", o.Ref)
	case "clear":
		return "OClear"
	case "snapset":
		return fmt.Sprintf("OSnapSet %d %d %d", o.Ref, o.Key, o.Val)
	case "snapdel":
		return fmt.Sprintf("OSnapDel %d %d", o.Ref, o.Key)
	case "keysset":
		return fmt.Sprintf("OKeysSet %d %d %d", o.Ref, o.Idx, o.Key)
	case "keystrunc":
		return fmt.Sprintf("OKeysTrunc %d %d", o.Ref, o.Idx)
	case "readsnap":
		return fmt.Sprintf("OReadSnap %d", o.Ref)
	case "readkeys":
		return fmt.Sprintf("OReadKeys %d", o.Ref)
	}
	return "OLen"
}

func (r SRet) Coq() string {
	switch r.K {
	case "u":
		return "RU"
	case "val":
		if r.Some {
			return fmt.Sprintf("RVal (Some %d)", r.N)
		}
		return "RVal None"
	case "b":
		return fmt.Sprintf("RB %v", r.B)
	case "n":
		return fmt.Sprintf("RN %d", r.N)
	case "newkeys":
		return fmt.Sprintf("RNewKeys %d %s", r.Ref, coqInts(r.Keys))
	case "newmap":
		return fmt.Sprintf("RNewMap %d %s", r.Ref, coqPairs(r.Map))
	case "mapis":
		return "RMapIs " + coqPairs(r.Map)
	case "keysare":
		return "RKeysAre " + coqInts(r.Keys)
	}
	return "RBadRef" // a panic is no answer of the model either
}

func coqOps(ops []SOp) string {
	s := make([]string, len(ops))
	for i, o := range ops {
		s[i] = o.Coq()
	}
	return "[" + strings.Join(s, ";\n    ") + "]"
}
func coqRets(rs []SRet) string {
	s := make([]string, len(rs))
	for i, r := range rs {
		s[i] = r.Coq()
	}
	return "[" + strings.Join(s, ";\n    ") + "]"
}

// ---------------------------------------------------------------- generation

type storeGen struct {
	r     *rng
	ops   []SOp
	next  int
	maps  []int
	keyss []int
	nkeys int
	nextV int
}

func (g *storeGen) val() int {
	if g.r.chance(12) {
		return 0
	}
	g.nextV++
	return g.nextV
}
func (g *storeGen) key() int { return g.r.intn(g.nkeys) }

func (g *storeGen) readAll() {
	for i := len(g.maps) - 1; i >= 0 && i >= len(g.maps)-3; i-- {
		g.ops = append(g.ops, SOp{K: "readsnap", Ref: g.maps[i]})
	}
	for i := len(g.keyss) - 1; i >= 0 && i >= len(g.keyss)-2; i-- {
		g.ops = append(g.ops, SOp{K: "readkeys", Ref: g.keyss[i]})
	}
}

func (g *storeGen) step() {
	r := g.r
	p := r.intn(100)
	switch {
	case p < 22:
		g.ops = append(g.ops, SOp{K: "set", Key: g.key(), Val: g.val()})
		g.readAll()
	case p < 30:
		g.ops = append(g.ops, SOp{K: "get", Key: g.key()})
	case p < 36:
		g.ops = append(g.ops, SOp{K: "has", Key: g.key()})
	case p < 44:
		g.ops = append(g.ops, SOp{K: "del", Key: g.key()})
		g.readAll()
	case p < 49:
		g.ops = append(g.ops, SOp{K: "len"})
	case p < 56:
		g.ops = append(g.ops, SOp{K: "keys"})
		g.keyss = append(g.keyss, g.next)
		g.next++
	case p < 64:
		g.ops = append(g.ops, SOp{K: "getall"})
		g.maps = append(g.maps, g.next)
		g.next++
	case p < 66:
		g.ops = append(g.ops, SOp{K: "mergenil"})
	case p < 72:
		var lit [][2]int
		for i := 0; i < r.intn(4); i++ {
			lit = append(lit, [2]int{g.key(), g.val()})
		}
		g.ops = append(g.ops, SOp{K: "mergelit", Lit: lit})
		g.readAll()
	case p < 77:
		if len(g.maps) > 0 {
			g.ops = append(g.ops, SOp{K: "mergesnap", Ref: pick(r, g.maps)})
			g.readAll()
		}
	case p < 82:
		g.ops = append(g.ops, SOp{K: "clear"})
		g.next++
		g.readAll()
	case p < 89:
		if len(g.maps) > 0 {
			g.ops = append(g.ops, SOp{K: "snapset", Ref: pick(r, g.maps), Key: g.key(), Val: g.val()})
			g.ops = append(g.ops, SOp{K: "get", Key: g.ops[len(g.ops)-1].Key}, SOp{K: "len"})
		}
	case p < 93:
		if len(g.maps) > 0 {
			k := g.key()
			g.ops = append(g.ops, SOp{K: "snapdel", Ref: pick(r, g.maps), Key: k}, SOp{K: "has", Key: k})
		}
	case p < 97:
		if len(g.keyss) > 0 {
			g.ops = append(g.ops, SOp{K: "keysset", Ref: pick(r, g.keyss), Idx: r.intn(3), Key: g.key()}, SOp{K: "keys"})
			g.keyss = append(g.keyss, g.next)
			g.next++
		}
	default:
		if len(g.keyss) > 0 {
			g.ops = append(g.ops, SOp{K: "keystrunc", Ref: pick(r, g.keyss), Idx: r.intn(3)}, SOp{K: "len"})
		}
	}
}

func storeCorpus() [][]SOp {
	return [][]SOp{
		// a snapshot of the EMPTY store is mutated; later snapshots of an empty store are clean
		{{K: "getall"}, {K: "snapset", Ref: 1, Key: 1, Val: 11}, {K: "getall"}, {K: "len"}, {K: "has", Key: 1}, {K: "readsnap", Ref: 2}},
		{{K: "set", Key: 1, Val: 1}, {K: "clear"}, {K: "getall"}, {K: "snapset", Ref: 2, Key: 2, Val: 12}, {K: "set", Key: 3, Val: 3}, {K: "clear"}, {K: "getall"}, {K: "readsnap", Ref: 2}},
		// Keys, then the key set changes at equal size, then Keys again
		{{K: "set", Key: 0, Val: 1}, {K: "set", Key: 1, Val: 2}, {K: "set", Key: 2, Val: 3}, {K: "keys"}, {K: "del", Key: 1}, {K: "set", Key: 3, Val: 4}, {K: "keys"}, {K: "len"}, {K: "readkeys", Ref: 1}},
		{{K: "set", Key: 0, Val: 1}, {K: "set", Key: 1, Val: 2}, {K: "keys"}, {K: "del", Key: 0}, {K: "del", Key: 1}, {K: "mergelit", Lit: [][2]int{{4, 14}, {5, 15}}}, {K: "keys"}, {K: "getall"}},
		// Set after Clear; Clear does not touch earlier snapshots
		{{K: "set", Key: 1, Val: 1}, {K: "getall"}, {K: "clear"}, {K: "set", Key: 2, Val: 2}, {K: "get", Key: 2}, {K: "len"}, {K: "readsnap", Ref: 1}, {K: "get", Key: 1}},
		// Merge of an alias of a previous GetAll, mutated in between; the store does not keep the argument
		{{K: "set", Key: 1, Val: 1}, {K: "getall"}, {K: "snapset", Ref: 1, Key: 2, Val: 22}, {K: "mergesnap", Ref: 1}, {K: "snapset", Ref: 1, Key: 3, Val: 33}, {K: "has", Key: 3}, {K: "get", Key: 2}, {K: "len"}},
		// Delete of a missing key, stored nil is present, Merge(nil)
		{{K: "del", Key: 5}, {K: "len"}, {K: "set", Key: 5, Val: 0}, {K: "has", Key: 5}, {K: "get", Key: 5}, {K: "len"}, {K: "mergenil"}, {K: "keys"}, {K: "getall"}},
		// mutating a Keys() slice
		{{K: "set", Key: 1, Val: 1}, {K: "set", Key: 2, Val: 2}, {K: "keys"}, {K: "keysset", Ref: 1, Idx: 0, Key: 7}, {K: "keys"}, {K: "has", Key: 7}, {K: "has", Key: 1}, {K: "readkeys", Ref: 1}},
		// a later binding in a merged map wins
		{{K: "set", Key: 1, Val: 1}, {K: "mergelit", Lit: [][2]int{{1, 2}, {1, 3}, {2, 4}}}, {K: "get", Key: 1}, {K: "get", Key: 2}, {K: "len"}},
		// a second value with the same content but another identity replaces the first (pointer, slice, map)
		{{K: "set", Key: 1, Val: 6}, {K: "set", Key: 1, Val: 16}, {K: "get", Key: 1}, {K: "getall"}},
		{{K: "set", Key: 1, Val: 4}, {K: "set", Key: 1, Val: 14}, {K: "get", Key: 1}, {K: "set", Key: 2, Val: 5}, {K: "mergelit", Lit: [][2]int{{2, 15}}}, {K: "get", Key: 2}, {K: "getall"}},
		{{K: "set", Key: 3, Val: 26}, {K: "getall"}, {K: "set", Key: 3, Val: 36}, {K: "get", Key: 3}, {K: "readsnap", Ref: 1}},
	}
}

func storeMain(prop, tier string, seed uint64, out, replay string) error {
	type sCase struct {
		ID   int      `json:"id"`
		Scen []SOp    `json:"scen"`
		Obs  []SRet   `json:"obs"`
		Tags []string `json:"tags,omitempty"`
	}
	var scens [][]SOp
	var tags [][]string
	if replay != "" {
		b, err := os.ReadFile(replay)
		if err != nil {
			return err
		}
		var w struct {
			Scenario []SOp `json:"scenario"`
			Scen     []SOp `json:"scen"`
		}
		if err := json.Unmarshal(b, &w); err != nil {
			return err
		}
		ops := w.Scenario
		if ops == nil {
			ops = w.Scen
		}
		scens = append(scens, ops)
		tags = append(tags, nil)
	} else {
		for _, c := range storeCorpus() {
			scens = append(scens, c)
			tags = append(tags, []string{"corpus"})
		}
		r := newRng(seed)
		n, maxLen := 400, 60
		if tier == "thorough" {
			n, maxLen = 8000, 200
		}
		for i := 0; i < n; i++ {
			g := &storeGen{r: r, next: 1, nkeys: 2 + r.intn(6), nextV: 0}
			L := 5 + r.intn(maxLen)
			for len(g.ops) < L {
				g.step()
			}
			scens = append(scens, g.ops)
			tags = append(tags, []string{fmt.Sprintf("len=%d", bucket(len(g.ops)/4)*4), fmt.Sprintf("keys=%d", g.nkeys)})
		}
	}
	st := newStats()
	var cases []coqCase
	var jl []any
	seen := map[string]bool{}
	for i, ops := range scens {
		rets := runStore(ops)
		c := sCase{ID: i, Scen: ops, Obs: rets, Tags: tags[i]}
		jl = append(jl, c)
		cases = append(cases, coqCase{id: i, scen: coqOps(ops), obs: coqRets(rets)})
		muts := 0
		for _, o := range ops {
			st.count("op=" + o.K)
			if strings.HasPrefix(o.K, "snap") || strings.HasPrefix(o.K, "keysset") || strings.HasPrefix(o.K, "keystrunc") || o.K == "mergesnap" {
				muts++
			}
		}
		for _, t := range tags[i] {
			st.count(t)
		}
		if muts > 0 {
			b, _ := json.Marshal(ops)
			h := sha256.Sum256(b)
			k := hex.EncodeToString(h[:8])
			if !seen[k] {
				seen[k] = true
				st.DistinctNontrivial++
			}
			if len(st.Samples) < 2 {
				st.Samples = append(st.Samples, c)
			}
		}
	}
	st.Evaluations = len(cases)
	// negative controls: drop an answer / flip a Has / change a Len
	var controls []coqCase
	for i, ops := range scens {
		if len(controls) >= 6 || replay != "" {
			break
		}
		rets := runStore(ops)
		for j, r := range rets {
			if r.K == "n" {
				bad := append([]SRet{}, rets...)
				bad[j].N++
				controls = append(controls, coqCase{id: len(controls), scen: coqOps(ops), obs: coqRets(bad)})
				break
			}
		}
		_ = i
	}
	st.Controls = len(controls)
	st.Scope = "operation sequences over 2..7 keys (empty, non-ASCII and prefix-sharing keys), values of ten kinds incl. nil and non-comparable ones, about 15% snapshot-mutation / merge-of-snapshot steps, contents of the live snapshots re-read after every store update; plus a fixed corpus of hostile sequences"
	st.Rule = "seeded random sequences + corpus; non-trivial when at least one object handed out is mutated or merged back; distinct by sequence hash"
	n, err := writeShards(out, prop, "Store StoreCorr", "sscen", "sobs", "admits_store", "spec_C14", cases, controls)
	if err != nil {
		return err
	}
	st.Shards = n
	if err := writeJSONL(filepath.Join(out, "cases.jsonl"), jl); err != nil {
		return err
	}
	return writeStats(out, st)
}
