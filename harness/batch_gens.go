package main

// Generators of the batch family (C06, C07, C08, C09, C11 and the batch parts of C02, C17,
// C18): one batch node as root (or inside a flow), per-item scripts, gated completion orders.

import "fmt"

type itemPlan struct {
	outs []bool // exec outcome per attempt (true = ok); beyond the list: ok
	fbOK bool
	// cancel the context from inside attempt number cancelAt (-1: never)
	cancelAt int
	errRes   bool // the succeeding attempt returns an error Result (not a Go error)
	sameErr  bool // every failing attempt of the item returns the SAME error value
}

type batchPlan struct {
	n, conc, N, w int
	stop          bool
	fb            string // default | user
	exec          string // res | any
	shape         string // results any-slice ints strs named single nil
	impl          string
	items         []itemPlan
	release       []int
	precancel     bool
	inFlow        bool
	postAct       int
}

func (b *sb) batch(p batchPlan) (int, []string) {
	prepStyle := map[string]string{"results+err": "batch", "results": "batch", "any-slice": "any", "ints": "any", "strs": "res", "named": "any", "single": "any", "nil": "batch", "tok-slice": "res"}[p.shape]
	x := b.add(NodeDef{Kind: "batch", Impl: p.impl, Retry: retry(p.N, p.w), Fb: p.fb, Prep: prepStyle, Exec: p.exec,
		Post: "batch", Conc: p.conc, Stop: p.stop, ExplicitCfg: p.n%2 == 0})
	var toks []Val
	mk := func(sh string) {
		for i := 0; i < p.n; i++ {
			t := b.tok()
			t.Shape = sh
			toks = append(toks, t)
		}
	}
	var pv Val
	switch p.shape {
	case "results":
		mk("")
		l := []Val{}
		for _, t := range toks {
			l = append(l, vRes(t))
		}
		pv = vSl(true, "", l)
	case "results+err":
		// prep hands over Results of which the second is an error Result: still an item to process
		mk("")
		l := []Val{}
		for i, t := range toks {
			if i == 1 {
				l = append(l, vErrRes(b.errID()))
			} else {
				l = append(l, vRes(t))
			}
		}
		pv = vSl(true, "", l)
	case "any-slice":
		mk("")
		pv = vSl(false, "any", toks)
	case "tok-slice":
		mk("")
		pv = vRes(vSl(false, "toks", toks))
	case "ints":
		mk("int")
		pv = vSl(false, "ints", toks)
	case "strs":
		mk("str")
		pv = vSl(false, "strs", toks)
	case "named":
		mk("")
		pv = vSl(false, "named", toks)
	case "single":
		t := b.tok()
		toks = []Val{t}
		pv = t
	default:
		pv = vNil()
	}
	b.script(x, "prep", 0, []Resp{rOk(pv)}, rOk(pv))
	for i, t := range toks {
		ip := itemPlan{cancelAt: -1}
		if i < len(p.items) {
			ip = p.items[i]
		}
		var rs []Resp
		same := 0
		if ip.sameErr {
			same = b.errID()
		}
		for a, ok := range ip.outs {
			var r Resp
			if ok {
				if ip.errRes {
					r = rOk(vErrRes(b.errID()))
				} else {
					r = rOk(vTok(1000 + 16*i + a))
				}
			} else if ip.sameErr {
				r = rErr(same)
			} else {
				r = rErr(b.errID())
			}
			if a == ip.cancelAt {
				r.Cancel = true
			}
			rs = append(rs, r)
		}
		dflt := rOk(vTok(1000 + 16*i + 15))
		if ip.cancelAt >= len(ip.outs) {
			for a := len(ip.outs); a <= ip.cancelAt; a++ {
				r := rOk(vTok(1000 + 16*i + a))
				if a == ip.cancelAt {
					r.Cancel = true
				}
				rs = append(rs, r)
			}
		}
		b.script(x, "exec", t.N, rs, dflt)
		if p.fb == "user" {
			if ip.fbOK {
				b.script(x, "fb", t.N, []Resp{rOk(vTok(2000 + i))}, rOk(vTok(2000+i)))
			} else {
				b.script(x, "fb", t.N, []Resp{rErr(b.errID())}, rErr(b.errID()))
			}
		}
	}
	b.script(x, "post", 0, []Resp{rAct(p.postAct)}, rAct(p.postAct))
	tags := []string{fmt.Sprintf("n=%d", bucket(p.n)), fmt.Sprintf("c=%d", p.conc), fmt.Sprintf("N=%d", p.N), "shape=" + p.shape, "exec=" + p.exec, "fb=" + p.fb}
	if p.stop {
		tags = append(tags, "mode=stop")
	} else {
		tags = append(tags, "mode=continue")
	}
	return x, tags
}

func (p batchPlan) scen() taggedScen {
	b := newSB()
	x, tags := b.batch(p)
	b.sc.Root = x
	if p.inFlow {
		y := b.marker()
		b.sc.Root = b.flow(x, [][]int{{x, 1, y}, {x, 5, y}})
		tags = append(tags, "in_flow")
	}
	b.sc.Release = p.release
	b.sc.PreCancel = p.precancel
	if p.precancel {
		tags = append(tags, "precancel")
	}
	return taggedScen{sc: b.sc, tags: tags, nontrivial: p.n > 1}
}

func permutations(n int, f func([]int)) {
	a := make([]int, n)
	for i := range a {
		a[i] = i
	}
	var rec func(k int)
	rec = func(k int) {
		if k == n {
			f(append([]int{}, a...))
			return
		}
		for i := k; i < n; i++ {
			a[k], a[i] = a[i], a[k]
			rec(k + 1)
			a[k], a[i] = a[i], a[k]
		}
	}
	rec(0)
}

// relOf: release priority from an item order; itemMajor: all attempts of an item before the
// next item, else attempt-major
func relOf(order []int, N int, itemMajor bool) []int {
	var rel []int
	if itemMajor {
		for _, i := range order {
			for a := 0; a <= N; a++ {
				rel = append(rel, 16*i+a)
			}
		}
	} else {
		for a := 0; a <= N; a++ {
			for _, i := range order {
				rel = append(rel, 16*i+a)
			}
		}
	}
	return rel
}

func randOrder(r *rng, n int) []int {
	a := make([]int, n)
	for i := range a {
		a[i] = i
	}
	for i := n - 1; i > 0; i-- {
		j := r.intn(i + 1)
		a[i], a[j] = a[j], a[i]
	}
	return a
}

var batchShapes = []string{"results", "any-slice", "ints", "strs", "named", "tok-slice"}

func genBatch(r *rng, tier, prop string, st *stats) []taggedScen {
	var out []taggedScen
	thorough := tier == "thorough"
	impls := []string{"opt", "bld", "mix"}
	cnt := 0
	next := func() int { cnt++; return cnt }
	// F1: completion orders, exhaustive for small (n, c)
	maxN := 5
	if thorough {
		maxN = 7
	}
	for n := 1; n <= maxN; n++ {
		for c := 1; c <= 4; c++ {
			if n >= 6 && c == 1 {
				continue // one worker: the order is forced
			}
			permutations(n, func(order []int) {
				k := next()
				if n == maxN && !thorough && k%3 != 0 {
					return
				}
				if n == maxN && thorough && k%4 != 0 {
					return // 5040 orders x 3 worker counts: every fourth (the evaluation of a case costs about a second)
				}
				p := batchPlan{n: n, conc: c, N: 1, fb: "default", exec: []string{"res", "any"}[k%2], shape: batchShapes[k%len(batchShapes)],
					impl: impls[k%3], release: relOf(order, 1, true), postAct: 5}
				// one item in a few fails, so that error slots are positional too
				if k%4 == 0 {
					p.items = make([]itemPlan, n)
					for i := range p.items {
						p.items[i] = itemPlan{cancelAt: -1}
					}
					p.items[k%n] = itemPlan{outs: []bool{false}, cancelAt: -1}
				}
				out = append(out, p.scen())
			})
		}
	}
	// sequential: every n in 0..64 (thorough), sampled in quick; every prep shape incl. nil / single
	for n := 0; n <= 64; n++ {
		if !thorough && n > 8 && n%8 != 0 {
			continue
		}
		k := next()
		p := batchPlan{n: n, conc: 0, N: 1 + k%2, fb: "default", exec: []string{"res", "any"}[k%2], shape: batchShapes[k%len(batchShapes)],
			impl: impls[k%3], postAct: 5, stop: k%5 == 0}
		if n > 2 {
			p.items = make([]itemPlan, n)
			for i := range p.items {
				p.items[i] = itemPlan{cancelAt: -1}
			}
			p.items[n/2] = itemPlan{outs: []bool{false, false}, cancelAt: -1}
		}
		out = append(out, p.scen())
	}
	for _, sh := range []string{"single", "nil"} {
		for c := 0; c <= 2; c++ {
			out = append(out, batchPlan{n: 1, conc: c, N: 1, fb: "default", exec: "res", shape: sh, impl: "bld", postAct: 5}.scen())
		}
	}
	// random large: n <= 64, c <= 16
	nrand := 40
	if thorough {
		nrand = 200
	}
	for i := 0; i < nrand; i++ {
		n := 1 + r.intn(64)
		if !thorough {
			n = 1 + r.intn(24)
		}
		c := 1 + r.intn(16)
		N := 1 + r.intn(3)
		p := batchPlan{n: n, conc: c, N: N, fb: pick(r, []string{"default", "user"}), exec: pick(r, []string{"res", "any"}),
			shape: pick(r, batchShapes), impl: pick(r, impls), release: relOf(randOrder(r, n), N, r.chance(50)), postAct: 5,
			stop: r.chance(25), inFlow: r.chance(20)}
		p.items = make([]itemPlan, n)
		for j := range p.items {
			ip := itemPlan{cancelAt: -1, fbOK: r.chance(60)}
			if r.chance(30) {
				f := 1 + r.intn(N)
				for a := 0; a < f; a++ {
					ip.outs = append(ip.outs, false)
				}
			}
			if r.chance(5) {
				ip.errRes = true
				ip.outs = append(ip.outs, true)
			}
			p.items[j] = ip
		}
		if r.chance(10) {
			p.items[r.intn(n)].cancelAt = r.intn(N)
		}
		out = append(out, p.scen())
	}
	// F2: per-item scripts, n = 3, N <= 2, every assignment, c in {0, 2}, completion orders
	type ik struct {
		outs []bool
	}
	kinds := [][]bool{{}, {false}, {false, false}} // ok | fail-ok | fail-fail
	for _, fb := range []string{"default", "user-ok", "user-err"} {
		for a := 0; a < 27; a++ {
			for _, c := range []int{0, 2} {
				for N := 1; N <= 2; N++ {
					orders := [][]int{{0, 1, 2}}
					if c > 0 {
						orders = [][]int{{0, 1, 2}, {2, 1, 0}, {1, 2, 0}}
					}
					for oi, order := range orders {
						k := next()
						if !thorough && (k%2 == 0) {
							continue
						}
						p := batchPlan{n: 3, conc: c, N: N, fb: "default", exec: []string{"res", "any"}[k%2], shape: batchShapes[k%len(batchShapes)],
							impl: impls[k%3], release: relOf(order, N, oi%2 == 0), postAct: 5}
						if fb != "default" {
							p.fb = "user"
						}
						p.items = []itemPlan{
							{outs: kinds[a%3], fbOK: fb == "user-ok", cancelAt: -1},
							{outs: kinds[(a/3)%3], fbOK: fb == "user-ok", cancelAt: -1},
							{outs: kinds[(a/9)%3], fbOK: fb == "user-ok", cancelAt: -1}}
						out = append(out, p.scen())
					}
				}
			}
		}
	}
	// F3: stop mode, every position of the first failing item
	maxStop := 8
	if thorough {
		maxStop = 16
	}
	for n := 2; n <= maxStop; n++ {
		if !thorough && n > 5 && n%2 == 1 {
			continue
		}
		for f := 0; f < n; f++ {
			for c := 0; c <= 4; c++ {
				for _, stop := range []bool{true, false} {
					k := next()
					if !stop && k%3 != 0 {
						continue
					}
					// release orders: the failing item first / last among the parked / random
					var orders [][]int
					first := []int{f}
					last := []int{}
					for i := 0; i < n; i++ {
						if i != f {
							first = append(first, i)
							last = append(last, i)
						}
					}
					last = append(last, f)
					orders = append(orders, first)
					if c > 1 {
						orders = append(orders, last, randOrder(r, n))
					}
					for _, order := range orders {
						p := batchPlan{n: n, conc: c, N: 1 + k%2, fb: "default", exec: []string{"res", "any"}[k%2], shape: batchShapes[k%len(batchShapes)],
							impl: impls[k%3], release: relOf(order, 2, true), postAct: 5, stop: stop}
						p.items = make([]itemPlan, n)
						for i := range p.items {
							p.items[i] = itemPlan{cancelAt: -1}
						}
						p.items[f] = itemPlan{outs: []bool{false, false}, cancelAt: -1}
						if k%7 == 0 && f+1 < n { // a second failing item later
							p.items[n-1] = itemPlan{outs: []bool{false, false}, cancelAt: -1}
						}
						out = append(out, p.scen())
					}
				}
			}
		}
	}
	// F4: cancellation before the run and from inside the exec of every item index and attempt
	maxC := 6
	if thorough {
		maxC = 12
	}
	for n := 1; n <= maxC; n++ {
		if !thorough && n == 5 {
			continue
		}
		for c := 0; c <= 4; c++ {
			for _, stop := range []bool{false, true} {
				for _, w := range []int{0, 1} {
					k := next()
					if w == 1 && k%3 != 0 {
						continue
					}
					N := 1 + k%3
					pre := batchPlan{n: n, conc: c, N: N, w: w, fb: "default", exec: "res", shape: batchShapes[k%len(batchShapes)], impl: impls[k%3],
						postAct: 5, stop: stop, precancel: true}
					out = append(out, pre.scen())
					for ci := 0; ci < n; ci++ {
						for att := 0; att < N; att++ {
							kk := next()
							if !thorough && n > 3 && kk%2 == 0 {
								continue
							}
							p := batchPlan{n: n, conc: c, N: N, w: w, fb: []string{"default", "user"}[kk%2], exec: []string{"res", "any"}[kk%2],
								shape: batchShapes[kk%len(batchShapes)], impl: impls[kk%3], postAct: 5, stop: stop}
							order := randOrder(r, n)
							if kk%2 == 0 { // the cancelling item first
								order = append([]int{ci}, order...)
							}
							p.release = relOf(order, N, kk%3 == 0)
							p.items = make([]itemPlan, n)
							for i := range p.items {
								p.items[i] = itemPlan{cancelAt: -1, fbOK: true}
								if (i+kk)%3 == 0 { // some other items fail once, so that retries are due after the cancel
									p.items[i].outs = []bool{false}
								}
							}
							ip := itemPlan{cancelAt: att, fbOK: true}
							for a := 0; a < att; a++ {
								ip.outs = append(ip.outs, false)
							}
							if kk%2 == 1 { // the cancelling attempt fails too: a retry would be due
								ip.outs = append(ip.outs, false)
							}
							p.items[ci] = ip
							out = append(out, p.scen())
						}
					}
				}
			}
		}
	}
	// F6: the same error value on consecutive attempts (budgets 3 and 4): fail,fail,ok / fail,fail,fail,ok /
	// all attempts fail, sequential and concurrent
	for _, N := range []int{3, 4} {
		for _, c := range []int{0, 2} {
			for pat := 0; pat < 3; pat++ {
				k := next()
				n := 3
				p := batchPlan{n: n, conc: c, N: N, fb: []string{"default", "user"}[k%2], exec: []string{"res", "any"}[k%2],
					shape: "results", impl: impls[k%3], postAct: 5}
				p.items = make([]itemPlan, n)
				for i := range p.items {
					p.items[i] = itemPlan{cancelAt: -1, fbOK: true}
				}
				var outs []bool
				switch pat {
				case 0:
					outs = []bool{false, false, true}
				case 1:
					for a := 0; a < N-1; a++ {
						outs = append(outs, false)
					}
					outs = append(outs, true)
				default:
					for a := 0; a < N+1; a++ {
						outs = append(outs, false)
					}
				}
				p.items[k%n] = itemPlan{outs: outs, cancelAt: -1, fbOK: true, sameErr: true}
				ts := p.scen()
				ts.tags = append(ts.tags, "same_error_on_consecutive_attempts")
				out = append(out, ts)
			}
		}
	}
	// F7: items that are error Results; retry waits while the other workers are busy; budgets below one
	for _, c := range []int{0, 2} {
		for _, N := range []int{1, 2} {
			k := next()
			p := batchPlan{n: 3, conc: c, N: N, fb: []string{"default", "user"}[k%2], exec: "res", shape: "results+err", impl: impls[k%3], postAct: 5}
			ts := p.scen()
			ts.tags = append(ts.tags, "item_is_error_result")
			out = append(out, ts)
		}
	}
	for _, c := range []int{1, 2} {
		for _, stop := range []bool{false, true} {
			k := next()
			n := c + 3
			p := batchPlan{n: n, conc: c, N: 3, w: 1, stop: stop, fb: "default", exec: []string{"res", "any"}[k%2], shape: "results", impl: impls[k%3], postAct: 5}
			p.items = make([]itemPlan, n)
			for i := range p.items {
				p.items[i] = itemPlan{cancelAt: -1, fbOK: true}
			}
			p.items[0] = itemPlan{outs: []bool{false, false, true}, cancelAt: -1, fbOK: true}
			ts := p.scen()
			ts.tags = append(ts.tags, "retry_wait_with_busy_workers")
			out = append(out, ts)
		}
	}
	for _, N := range []int{0, -1} {
		for _, c := range []int{0, 2} {
			for _, stop := range []bool{false, true} {
				k := next()
				p := batchPlan{n: 3, conc: c, N: N, stop: stop, fb: []string{"default", "user"}[k%2], exec: []string{"res", "any"}[k%2], shape: "results", impl: impls[k%3], postAct: 5}
				p.items = make([]itemPlan, 3)
				for i := range p.items {
					p.items[i] = itemPlan{cancelAt: -1, fbOK: true}
				}
				p.items[k%3] = itemPlan{outs: []bool{false, false}, cancelAt: -1, fbOK: k%2 == 0}
				ts := p.scen()
				ts.tags = append(ts.tags, fmt.Sprintf("budget=%d", N))
				out = append(out, ts)
			}
		}
	}
	// F8: the same batch node run twice, with scalar items, and outcomes that differ between the runs
	for _, c := range []int{0, 2} {
		for _, shape := range []string{"results", "ints", "strs"} {
			for _, stop := range []bool{false, true} {
				k := next()
				p := batchPlan{n: 3, conc: c, N: 1, stop: stop, fb: "default", exec: []string{"res", "any"}[k%2], shape: shape, impl: impls[k%3], postAct: 5}
				p.items = make([]itemPlan, 3)
				for i := range p.items {
					p.items[i] = itemPlan{cancelAt: -1, fbOK: true}
				}
				// item k%3: fails in the first run, succeeds in the second; item (k+1)%3 the other way round
				p.items[k%3] = itemPlan{outs: []bool{false, true}, cancelAt: -1, fbOK: true}
				p.items[(k+1)%3] = itemPlan{outs: []bool{true, false}, cancelAt: -1, fbOK: true}
				ts := p.scen()
				ts.sc.Runs = 2
				ts.tags = append(ts.tags, "same_node_run_twice")
				out = append(out, ts)
			}
		}
	}
	// F5: the queue stays full for a while: more items than workers + queue (2 x workers) so that the
	// submitter is blocked in Submit, and the controller sits on the first quiescent point before
	// it releases anything.  A pool that gives up blocking after some time shows here.
	holds := []int{150}
	if thorough {
		holds = []int{150, 1200}
	}
	for _, hold := range holds {
		for _, c := range []int{1, 2, 3} {
			n := 3*c + 2
			p := batchPlan{n: n, conc: c, N: 1, fb: "default", exec: "res", shape: "results", impl: impls[c%3], postAct: 5}
			ts := p.scen()
			ts.sc.HoldPoint = 0
			ts.sc.HoldMs = hold
			ts.tags = append(ts.tags, fmt.Sprintf("queue_full_held_%dms", hold))
			out = append(out, ts)
		}
	}
	_ = prop
	st.Exhaustive = true
	st.Scope = fmt.Sprintf("queue kept full for 150 ms (thorough: also 1.2 s) with the submitter blocked; completion orders: every permutation of release priorities for n <= %d, c in 1..4 (gated, quiescence-driven); sequential n in 0..64; per-item scripts {ok, fail-ok, fail-fail}^3 x fallback {default, user ok, user err} x N <= 2 x c in {0,2}; first failing item at every position for n <= %d, c in 0..4, both modes; cancellation before the run and inside every item/attempt for n <= %d, c in 0..4, both modes, w in {0,1ms}; random batches", maxN, maxStop, maxC)
	st.Rule = "enumeration + seeded random; non-trivial when the batch has more than one item; distinct by scenario hash"
	return out
}

// batchPool: a small mixed set of batch scenarios (sequential and gated concurrent) that every
// engine-family check runs besides its own enumeration.
func batchPool(r *rng, tier string) []taggedScen {
	var out []taggedScen
	n := 60
	if tier == "thorough" {
		n = 600
	}
	impls := []string{"opt", "bld", "mix"}
	for i := 0; i < n; i++ {
		k := 1 + r.intn(5)
		N := 1 + r.intn(3)
		p := batchPlan{n: k, conc: r.intn(4), N: N, fb: pick(r, []string{"default", "user"}), exec: pick(r, []string{"res", "any"}),
			shape: pick(r, batchShapes), impl: pick(r, impls), release: relOf(randOrder(r, k), N, r.chance(50)),
			postAct: pick(r, []int{5, 1, 0}), stop: r.chance(30), inFlow: r.chance(30)}
		p.items = make([]itemPlan, k)
		for j := range p.items {
			ip := itemPlan{cancelAt: -1, fbOK: r.chance(50)}
			switch r.intn(5) {
			case 0: // fails a few times, then succeeds (within or beyond the budget)
				for a := 0; a < 1+r.intn(N); a++ {
					ip.outs = append(ip.outs, false)
				}
			case 1: // the exec function reports failure as an error Result
				ip.errRes = true
				ip.outs = []bool{true}
			case 2: // never succeeds
				for a := 0; a <= N; a++ {
					ip.outs = append(ip.outs, false)
				}
			}
			p.items[j] = ip
		}
		if r.chance(8) {
			p.items[r.intn(k)].cancelAt = r.intn(N)
		}
		sc := p.scen()
		sc.tags = append(sc.tags, "pool")
		out = append(out, sc)
	}
	return out
}
