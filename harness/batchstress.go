package main

// Batchstress family (C09): free-running concurrent batches in stop mode.  No gating: the
// interleaving "an item fails while other items are in flight, and those complete while the
// queue is still being drained" cannot be produced by parking exec calls (the drain makes no
// callback), only by real concurrency over a long queue.  The observation is judged in Coq by a
// bound that holds under every schedule (Corr/BatchStressCorr.v).

import (
	"context"
	"encoding/json"
	"errors"
	"fmt"
	"os"
	"path/filepath"
	"strings"
	"sync"
	"sync/atomic"
	"time"

	"github.com/mark3labs/flyt"
)

type BStress struct {
	N        int   `json:"n"`
	Workers  int   `json:"workers"`
	FailAt   int   `json:"fail_at"`
	Slow     []int `json:"slow"`
	Executed []int `json:"executed"`
	Skipped  []int `json:"skipped"`
	Fake     int   `json:"fake"`
	Wrong    int   `json:"wrong"`
	Posts    int   `json:"posts"`
	PostLen  bool  `json:"post_len_ok"`
	Timeout  bool  `json:"timeout,omitempty"`
}

// brief: the run without the long lists (the replay needs only its parameters)
func (o BStress) brief() map[string]any {
	sk := o.Skipped
	if len(sk) > 8 {
		sk = sk[:8]
	}
	return map[string]any{"n": o.N, "workers": o.Workers, "fail_at": o.FailAt, "slow": o.Slow,
		"executed": o.judged(), "executed_total": len(o.Executed), "skipped_total": len(o.Skipped), "skipped_first": sk,
		"fake": o.Fake, "wrong": o.Wrong, "posts": o.Posts, "post_len_ok": o.PostLen, "timeout": o.Timeout}
}

func zlist(l []int) string {
	s := make([]string, len(l))
	for i, x := range l {
		s[i] = fmt.Sprint(x)
	}
	return "[" + strings.Join(s, "; ") + "]"
}

// the executed list as judged in Coq: everything up to the smallest skipped index, and at most
// 1000 entries above it (a cut that can neither hide nor create a violation of a bound < 1000)
func (o BStress) judged() []int {
	min := o.N
	for _, s := range o.Skipped {
		if s < min {
			min = s
		}
	}
	var out []int
	above := 0
	for _, e := range o.Executed {
		if e > min {
			above++
			if above > 1000 {
				continue
			}
		}
		out = append(out, e)
	}
	return out
}

func (o BStress) Coq() string {
	min := []int{}
	if len(o.Skipped) > 0 {
		m := o.Skipped[0]
		for _, s := range o.Skipped {
			if s < m {
				m = s
			}
		}
		min = []int{m}
	}
	return fmt.Sprintf("{| bs_n := %d; bs_workers := %d; bs_fail := %d;\n     bs_executed := %s;\n     bs_skipped := %s;\n     bs_fake := %d; bs_wrong := %d; bs_posts := %d; bs_post_len_ok := %v |}%%Z",
		o.N, o.Workers, o.FailAt, zlist(o.judged()), zlist(min), o.Fake, o.Wrong, o.Posts, o.PostLen && !o.Timeout)
}

// runBatchStress: n items, c workers, stop mode.  The items in slow block until the failing item
// has failed and a little longer; item failAt fails; all others succeed at once.
func runBatchStress(n, c, failAt int, slow []int, releaseAfter time.Duration, viaOptions bool) BStress {
	o := BStress{N: n, Workers: c, FailAt: failAt, Slow: slow}
	isSlow := map[int]bool{}
	for _, s := range slow {
		isSlow[s] = true
	}
	executed := make([]int32, n)
	gate := make(chan struct{})
	var once sync.Once
	var posts int32
	postLen := false
	var finalResults []flyt.Result
	exec := func(ctx context.Context, it flyt.Result) (flyt.Result, error) {
		i := it.Value().(int)
		atomic.AddInt32(&executed[i], 1)
		if i == failAt {
			once.Do(func() { time.AfterFunc(releaseAfter, func() { close(gate) }) })
			return flyt.Result{}, errors.New("item failed")
		}
		if isSlow[i] {
			select {
			case <-gate:
			case <-time.After(5 * time.Second):
			}
		}
		return flyt.NewResult(i + 1000000), nil
	}
	var b *flyt.BatchNodeBuilder
	if viaOptions {
		b = flyt.NewBatchNode(flyt.WithBatchConcurrency(c), flyt.WithBatchErrorHandling(false))
	} else {
		b = flyt.NewBatchNode().WithBatchConcurrency(c).WithBatchErrorHandling(false)
	}
	b.WithPrepFunc(func(ctx context.Context, s *flyt.SharedStore) ([]flyt.Result, error) {
		items := make([]flyt.Result, n)
		for i := range items {
			items[i] = flyt.NewResult(i)
		}
		return items, nil
	})
	b.WithExecFunc(exec)
	b.WithPostFunc(func(ctx context.Context, s *flyt.SharedStore, items, results []flyt.Result) (flyt.Action, error) {
		atomic.AddInt32(&posts, 1)
		postLen = len(items) == n && len(results) == n
		finalResults = results
		return "done", nil
	})
	done := make(chan struct{})
	go func() {
		defer close(done)
		flyt.Run(context.Background(), b, flyt.NewSharedStore())
	}()
	select {
	case <-done:
	case <-time.After(30 * time.Second):
		o.Timeout = true
		return o
	}
	o.Posts = int(atomic.LoadInt32(&posts))
	o.PostLen = postLen
	for i := 0; i < n && i < len(finalResults); i++ {
		r := finalResults[i]
		ex := atomic.LoadInt32(&executed[i]) > 0
		if ex {
			o.Executed = append(o.Executed, i)
			if i == failAt {
				if !r.IsError() {
					o.Wrong++
				}
			} else if r.IsError() || r.Value() != i+1000000 {
				o.Wrong++
			}
			continue
		}
		if !r.IsError() {
			o.Fake++
			continue
		}
		if strings.Contains(r.Error().Error(), "stopped") {
			o.Skipped = append(o.Skipped, i)
		}
	}
	return o
}

// batchStressReplay re-runs the parameters of a recorded run (a few times: which interleaving a
// free run reaches is up to the scheduler) and writes a one-case shard for the last one, or for
// the first one that breaks the bound.
func batchStressReplay(prop, file, out string) error {
	b, err := os.ReadFile(file)
	if err != nil {
		return err
	}
	var w struct {
		Obs  *BStress `json:"impl_obs"`
		Obs2 *BStress `json:"obs"`
	}
	if err := json.Unmarshal(b, &w); err != nil {
		return err
	}
	p := w.Obs
	if p == nil {
		p = w.Obs2
	}
	if p == nil {
		return fmt.Errorf("no recorded run in %s", file)
	}
	var o BStress
	for try := 0; try < 8; try++ {
		o = runBatchStress(p.N, p.Workers, p.FailAt, p.Slow, time.Duration(20+10*try)*time.Millisecond, try%2 == 0)
		min := p.N
		for _, s := range o.Skipped {
			if s < min {
				min = s
			}
		}
		inv := 0
		for _, e := range o.Executed {
			if e > min && e > o.FailAt {
				inv++
			}
		}
		if inv > o.Workers-1 || o.Fake > 0 || o.Wrong > 0 || o.Posts != 1 {
			break
		}
	}
	s := o
	if len(s.Skipped) > 8 {
		s.Skipped = s.Skipped[:8]
	}
	if len(s.Executed) > 40 {
		s.Executed = s.Executed[:40]
	}
	pretty, _ := json.MarshalIndent(s, "", " ")
	fmt.Printf("implementation observation (lists cut to 40 / 8 entries; %d executed, %d skipped):\n%s\n", len(o.Executed), len(o.Skipped), pretty)
	if out == "" {
		return nil
	}
	if _, err := writeShards(out, prop, "BatchStressCorr", "bxscen", "bstress", "spec_C09_stress", "spec_C09_stress",
		[]coqCase{{id: 0, scen: "0", obs: o.Coq()}}, nil); err != nil {
		return err
	}
	return writeJSONL(filepath.Join(out, "cases.jsonl"), []any{map[string]any{"id": 0, "scen": 0, "obs": o.brief()}})
}

func batchStressMain(prop, tier string, seed uint64, out, replay string) error {
	if replay != "" {
		return batchStressReplay(prop, replay, out)
	}
	r := newRng(seed)
	st := newStats()
	var cases []coqCase
	var jl []any
	reps := 6
	n := 200000
	if tier == "thorough" {
		reps = 30
		n = 400000
	}
	id := 0
	for rep := 0; rep < reps; rep++ {
		// two workers: the bound then holds for every schedule without any timing assumption
		// (DESIGN.md 14.5); with more workers it would need one
		for _, c := range []int{2} {
			// the first c-1 items are in flight and slow; the next one fails
			failAt := c - 1 + r.intn(3)
			var slow []int
			for i := 0; i < failAt && len(slow) < c-1; i++ {
				slow = append(slow, i)
			}
			rel := time.Duration(20+r.intn(40)) * time.Millisecond
			o := runBatchStress(n, c, failAt, slow, rel, rep%2 == 0)
			jl = append(jl, map[string]any{"id": id, "scen": id, "obs": o.brief(),
				"tags": []string{fmt.Sprintf("workers=%d", c), fmt.Sprintf("n=%d", n)}})
			cases = append(cases, coqCase{id: id, scen: fmt.Sprint(id), obs: o.Coq()})
			st.count(fmt.Sprintf("workers=%d", c))
			st.count(fmt.Sprintf("executed<=%d", bucket(len(o.Executed))))
			if len(o.Skipped) > 0 {
				st.count("runs_with_skipped_items")
				st.DistinctNontrivial++
			}
			if len(st.Samples) < 2 {
				st.Samples = append(st.Samples, o.brief())
			}
			id++
		}
	}
	st.Evaluations = len(cases)
	st.Scope = fmt.Sprintf("stop mode, %d items, 2 workers, item 0 held in flight until 20..60 ms after one of items 1..3 failed (the rest of the queue takes several times longer to drain), all other items instant; free-running (no gating); configured through options and through builder calls", n)
	st.Rule = "seeded stress runs; non-trivial when at least one item was skipped"
	nsh, err := writeShards(out, prop, "BatchStressCorr", "bxscen", "bstress", "spec_C09_stress", "spec_C09_stress", cases, nil)
	if err != nil {
		return err
	}
	st.Shards = nsh
	if err := writeJSONL(filepath.Join(out, "cases.jsonl"), jl); err != nil {
		return err
	}
	return writeStats(out, st)
}
