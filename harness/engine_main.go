package main

import (
	"crypto/sha256"
	"encoding/hex"
	"encoding/json"
	"fmt"
	"os"
	"path/filepath"
	"runtime"
	"runtime/debug"
)

type taggedScen struct {
	sc         EScen
	tags       []string
	nontrivial bool
}

func engineMain(prop, tier string, seed uint64, out, replay string) error {
	// gated runs recognise quiescence from goroutine states: keep the collector from parking
	// goroutines on its own; collect between scenarios instead
	debug.SetGCPercent(-1)
	if replay != "" {
		return engineReplay(prop, replay, out)
	}
	r := newRng(seed)
	st := newStats()
	var scens []taggedScen
	switch prop {
	case "C18":
		scens = genC18(r, tier, st)
	case "C01":
		scens = genC01(r, tier, st)
	case "C02":
		scens = genC02(r, tier, st)
	case "C04":
		scens = genC04(r, tier, st)
	case "C05":
		scens = genC05(r, tier, st)
	case "C17":
		scens = genC17(r, tier, st)
	case "C06", "C07", "C08", "C09", "C11":
		scens = genBatch(r, tier, prop, st)
	case "C03":
		scens = genC03(r, tier, st)
	case "C10":
		scens = genC10(r, tier, st)
	default:
		return fmt.Errorf("engine family has no generator for %q", prop)
	}
	return engineEmit(prop, out, scens, st)
}

func engineEmit(prop, out string, scens []taggedScen, st *stats) error {
	var cases []coqCase
	var jl []any
	seen := map[string]bool{}
	for i, ts := range scens {
		if i%64 == 63 {
			runtime.GC()
		}
		noteProgress(out, i, ts)
		obs := runEngine(ts.sc)
		c := ECase{ID: i, Scen: ts.sc, Obs: obs, Tags: ts.tags}
		jl = append(jl, c)
		cases = append(cases, coqCase{id: i, scen: ts.sc.Coq(), obs: obs.Coq()})
		for _, t := range ts.tags {
			st.count(t)
		}
		st.count(fmt.Sprintf("trace_len=%d", bucket(traceLen(obs))))
		for _, run := range obs.Runs {
			if run.Outcome.Err == nil {
				st.count("outcome=done")
			} else {
				st.count("outcome=fail:" + run.Outcome.Err.K)
			}
		}
		if ts.nontrivial {
			b, _ := json.Marshal(ts.sc)
			h := sha256.Sum256(b)
			k := hex.EncodeToString(h[:8])
			if !seen[k] {
				seen[k] = true
				st.DistinctNontrivial++
			}
		}
		if len(st.Samples) < 3 && ts.nontrivial {
			st.Samples = append(st.Samples, c)
		}
		hung := false
		for _, run := range obs.Runs {
			if run.Timeout {
				hung = true
			}
		}
		if hung {
			// goroutines of a run that never returned are still around and would disturb every
			// later scenario: judge what was run so far, the hung scenario included
			st.Extra["aborted_after_timeout_at"] = i
			break
		}
	}
	st.Evaluations = len(cases)
	st.Extra["forced_releases"] = forcedReleases
	controls := engineControls(jl)
	st.Controls = len(controls)
	n, err := writeShards(out, prop, engineImports(prop),
		"escen", "eobs", "admits_engine", specName(prop), cases, controls)
	if err != nil {
		return err
	}
	st.Shards = n
	if err := writeJSONL(filepath.Join(out, "cases.jsonl"), jl); err != nil {
		return err
	}
	return writeStats(out, st)
}

func traceLen(o EObs) int {
	n := 0
	for _, r := range o.Runs {
		n += len(r.Trace)
	}
	return n
}

func bucket(n int) int {
	switch {
	case n <= 4:
		return n
	case n <= 8:
		return 8
	case n <= 16:
		return 16
	case n <= 32:
		return 32
	}
	return 64
}

// engineControls corrupts observations of real cases; none may be admitted.
func engineControls(cases []any) []coqCase {
	var out []coqCase
	id := 0
	for _, a := range cases {
		c := a.(ECase)
		if len(out) >= 12 {
			break
		}
		if len(c.Obs.Runs) == 0 || len(c.Obs.Runs[0].Trace) == 0 {
			continue
		}
		// (a) drop the last callback
		o1 := cloneObs(c.Obs)
		o1.Runs[0].Trace = o1.Runs[0].Trace[:len(o1.Runs[0].Trace)-1]
		out = append(out, coqCase{id: id, scen: c.Scen.Coq(), obs: o1.Coq()})
		id++
		// (b) flip the outcome
		o2 := cloneObs(c.Obs)
		if o2.Runs[0].Outcome.Err == nil {
			o2.Runs[0].Outcome = EOutcome{Action: 0, Err: &Err{K: "fw"}}
		} else {
			o2.Runs[0].Outcome = EOutcome{Action: 1}
		}
		out = append(out, coqCase{id: id, scen: c.Scen.Coq(), obs: o2.Coq()})
		id++
		// (c) duplicate the first callback
		o3 := cloneObs(c.Obs)
		o3.Runs[0].Trace = append([]Event{o3.Runs[0].Trace[0]}, o3.Runs[0].Trace...)
		out = append(out, coqCase{id: id, scen: c.Scen.Coq(), obs: o3.Coq()})
		id++
	}
	return out
}

func cloneObs(o EObs) EObs {
	b, _ := json.Marshal(o)
	var c EObs
	json.Unmarshal(b, &c)
	for i := range c.Runs {
		if c.Runs[i].Trace == nil {
			c.Runs[i].Trace = []Event{}
		}
	}
	return c
}

// engineReplay re-runs one scenario (a case object or a bare scenario) and writes a
// one-case shard so the same verdict functions judge it.
func engineReplay(prop, file, out string) error {
	b, err := os.ReadFile(file)
	if err != nil {
		return err
	}
	var wrapper struct {
		Scenario *EScen `json:"scenario"`
		Scen     *EScen `json:"scen"`
	}
	if err := json.Unmarshal(b, &wrapper); err != nil {
		return err
	}
	sc := wrapper.Scenario
	if sc == nil {
		sc = wrapper.Scen
	}
	if sc == nil {
		var s EScen
		if err := json.Unmarshal(b, &s); err != nil {
			return err
		}
		sc = &s
	}
	obs := runEngine(*sc)
	c := ECase{ID: 0, Scen: *sc, Obs: obs}
	pretty, _ := json.MarshalIndent(obs, "", " ")
	fmt.Printf("implementation observation:\n%s\n", pretty)
	if out == "" {
		return nil
	}
	_, err = writeShards(out, prop, engineImports(prop),
		"escen", "eobs", "admits_engine", specName(prop),
		[]coqCase{{id: 0, scen: sc.Coq(), obs: obs.Coq()}}, nil)
	if err != nil {
		return err
	}
	return writeJSONL(filepath.Join(out, "cases.jsonl"), []any{c})
}

// ---------------------------------------------------------------- C18

// genC18: every node kind x post action in {"", "default", custom} x (for batches) item
// counts 0..3 and the prep shapes that give zero items; run directly and as a routed step of
// a flow with successors on the default and on the custom action.
func genC18(r *rng, tier string, st *stats) []taggedScen {
	var out []taggedScen
	acts := []int{0, 1, 5, 8, 9}
	add := func(b *sb, tags []string, nontrivial bool) {
		out = append(out, taggedScen{sc: b.sc, tags: tags, nontrivial: nontrivial})
	}
	marker := func(b *sb) int {
		id := b.add(NodeDef{Kind: "user", Impl: "k2", Fb: "none", Prep: "direct", Exec: "direct", Post: "direct"})
		b.script(id, "post", 0, []Resp{rAct(7)}, rAct(7))
		return id
	}
	// user nodes
	for _, k := range userKinds(1, 0, tier == "thorough") {
		for _, a := range acts {
			if k.Post == "absent" && a != 0 {
				continue
			}
			for _, inFlow := range []bool{false, true} {
				b := newSB()
				x := b.add(k)
				if k.Prep != "absent" {
					b.script(x, "prep", 0, []Resp{rOk(b.tok())}, rOk(vNil()))
				}
				if k.Exec != "absent" {
					b.script(x, "exec", 0, []Resp{rOk(b.tok())}, rOk(vNil()))
				}
				if k.Post != "absent" {
					b.script(x, "post", 0, []Resp{rAct(a)}, rAct(a))
				}
				tags := []string{"kind=" + k.Impl, fmt.Sprintf("post_action=%d", a)}
				if inFlow {
					y := marker(b)
					z := marker(b)
					f := b.flow(x, [][]int{{x, 1, y}, {x, 5, z}})
					b.sc.Root = f
					tags = append(tags, "in_flow")
				} else {
					b.sc.Root = x
				}
				add(b, tags, a == 0)
			}
		}
	}
	// recovered failures: every attempt fails, the fallback recovers, post returns each action
	for _, k := range userKinds(2, 0, false) {
		if k.Fb != "user" || k.Exec == "absent" || k.Post == "absent" {
			continue
		}
		for _, a := range acts {
			for _, inFlow := range []bool{false, true} {
				b := newSB()
				x := b.add(k)
				b.lifecycle(x, k, lcPlan{k: 0, extra: 3, fbOK: true, postAct: a})
				tags := []string{"kind=" + k.Impl, fmt.Sprintf("post_action=%d", a), "recovered_by_fallback"}
				if inFlow {
					y := marker(b)
					z := marker(b)
					b.sc.Root = b.flow(x, [][]int{{x, 1, y}, {x, 5, z}})
					tags = append(tags, "in_flow")
				} else {
					b.sc.Root = x
				}
				add(b, tags, a == 0)
			}
		}
	}
	// batch nodes
	type prepShape struct {
		name  string
		style string
		mk    func(b *sb, n int) Resp
	}
	shapes := []prepShape{
		{"results", "batch", func(b *sb, n int) Resp {
			l := []Val{}
			for i := 0; i < n; i++ {
				l = append(l, vRes(b.tok()))
			}
			return rOk(vSl(true, "", l))
		}},
		{"any-slice", "any", func(b *sb, n int) Resp {
			l := []Val{}
			for i := 0; i < n; i++ {
				l = append(l, b.tok())
			}
			return rOk(vSl(false, "any", l))
		}},
		{"res-slice", "res", func(b *sb, n int) Resp {
			l := []Val{}
			for i := 0; i < n; i++ {
				l = append(l, b.tok())
			}
			return rOk(vRes(vSl(false, "toks", l)))
		}},
		{"nil", "batch", func(b *sb, n int) Resp { return rOk(vNil()) }},
		{"nil-any", "any", func(b *sb, n int) Resp { return rOk(vNil()) }},
		{"absent", "absent", nil},
	}
	for _, impl := range []string{"opt", "bld", "mix"} {
		for _, sh := range shapes {
			for n := 0; n <= 3; n++ {
				zero := sh.mk == nil || sh.name == "nil" || sh.name == "nil-any"
				if zero && n > 0 {
					continue
				}
				for _, a := range acts {
					for _, post := range []string{"batch", "absent"} {
						if post == "absent" && a != 0 {
							continue
						}
						for _, inFlow := range []bool{false, true} {
							for conc := 0; conc <= 2; conc++ {
								b := newSB()
								x := b.add(NodeDef{Kind: "batch", Impl: impl, Retry: retry(1, 0), Fb: "default",
									Prep: sh.style, Exec: "res", Post: post, ExplicitCfg: n%2 == 1, Conc: conc})
								if sh.mk != nil {
									b.script(x, "prep", 0, []Resp{sh.mk(b, n)}, rOk(vNil()))
								}
								b.script(x, "exec", 0, []Resp{}, rOk(vRes(b.tok())))
								if post == "batch" {
									b.script(x, "post", 0, []Resp{rAct(a)}, rAct(a))
								}
								tags := []string{"kind=batch/" + impl, "prep=" + sh.name, fmt.Sprintf("items=%d", n), fmt.Sprintf("post_action=%d", a), fmt.Sprintf("conc=%d", conc)}
								if n > 0 && (n+a+conc)%3 == 0 {
									// the context is already cancelled: the items are not executed, post still
									// decides the action
									b.sc.PreCancel = true
									tags = append(tags, "precancel")
								}
								if inFlow {
									y := marker(b)
									z := marker(b)
									f := b.flow(x, [][]int{{x, 1, y}, {x, 5, z}})
									b.sc.Root = f
									tags = append(tags, "in_flow")
								} else {
									b.sc.Root = x
								}
								add(b, tags, a == 0)
							}
						}
					}
				}
			}
		}
	}
	// flows as nodes: inner flow whose last node returns the empty action, nested in an outer
	// flow with edges on default and custom
	for depth := 1; depth <= 3; depth++ {
		for _, a := range acts {
			b := newSB()
			x := b.add(NodeDef{Kind: "user", Impl: "k1", Retry: retry(1, 0), Fb: "default", Prep: "direct", Exec: "direct", Post: "direct"})
			b.script(x, "post", 0, []Resp{rAct(a)}, rAct(a))
			cur := b.flow(x, nil)
			for d := 1; d < depth; d++ {
				cur = b.flow(cur, nil)
			}
			y := marker(b)
			z := marker(b)
			f := b.flow(cur, [][]int{{cur, 1, y}, {cur, 5, z}})
			b.sc.Root = f
			add(b, []string{"kind=flow", fmt.Sprintf("depth=%d", depth), fmt.Sprintf("post_action=%d", a), "in_flow"}, a == 0)
			b2 := newSB()
			x2 := b2.add(NodeDef{Kind: "user", Impl: "k1", Retry: retry(1, 0), Fb: "default", Prep: "direct", Exec: "direct", Post: "direct"})
			b2.script(x2, "post", 0, []Resp{rAct(a)}, rAct(a))
			c2 := b2.flow(x2, nil)
			for d := 1; d < depth; d++ {
				c2 = b2.flow(c2, nil)
			}
			b2.sc.Root = c2
			add(b2, []string{"kind=flow", fmt.Sprintf("depth=%d", depth), fmt.Sprintf("post_action=%d", a)}, a == 0)
		}
	}
	out = append(out, commonPool(r, tier, "C18")...)
	st.Exhaustive = true
	st.Scope = "all node kinds x post action in {\"\", default, custom} x batch sizes 0..3 x zero-item prep shapes x {direct run, routed step of a flow}; flows as nodes to depth 3"
	st.Rule = "enumeration; a case is non-trivial when the post phase returns the empty action (normalisation is exercised); distinct by scenario hash"
	_ = r
	return out
}

func engineImports(prop string) string {
	return "Base Script FlowTable Engine Flatten EngineCorr SpecC18 Lifecycle SpecEngine SpecRoute SpecBatch"
}

// noteProgress records the scenario about to run, so that a crash of the process (a fatal Go
// error inside the implementation cannot be recovered) still names a concrete input.
func noteProgress(out string, i int, ts taggedScen) {
	if out == "" {
		return
	}
	b, _ := json.Marshal(map[string]any{"id": i, "scen": ts.sc, "tags": ts.tags})
	os.WriteFile(filepath.Join(out, "progress.json"), b, 0o644)
}

// specName: the predicate the case files apply for a property
func specName(prop string) string {
	switch prop {
	case "C05", "C04":
		return "spec_" + prop + "y"
	case "C02", "C17", "C18":
		return "spec_" + prop + "x"
	}
	return "spec_" + prop
}
