module verifharness

go 1.23

require github.com/mark3labs/flyt v0.0.0

replace github.com/mark3labs/flyt => /repo
