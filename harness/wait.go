package main

// Wait family (C20): engine scenarios whose nodes have a retry wait.
//   interrupt: the wait is one hour (or two seconds, to get past earlier waits) and the scenario
//              says which wait is interrupted by the context; the harness cancels 30 ms after the
//              failed attempt before that wait returned.  Trace and outcome must be the model's
//              (no attempt after the interruption, no fallback, the context's error) and the run
//              must return well before the rest of the wait is over.
//   nowait:    one-hour wait, but no wait belongs in the run (first attempt succeeds, budget 1,
//              no exec phase): the run must simply return.
//   gaps:      real waits of 1..50 ms; begin and end of every exec callback are read from the
//              monotonic clock; every attempt after a failed one must begin at least the wait
//              after that one ended (a lower bound only: scheduling noise cannot break it).
// Single nodes of every retryable kind, batch items sequential and concurrent (gated).

import (
	"crypto/sha256"
	"encoding/hex"
	"encoding/json"
	"fmt"
	"os"
	"path/filepath"
	"runtime"
	"runtime/debug"
	"strings"
	"sync"
)

const hourMs = 3600000

type WCase struct {
	ID   int      `json:"id"`
	Scen EScen    `json:"scen"`
	Obs  EObs     `json:"obs"`
	Tags []string `json:"tags,omitempty"`
}

// the engine scenario as the model sees it: a wait is zero or not
func coqScenOfWait(sc EScen) string {
	c := cloneScen(sc)
	var waits []string
	for i := range c.Nodes {
		if c.Nodes[i].Retry != nil && c.Nodes[i].Retry[1] > 0 {
			waits = append(waits, fmt.Sprintf("(%d%%nat, %d%%Z)", c.Nodes[i].ID, int64(c.Nodes[i].Retry[1])*1000000))
			r := *c.Nodes[i].Retry
			r[1] = 1
			c.Nodes[i].Retry = &r
		}
	}
	return fmt.Sprintf("{| ws_es := %s;\n     ws_waits := [%s] |}", c.Coq(), strings.Join(waits, "; "))
}

func coqObsOfWait(o EObs) string {
	ts := make([]string, len(o.Runs))
	for i, r := range o.Runs {
		var ex []string
		for _, e := range r.Trace {
			if e.Call.K == "exec" {
				ex = append(ex, fmt.Sprintf("(%d, %d)", e.T0, e.T1))
			}
		}
		canc := "None"
		if r.CancelAt > 0 {
			canc = fmt.Sprintf("(Some %d)", r.CancelAt)
		}
		ts[i] = fmt.Sprintf("{| wt_execs := [%s]; wt_cancel := %s; wt_ret := %d |}", strings.Join(ex, "; "), canc, r.RetAt)
	}
	return fmt.Sprintf("(%s,\n    [%s]%%Z)", o.Coq(), strings.Join(ts, ";\n     "))
}

func isGated(sc EScen) bool {
	for _, d := range sc.Nodes {
		if d.Kind == "batch" && d.Conc > 0 {
			return true
		}
	}
	return false
}

func waitImports() string {
	return "Base Script FlowTable Engine EngineCorr WaitMon WaitCorr"
}

func waitMain(prop, tier string, seed uint64, out, replay string) error {
	debug.SetGCPercent(-1)
	if replay != "" {
		return waitReplay(prop, replay, out)
	}
	r := newRng(seed)
	st := newStats()
	scens := genC20(r, tier, st)
	obs := make([]EObs, len(scens))
	// scenarios without a gated batch do not look at other goroutines: run them side by side
	var wg sync.WaitGroup
	sem := make(chan struct{}, 12)
	for i := range scens {
		if isGated(scens[i].sc) {
			continue
		}
		wg.Add(1)
		sem <- struct{}{}
		go func(i int) {
			defer wg.Done()
			defer func() { <-sem }()
			obs[i] = runEngine(scens[i].sc)
		}(i)
	}
	wg.Wait()
	g := 0
	for i := range scens {
		if !isGated(scens[i].sc) {
			continue
		}
		g++
		if g%64 == 63 {
			runtime.GC()
		}
		noteProgress(out, i, scens[i])
		obs[i] = runEngine(scens[i].sc)
		hung := false
		for _, run := range obs[i].Runs {
			if run.Timeout {
				hung = true
			}
		}
		if hung {
			st.Extra["aborted_after_timeout_at"] = i
			scens = scens[:i+1]
			obs = obs[:i+1]
			break
		}
	}
	var cases []coqCase
	var jl []any
	seen := map[string]bool{}
	for i, ts := range scens {
		c := WCase{ID: i, Scen: ts.sc, Obs: obs[i], Tags: ts.tags}
		jl = append(jl, c)
		cases = append(cases, coqCase{id: i, scen: coqScenOfWait(ts.sc), obs: coqObsOfWait(obs[i])})
		for _, t := range ts.tags {
			st.count(t)
		}
		for _, run := range obs[i].Runs {
			if run.Outcome.Err == nil {
				st.count("outcome=done")
			} else {
				st.count("outcome=fail:" + run.Outcome.Err.K)
			}
			if run.CancelAt > 0 {
				st.count("interrupted_runs")
				d := (run.RetAt - run.CancelAt) / 1000000
				st.count(fmt.Sprintf("return_after_cancel_ms<=%d", bucket(int(d)+1)))
			}
			if run.Timeout {
				st.count("timeout")
			}
		}
		if ts.nontrivial {
			b, _ := json.Marshal(ts.sc)
			h := sha256.Sum256(b)
			k := hex.EncodeToString(h[:8])
			if !seen[k] {
				seen[k] = true
				st.DistinctNontrivial++
			}
		}
		if len(st.Samples) < 3 && ts.nontrivial {
			st.Samples = append(st.Samples, c)
		}
	}
	st.Evaluations = len(cases)
	st.Extra["forced_releases"] = forcedReleases
	controls := waitControls(jl)
	st.Controls = len(controls)
	n, err := writeShards(out, prop, waitImports(), "wscen", "wobs", "admits_wait", "spec_C20", cases, controls)
	if err != nil {
		return err
	}
	st.Shards = n
	if err := writeJSONL(filepath.Join(out, "cases.jsonl"), jl); err != nil {
		return err
	}
	return writeStats(out, st)
}

// corrupted clock readings of real cases: none may be accepted
func waitControls(cases []any) []coqCase {
	var out []coqCase
	id := 0
	short, late := 0, 0
	for _, a := range cases {
		c := a.(WCase)
		if len(c.Obs.Runs) == 0 {
			continue
		}
		run := c.Obs.Runs[0]
		// (a) an attempt after a failed one begins too early
		if short < 6 {
			prev := map[int]int{}
			for i, e := range run.Trace {
				if e.Call.K != "exec" || e.Call.Arg == nil {
					continue
				}
				key := e.Call.N*100000 + itemKey(*e.Call.Arg)
				if j, ok := prev[key]; ok && run.Trace[j].Resp.K == "err" && waitOf(c.Scen, e.Call.N) > 0 {
					o := cloneObs(c.Obs)
					o.Runs[0].Trace[i].T0 = o.Runs[0].Trace[j].T1 + int64(waitOf(c.Scen, e.Call.N))*1000000/2
					o.Runs[0].CancelAt, o.Runs[0].RetAt = run.CancelAt, run.RetAt
					out = append(out, coqCase{id: id, scen: coqScenOfWait(c.Scen), obs: coqObsOfWait(o)})
					id++
					short++
					break
				}
				prev[key] = i
			}
		}
		// (b) the run returned only after the rest of the wait
		if late < 6 && run.CancelAt > 0 {
			o := cloneObs(c.Obs)
			o.Runs[0].CancelAt = run.CancelAt
			o.Runs[0].RetAt = run.CancelAt + 6000000000
			out = append(out, coqCase{id: id, scen: coqScenOfWait(c.Scen), obs: coqObsOfWait(o)})
			id++
			late++
		}
	}
	return out
}

func waitOf(sc EScen, n int) int {
	for _, d := range sc.Nodes {
		if d.ID == n && d.Retry != nil {
			return d.Retry[1]
		}
	}
	return 0
}

func waitReplay(prop, file, out string) error {
	b, err := os.ReadFile(file)
	if err != nil {
		return err
	}
	var wrapper struct {
		Scenario *EScen `json:"scenario"`
		Scen     *EScen `json:"scen"`
	}
	if err := json.Unmarshal(b, &wrapper); err != nil {
		return err
	}
	sc := wrapper.Scenario
	if sc == nil {
		sc = wrapper.Scen
	}
	if sc == nil {
		var s EScen
		if err := json.Unmarshal(b, &s); err != nil {
			return err
		}
		sc = &s
	}
	obs := runEngine(*sc)
	pretty, _ := json.MarshalIndent(obs, "", " ")
	fmt.Printf("implementation observation:\n%s\n", pretty)
	if out == "" {
		return nil
	}
	_, err = writeShards(out, prop, waitImports(), "wscen", "wobs", "admits_wait", "spec_C20",
		[]coqCase{{id: 0, scen: coqScenOfWait(*sc), obs: coqObsOfWait(obs)}}, nil)
	if err != nil {
		return err
	}
	return writeJSONL(filepath.Join(out, "cases.jsonl"), []any{WCase{ID: 0, Scen: *sc, Obs: obs}})
}

// ---------------------------------------------------------------- generator

// retryable user kinds (a retry budget and a wait can be configured)
func waitKinds(N, w int, thorough bool) []NodeDef {
	var ks []NodeDef
	for _, k := range userKinds(N, w, thorough) {
		if k.Retry == nil || k.Exec == "absent" {
			continue
		}
		ks = append(ks, k)
	}
	return ks
}

// one user node: attempts fail until attempt number ok (1-based; 0 = never), the wait before
// attempt cut (1-based index of the attempt it precedes; 0 = none) is interrupted
func (b *sb) waitNode(k NodeDef, N, ok, cut int) int {
	x := b.add(k)
	p := lcPlan{k: ok, extra: N + 1, fbOK: true, postAct: 5}
	b.lifecycle(x, k, p)
	if cut > 0 {
		rs := make([]Resp, cut)
		for i := range rs {
			rs[i] = rOk(vNil())
		}
		rs[cut-1] = rOk(vNil()).c()
		b.script(x, "wait", 0, rs, rOk(vNil()))
	}
	return x
}

func genC20(r *rng, tier string, st *stats) []taggedScen {
	var out []taggedScen
	thorough := tier == "thorough"
	add := func(b *sb, nontrivial bool, tags ...string) {
		out = append(out, taggedScen{sc: b.sc, tags: tags, nontrivial: nontrivial})
	}
	maxN := 4
	if thorough {
		maxN = 5
	}
	// ---- interrupt, single nodes: one-hour wait, the first wait is interrupted
	for N := 2; N <= maxN; N++ {
		for _, k := range waitKinds(N, hourMs, thorough) {
			for _, dl := range []bool{false, true} {
				b := newSB()
				x := b.waitNode(k, N, 0, 1)
				b.sc.Root = x
				b.sc.Deadline = dl
				add(b, true, "part=interrupt", "wait=1h", "node=user", fmt.Sprintf("N=%d", N), "cut_before_attempt=1", "kind="+k.Impl, "fb="+k.Fb)
			}
		}
	}
	// ---- interrupt after earlier waits ran to their end: two-second wait
	{
		kinds := waitKinds(3, 2000, thorough)
		maxCut := 2
		if thorough {
			maxCut = 3
		}
		for cut := 2; cut <= maxCut; cut++ {
			for i, k := range kinds {
				if !thorough && i%4 != 0 {
					continue
				}
				N := cut + 1 + i%2
				k.Retry = retry(N, 2000)
				b := newSB()
				b.sc.Root = b.waitNode(k, N, 0, cut)
				add(b, true, "part=interrupt", "wait=2s", "node=user", fmt.Sprintf("N=%d", N), fmt.Sprintf("cut_before_attempt=%d", cut), "kind="+k.Impl, "fb="+k.Fb)
			}
		}
	}
	// ---- nowait: one-hour wait configured but no wait belongs in the run
	for _, k := range userKinds(3, hourMs, thorough) {
		if k.Retry == nil {
			continue
		}
		// the first attempt succeeds (or the node has no exec phase at all)
		b := newSB()
		b.sc.Root = b.waitNode(k, 3, 1, 0)
		add(b, false, "part=nowait", "wait=1h", "node=user", "first_attempt_succeeds", "kind="+k.Impl)
		// budget 1: the only attempt fails, nothing to wait for
		if k.Exec != "absent" {
			k1 := k
			k1.Retry = retry(1, hourMs)
			b := newSB()
			b.sc.Root = b.waitNode(k1, 1, 0, 0)
			add(b, false, "part=nowait", "wait=1h", "node=user", "budget_1_fails", "kind="+k.Impl, "fb="+k.Fb)
		}
	}
	// ---- gaps, single nodes: real waits
	waits := []int{1, 5, 20, 50}
	for _, w := range waits {
		for N := 2; N <= maxN+0; N++ {
			for ki, k := range waitKinds(N, w, false) {
				if !thorough && ki%3 != (N+w)%3 {
					continue
				}
				for ok := 0; ok <= N; ok++ {
					if ok == 1 {
						continue // no retry at all: covered by nowait
					}
					for _, slow := range []int{0, 2} {
						if slow > 0 && (ok+ki)%2 == 0 && !thorough {
							continue
						}
						b := newSB()
						b.sc.Root = b.waitNode(k, N, ok, 0)
						b.sc.ExecDelayUs = slow * w * 1000
						add(b, true, "part=gaps", fmt.Sprintf("wait=%dms", w), "node=user", fmt.Sprintf("N=%d", N),
							fmt.Sprintf("first_ok=%d", ok), fmt.Sprintf("attempt_takes=%dx_wait", slow), "kind="+k.Impl)
					}
				}
			}
		}
	}
	// ---- batch items
	impls := []string{"opt", "bld", "mix"}
	cnt := 0
	for _, conc := range []int{0, 3} {
		// interrupt: item j fails its first attempt and its wait is interrupted; the others succeed
		for n := 1; n <= 4; n++ {
			for j := 0; j < n; j++ {
				for _, stop := range []bool{false, true} {
					cnt++
					if !thorough && cnt%2 == 0 && n > 2 {
						continue
					}
					p := batchPlan{n: n, conc: conc, N: 2 + cnt%3, w: hourMs, stop: stop, fb: []string{"default", "user"}[cnt%2],
						exec: []string{"res", "any"}[cnt%2], shape: []string{"results", "any-slice"}[cnt%2], impl: impls[cnt%3], postAct: 5}
					p.items = make([]itemPlan, n)
					for i := range p.items {
						p.items[i] = itemPlan{outs: []bool{true}, cancelAt: -1, fbOK: true}
					}
					p.items[j] = itemPlan{outs: []bool{false, false, false, false, false}, cancelAt: -1, fbOK: true}
					if conc > 0 {
						p.release = randOrder(r, n)
						for i := range p.release {
							p.release[i] *= 16
						}
					}
					ts := p.scenWait(map[int]int{j: 1})
					ts.tags = append(ts.tags, "part=interrupt", "wait=1h", "node=batch", fmt.Sprintf("item=%d", j))
					out = append(out, ts)
				}
			}
		}
		// gaps: random per-item outcomes, real waits
		bw := []int{1, 5, 20}
		if conc > 0 {
			bw = []int{1, 5, 10}
		}
		reps := 12
		if thorough {
			reps = 60
		}
		for _, w := range bw {
			for rep := 0; rep < reps; rep++ {
				cnt++
				n := 1 + r.intn(4)
				N := 2 + r.intn(3)
				p := batchPlan{n: n, conc: conc, N: N, w: w, stop: r.chance(25), fb: []string{"default", "user"}[cnt%2],
					exec: []string{"res", "any"}[cnt%2], shape: []string{"results", "any-slice"}[cnt%2], impl: impls[cnt%3], postAct: 5}
				p.items = make([]itemPlan, n)
				for i := range p.items {
					ok := r.intn(N + 1) // 0 = never
					outs := make([]bool, 0, N)
					for a := 1; a <= N; a++ {
						outs = append(outs, a == ok)
						if a == ok {
							break
						}
					}
					p.items[i] = itemPlan{outs: outs, cancelAt: -1, fbOK: r.chance(50)}
				}
				if conc > 0 {
					p.release = nil
				}
				ts := p.scenWait(nil)
				slow := []int{0, 2}[rep%2]
				ts.sc.ExecDelayUs = slow * w * 1000
				ts.tags = append(ts.tags, "part=gaps", fmt.Sprintf("wait=%dms", w), "node=batch", fmt.Sprintf("attempt_takes=%dx_wait", slow))
				out = append(out, ts)
			}
		}
	}
	st.Exhaustive = false
	st.Scope = "retryable node kinds x budgets 2..4 (quick) / 2..5 (thorough) x first succeeding attempt in {2..N, never} x waits {1,5,20,50} ms x fast / slow failing attempts; interruption of the first wait (1 h) and of the second / third wait (2 s) with cancel and deadline contexts; 1 h wait with no wait in the run; batch items sequential and concurrent (3 workers, gated), 1..4 items, interruption per item index, random per-item outcomes with waits {1,5,10,20} ms"
	st.Rule = "a case is non-trivial when at least one retry wait belongs in the run (completed or interrupted); the one-hour configurations in which no wait belongs count as trivial; distinct by scenario hash"
	return out
}

// scenWait: the batch scenario plus script entries interrupting the wait before attempt cut[i]
// of item i
func (p batchPlan) scenWait(cut map[int]int) taggedScen {
	ts := p.scen()
	// item tokens are 1..n in creation order (newSB starts at 1)
	for i, c := range cut {
		rs := make([]Resp, c)
		for k := range rs {
			rs[k] = rOk(vNil())
		}
		rs[c-1] = rOk(vNil()).c()
		ts.sc.Script = append(ts.sc.Script, SEntry{N: ts.sc.Nodes[0].ID, Ph: "wait", Item: i + 1, Rs: rs, Dflt: rOk(vNil())})
	}
	ts.nontrivial = true
	return ts
}
