package main

// PRNG, scenario builder and the catalogue of node kinds shared by the engine generators.

import "fmt"

type rng struct{ s uint64 }

func newRng(seed uint64) *rng { return &rng{s: seed*0x9E3779B97F4A7C15 + 0x1234567} }
func (r *rng) next() uint64 {
	r.s += 0x9E3779B97F4A7C15
	z := r.s
	z = (z ^ (z >> 30)) * 0xBF58476D1CE4E5B9
	z = (z ^ (z >> 27)) * 0x94D049BB133111EB
	return z ^ (z >> 31)
}
func (r *rng) intn(n int) int {
	if n <= 0 {
		return 0
	}
	return int(r.next() % uint64(n))
}
func (r *rng) chance(pct int) bool { return r.intn(100) < pct }
func pick[T any](r *rng, xs []T) T { return xs[r.intn(len(xs))] }

// sb builds one engine scenario.
type sb struct {
	sc      EScen
	nextTok int
	nextErr int
}

// the error ids of a scenario start at a different residue (mod 8 = the flavour of the Go error,
// val.go realiseErr) from scenario to scenario, so that "the first failure of the scenario" is not
// always the same kind of error
var sbCount int

func newSB() *sb {
	sbCount++
	return &sb{sc: EScen{Runs: 1, Script: []SEntry{}}, nextTok: 1, nextErr: 1 + sbCount%8}
}

func (b *sb) tok() Val   { t := vTok(b.nextTok); b.nextTok++; return t }
func (b *sb) errID() int { e := b.nextErr; b.nextErr++; return e }

func (b *sb) add(d NodeDef) int {
	d.ID = len(b.sc.Nodes)
	b.sc.Nodes = append(b.sc.Nodes, d)
	return d.ID
}

func (b *sb) script(n int, ph string, item int, rs []Resp, dflt Resp) {
	if rs == nil {
		rs = []Resp{}
	}
	b.sc.Script = append(b.sc.Script, SEntry{N: n, Ph: ph, Item: item, Rs: rs, Dflt: dflt})
}

func (b *sb) flow(start int, conns [][]int) int {
	st := start
	d := NodeDef{Kind: "flow", Conns: conns}
	if start >= 0 {
		d.Start = &st
	}
	return b.add(d)
}

func retry(n, w int) *[2]int { return &[2]int{n, w} }

// userKinds: every way of building a non-batch, non-flow node, as templates.
// N, w are filled in for kinds that expose retry settings.
func userKinds(N, w int, full bool) []NodeDef {
	ks := []NodeDef{
		{Kind: "user", Impl: "k1", Retry: retry(N, w), Fb: "default", Prep: "direct", Exec: "direct", Post: "direct"},
		{Kind: "user", Impl: "k1fb", Retry: retry(N, w), Fb: "user", Prep: "direct", Exec: "direct", Post: "direct"},
		{Kind: "user", Impl: "k1exec", Retry: retry(N, w), Fb: "default", Prep: "absent", Exec: "direct", Post: "absent"},
		{Kind: "user", Impl: "k1none", Retry: retry(N, w), Fb: "default", Prep: "absent", Exec: "absent", Post: "absent"},
		{Kind: "user", Impl: "k2", Fb: "none", Prep: "direct", Exec: "direct", Post: "direct"},
		{Kind: "user", Impl: "k3", Retry: retry(N, w), Fb: "none", Prep: "direct", Exec: "direct", Post: "direct"},
		{Kind: "user", Impl: "k4", Fb: "user", Prep: "direct", Exec: "direct", Post: "direct"},
	}
	styles := []string{"res", "any", "absent"}
	impls := []string{"opt", "bld", "mix"}
	i := 0
	for _, p := range styles {
		for _, e := range styles {
			for _, q := range styles {
				for _, fb := range []string{"default", "user"} {
					if !full && (p == "absent" || e == "absent" || q == "absent") && fb == "user" {
						continue
					}
					ks = append(ks, NodeDef{Kind: "user", Impl: impls[i%3], Retry: retry(N, w), Fb: fb, Prep: p, Exec: e, Post: q})
					i++
				}
			}
		}
	}
	return ks
}

func (d NodeDef) label() string {
	return fmt.Sprintf("%s/%s/%s-%s-%s/fb=%s", d.Kind, d.Impl, d.Prep, d.Exec, d.Post, d.Fb)
}

// a case: scenario plus the observation of the implementation
type ECase struct {
	ID   int      `json:"id"`
	Scen EScen    `json:"scen"`
	Obs  EObs     `json:"obs"`
	Tags []string `json:"tags,omitempty"`
}
